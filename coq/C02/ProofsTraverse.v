(* C02 -- writeValue, Hash, CompareDepth and json emit: bounded recursion depth. *)
From Coq Require Import ZArith List Bool Arith Lia.
From SV Require Import C02.Model C02.ProofsCommon C02.ProofsFreeze.
Import ListNotations.

Lemma sq_arith u n x : u <= n -> x < n -> u * (n + 1) + x < (n + 1) * (n + 1).
Proof.
  intros Hu Hx. assert (u * (n + 1) <= n * (n + 1)) by (apply Nat.mul_le_mono_r; exact Hu). lia.
Qed.

(* ------------------------------------------------------------- writeValue *)
(* below a plain value the traversal only descends to older objects *)
Lemma plain_write_ok h g : wf_heap h = true ->
  forall fuel x, plain fuel h x = true ->
  forall fuel' path, x < fuel' -> write_value g fuel' h path x = Done tt.
Proof.
  intros Hwf. induction fuel as [|f IH]; intros x Hp fuel' path Hx; [discriminate|].
  destruct fuel' as [|f']; [lia|].
  cbn [plain] in Hp. cbn [write_value].
  destruct (lookup h x) as [o|] eqn:Ho; [|discriminate].
  pose proof (wf_lookup h x o Hwf Ho) as Hw.
  destruct o as [| z | es | items | zs | es | fs | ds cs | recv]; cbn [obj_wf] in Hw; try reflexivity; try discriminate.
  - apply all_res_ok with (P := fun c => c < x /\ plain f h c = true).
    + intros c [Hc Hpc]. apply (IH c Hpc). lia.
    + apply Forall_forall. intros c Hin. split.
      * pose proof (all_lt_Forall _ _ Hw) as Hall. rewrite Forall_forall in Hall. apply Hall. exact Hin.
      * rewrite forallb_forall in Hp. apply Hp. exact Hin.
  - apply all_res_ok with (P := fun c => c < x /\ plain f h c = true).
    + intros c [Hc Hpc]. apply (IH c Hpc). lia.
    + apply Forall_forall. intros c Hin. split.
      * pose proof (all_lt_Forall _ _ Hw) as Hall. rewrite Forall_forall in Hall. apply Hall. exact Hin.
      * rewrite forallb_forall in Hp. apply Hp. exact Hin.
Qed.

Lemma structs_plain_lookup h x fs :
  structs_plain h = true -> lookup h x = Some (OStruct fs) -> plain (S x) h x = true.
Proof.
  unfold structs_plain. intros Hs Hl. rewrite forallb_forall in Hs.
  specialize (Hs x). rewrite Hl in Hs. apply Hs. apply in_seq.
  pose proof (lookup_some_lt h x _ Hl). lia.
Qed.

Section Write.
Variable h : heap.
Variable g : guards.
Hypothesis Hwf : wf_heap h = true.
Hypothesis Hgl : g_wv_list g = true.
Hypothesis Hgd : g_wv_dict g = true.
(* either Struct.String hands the path on (it does not in the code), or no struct exists *)
Hypothesis Hstruct : g_struct_path g = true \/ struct_free h = true \/ structs_plain h = true.
Let N := size h.

Lemma struct_free_lookup x fs : struct_free h = true -> lookup h x = Some (OStruct fs) -> False.
Proof.
  unfold struct_free, lookup. intros Hf Hl. apply negb_true_iff in Hf.
  assert (existsb is_struct (objs h) = true).
  { apply existsb_exists. exists (OStruct fs). split; [eapply nth_error_In; eauto | reflexivity]. }
  congruence.
Qed.

Lemma write_ok :
  forall fuel path x, x < N ->
    unvisited N path * (N + 1) + x < fuel ->
    write_value g fuel h path x = Done tt.
Proof.
  induction fuel as [|f IH]; intros path x Hx Hf; [lia|].
  destruct (lookup_lt h x Hx) as [o Ho].
  pose proof (wf_lookup h x o Hwf Ho) as Hw.
  cbn [write_value]. rewrite Ho.
  destruct o as [| z | es | items | zs | es | fs | ds cs | recv]; cbn [obj_wf] in Hw; try reflexivity.
  - (* list *)
    rewrite Hgl. cbn [andb]. destruct (memb x path) eqn:Hm; [reflexivity|].
    apply all_res_ok with (P := fun c => c < N); [| apply all_lt_Forall; exact Hw].
    intros c Hc. apply IH; auto.
    apply bound_child_push with (Ufz := unvisited N path) (x := x); auto.
    apply unvisited_push; auto.
  - (* dict *)
    rewrite Hgd. cbn [andb]. destruct (memb x path) eqn:Hm; [reflexivity|].
    apply all_res_ok with (P := fun c => c < N); [| apply all_lt_Forall; exact Hw].
    intros c Hc. apply IH; auto.
    apply bound_child_push with (Ufz := unvisited N path) (x := x); auto.
    apply unvisited_push; auto.
  - (* tuple *)
    apply all_res_ok with (P := fun c => c < x); [| apply all_lt_Forall; exact Hw].
    intros c Hc. apply IH; [lia|].
    apply bound_child_down with (Ufz := unvisited N path) (x := x); auto.
  - (* struct *)
    destruct Hstruct as [Hp | [Hfree | Hplain]].
    + rewrite Hp.
      apply all_res_ok with (P := fun c => c < x); [| apply all_lt_Forall; exact Hw].
      intros c Hc. apply IH; [lia|].
      apply bound_child_down with (Ufz := unvisited N path) (x := x); auto.
    + exfalso. eapply struct_free_lookup; eauto.
    + pose proof (structs_plain_lookup h x fs Hplain Ho) as Hpl.
      pose proof (plain_write_ok h g Hwf (S x) x Hpl (S f) path) as Hdone.
      cbn [write_value] in Hdone. rewrite Ho in Hdone. apply Hdone. lia.
Qed.

Lemma write_total_lemma :
  forall x, x < N -> write_value g (sq_bound h) h [] x = Done tt.
Proof.
  intros x Hx. apply write_ok; auto.
  unfold sq_bound. apply sq_arith; [apply unvisited_le | exact Hx].
Qed.
End Write.

(* ------------------------- writeValue: exactly which shapes do not terminate *)
Lemma all_w_done {A} (F : A -> wres) (G : A -> res unit) :
  forall es, (forall c, In c es -> F c = WDone -> G c = Done tt) ->
  all_w F es = WDone -> all_res G es = Done tt.
Proof.
  induction es as [|c r IH]; intros HFG Hw; simpl in *; [reflexivity|].
  destruct (F c) eqn:E; try discriminate.
  rewrite (HFG c (or_introl eq_refl) E). apply IH; auto.
Qed.

(* erasure: where the detector finishes, the real traversal finishes *)
Lemma wv_check_done_write_done h :
  forall fuel open path x, wv_check fuel h open path x = WDone ->
    write_value code_guards fuel h path x = Done tt.
Proof.
  induction fuel as [|f IH]; intros open path x Hc; [discriminate|].
  cbn [wv_check] in Hc. cbn [write_value].
  destruct (lookup h x) as [o|]; [|discriminate].
  destruct o as [| z | es | items | zs | es | fs | ds cs | recv]; try reflexivity;
    cbn [g_wv_list g_wv_dict g_struct_path code_guards andb].
  - destruct (memb x path); [reflexivity|].
    eapply all_w_done; [|exact Hc]. intros c _ Hd. eapply IH; exact Hd.
  - destruct (memb x path); [reflexivity|].
    eapply all_w_done; [|exact Hc]. intros c _ Hd. eapply IH; exact Hd.
  - eapply all_w_done; [|exact Hc]. intros c _ Hd. eapply IH; exact Hd.
  - destruct (memb x open); [discriminate|].
    eapply all_w_done; [|exact Hc]. intros c _ Hd. eapply IH; exact Hd.
Qed.

Lemma all_w_cases {A} (F : A -> wres) (P : A -> Prop) :
  (forall c, P c -> F c = WDone \/ F c = WStructCycle) ->
  forall es, Forall P es -> all_w F es = WDone \/ all_w F es = WStructCycle.
Proof.
  intros HF. induction es as [|c r IH]; intros HP; simpl; [left; reflexivity|].
  inversion HP as [|? ? Hc Hr]; subst.
  destruct (HF c Hc) as [E|E]; rewrite E; [apply IH; exact Hr | right; reflexivity].
Qed.

Lemma check_arith_push N A A' c x f : A' < A -> c < N -> A * (N + 1) + x < S f -> A' * (N + 1) + c < f.
Proof. intros. nia. Qed.
Lemma struct_push_arith N uo uo' u0 up : uo' < uo -> u0 <= N -> uo' * (N + 2) + u0 < uo * (N + 2) + up.
Proof. intros. nia. Qed.
Lemma check_arith_down N A c x f : c < x -> A * (N + 1) + x < S f -> A * (N + 1) + c < f.
Proof. intros. nia. Qed.

(* the detector itself always ends on a heap the interpreter can build *)
Lemma wv_check_total h : wf_heap h = true ->
  forall fuel open path x, x < size h ->
    (unvisited (size h) open * (size h + 2) + unvisited (size h) path) * (size h + 1) + x < fuel ->
    wv_check fuel h open path x = WDone \/ wv_check fuel h open path x = WStructCycle.
Proof.
  intros Hwf. set (N := size h).
  induction fuel as [|f IH]; intros open path x Hx Hf; [lia|].
  destruct (lookup_lt h x Hx) as [o Ho].
  pose proof (wf_lookup h x o Hwf Ho) as Hw.
  cbn [wv_check]. rewrite Ho.
  destruct o as [| z | es | items | zs | es | fs | ds cs | recv]; cbn [obj_wf] in Hw; try (left; reflexivity).
  - destruct (memb x path) eqn:Hm; [left; reflexivity|].
    apply all_w_cases with (P := fun c => c < N); [| apply all_lt_Forall; exact Hw].
    intros c Hc. apply IH; auto.
    eapply check_arith_push; [| exact Hc | exact Hf].
    apply Nat.add_lt_mono_l. exact (unvisited_push N path x Hx Hm).
  - destruct (memb x path) eqn:Hm; [left; reflexivity|].
    apply all_w_cases with (P := fun c => c < N); [| apply all_lt_Forall; exact Hw].
    intros c Hc. apply IH; auto.
    eapply check_arith_push; [| exact Hc | exact Hf].
    apply Nat.add_lt_mono_l. exact (unvisited_push N path x Hx Hm).
  - apply all_w_cases with (P := fun c => c < x); [| apply all_lt_Forall; exact Hw].
    intros c Hc. apply IH; [lia|].
    eapply check_arith_down; [exact Hc | exact Hf].
  - destruct (memb x open) eqn:Hm; [right; reflexivity|].
    apply all_w_cases with (P := fun c => c < x); [| apply all_lt_Forall; exact Hw].
    intros c Hc. apply IH; [lia|].
    eapply check_arith_push with (x := x); [| | exact Hf]; [| lia].
    pose proof (unvisited_push N open x Hx Hm) as Hp.
    pose proof (unvisited_le N []) as H0.
    apply struct_push_arith; assumption.
Qed.

Lemma cube_arith u v n x : u <= n -> v <= n -> x < n -> (u * (n + 2) + v) * (n + 1) + x < (n + 2) * (n + 2) * (n + 2).
Proof. intros. nia. Qed.

Lemma write_value_dichotomy_lemma h x : wf_heap h = true -> x < size h ->
  wv_check (cube_bound h) h [] [] x = WStructCycle \/
  write_value code_guards (cube_bound h) h [] x = Done tt.
Proof.
  intros Hwf Hx.
  destruct (wv_check_total h Hwf (cube_bound h) [] [] x Hx) as [E|E].
  - unfold cube_bound. apply cube_arith; [apply unvisited_le | apply unvisited_le | exact Hx].
  - right. eapply wv_check_done_write_done. exact E.
  - left. exact E.
Qed.

(* -------------------------------------------------------------------- Hash *)
Definition settled (r : res unit) : Prop := r = Done tt \/ r = Fail.

Lemma all_res_settled {A} (F : A -> res unit) (P : A -> Prop) :
  (forall c, P c -> settled (F c)) ->
  forall es, Forall P es -> settled (all_res F es).
Proof.
  intros HF. induction es as [|c r IH]; intros HP; simpl; [left; reflexivity|].
  inversion HP as [|? ? Hc Hr]; subst.
  destruct (HF c Hc) as [E|E]; rewrite E; [apply IH; exact Hr | right; reflexivity].
Qed.

Lemma hash_ok h : wf_heap h = true ->
  forall fuel x, x < size h -> x < fuel -> settled (hash fuel h x).
Proof.
  intros Hwf. induction fuel as [|f IH]; intros x Hx Hf; [lia|].
  destruct (lookup_lt h x Hx) as [o Ho].
  pose proof (wf_lookup h x o Hwf Ho) as Hw.
  cbn [hash]. rewrite Ho.
  destruct o as [| z | es | items | zs | es | fs | ds cs | recv]; cbn [obj_wf] in Hw;
    try (left; reflexivity); try (right; reflexivity).
  - apply all_res_settled with (P := fun c => c < x); [| apply all_lt_Forall; exact Hw].
    intros c Hc. apply IH; lia.
  - apply all_res_settled with (P := fun c => c < x); [| apply all_lt_Forall; exact Hw].
    intros c Hc. apply IH; lia.
Qed.

Lemma hash_total_lemma h x :
  wf_heap h = true -> x < size h -> settled (hash (size h) h x).
Proof. intros Hwf Hx. apply hash_ok; auto. Qed.

(* ------------------------------------------------------------ CompareDepth *)
Definition cmp_fun := cmpop -> loc -> loc -> res bool.
Definition no_oof (F : cmp_fun) : Prop := forall op x y, F op x y <> OutOfFuel.

Lemma slice_loop_no_oof F op : no_oof F -> forall xs ys, slice_loop F op xs ys <> OutOfFuel.
Proof.
  intros HF. induction xs as [|x xr IH]; intros ys; simpl; [discriminate|].
  destruct ys as [|y yr]; [discriminate|].
  pose proof (HF EQL x y) as H1. destruct (F EQL x y) as [[|]| | |].
  - apply IH.
  - destruct op; try discriminate; apply HF.
  - discriminate.
  - discriminate.
  - congruence.
Qed.

Lemma slice_cmp_no_oof F op xs ys : no_oof F -> slice_cmp F op xs ys <> OutOfFuel.
Proof.
  intros HF. unfold slice_cmp. destruct (_ && _); [discriminate | apply slice_loop_no_oof; exact HF].
Qed.

Lemma dict_loop_no_oof F ys : no_oof F -> forall xs, dict_loop F xs ys <> OutOfFuel.
Proof.
  intros HF. induction xs as [|[k xv] r IH]; simpl; [discriminate|].
  destruct (assoc k ys) as [yv|]; [|discriminate].
  pose proof (HF EQL xv yv) as H1. destruct (F EQL xv yv) as [[|]| | |].
  - apply IH.
  - discriminate.
  - discriminate.
  - discriminate.
  - congruence.
Qed.

Lemma dicts_equal_no_oof F xs ys : no_oof F -> dicts_equal F xs ys <> OutOfFuel.
Proof.
  intros HF. unfold dicts_equal. destruct (negb _); [discriminate | apply dict_loop_no_oof; exact HF].
Qed.

Lemma struct_loop_no_oof F : no_oof F -> forall xs ys, struct_loop F xs ys <> OutOfFuel.
Proof.
  intros HF. induction xs as [|[n xv] xr IH]; intros ys; simpl; [discriminate|].
  destruct ys as [|[m yv] yr]; [discriminate|].
  destruct (negb (n =? m)); [discriminate|].
  pose proof (HF EQL xv yv) as H1. destruct (F EQL xv yv) as [[|]| | |].
  - apply IH.
  - discriminate.
  - discriminate.
  - discriminate.
  - congruence.
Qed.

Lemma structs_equal_no_oof F xs ys : no_oof F -> structs_equal F xs ys <> OutOfFuel.
Proof.
  intros HF. unfold structs_equal. destruct (negb _); [discriminate | apply struct_loop_no_oof; exact HF].
Qed.

Lemma neg_res_no_oof r : r <> OutOfFuel -> neg_res r <> OutOfFuel.
Proof. destruct r; simpl; congruence. Qed.

Lemma identity_no_oof op b : identity_cmp op b <> OutOfFuel.
Proof. destruct op; discriminate. Qed.

(* for EVERY heap (no well-formedness needed): the depth counter alone bounds the recursion *)
Lemma compare_ok h :
  forall fuel depth, (Z.to_nat depth < fuel) ->
    no_oof (compare code_guards fuel h depth).
Proof.
  induction fuel as [|f IH]; intros depth Hd op x y; [lia|].
  cbn [compare g_cmp_depth code_guards andb].
  destruct (depth <? 1)%Z eqn:Hlt; [discriminate|].
  apply Z.ltb_ge in Hlt.
  assert (HF : no_oof (compare code_guards f h (depth - 1)%Z)) by (apply IH; lia).
  destruct (lookup h x) as [ox|]; [|discriminate].
  destruct (lookup h y) as [oy|]; [|destruct ox; discriminate].
  destruct ox, oy; try (destruct op; discriminate);
    try apply identity_no_oof; try (apply slice_cmp_no_oof; exact HF); try discriminate.
  - destruct op; try discriminate;
      [apply dicts_equal_no_oof | apply neg_res_no_oof, dicts_equal_no_oof]; exact HF.
  - destruct op; try discriminate;
      [apply structs_equal_no_oof | apply neg_res_no_oof, structs_equal_no_oof]; exact HF.
Qed.

Lemma compare_total_lemma h depth op x y :
  compare code_guards (S (Z.to_nat depth)) h depth op x y <> OutOfFuel.
Proof. apply compare_ok. lia. Qed.

(* ------------------------------------------------------------- json.encode *)
(* for EVERY heap: every value that can have children is on the pointer path *)
Lemma json_ok h :
  forall fuel path x, unvisited (size h) path < fuel ->
    json_emit code_guards fuel h path x <> OutOfFuel.
Proof.
  induction fuel as [|f IH]; intros path x Hf; [lia|].
  cbn [json_emit]. destruct (lookup h x) as [o|] eqn:Ho; [|discriminate].
  pose proof (lookup_some_lt h x o Ho) as Hx.
  assert (Hpush : memb x path = false -> unvisited (size h) (x :: path) < f).
  { intros Hm. pose proof (unvisited_push (size h) path x Hx Hm) as Hp.
    assert (Hle : unvisited (size h) path <= f) by (apply Nat.lt_succ_r; exact Hf).
    eapply Nat.lt_le_trans; [exact Hp | exact Hle]. }
  destruct o as [| z | es | items | zs | es | fs | ds cs | recv]; try discriminate;
    cbn [g_json_path code_guards andb]; destruct (memb x path) eqn:Hm; try discriminate.
  - apply all_res_no_oof with (P := fun _ => True); [| apply Forall_forall; auto].
    intros c _. apply IH. auto.
  - destruct (forallb _ items); [|discriminate].
    apply all_res_no_oof with (P := fun _ => True); [| apply Forall_forall; auto].
    intros c _. apply IH. auto.
  - apply all_res_no_oof with (P := fun _ => True); [| apply Forall_forall; auto].
    intros c _. apply IH. auto.
  - apply all_res_no_oof with (P := fun _ => True); [| apply Forall_forall; auto].
    intros c _. apply IH. auto.
Qed.

Lemma json_total_lemma h x : json_emit code_guards (S (size h)) h [] x <> OutOfFuel.
Proof. apply json_ok. apply Nat.lt_succ_r, unvisited_le. Qed.

(* ------------------------------------------- writeValue: the refutation *)
(* l = []; s = struct(x = l); l.append(s): the list is printed with path [l], the
   struct is the `default` case and calls s.String(), which prints its field
   with l.String() = writeValue(l, nil): the path is empty again. *)
Definition struct_cycle_heap : heap := {| objs := [OList [1]; OStruct [(0, 0)]]; cellv := [] |}.

Lemma write_value_never_ends :
  forall fuel,
    write_value code_guards fuel struct_cycle_heap [] 0 = OutOfFuel /\
    forall p, write_value code_guards fuel struct_cycle_heap p 1 = OutOfFuel.
Proof.
  induction fuel as [|f [A B]]; [split; reflexivity|].
  split.
  - cbn. rewrite B. reflexivity.
  - intros p. cbn. rewrite A. reflexivity.
Qed.

Lemma write_value_refuted_lemma :
  exists h x, wf_heap h = true /\ x < size h /\
    forall fuel, write_value code_guards fuel h [] x = OutOfFuel.
Proof.
  exists struct_cycle_heap, 0. split; [reflexivity|]. split; [cbn; lia|].
  intros fuel. apply write_value_never_ends.
Qed.

Definition repaired_print_guards : guards :=
  {| g_list_flag := true; g_ht_flag := true; g_struct_flag := true; g_func_flag := true;
     g_wv_list := true; g_wv_dict := true; g_struct_path := true;
     g_cmp_depth := true; g_json_path := true |}.
