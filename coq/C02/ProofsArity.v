(* C02 -- the arity table is safe, and safe rows never reach a panic. *)
From Coq Require Import List Bool Arith Lia String.
From SV Require Import C02.Arity C02.ArityTable.
Import ListNotations.

Lemma table_all_safe : forallb row_safe arity_table = true.
Proof. vm_compute. reflexivity. Qed.

Lemma arity_table_safe_lemma : forall r, In r arity_table -> row_safe r = true.
Proof. apply forallb_forall. exact table_all_safe. Qed.

Lemma vars_safe_no_nil_deref mn lc given : (forall i, i < mn -> given i = true) ->
  forall vs i, vars_safe mn i lc vs = true -> nil_deref given i lc vs = false.
Proof.
  intros Hg. induction vs as [|v r IH]; intros i Hs; simpl; [reflexivity|].
  simpl in Hs. apply andb_true_iff in Hs. destruct Hs as [Hv Hr].
  rewrite (IH (S i) Hr), orb_false_r.
  destruct (given i) eqn:Hgi; [reflexivity|]. simpl.
  apply orb_true_iff in Hv. destruct Hv as [Hv|Hgd].
  - apply orb_true_iff in Hv. destruct Hv as [Hlt|Hnd].
    + apply Nat.ltb_lt in Hlt. rewrite (Hg i Hlt) in Hgi. discriminate.
    + apply negb_true_iff in Hnd. rewrite Hnd. reflexivity.
  - rewrite Hgd. simpl. apply andb_false_r.
Qed.

(* for EVERY accepted call -- any number of positional arguments, any set of
   keyword-supplied parameters -- the body reaches neither a nil dereference nor
   an out-of-range args[i] *)
Lemma safe_row_no_panic r nargs given :
  row_safe r = true -> accepted r nargs given -> panics r nargs given = false.
Proof.
  intros Hs [Hreq Hpos]. unfold row_safe in Hs.
  apply andb_true_iff in Hs. destruct Hs as [Hs _].
  apply andb_true_iff in Hs. destruct Hs as [H1 H2].
  unfold panics. rewrite (vars_safe_no_nil_deref _ _ _ Hreq _ _ H1). simpl.
  destruct (r_lencheck r) eqn:El; [reflexivity|]. simpl.
  rewrite orb_false_r in H2. apply Nat.ltb_ge.
  destruct (r_unpack r) eqn:Eu.
  - apply Nat.leb_le in H2. specialize (Hpos eq_refl). lia.
  - apply Nat.eqb_eq in H2. lia.
  - apply Nat.eqb_eq in H2. lia.
  - apply Nat.eqb_eq in H2. lia.
Qed.

Lemma arity_no_panic_lemma : forall r nargs given,
  In r arity_table -> accepted r nargs given -> panics r nargs given = false.
Proof. intros r nargs given Hin. apply safe_row_no_panic. apply arity_table_safe_lemma. exact Hin. Qed.
