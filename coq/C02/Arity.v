(* C02 -- built-in functions touch an argument only after the unpacking call has
   accepted the argument count, or behind a nil / len(args) test.

   `arity_table` (ArityTable.v) is written from the code: one row per function
   with the built-in signature in starlark/library.go, lib/json, lib/math,
   lib/time, starlarkstruct (102 rows).  checks/c02.py re-derives the rows from
   the Go source on every run (harness/cmd/c02 arity: go/parser + go/ast) and
   compares them with this table, and evaluates row_safe on the re-derived rows.

   A small semantics of "the body of a built-in runs after its unpacking call
   accepted the arguments" gives row_safe its meaning (panics).  No proofs here. *)
From Coq Require Import List Bool Arith String.
Import ListNotations.

Inductive unpack_kind := UPositional | UNamed | UNamedKwOnly | UNone.

(* a destination variable of the unpacking call, in parameter order *)
Record avar := {
  av_name : string;
  av_iface : bool;     (* interface-typed (Value, Iterable, Callable ...): nil while the argument is absent *)
  av_init : bool;      (* assigned a value before the unpacking call *)
  av_deref : bool;     (* the body calls a method on it *)
  av_nilcheck : bool   (* the body compares it with nil *)
}.

Record row := {
  r_file : string;
  r_func : string;
  r_unpack : unpack_kind;
  r_min : nat;          (* required positional parameters *)
  r_max : nat;          (* all parameters *)
  r_vars : list avar;
  r_argindex : nat;     (* 1 + largest constant i in args[i]; 0 = args is never indexed *)
  r_lencheck : bool     (* the body tests len(args) (or only ranges over args) *)
}.

Definition guarded (lc : bool) (v : avar) : bool := av_nilcheck v || av_init v || lc.

(* parameter i can be absent only when i >= min *)
Fixpoint vars_safe (min i : nat) (lc : bool) (vs : list avar) : bool :=
  match vs with
  | [] => true
  | v :: r => ((i <? min) || negb (av_iface v && av_deref v) || guarded lc v) && vars_safe min (S i) lc r
  end.

Definition row_safe (r : row) : bool :=
  vars_safe (r_min r) 0 (r_lencheck r) (r_vars r)
  && (match r_unpack r with
      | UPositional => r_argindex r <=? r_min r      (* len(args) >= min once the call is accepted *)
      | _ => r_argindex r =? 0
      end || r_lencheck r)
  && match r_unpack r with UNone => true | _ => (r_min r <=? r_max r) && (List.length (r_vars r) =? r_max r) end.

(* ---- what can happen when the built-in body runs.
   A call is described by the number of positional arguments and by which
   parameters received a value (positionally or by keyword).  The unpacking call
   returns an error unless every required parameter received one; positional-only
   unpacking (UnpackPositionalArgs) moreover needs len(args) >= min. *)
Definition accepted (r : row) (nargs : nat) (given : nat -> bool) : Prop :=
  (forall i, i < r_min r -> given i = true) /\
  (r_unpack r = UPositional -> r_min r <= nargs).

(* a parameter without a value keeps its initial (nil) interface value: calling a method on it panics *)
Fixpoint nil_deref (given : nat -> bool) (i : nat) (lc : bool) (vs : list avar) : bool :=
  match vs with
  | [] => false
  | v :: r => (negb (given i) && av_iface v && av_deref v && negb (guarded lc v)) || nil_deref given (S i) lc r
  end.

Definition panics (r : row) (nargs : nat) (given : nat -> bool) : bool :=
  nil_deref given 0 (r_lencheck r) (r_vars r)            (* nil pointer dereference *)
  || (negb (r_lencheck r) && (nargs <? r_argindex r)).     (* args[i] out of range *)

Definition av (n : string) (iface init deref nilcheck : bool) : avar :=
  {| av_name := n; av_iface := iface; av_init := init; av_deref := deref; av_nilcheck := nilcheck |}.
Definition mkrow (file func : string) (u : unpack_kind) (mn mx : nat) (vs : list avar) (ai : nat) (lc : bool) : row :=
  {| r_file := file; r_func := func; r_unpack := u; r_min := mn; r_max := mx; r_vars := vs; r_argindex := ai; r_lencheck := lc |}.

Definition avar_eqb (a b : avar) : bool :=
  String.eqb (av_name a) (av_name b) && Bool.eqb (av_iface a) (av_iface b) && Bool.eqb (av_init a) (av_init b)
  && Bool.eqb (av_deref a) (av_deref b) && Bool.eqb (av_nilcheck a) (av_nilcheck b).
Fixpoint list_eqb {A} (e : A -> A -> bool) (a b : list A) : bool :=
  match a, b with [], [] => true | x :: r, y :: s => e x y && list_eqb e r s | _, _ => false end.
Definition unpack_eqb (a b : unpack_kind) : bool :=
  match a, b with UPositional, UPositional | UNamed, UNamed | UNamedKwOnly, UNamedKwOnly | UNone, UNone => true | _, _ => false end.
Definition row_eqb (a b : row) : bool :=
  String.eqb (r_file a) (r_file b) && String.eqb (r_func a) (r_func b) && unpack_eqb (r_unpack a) (r_unpack b)
  && (r_min a =? r_min b) && (r_max a =? r_max b) && list_eqb avar_eqb (r_vars a) (r_vars b)
  && (r_argindex a =? r_argindex b) && Bool.eqb (r_lencheck a) (r_lencheck b).
