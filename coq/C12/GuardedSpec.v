(* C12 (guarded layer) -- the specification: the ordered association list of
   Spec.v plus the two flags of the hashtable (frozen, itercount).  Independent
   of the pointer-level model: imports only the alphabets and Spec.v. *)
From Coq Require Import List Bool NArith.
From SV Require Import C12.Ops C12.Spec C12.GuardedOps.
Import ListNotations.

Section GSpec.
  Context {K V : Type}.
  Variable eqb : K -> K -> bool.
  Variable vnone : V.

  Record gspec := mkGS { sl : list (K * V); sfrozen : bool; siter : N }.

  Definition gs_empty : gspec := mkGS [] false 0.

  (* a frozen collection refuses every mutation; so does one with a live iterator *)
  Definition sp_check (g : gspec) : option gerr :=
    if sfrozen g then Some Frozen
    else if N.ltb 0 (siter g) then Some Iterating else None.

  Definition with_sl (g : gspec) (l : list (K * V)) : gspec := mkGS l (sfrozen g) (siter g).

  (* a mutation of the association list, allowed only when sp_check passes; a
     refusal changes nothing *)
  Definition guarded (g : gspec) (o : op K V) : gspec * gout K V :=
    match sp_check g with
    | Some e => (g, GErr e)
    | None => let r := spec_step eqb vnone (sl g) o in (with_sl g (fst r), GO (snd r))
    end.

  Definition gspec_step (g : gspec) (o : gop K V) : gspec * gout K V :=
    match o with
    | GInsert k v => guarded g (OInsert k v)
    | GDelete k => guarded g (ODelete k)
    | GClear => guarded g OClear                 (* refused even when the list is empty *)
    | GSetClear => match sl g with
                   | [] => (g, GO ONone)         (* s.clear() on an empty set: nothing to do, no error *)
                   | _ :: _ => guarded g OClear
                   end
    | GPopFirst => match sl g with
                   | [] => (g, GO (OKV None))    (* "empty dict" / "empty set" comes before the guard *)
                   | _ :: _ => guarded g OPopFirst
                   end
    | GLookup k => (g, GO (OVal (sp_lookup eqb (sl g) k)))
    | GItems => (g, GItemsOut (sl g))
    | GLen => (g, GLenOut (length (sl g)))
    | GIsSubset ks => (g, GO (OBool (sp_issubset eqb (sl g) ks)))
    | GIterBegin => (if sfrozen g then g else mkGS (sl g) false (u32_inc (siter g)), GO ONone)
    | GIterDone => (if sfrozen g then g else mkGS (sl g) false (u32_dec (siter g)), GO ONone)
    | GIterate => (if sfrozen g then g else mkGS (sl g) false (u32_dec (u32_inc (siter g))),
                   GKeysOut (keys (sl g)))
    | GFreeze => (mkGS (sl g) true (siter g), GO ONone)
    end.

  (* a whole history: final state and the outputs, in order *)
  Definition gspec_run (g : gspec) (os : list (gop K V)) : gspec * list (gout K V) :=
    fold_left (fun acc o => let r := gspec_step (fst acc) o in (fst r, snd acc ++ [snd r])) os (g, []).
End GSpec.
