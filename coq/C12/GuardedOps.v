(* C12 (guarded layer) -- the event alphabet, the outputs and the uint32 counter
   arithmetic shared by the guarded pointer-level model (Guarded.v) and the
   guarded association-list specification (GuardedSpec.v).  Types and two
   arithmetic definitions only; no proofs. *)
From Coq Require Import List NArith.
From SV Require Import C12.Ops.

(* the two refusals of hashtable.checkMutable, in the order the code tests them:
     if ht.frozen        { return "cannot %s frozen hash table" }
     if ht.itercount > 0 { return "cannot %s hash table during iteration" } *)
Inductive gerr := Frozen | Iterating.

(* ht.itercount is a uint32: ++ and -- wrap modulo 2^32 (written out, N-valued;
   coq/Common/GoInt.v's wrapu32 is the same function on Z). *)
Definition two32 : N := 4294967296%N.
Definition u32 (x : N) : N := N.modulo x two32.
Definition u32_inc (x : N) : N := u32 (x + 1).             (* itercount++ *)
Definition u32_dec (x : N) : N := u32 (x + (two32 - 1)).   (* itercount--  (0 - 1 = 2^32 - 1) *)

Section GOps.
  Context {K V : Type}.

  (* One event on ONE table (a dict or a set). *)
  Inductive gop :=
  (* mutators: hashtable.insert / delete / clear, each starting with checkMutable *)
  | GInsert (k : K) (v : V)       (* Dict.SetKey, d[k] = v, Set.Insert                              *)
  | GDelete (k : K)               (* Dict.Delete, d.pop(k), Set.Delete, s.remove(k)                  *)
  | GClear                        (* hashtable.clear: Dict.Clear, d.clear(), Set.Clear               *)
  | GSetClear                     (* the builtin s.clear(): `if Len() > 0 { Clear() }`               *)
  | GPopFirst                     (* d.popitem(), s.pop(): first(), "empty" error, else Delete(k)    *)
  (* readers: no checkMutable, no write *)
  | GLookup (k : K)               (* hashtable.lookup                                                *)
  | GItems                        (* hashtable.items                                                 *)
  | GLen                          (* int(ht.len)                                                     *)
  | GIsSubset (ks : list K)       (* hashtable.count(iter) == Len()                                  *)
  (* iteration and freezing *)
  | GIterBegin                    (* ht.iterate():   if !frozen { itercount++ }                      *)
  | GIterDone                     (* keyIterator.Done(): if !frozen { itercount-- }                  *)
  | GIterate                      (* it := iterate(); for it.Next(&k) {..}; it.Done(): the keys      *)
  | GFreeze.                      (* ht.freeze(): frozen = true (and Freeze of the keys and values)  *)

  Inductive gout :=
  | GO (o : out K V)              (* the output of the underlying operation (Ops.out)                *)
  | GItemsOut (l : list (K * V))
  | GLenOut (n : nat)
  | GKeysOut (ks : list K)
  | GErr (e : gerr).              (* refused by checkMutable                                         *)
End GOps.
Arguments gop : clear implicits.
Arguments gout : clear implicits.
