(* C12 -- decidable comparison of an observed history (what the real table did,
   printed by harness/cmd/c12) with the concrete model (correspondence) and with
   the association-list specification (oracle).  Used by checks/c12.py through
   vm_compute; keys and values are numbers, the hash function is the table the
   generator chose.  No proofs here. *)
From Coq Require Import List Bool NArith Arith.
From SV Require Import C12.Ops C12.Spec C12.Concrete.
Import ListNotations.

(* the generator's hash assignment: key -> Hash() *)
Fixpoint hfun (hs : list (N * N)) (k : N) : N :=
  match hs with
  | [] => k
  | (x, hx) :: r => if N.eqb k x then hx else hfun r k
  end.

Definition optN_eqb (a b : option N) : bool :=
  match a, b with
  | Some x, Some y => N.eqb x y
  | None, None => true
  | _, _ => false
  end.
Definition kv_eqb (a b : N * N) : bool := N.eqb (fst a) (fst b) && N.eqb (snd a) (snd b).
Fixpoint list_eqb {A} (e : A -> A -> bool) (a b : list A) : bool :=
  match a, b with
  | [], [] => true
  | x :: r, y :: q => e x y && list_eqb e r q
  | _, _ => false
  end.
Definition out_eqb (a b : out N N) : bool :=
  match a, b with
  | ONone, ONone => true
  | OVal x, OVal y => optN_eqb x y
  | OKV None, OKV None => true
  | OKV (Some x), OKV (Some y) => kv_eqb x y
  | OBool x, OBool y => Bool.eqb x y
  | _, _ => false
  end.

(* one observation after an operation: output, len, items in iteration order *)
Definition obs := (out N N * nat * list (N * N))%type.
Definition obs_eqb (a b : obs) : bool :=
  out_eqb (fst (fst a)) (fst (fst b)) && Nat.eqb (snd (fst a)) (snd (fst b)) && list_eqb kv_eqb (snd a) (snd b).

Record case := mkCase {
  c_hashes : list (N * N);       (* key, Hash() *)
  c_init : option nat;           (* None: zero value (new(Dict)); Some n: NewDict(n)/NewSet(n) *)
  c_ops : list (op N N);
  c_obs : list obs               (* one per operation *)
}.

Definition start (c : case) : res (@state N N) :=
  match c_init c with None => Ok zero_state | Some n => init n end.

(* correspondence: the executable model reproduces every observation *)
Definition model_ok (c : case) : bool :=
  match start c >>= fun s => trace N.eqb (hfun (c_hashes c)) 0%N s (c_ops c) with
  | Ok t => list_eqb obs_eqb t (c_obs c)
  | _ => false
  end.

(* oracle: the observations are those of the association list (independent of the model) *)
Definition spec_ok (c : case) : bool :=
  list_eqb obs_eqb
    (map (fun lx => (snd lx, length (fst lx), fst lx)) (spec_trace N.eqb 0%N [] (c_ops c)))
    (c_obs c).

(* index of the first operation whose observation differs from the specification *)
Fixpoint first_diff (a b : list obs) (i : nat) : option nat :=
  match a, b with
  | [], [] => None
  | x :: r, y :: q => if obs_eqb x y then first_diff r q (S i) else Some i
  | _, _ => Some i
  end.
Definition spec_first_diff (c : case) : option nat :=
  first_diff (map (fun lx => (snd lx, length (fst lx), fst lx)) (spec_trace N.eqb 0%N [] (c_ops c))) (c_obs c) 0.

(* ---- the same comparison through a digest of the observations: long list
   literals are slow to elaborate in Coq, so checks/c12.py sends the operations
   and ONE number per history (the digest of everything the real table showed:
   every output, len and the items after every operation, flattened) and Coq
   compares it with the digest of the model's / the specification's trace. ---- *)
Definition flat_out (o : out N N) : list N :=
  match o with
  | ONone => [0%N]
  | OVal None => [1%N]
  | OVal (Some v) => [2%N; v]
  | OKV None => [3%N]
  | OKV (Some (k, v)) => [4%N; k; v]
  | OBool false => [5%N]
  | OBool true => [6%N]
  end.
Definition flat_obs (x : obs) : list N :=
  flat_out (fst (fst x)) ++ [N.of_nat (snd (fst x)); N.of_nat (length (snd x))]
  ++ flat_map (fun kv => [fst kv; snd kv]) (snd x).
Definition digest (l : list N) : N :=
  fold_left (fun acc x => ((acc * 1000003 + x + 1) mod 2305843009213693951)%N) l 7%N.
Definition trace_digest (t : list obs) : N := digest (flat_map flat_obs t).

Record dcase := mkD {
  d_hashes : list (N * N);
  d_init : option nat;
  d_ops : list (op N N);
  d_expect : N                   (* digest of what the implementation showed *)
}.
Definition dstart (c : dcase) : res (@state N N) :=
  match d_init c with None => Ok zero_state | Some n => init n end.
Definition model_ok_d (c : dcase) : bool :=
  match dstart c >>= fun s => trace N.eqb (hfun (d_hashes c)) 0%N s (d_ops c) with
  | Ok t => N.eqb (trace_digest t) (d_expect c)
  | _ => false
  end.
Definition spec_ok_d (c : dcase) : bool :=
  N.eqb (trace_digest (map (fun lx => (snd lx, length (fst lx), fst lx)) (spec_trace N.eqb 0%N [] (d_ops c))))
        (d_expect c).

(* coverage of the model run (never compared): longest chain in buckets, table size *)
Definition model_shape (c : case) : option (nat * nat) :=
  match start c >>= fun s => run N.eqb (hfun (c_hashes c)) 0%N s (c_ops c) with
  | Ok (s, _) => Some (nb s, max_chain s)
  | _ => None
  end.
