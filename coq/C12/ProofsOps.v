(* C12 -- every table operation preserves the invariant and acts on the
   abstraction as the association-list specification says. *)
From Coq Require Import List Bool NArith Arith Lia.
From SV Require Import C12.Ops C12.Spec C12.Concrete C12.ProofsBase.
Import ListNotations.

Lemma overloaded_mono n m b : overloaded n b = false -> m <= n -> overloaded m b = false.
Proof.
  unfold overloaded, bucketSize. intros H Hm.
  apply andb_false_iff in H. apply andb_false_iff.
  destruct H as [H|H]; [left|right]; apply Nat.leb_gt in H; apply Nat.leb_gt; lia.
Qed.

Lemma NoDup_app_snoc {A} (l : list A) a : NoDup l -> ~ In a l -> NoDup (l ++ [a]).
Proof.
  intros ND Hn. induction l as [|x r IH]; cbn.
  - constructor; auto; constructor.
  - inversion ND; subst. constructor.
    + intros Hin. apply in_app_or in Hin. destruct Hin as [Hin|[->|[]]]; auto. apply Hn. left. auto.
    + apply IH; auto. intros H. apply Hn. right. auto.
Qed.

Lemma grow_cap len nb :
  nb <> 0 -> (len = 0 \/ overloaded (len - 1) nb = false) -> overloaded len nb = true ->
  (forall n, n < len -> overloaded n (2 * nb) = false) /\ overloaded len (2 * nb) = false.
Proof.
  unfold overloaded, bucketSize. intros Hnb Hl Ho.
  apply andb_true_iff in Ho. destruct Ho as [H1 H2]. apply Nat.leb_le in H1. apply Nat.leb_le in H2.
  destruct Hl as [->|Hl]; [lia|].
  apply andb_false_iff in Hl.
  split; [intros n Hn|]; apply andb_false_iff;
    (destruct Hl as [Hl|Hl]; apply Nat.leb_gt in Hl; [|right; apply Nat.leb_gt; lia]).
  - destruct (Nat.leb_spec 8 n); [right; apply Nat.leb_gt; lia | left; auto].
  - right. apply Nat.leb_gt. lia.
Qed.

Lemma NoDup_app_disj {A} (l1 l2 : list A) : NoDup (l1 ++ l2) -> forall x, In x l1 -> In x l2 -> False.
Proof.
  induction l1 as [|a r IH]; cbn; intros ND x H1 H2; [contradiction|].
  inversion ND; subst. destruct H1 as [->|H1]; [|eauto].
  apply H3. apply in_or_app. auto.
Qed.

Lemma NoDup_app_l {A} (l1 l2 : list A) : NoDup (l1 ++ l2) -> NoDup l1.
Proof.
  induction l1 as [|a r IH]; cbn; intros ND; [constructor|].
  inversion ND; subst. constructor; auto. intros H. apply H1. apply in_or_app. auto.
Qed.

Section OpsProofs.
  Context {K V : Type}.
  Variable eqb : K -> K -> bool.
  Hypothesis eqb_spec : forall a b, eqb a b = true <-> a = b.
  Variable h : K -> N.
  Variable vnone : V.

  Notation entry := (@entry K V).
  Notation store := (@store K V).
  Notation state := (@state K V).
  Notation hashk := (hashk h).
  Notation R := (R h).
  Notation InvOrd := (InvOrd h).
  Notation StaticOK := (StaticOK h).
  Notation sp_lookup := (sp_lookup eqb).
  Notation sp_insert := (sp_insert eqb).
  Notation sp_replace := (sp_replace eqb).
  Notation sp_delete := (sp_delete eqb).
  Notation insert := (insert eqb h).
  Notation delete := (delete eqb h).
  Notation lookup := (lookup eqb h).

  Let eqb_refl := eqb_refl eqb eqb_spec.
  Let eqb_neq := eqb_neq eqb eqb_spec.
  Let eqb_false := eqb_false eqb eqb_spec.
  Let scan_find_some := @scan_find_some K V eqb eqb_spec h.
  Let scan_find_none := @scan_find_none K V eqb eqb_spec.

  (* ---- entries against the specification's list functions ---- *)
  Lemma entries_lookup_none (m : store) ord k :
    (forall a e, m a = Some e -> ekey e <> k) -> sp_lookup (entries m ord) k = None.
  Proof.
    intros H. unfold entries. induction ord as [|x r IH]; cbn; auto.
    destruct (m x) as [e|] eqn:E; cbn; auto.
    rewrite eqb_neq; auto. intros ->. eapply H; eauto.
  Qed.

  Lemma entries_lookup_some (m : store) ord a e :
    KeysInj m -> In a ord -> m a = Some e ->
    sp_lookup (entries m ord) (ekey e) = Some (evalue e).
  Proof.
    intros KI. unfold entries. induction ord as [|x r IH]; cbn; [contradiction|].
    intros [->|Hin] Ha.
    - rewrite Ha. cbn. rewrite eqb_refl. auto.
    - destruct (m x) as [ex|] eqn:E; cbn; auto.
      destruct (eqb (ekey e) (ekey ex)) eqn:Eq; auto.
      apply eqb_spec in Eq. assert (a = x) by (eapply KI; eauto). subst. congruence.
  Qed.

  Lemma entries_replace (m : store) ord a e v :
    KeysInj m -> NoDup ord -> In a ord -> m a = Some e ->
    entries (upd m a (Some (with_value e v))) ord = sp_replace (entries m ord) (ekey e) v.
  Proof.
    intros KI. unfold entries. induction ord as [|x r IH]; cbn; [contradiction|].
    intros ND Hin Ha. inversion ND as [|? ? Hx ND']; subst.
    destruct (addr_eq_dec x a) as [->|Hne].
    - rewrite upd_same, Ha. cbn. rewrite eqb_refl. f_equal.
      apply (entries_ext m (upd m a (Some (with_value e v))) r).
      intros b Hb. unfold sv. rewrite upd_other; auto. intros ->. contradiction.
    - destruct Hin as [->|Hin]; [contradiction|].
      rewrite upd_other by auto. destruct (m x) as [ex|] eqn:E; cbn.
      + rewrite eqb_neq. { f_equal. apply IH; auto. }
        intros Hk. apply Hne. eapply KI; eauto.
      + apply IH; auto.
  Qed.

  Lemma entries_delete (m m' : store) l1 a l2 e :
    KeysInj m -> NoDup (l1 ++ a :: l2) -> m a = Some e ->
    (forall b, b <> a -> sv m' b = sv m b) ->
    (forall b, In b (l1 ++ a :: l2) -> m b <> None) ->
    entries m' (l1 ++ l2) = sp_delete (entries m (l1 ++ a :: l2)) (ekey e).
  Proof.
    intros KI ND Ha Hsv Hocc.
    assert (E1 : entries m' (l1 ++ l2) = entries m (l1 ++ l2)).
    { apply entries_ext. intros b Hb. apply Hsv. intros ->. apply NoDup_remove_2 in ND. contradiction. }
    rewrite E1. clear E1 Hsv m'. unfold entries.
    induction l1 as [|x r IH]; cbn.
    - rewrite Ha. cbn. rewrite eqb_refl. auto.
    - inversion ND as [|? ? Hx ND']; subst.
      destruct (m x) as [ex|] eqn:E; cbn.
      + rewrite eqb_neq. { f_equal. apply IH; auto. intros b Hb. apply Hocc. right. auto. }
        intros Hk. assert (a = x) by (eapply KI; eauto). subst. apply Hx. apply in_or_app. right. left. auto.
      + exfalso. apply (Hocc x); auto. left. auto.
  Qed.

  Lemma sp_delete_absent (l : list (K * V)) k : sp_lookup l k = None -> sp_delete l k = l.
  Proof.
    induction l as [|[x w] r IH]; cbn; auto.
    destruct (eqb k x); [discriminate|]. intros H. rewrite IH; auto.
  Qed.

  (* sub-stores keep the static parts of the invariant *)
  Lemma sub_static n bk bk' (m m' : store) :
    (forall a, m' a = None \/ sv m' a = sv m a) -> (forall c, bk c <= bk' c) ->
    StaticOK n bk m -> StaticOK n bk' m'.
  Proof.
    intros H Hb S a e Ha. destruct (H a) as [H0|H0]; [congruence|].
    unfold sv in H0. rewrite Ha in H0. destruct (m a) as [e0|] eqn:E; [|discriminate].
    injection H0 as H1 H2 H3. destruct (S a e0 E) as (S1 & S2 & S3). rewrite H1, H2.
    repeat split; auto. specialize (Hb (fst a)). unfold bucketSize in *. lia.
  Qed.
  Lemma sub_keys (m m' : store) :
    (forall a, m' a = None \/ sv m' a = sv m a) -> KeysInj m -> KeysInj m'.
  Proof.
    intros H S a b ea eb Ha Hb Hk.
    destruct (H a) as [H0|Ha']; [congruence|]. destruct (H b) as [H0|Hb']; [congruence|].
    unfold sv in Ha', Hb'. rewrite Ha in Ha'. rewrite Hb in Hb'.
    destruct (m a) as [ea0|] eqn:Ea; [|discriminate]. destruct (m b) as [eb0|] eqn:Eb; [|discriminate].
    injection Ha' as _ Hka _. injection Hb' as _ Hkb _. eapply S; eauto. congruence.
  Qed.

  Lemma R_keys_nodup (s : state) (l : list (K * V)) : R s l -> NoDup (map fst l).
  Proof.
    intros (ord & I & ->). destruct I as [Hl ND _ _ KI _ _ _].
    assert (Hocc : forall a, In a ord -> mem s a <> None) by (intros; eapply lseg_occupied; eauto).
    clear Hl. unfold entries. induction ord as [|x r IH]; cbn; [constructor|].
    inversion ND as [|? ? Hx ND']; subst.
    destruct (mem s x) as [ex|] eqn:E; cbn.
    - constructor.
      + intros Hin. apply in_map_iff in Hin. destruct Hin as ([k v] & Hk & Hin). cbn in Hk. subst k.
        apply in_flat_map in Hin. destruct Hin as (b & Hb & Hin).
        destruct (mem s b) as [eb|] eqn:Eb; cbn in Hin; [|contradiction].
        destruct Hin as [[= Hk _]|[]]. assert (b = x) by (eapply KI; eauto). subst. contradiction.
      + apply IH; auto. intros; apply Hocc; right; auto.
    - apply IH; auto. intros; apply Hocc; right; auto.
  Qed.

  (* ---- the scan finds the key iff some live entry holds it ---- *)
  Lemma scan_find_complete (s : state) k :
    StaticOK (nb s) (nbk s) (mem s) ->
    scan_find eqb (mem s) (chain_of (hashk k) (nb s)) (hashk k) k
              (chain_idxs s (chain_of (hashk k) (nb s))) = None ->
    forall a e, mem s a = Some e -> ekey e <> k.
  Proof.
    intros S H a e Ha Hk. destruct (S a e Ha) as (S1 & S2 & S3).
    rewrite Hk in S1. rewrite S1 in S2.
    destruct a as [c i]. cbn in S2, S3. subst c.
    eapply (scan_find_none _ _ _ _ _ H i e); eauto.
    unfold chain_idxs. apply in_seq. unfold bucketSize in *. lia.
  Qed.

  Lemma lookup_ok (s : state) l k : R s l -> lookup s k = sp_lookup l k.
  Proof.
    intros (ord & I & ->). destruct I as [Hl ND Cov S KI Hlen Hload Hnil].
    unfold Concrete.lookup. destruct (Nat.eqb (nb s) 0) eqn:En.
    - apply Nat.eqb_eq in En. rewrite (Hnil En). auto.
    - destruct (scan_find _ _ _ _ _ _) as [[a e]|] eqn:Hs.
      + apply scan_find_some in Hs. destruct Hs as (_ & _ & Ha & _ & Hk).
        subst k. symmetry. eapply entries_lookup_some; eauto. apply Cov. congruence.
      + symmetry. apply entries_lookup_none. eapply scan_find_complete; eauto.
  Qed.

  (* ---- initial states ---- *)
  Lemma InvOrd_empty n bk : InvOrd (@mkState K V n bk (fun _ => None) 0 None LHead) [].
  Proof.
    constructor; cbn; auto.
    - constructor.
    - intros a Ha. congruence.
    - intros a e Ha. discriminate.
    - intros a b ea eb Ha. discriminate.
    - left. auto.
  Qed.

  Lemma R_zero : R (@zero_state K V) [].
  Proof. exists []. split; [apply InvOrd_empty | auto]. Qed.

  Lemma R_empty_table n : R (@empty_table K V n) [].
  Proof. exists []. split; [apply InvOrd_empty | auto]. Qed.

  (* ---- insert: key present, update in place ---- *)
  Lemma insert_found_ok (s : state) ord a e v :
    InvOrd s ord -> mem s a = Some e ->
    let s' := mkState (nb s) (nbk s) (upd (mem s) a (Some (with_value e v))) (len s) (head s) (tail s) in
    InvOrd s' ord /\ entries (mem s') ord = sp_replace (entries (mem s) ord) (ekey e) v.
  Proof.
    intros I Ha s'. destruct I as [Hl ND Cov S KI Hlen Hload Hnil].
    assert (Hin : In a ord) by (apply Cov; congruence).
    split; [constructor; cbn; auto|].
    - eapply lseg_frame; [|exact Hl]. intros b Hb. unfold links.
      destruct (addr_eq_dec b a) as [->|Hne]; [rewrite upd_same, Ha; auto | rewrite upd_other; auto].
    - intros b Hb. apply Cov. destruct (addr_eq_dec b a) as [->|Hne]; [congruence|].
      rewrite upd_other in Hb; auto.
    - intros b eb Hb. destruct (addr_eq_dec b a) as [->|Hne].
      + rewrite upd_same in Hb. injection Hb as <-. cbn. apply (S a e Ha).
      + rewrite upd_other in Hb; auto.
    - intros b c eb ec Hb Hc Hk.
      assert (Hb' : exists eb0, mem s b = Some eb0 /\ ekey eb0 = ekey eb).
      { destruct (addr_eq_dec b a) as [->|Hne]; [rewrite upd_same in Hb; injection Hb as <-; eauto | rewrite upd_other in Hb; eauto]. }
      assert (Hc' : exists ec0, mem s c = Some ec0 /\ ekey ec0 = ekey ec).
      { destruct (addr_eq_dec c a) as [->|Hne]; [rewrite upd_same in Hc; injection Hc as <-; eauto | rewrite upd_other in Hc; eauto]. }
      destruct Hb' as (eb0 & Hb0 & Hkb). destruct Hc' as (ec0 & Hc0 & Hkc). eapply KI; eauto. congruence.
    - cbn. apply entries_replace; auto.
  Qed.

  (* ---- insert: new key, linked at the tail ---- *)
  Lemma link_entry_ok (s : state) ord bk' a k v :
    InvOrd s ord -> nb s <> 0 -> mem s a = None ->
    fst a = chain_of (hashk k) (nb s) -> snd a < bucketSize * bk' (fst a) ->
    (forall c, nbk s c <= bk' c) ->
    (forall b e, mem s b = Some e -> ekey e <> k) ->
    overloaded (len s) (nb s) = false ->
    exists s', link_entry s bk' a (hashk k) k v = Ok s' /\ InvOrd s' (ord ++ [a]) /\
               entries (mem s') (ord ++ [a]) = entries (mem s) ord ++ [(k, v)] /\ nb s' = nb s.
  Proof.
    intros I Hnb Ha Hc Hi Hbk Hfresh Hov. destruct I as [Hl ND Cov S KI Hlen Hload Hnil].
    assert (Hnin : ~ In a ord) by (intros Hin; eapply lseg_occupied in Hin; eauto).
    set (new := mkEntry (hashk k) k v None (tail s)).
    set (m0 := upd (mem s) a (Some new)).
    assert (Hl0 : lseg m0 LHead (head s) ord (tail s) None).
    { eapply lseg_frame; [|exact Hl]. intros b Hb. unfold links, m0. rewrite upd_other; auto. intros ->. contradiction. }
    destruct (lseg_store_fin m0 ord (head s) (tail s) None (Some a) Hl0 ND)
      as (m1 & hd1 & Hst & Hl1 & Hsv1 & Hout1 & _ & _).
    unfold link_entry. fold new. fold m0. rewrite Hst. cbn.
    eexists. split; [reflexivity|].
    assert (Hm1a : m1 a = Some new) by (rewrite Hout1; auto; unfold m0; apply upd_same).
    assert (Hsv0 : forall b, b <> a -> sv m0 b = sv (mem s) b).
    { intros b Hb. unfold sv, m0. rewrite upd_other; auto. }
    assert (S0 : StaticOK (nb s) bk' m0).
    { intros b eb Hb. unfold m0 in Hb. destruct (addr_eq_dec b a) as [->|Hne].
      - rewrite upd_same in Hb. injection Hb as <-. cbn. repeat split; auto.
      - rewrite upd_other in Hb; auto. destruct (S b eb Hb) as (S1 & S2 & S3). repeat split; auto.
        specialize (Hbk (fst b)). unfold bucketSize in *. lia. }
    assert (KI0 : KeysInj m0).
    { intros b c eb ec Hb Hc' Hk. unfold m0 in Hb, Hc'.
      destruct (addr_eq_dec b a) as [->|Hnb']; destruct (addr_eq_dec c a) as [->|Hnc]; auto.
      - rewrite upd_same in Hb. injection Hb as <-. rewrite upd_other in Hc'; auto. cbn in Hk.
        exfalso. eapply Hfresh; eauto.
      - rewrite upd_same in Hc'. injection Hc' as <-. rewrite upd_other in Hb; auto. cbn in Hk.
        exfalso. eapply Hfresh; eauto.
      - rewrite upd_other in Hb, Hc'; auto. eapply KI; eauto. }
    split; [constructor; cbn; auto|split; [|cbn; auto]].
    - apply lseg_app. exists (tail s), (Some a). split; auto.
      cbn. split; auto. exists new. repeat split; auto.
    - apply NoDup_app_snoc; auto.
    - intros b Hb. apply in_or_app. destruct (addr_eq_dec b a) as [->|Hne]; [right; left; auto|left].
      apply Cov. intros Hn. apply Hb. specialize (Hsv1 b). rewrite Hsv0 in Hsv1; auto.
      unfold sv in Hsv1. rewrite Hn in Hsv1. destruct (m1 b); [discriminate|auto].
    - eapply sv_static; eauto.
    - eapply sv_keys; eauto.
    - rewrite app_length. cbn. lia.
    - right. replace (Datatypes.S (len s) - 1) with (len s) by lia. auto.
    - intros; contradiction.
    - cbn. rewrite entries_app. f_equal.
      + apply entries_ext. intros b Hb. rewrite Hsv1. apply Hsv0. intros ->. contradiction.
      + cbn. rewrite Hm1a. cbn. auto.
  Qed.

  (* ---- insert ---- *)
  Definition pre_init (s : state) : state :=
    if Nat.eqb (nb s) 0
    then mkState 1 (fun _ => 1) (fun _ => None) (len s) (head s) LHead
    else s.

  Lemma insert_eq f (s : state) k v :
    insert (Datatypes.S f) s k v =
    let s1 := pre_init s in
    let hk := hashk k in
    let c := chain_of hk (nb s1) in
    match scan_insert eqb (mem s1) c hk k (chain_idxs s1 c) None with
    | Found a e =>
        Ok (mkState (nb s1) (nbk s1) (upd (mem s1) a (Some (with_value e v))) (len s1) (head s1) (tail s1))
    | NotFound ins =>
        if overloaded (len s1) (nb s1) then
          items s1 >>= fun l =>
          fold_res (fun st kv => insert f st (fst kv) (snd kv)) (empty_table (2 * nb s1)) l >>= fun s' =>
          insert f s' k v
        else
          match ins with
          | Some a => link_entry s1 (nbk s1) a hk k v
          | None => link_entry s1 (fun c' => if Nat.eqb c' c then Datatypes.S (nbk s1 c) else nbk s1 c')
                               (c, bucketSize * nbk s1 c) hk k v
          end
    end.
  Proof. reflexivity. Qed.

  Lemma pre_init_nb (s : state) : nb (pre_init s) <> 0.
  Proof. unfold pre_init. destruct (Nat.eqb (nb s) 0) eqn:E; cbn; [lia | apply Nat.eqb_neq; auto]. Qed.
  Lemma pre_init_len (s : state) : len (pre_init s) = len s.
  Proof. unfold pre_init. destruct (Nat.eqb (nb s) 0); auto. Qed.
  Lemma pre_init_id (s : state) : nb s <> 0 -> pre_init s = s.
  Proof. intros H. unfold pre_init. apply Nat.eqb_neq in H. rewrite H. auto. Qed.

  Lemma pre_init_ok (s : state) ord :
    InvOrd s ord -> InvOrd (pre_init s) ord /\ entries (mem (pre_init s)) ord = entries (mem s) ord.
  Proof.
    intros I. unfold pre_init. destruct (Nat.eqb (nb s) 0) eqn:E; auto.
    apply Nat.eqb_eq in E. destruct I as [Hl ND Cov S KI Hlen Hload Hnil].
    rewrite (Hnil E) in *. cbn in Hl. destruct Hl as [Hh Ht]. split; auto.
    constructor; cbn; auto.
    - intros a Ha. congruence.
    - intros a e Ha. discriminate.
    - intros a b ea eb Ha. discriminate.
    - left. rewrite Hlen. auto.
  Qed.

  Lemma sp_lookup_notin (l : list (K * V)) k : ~ In k (map fst l) -> sp_lookup l k = None.
  Proof.
    induction l as [|[x w] r IH]; cbn; auto. intros H.
    rewrite eqb_neq by (intros ->; apply H; auto). apply IH. tauto.
  Qed.

  Lemma insert_nogrow f (s : state) l k v :
    R s l ->
    (sp_lookup l k <> None \/ overloaded (len s) (nb (pre_init s)) = false) ->
    exists s', insert (Datatypes.S f) s k v = Ok s' /\ R s' (sp_insert l k v) /\ nb s' = nb (pre_init s).
  Proof.
    intros (ord & I & ->) Hc. apply pre_init_ok in I. destruct I as [I He].
    rewrite <- He in *. clear He. rewrite <- pre_init_len in Hc.
    rewrite insert_eq. cbv zeta. generalize (pre_init_nb s). generalize dependent (pre_init s). clear s.
    intros s I Hc Hnb. rewrite scan_insert_find.
    destruct (scan_find _ _ _ _ _ _) as [[a e]|] eqn:Hs.
    - apply scan_find_some in Hs. destruct Hs as (_ & _ & Ha & _ & Hk).
      destruct (insert_found_ok s ord a e v I Ha) as [I' He]. cbv zeta in I', He.
      eexists. split; [reflexivity|]. split; [|reflexivity].
      exists ord. split; auto. cbn in He. cbn. rewrite He.
      unfold Spec.sp_insert. subst k.
      assert (In a ord) by (apply (inv_cov _ _ _ I); congruence).
      rewrite (entries_lookup_some (mem s) ord a e (inv_keys _ _ _ I)); auto.
    - assert (Hfresh := scan_find_complete s k (inv_static _ _ _ I) Hs).
      assert (Hnone : sp_lookup (entries (mem s) ord) k = None) by (apply entries_lookup_none; auto).
      destruct Hc as [Hc|Hc]; [contradiction|]. rewrite Hc.
      assert (Hspec : sp_insert (entries (mem s) ord) k v = entries (mem s) ord ++ [(k, v)]).
      { unfold Spec.sp_insert. rewrite Hnone. auto. }
      rewrite Hspec.
      destruct (last_empty _ _ _ _ _) as [a|] eqn:Hle.
      + apply last_empty_some in Hle. destruct Hle as [Hle|(Hc1 & Hi & Hm)]; [discriminate|].
        assert (Ha : mem s a = None).
        { destruct Hm as [Hm|(e & Hm & Hz)]; auto. exfalso.
          destruct (inv_static _ _ _ I a e Hm) as (S1 & _). rewrite Hz in S1. symmetry in S1.
          eapply hashk_nonzero; eauto. }
        unfold chain_idxs in Hi. apply in_seq in Hi.
        destruct (link_entry_ok s ord (nbk s) a k v I Hnb Ha) as (s' & Hl & I' & He & Hn); auto.
        { rewrite Hc1. lia. }
        exists s'. split; auto. split; auto. exists (ord ++ [a]). split; auto.
      + set (c := chain_of (hashk k) (nb s)).
        set (a := (c, bucketSize * nbk s c)).
        assert (Ha : mem s a = None).
        { destruct (mem s a) as [e|] eqn:Hm; auto. exfalso.
          destruct (inv_static _ _ _ I a e Hm) as (_ & _ & S3). cbn in S3. lia. }
        destruct (link_entry_ok s ord (fun c' => if Nat.eqb c' c then Datatypes.S (nbk s c) else nbk s c') a k v I Hnb Ha)
          as (s' & Hl & I' & He & Hn); auto.
        { cbn. rewrite Nat.eqb_refl. unfold bucketSize. lia. }
        { intros c'. destruct (Nat.eqb c' c) eqn:Ec; auto. apply Nat.eqb_eq in Ec. subst. lia. }
        exists s'. split; auto. split; auto. exists (ord ++ [a]). split; auto.
  Qed.

  Lemma R_len (s : state) l : R s l -> len s = length l.
  Proof. intros H. apply (R_items h) in H. tauto. Qed.

  Lemma rehash_ok f : forall (xs : list (K * V)) (st : state) acc,
    R st acc -> NoDup (map fst (acc ++ xs)) ->
    (forall n, n < len st + length xs -> overloaded n (nb (pre_init st)) = false) ->
    exists st', fold_res (fun st kv => insert (Datatypes.S f) st (fst kv) (snd kv)) st xs = Ok st' /\
                R st' (acc ++ xs) /\ nb (pre_init st') = nb (pre_init st).
  Proof.
    induction xs as [|[k v] r IH]; intros st acc HR ND Hcap.
    - exists st. rewrite app_nil_r. cbn. auto.
    - cbn [fold_res]. cbn [fst snd].
      assert (Hk : sp_lookup acc k = None).
      { apply sp_lookup_notin. rewrite map_app in ND. apply NoDup_remove_2 in ND.
        intros Hin. apply ND. apply in_or_app. auto. }
      destruct (insert_nogrow f st acc k v HR) as (st1 & H1 & R1 & N1).
      { right. apply Hcap. cbn. lia. }
      unfold fold_res in *. rewrite H1. cbn [bind].
      unfold Spec.sp_insert in R1. rewrite Hk in R1.
      assert (Hnb1 : nb (pre_init st1) = nb (pre_init st)).
      { rewrite pre_init_id; auto. rewrite N1. apply pre_init_nb. }
      destruct (IH st1 (acc ++ [(k, v)]) R1) as (st' & H2 & R2 & N2).
      + rewrite <- app_assoc. auto.
      + intros n Hn. rewrite Hnb1. apply Hcap. rewrite (R_len _ _ R1), app_length in Hn.
        rewrite (R_len _ _ HR). cbn in *. lia.
      + exists st'. rewrite <- app_assoc in R2. split; auto. split; auto. congruence.
  Qed.

  Theorem insert_ok f (s : state) l k v :
    R s l -> exists s', insert (Datatypes.S (Datatypes.S f)) s k v = Ok s' /\ R s' (sp_insert l k v).
  Proof.
    intros HR.
    destruct (sp_lookup l k) as [w|] eqn:Hlk.
    { destruct (insert_nogrow (Datatypes.S f) s l k v HR) as (s' & H1 & R1 & _); [left; congruence|]. eauto. }
    destruct (overloaded (len s) (nb (pre_init s))) eqn:Hov.
    2:{ destruct (insert_nogrow (Datatypes.S f) s l k v HR) as (s' & H1 & R1 & _); [right; auto|]. eauto. }
    assert (HR' := HR). destruct HR' as (ord & I & El). apply pre_init_ok in I. destruct I as [I He].
    assert (HR1 : R (pre_init s) l) by (exists ord; split; auto; congruence).
    rewrite insert_eq. cbv zeta. rewrite scan_insert_find.
    destruct (scan_find _ _ _ _ _ _) as [[a e]|] eqn:Hs.
    { exfalso. apply scan_find_some in Hs. destruct Hs as (_ & _ & Ha & _ & Hk). subst k.
      rewrite El, <- He in Hlk.
      rewrite (entries_lookup_some (mem (pre_init s)) ord a e (inv_keys _ _ _ I)) in Hlk; [discriminate| |auto].
      apply (inv_cov _ _ _ I). congruence. }
    rewrite pre_init_len, Hov.
    destruct (R_items h _ _ HR1) as [Hit Hlen]. rewrite Hit. cbn [bind].
    destruct (grow_cap (len s) (nb (pre_init s))) as [Hcap Hcap'].
    { apply pre_init_nb. } { rewrite <- pre_init_len. apply (inv_load _ _ _ I). } { auto. }
    assert (Hn2 : 2 * nb (pre_init s) <> 0) by (generalize (pre_init_nb s); lia).
    destruct (rehash_ok f l (empty_table (2 * nb (pre_init s))) [] (R_empty_table _)) as (s2 & H2 & R2 & N2).
    { cbn. eapply R_keys_nodup; eauto. }
    { intros n Hn. rewrite pre_init_id by (cbn; auto). cbn in *. apply Hcap. rewrite <- pre_init_len. lia. }
    rewrite H2. cbn [bind]. cbn [app] in R2.
    rewrite (pre_init_id (empty_table _)) in N2 by (cbn; auto). cbn [nb empty_table] in N2.
    destruct (insert_nogrow f s2 l k v R2) as (s3 & H3 & R3 & _).
    { right. rewrite N2. rewrite (R_len _ _ R2). rewrite <- Hlen, pre_init_len. auto. }
    eauto.
  Qed.

  (* ---- delete ---- *)
  Lemma delete_ok (s : state) l k :
    R s l -> exists s', delete s k = Ok (s', sp_lookup l k) /\ R s' (sp_delete l k) /\ nb s' = nb s.
  Proof.
    intros HR. assert (HR' := HR). destruct HR' as (ord & I & ->).
    destruct I as [Hl ND Cov S KI Hlen Hload Hnil].
    unfold Concrete.delete. destruct (Nat.eqb (nb s) 0) eqn:En.
    { apply Nat.eqb_eq in En. rewrite (Hnil En) in *. cbn. exists s. auto. }
    destruct (scan_find _ _ _ _ _ _) as [[a e]|] eqn:Hs.
    2:{ assert (Hfresh := scan_find_complete s k S Hs).
        assert (Hnone : sp_lookup (entries (mem s) ord) k = None) by (apply entries_lookup_none; auto).
        rewrite Hnone, sp_delete_absent by auto. exists s. auto. }
    apply scan_find_some in Hs. destruct Hs as (_ & _ & Ha & _ & Hk).
    assert (Hin : In a ord) by (apply Cov; congruence).
    rewrite <- Hk. rewrite (entries_lookup_some (mem s) ord a e KI Hin Ha).
    destruct (in_split _ _ Hin) as (l1 & l2 & ->).
    assert (Hocc : forall b, In b (l1 ++ a :: l2) -> mem s b <> None) by (intros; eapply lseg_occupied; eauto).
    apply lseg_app in Hl. destruct Hl as (midl & mid & H1 & H2).
    cbn in H2. destruct H2 as [-> (e' & Ha' & Hp & H2)]. rewrite Ha in Ha'. injection Ha' as <-.
    assert (ND1 : NoDup l1) by (apply NoDup_app_l in ND; auto).
    assert (Hna1 : ~ In a l1).
    { apply NoDup_remove_2 in ND. intros H. apply ND. apply in_or_app. auto. }
    destruct (lseg_store_fin (mem s) l1 (head s) midl (Some a) (enext e) H1 ND1)
      as (m1 & hd1 & Hst & Hl1 & Hsv1 & Hout1 & _ & _).
    rewrite Hp, Hst. cbn [bind fst snd].
    assert (Hlen' : len s - 1 = length (l1 ++ l2)).
    { rewrite Hlen, !app_length. cbn. lia. }
    assert (Hload' : LoadOK (len s - 1) (nb s)).
    { destruct Hload as [Hz|Ho]; [left; lia|]. destruct (len s - 1) eqn:E; [left; auto|right].
      eapply overloaded_mono; eauto. lia. }
    assert (ND' : NoDup (l1 ++ l2)) by (eapply NoDup_remove_1; eauto).
    destruct l2 as [|b l2'].
    - (* the last entry goes: tailLink moves *)
      cbn in H2. destruct H2 as [Hn Ht]. rewrite Hn.
      set (m' := upd m1 a None).
      assert (Hsv' : forall x, x <> a -> sv m' x = sv (mem s) x).
      { intros x Hx. unfold sv, m'. rewrite upd_other by auto. apply Hsv1. }
      assert (Hsub : forall x, m' x = None \/ sv m' x = sv (mem s) x).
      { intros x. destruct (addr_eq_dec x a) as [->|Hx]; [left; apply upd_same | right; auto]. }
      eexists. split; [reflexivity|]. split; [|reflexivity].
      exists (l1 ++ []). split.
      + constructor; cbn [mem head tail nb nbk len]; auto.
        * rewrite app_nil_r. rewrite Hn in Hl1. eapply lseg_frame; [|exact Hl1].
          intros x Hx. unfold links, m'. rewrite upd_other; auto. intros ->. contradiction.
        * intros x Hx. destruct (addr_eq_dec x a) as [->|Hne]; [unfold m' in Hx; rewrite upd_same in Hx; congruence|].
          assert (Hx' : mem s x <> None).
          { intros Hn'. apply Hx. specialize (Hsv' x Hne). unfold sv in Hsv'. rewrite Hn' in Hsv'. destruct (m' x); [discriminate|auto]. }
          apply Cov in Hx'. apply in_app_or in Hx'. apply in_or_app. destruct Hx' as [|[->|[]]]; auto. contradiction.
        * eapply sub_static; eauto.
        * eapply sub_keys; eauto.
        * intros E. rewrite E in En. discriminate.
      + cbn [mem]. symmetry. eapply entries_delete; eauto.
    - (* an inner entry goes: the successor's prevLink is redirected *)
      cbn in H2. destruct H2 as [Hn (eb & Hb & Hpb & H2)]. rewrite Hn.
      assert (Hba : b <> a).
      { intros ->. apply NoDup_remove_2 in ND. apply ND. apply in_or_app. right. left. auto. }
      assert (Hnb1 : ~ In b l1).
      { intros H. apply NoDup_remove_1 in ND. apply NoDup_remove_2 in ND. apply ND. apply in_or_app. auto. }
      rewrite (Hout1 b Hnb1), Hb.
      set (m2 := upd m1 b (Some (with_prev eb midl))).
      set (m' := upd m2 a None).
      assert (Hsv' : forall x, x <> a -> sv m' x = sv (mem s) x).
      { intros x Hx. unfold sv, m', m2. rewrite upd_other by auto.
        destruct (addr_eq_dec x b) as [->|Hxb]; [rewrite upd_same, Hb; auto | rewrite upd_other by auto; apply Hsv1]. }
      assert (Hsub : forall x, m' x = None \/ sv m' x = sv (mem s) x).
      { intros x. destruct (addr_eq_dec x a) as [->|Hx]; [left; apply upd_same | right; auto]. }
      eexists. split; [reflexivity|]. split; [|reflexivity].
      exists (l1 ++ b :: l2'). split.
      + constructor; cbn [mem head tail nb nbk len]; auto.
        * apply lseg_app. exists midl, (Some b). split.
          -- rewrite Hn in Hl1. eapply lseg_frame; [|exact Hl1].
             intros x Hx. unfold links, m', m2. rewrite !upd_other; auto; intros ->; contradiction.
          -- cbn. split; auto. exists (with_prev eb midl). unfold m', m2.
             rewrite upd_other, upd_same by auto. repeat split; auto. cbn.
             eapply lseg_frame; [|exact H2]. intros x Hx. unfold links.
             assert (x <> a).
             { intros ->. apply NoDup_remove_2 in ND. apply ND. apply in_or_app. right. right. auto. }
             assert (x <> b).
             { intros ->. apply NoDup_remove_1 in ND. apply NoDup_remove_2 in ND. apply ND. apply in_or_app. auto. }
             assert (~ In x l1).
             { intros Hx1. apply NoDup_remove_1 in ND. apply (NoDup_app_disj _ _ ND x); auto. right. auto. }
             rewrite !upd_other by auto. rewrite Hout1; auto.
        * intros x Hx. destruct (addr_eq_dec x a) as [->|Hne]; [unfold m' in Hx; rewrite upd_same in Hx; congruence|].
          assert (Hx' : mem s x <> None).
          { intros Hn'. apply Hx. specialize (Hsv' x Hne). unfold sv in Hsv'. rewrite Hn' in Hsv'. destruct (m' x); [discriminate|auto]. }
          apply Cov in Hx'. apply in_app_or in Hx'. apply in_or_app. destruct Hx' as [|[->|]]; auto. contradiction.
        * eapply sub_static; eauto.
        * eapply sub_keys; eauto.
        * intros E. rewrite E in En. discriminate.
      + cbn [mem]. symmetry. eapply entries_delete; eauto.
  Qed.
End OpsProofs.
