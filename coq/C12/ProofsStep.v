(* C12 -- the refinement theorem: every operation (table operations and the
   derived ones) and every operation history. *)
From Coq Require Import List Bool NArith Arith Lia.
From SV Require Import C12.Ops C12.Spec C12.Concrete C12.ProofsBase C12.ProofsOps C12.ProofsSpec C12.ProofsCount.
Import ListNotations.

Lemma init_nb_ok : forall fuel size n,
  n >= 1 -> size <= fuel + n -> exists m, init_nb (S fuel) size n = Ok m /\ m >= 1.
Proof.
  induction fuel as [|f IH]; intros size n Hn Hs; cbn [init_nb].
  - destruct (overloaded size n) eqn:E; eauto.
    unfold overloaded, bucketSize in E. apply andb_true_iff in E. destruct E as [E1 E2].
    apply Nat.leb_le in E1. apply Nat.leb_le in E2. lia.
  - destruct (overloaded size n) eqn:E; eauto. apply IH; lia.
Qed.

Ltac rw_in E H := let e := fresh "e" in pose proof E as e; unfold Spec.alist in e, H; rewrite e in H; clear e.

Section StepProofs.
  Context {K V : Type}.
  Variable eqb : K -> K -> bool.
  Hypothesis eqb_spec : forall a b, eqb a b = true <-> a = b.
  Variable h : K -> N.
  Variable vnone : V.

  Notation state := (@state K V).
  Notation alist := (list (K * V)).
  Notation R := (@R K V h).
  Notation sp_lookup := (sp_lookup eqb).
  Notation sp_insert := (sp_insert eqb).
  Notation sp_delete := (sp_delete eqb).
  Notation insert := (insert eqb h).
  Notation delete := (delete eqb h).
  Notation lookup := (lookup eqb h).
  Notation step := (step eqb h vnone).
  Notation run := (run eqb h vnone).
  Notation spec_step := (spec_step eqb vnone).
  Notation spec_run := (spec_run eqb vnone).
  Notation has := (has eqb).

  Let insert_ok := @insert_ok K V eqb eqb_spec h.
  Let delete_ok := @delete_ok K V eqb eqb_spec h.
  Let lookup_ok := @lookup_ok K V eqb eqb_spec h.

  Lemma fold_res_R {B} (f : state -> B -> res state) (g : alist -> B -> alist) :
    (forall s l b, R s l -> exists s', f s b = Ok s' /\ R s' (g l b)) ->
    forall xs s l, R s l -> exists s', fold_res f s xs = Ok s' /\ R s' (fold_left g xs l).
  Proof.
    intros H. induction xs as [|b r IH]; intros s l HR; cbn.
    - eauto.
    - destruct (H s l b HR) as (s1 & H1 & R1). rewrite H1. cbn. apply IH; auto.
  Qed.

  Lemma insert_all_ok (s : state) l xs :
    R s l -> exists s', insert_all eqb h s xs = Ok s' /\ R s' (sp_update eqb l xs).
  Proof.
    intros HR. unfold insert_all, sp_update.
    apply (fold_res_R (fun st kv => insert insert_fuel st (fst kv) (snd kv))
                      (fun acc kv => sp_insert acc (fst kv) (snd kv))); auto.
    intros s0 l0 [k v] H0. apply insert_ok. auto.
  Qed.

  Lemma delete_all_ok (s : state) l ks :
    R s l -> exists s', delete_all eqb h s ks = Ok s' /\ R s' (fold_left sp_delete ks l).
  Proof.
    intros HR. unfold delete_all.
    apply (fold_res_R (fun st k => delete st k >>= fun r => Ok (fst r)) sp_delete); auto.
    intros s0 l0 k H0. destruct (delete_ok s0 l0 k H0) as (s1 & H1 & R1 & _). rewrite H1. cbn. eauto.
  Qed.

  Lemma keys_nodup (s : state) l : R s l -> NoDup (keys l).
  Proof. apply (R_keys_nodup h). Qed.

  Lemma clone_ok (s : state) l :
    R s l -> exists z, clone_set eqb h vnone s = Ok z /\ R z (Spec.as_set vnone l).
  Proof.
    intros HR. unfold clone_set. destruct (R_items h _ _ HR) as [Hit _]. rewrite Hit. cbn [bind].
    destruct (insert_all_ok zero_state [] (Concrete.as_set vnone l) (R_zero h)) as (z & Hz & Rz).
    exists z. split; auto. unfold sp_update in Rz.
    rewrite (insert_all_fresh eqb eqb_spec) in Rz; auto.
    cbn [app]. change (Concrete.as_set vnone l) with (Spec.as_set vnone l).
    rewrite keys_as_set. eapply keys_nodup; eauto.
  Qed.

  Lemma first_ok (s : state) l :
    R s l -> first s = Ok (match l with [] => None | kv :: _ => Some (fst kv) end).
  Proof.
    intros (ord & I & ->). destruct I as [Hl _ _ _ _ _ _ _]. unfold first.
    destruct ord as [|a r]; cbn in Hl.
    - destruct Hl as [-> _]. auto.
    - destruct Hl as [-> (e & Ha & _)]. rewrite Ha. cbn. rewrite Ha. auto.
  Qed.

  Lemma inter_ok_c (s : state) l ks :
    R s l -> exists z, set_inter eqb h vnone s ks = Ok z /\ R z (sp_inter eqb vnone l ks).
  Proof.
    intros HR. unfold set_inter.
    destruct (fold_res_R
      (fun c x => match lookup s x with Some _ => insert insert_fuel c x vnone | None => Ok c end)
      (fun c x => if has l x then sp_insert c x vnone else c)) with (xs := ks) (s := @zero_state K V) (l := @nil (K * V))
      as (common & Hc & Rc).
    { intros s0 l0 x H0. rewrite (lookup_ok s l x HR). unfold ProofsSpec.has.
      destruct (sp_lookup l x); eauto. }
    { apply R_zero. }
    rewrite Hc. cbn [bind]. destruct (R_items h _ _ HR) as [Hit _]. rewrite Hit. cbn [bind].
    destruct (fold_res_R
      (fun z (kv : K * V) => match lookup common (fst kv) with Some _ => insert insert_fuel z (fst kv) vnone | None => Ok z end)
      (fun z (kv : K * V) => if has (inter_common eqb vnone l ks) (fst kv) then sp_insert z (fst kv) vnone else z))
      with (xs := l) (s := @zero_state K V) (l := @nil (K * V)) as (z & Hz & Rz).
    { intros s0 l0 kv H0. rewrite (lookup_ok common _ (fst kv) Rc). unfold ProofsSpec.has, inter_common.
      destruct (sp_lookup _ (fst kv)); eauto. }
    { apply R_zero. }
    exists z. split; auto. rw_in (inter_ok eqb eqb_spec vnone l ks (keys_nodup s l HR)) Rz. auto.
  Qed.

  Lemma symdiff_ok_c (s : state) l ks :
    R s l -> exists z, set_symdiff eqb h vnone s ks = Ok z /\ R z (sp_symdiff eqb vnone l ks).
  Proof.
    intros HR. unfold set_symdiff. destruct (clone_ok s l HR) as (d & Hd & Rd). rewrite Hd. cbn [bind].
    destruct (fold_res_R
      (fun d x => match lookup s x with
                  | Some _ => delete d x >>= fun r => Ok (fst r)
                  | None => insert insert_fuel d x vnone end)
      (symdiff_step eqb vnone l)) with (xs := ks) (s := d) (l := Spec.as_set vnone l) as (z & Hz & Rz); auto.
    { intros s0 l0 x H0. rewrite (lookup_ok s l x HR). unfold symdiff_step, ProofsSpec.has.
      destruct (sp_lookup l x).
      - destruct (delete_ok s0 l0 x H0) as (s1 & H1 & R1 & _). rewrite H1. cbn. eauto.
      - apply insert_ok. auto. }
    exists z. split; auto. rw_in (symdiff_ok eqb eqb_spec vnone l ks (keys_nodup s l HR)) Rz. auto.
  Qed.

  Lemma dict_union_ok (s : state) l xs :
    R s l -> exists z, dict_union eqb h s xs = Ok z /\ R z (sp_update eqb l xs).
  Proof.
    intros HR. unfold dict_union. destruct (R_items h _ _ HR) as [Hit _]. rewrite Hit. cbn [bind].
    unfold init. destruct (init_nb_ok (len s) (len s) 1) as (n & Hn & _); [lia|lia|]. rewrite Hn. cbn [bind].
    destruct (insert_all_ok (empty_table n) [] l (R_empty_table h n)) as (z1 & H1 & R1).
    rewrite H1. cbn [bind]. unfold sp_update in R1 at 1.
    rewrite (insert_all_fresh eqb eqb_spec) in R1 by (cbn [app]; eapply keys_nodup; eauto). cbn [app] in R1.
    apply insert_all_ok. auto.
  Qed.

  (* ---- one operation ---- *)
  Theorem step_ok (s : state) l o :
    R s l -> exists s', step s o = Ok (s', snd (spec_step l o)) /\ R s' (fst (spec_step l o)).
  Proof.
    intros HR. destruct o; cbn [Concrete.step Spec.spec_step fst snd].
    - (* insert *) destruct (insert_ok 0 s l k v HR) as (s' & H1 & R1).
      unfold insert_fuel. rewrite H1. cbn. eauto.
    - (* lookup *) rewrite (lookup_ok s l k HR). eauto.
    - (* delete *) destruct (delete_ok s l k HR) as (s' & H1 & R1 & _). rewrite H1. cbn. eauto.
    - (* discard *) rewrite (lookup_ok s l k HR). destruct (sp_lookup l k) eqn:E.
      + destruct (delete_ok s l k HR) as (s' & H1 & R1 & _). rewrite H1. cbn. eauto.
      + rewrite (sp_delete_absent eqb) by auto. eauto.
    - (* clear *) exists (clear s). split; auto. apply (R_empty_table h).
    - (* popfirst *) rewrite (first_ok s l HR). cbn [bind]. destruct l as [|[k v] r]; cbn [fst snd]; eauto.
      destruct (delete_ok s _ k HR) as (s' & H1 & R1 & _). rewrite H1. cbn [bind fst snd].
      cbn in R1. cbn. rewrite (eqb_refl eqb eqb_spec) in *. eauto.
    - (* setdefault *) rewrite (lookup_ok s l k HR). destruct (sp_lookup l k) eqn:E; cbn [fst snd]; eauto.
      destruct (insert_ok 0 s l k v HR) as (s' & H1 & R1). unfold insert_fuel. rewrite H1. cbn.
      unfold Spec.sp_insert in R1. rewrite E in R1. eauto.
    - (* update *) destruct (insert_all_ok s l l0 HR) as (s' & H1 & R1). rewrite H1. cbn. eauto.
    - (* dict union *) destruct (dict_union_ok s l l0 HR) as (s' & H1 & R1). rewrite H1. cbn. eauto.
    - (* set union *) destruct (clone_ok s l HR) as (z & Hz & Rz). rewrite Hz. cbn [bind].
      destruct (insert_all_ok z _ (Concrete.elems vnone l0) Rz) as (s' & H1 & R1). rewrite H1. cbn.
      exists s'. split; auto. unfold sp_update in R1.
      change (Concrete.elems vnone l0) with (Spec.elems vnone l0) in R1.
      rewrite (insert_all_union eqb eqb_spec) in R1 by apply AllNone_as_set.
      rewrite keys_as_set in R1. auto.
    - (* set intersection *) destruct (inter_ok_c s l l0 HR) as (s' & H1 & R1). rewrite H1. cbn. eauto.
    - (* set difference *) destruct (clone_ok s l HR) as (z & Hz & Rz). rewrite Hz. cbn [bind].
      destruct (delete_all_ok z _ l0 Rz) as (s' & H1 & R1). rewrite H1. cbn.
      exists s'. split; auto. rewrite (delete_all_filter eqb eqb_spec) in R1; auto.
      rewrite keys_as_set. eapply keys_nodup; eauto.
    - (* set symmetric difference *) destruct (symdiff_ok_c s l l0 HR) as (s' & H1 & R1). rewrite H1. cbn. eauto.
    - (* issubset *) rewrite (is_subset_ok eqb eqb_spec h s l l0 HR). eauto.
    - (* issuperset *) rewrite (is_superset_ok eqb eqb_spec h s l l0 HR). eauto.
  Qed.

  (* ---- every history ---- *)
  Theorem run_ok os : forall (s : state) l,
    R s l -> exists s', run s os = Ok (s', snd (spec_run l os)) /\ R s' (fst (spec_run l os)).
  Proof.
    induction os as [|o r IH]; intros s l HR; cbn [Concrete.run Spec.spec_run].
    - cbn. eauto.
    - destruct (step_ok s l o HR) as (s1 & H1 & R1). rewrite H1. cbn [bind fst snd].
      destruct (spec_step l o) as [l1 x] eqn:E. cbn [fst snd] in *.
      destruct (IH s1 l1 R1) as (s2 & H2 & R2). rewrite H2. cbn [bind fst snd].
      destruct (spec_run l1 r) as [l2 xs]. cbn [fst snd] in *. eauto.
  Qed.
End StepProofs.
