(* C12 (guarded layer) -- decidable comparison of an observed history WITH freeze
   / iterate / Done events (what the real Dict / Set did through the public Go
   API, printed by `c12 guard`) with the guarded pointer-level model
   (correspondence: Guarded.v) and with the guarded association list (oracle:
   GuardedSpec.v, independent of the model).  Used by checks/c12.py through
   vm_compute.  No proofs here. *)
From Coq Require Import List Bool NArith Arith.
From SV Require Import C12.Ops C12.Spec C12.Concrete C12.Check C12.GuardedOps C12.GuardedSpec C12.Guarded.
Import ListNotations.

Definition gerr_eqb (a b : gerr) : bool :=
  match a, b with Frozen, Frozen => true | Iterating, Iterating => true | _, _ => false end.

Definition gout_eqb (a b : gout N N) : bool :=
  match a, b with
  | GO x, GO y => out_eqb x y
  | GItemsOut x, GItemsOut y => list_eqb kv_eqb x y
  | GLenOut x, GLenOut y => Nat.eqb x y
  | GKeysOut x, GKeysOut y => list_eqb N.eqb x y
  | GErr x, GErr y => gerr_eqb x y
  | _, _ => false
  end.

(* one observation after an event: output (or error class), Len(), the items in order *)
Definition gobs := (gout N N * nat * list (N * N))%type.
Definition gobs_eqb (a b : gobs) : bool :=
  gout_eqb (fst (fst a)) (fst (fst b)) && Nat.eqb (snd (fst a)) (snd (fst b)) && list_eqb kv_eqb (snd a) (snd b).

Record gcase := mkGC {
  gc_hashes : list (N * N);      (* key, Hash() *)
  gc_init : option nat;          (* None: new(Dict) / new(Set); Some n: NewDict(n) / NewSet(n) *)
  gc_ops : list (gop N N);
  gc_obs : list gobs             (* one per event *)
}.

Definition gstart (c : gcase) : res (@gstate N N) :=
  match gc_init c with None => Ok g_zero | Some n => g_init n end.

(* correspondence: the guarded executable model reproduces every observation *)
Definition guard_model_ok (c : gcase) : bool :=
  match gstart c >>= fun g => g_trace N.eqb (hfun (gc_hashes c)) 0%N g (gc_ops c) with
  | Ok t => list_eqb gobs_eqb t (gc_obs c)
  | _ => false
  end.

(* the guarded association list after every event *)
Fixpoint gspec_trace (g : @gspec N N) (os : list (gop N N)) : list gobs :=
  match os with
  | [] => []
  | o :: r => let x := gspec_step N.eqb 0%N g o in
              (snd x, length (sl (fst x)), sl (fst x)) :: gspec_trace (fst x) r
  end.

(* oracle: the observations are those of the guarded association list *)
Definition guard_spec_ok (c : gcase) : bool :=
  list_eqb gobs_eqb (gspec_trace gs_empty (gc_ops c)) (gc_obs c).

Fixpoint gfirst_diff (a b : list gobs) (i : nat) : option nat :=
  match a, b with
  | [], [] => None
  | x :: r, y :: q => if gobs_eqb x y then gfirst_diff r q (S i) else Some i
  | _, _ => Some i
  end.
Definition guard_spec_first_diff (c : gcase) : option nat :=
  gfirst_diff (gspec_trace gs_empty (gc_ops c)) (gc_obs c) 0.
