(* C12 -- invariant, abstraction and the basic lemmas: store updates, list
   segments of the insertion-order list, the chain scans. *)
From Coq Require Import List Bool NArith Arith Lia.
From SV Require Import C12.Ops C12.Spec C12.Concrete.
Import ListNotations.

Lemma addr_eqb_eq a b : addr_eqb a b = true <-> a = b.
Proof.
  unfold addr_eqb. destruct a as [a1 a2], b as [b1 b2]; cbn.
  rewrite andb_true_iff, !Nat.eqb_eq. split; [intros [-> ->]; auto | intros [= -> ->]; auto].
Qed.
Lemma addr_eqb_refl a : addr_eqb a a = true.
Proof. apply addr_eqb_eq; auto. Qed.
Lemma addr_eqb_neq a b : a <> b -> addr_eqb a b = false.
Proof. intros H. destruct (addr_eqb a b) eqn:E; auto. apply addr_eqb_eq in E. contradiction. Qed.
Lemma addr_eq_dec (a b : addr) : {a = b} + {a <> b}.
Proof. decide equality; apply Nat.eq_dec. Qed.

Section Base.
  Context {K V : Type}.
  Variable eqb : K -> K -> bool.
  Hypothesis eqb_spec : forall a b, eqb a b = true <-> a = b.
  Variable h : K -> N.
  Variable vnone : V.

  Notation entry := (@entry K V).
  Notation store := (@store K V).
  Notation state := (@state K V).
  Notation hashk := (hashk h).

  Lemma eqb_refl k : eqb k k = true.
  Proof. apply eqb_spec; auto. Qed.
  Lemma eqb_neq a b : a <> b -> eqb a b = false.
  Proof. intros H. destruct (eqb a b) eqn:E; auto. apply eqb_spec in E. contradiction. Qed.
  Lemma eqb_false a b : eqb a b = false -> a <> b.
  Proof. intros E ->. rewrite eqb_refl in E. discriminate. Qed.

  Lemma hashk_nonzero k : hashk k <> 0%N.
  Proof. unfold Concrete.hashk. destruct (N.eqb (h k) 0) eqn:E; [discriminate | apply N.eqb_neq; auto]. Qed.

  (* ---- store ---- *)
  Lemma upd_same (m : store) a x : upd m a x a = x.
  Proof. unfold upd. rewrite addr_eqb_refl. auto. Qed.
  Lemma upd_other (m : store) a x b : b <> a -> upd m a x b = m b.
  Proof. intros H. unfold upd. rewrite addr_eqb_neq; auto. Qed.

  (* the part of an entry that is not a link *)
  Definition sv (m : store) (a : addr) : option (N * K * V) :=
    match m a with Some e => Some (ehash e, ekey e, evalue e) | None => None end.

  Definition entries (m : store) (ord : list addr) : list (K * V) :=
    flat_map (fun a => match m a with Some e => [(ekey e, evalue e)] | None => [] end) ord.

  Lemma entries_ext m m' ord :
    (forall a, In a ord -> sv m' a = sv m a) -> entries m' ord = entries m ord.
  Proof.
    unfold entries. induction ord as [|a r IH]; intros H; cbn [flat_map]; auto.
    rewrite IH by (intros; apply H; right; auto).
    specialize (H a (or_introl eq_refl)). unfold sv in H.
    destruct (m' a), (m a); try discriminate; auto. injection H as _ H2 H3. rewrite H2, H3. auto.
  Qed.

  Lemma entries_app m l1 l2 : entries m (l1 ++ l2) = entries m l1 ++ entries m l2.
  Proof. unfold entries. apply flat_map_app. Qed.

  (* ---- list segments of the order list ----
     lseg m prev cur ord lastl fin: starting at pointer `cur` (stored in link cell
     `prev`) the entries at the addresses `ord` are chained through next up to
     pointer `fin`; every prevLink is the address of the cell pointing to the
     entry; `lastl` is the link cell that holds `fin`. *)
  Fixpoint lseg (m : store) (prev : link) (cur : option addr) (ord : list addr)
           (lastl : link) (fin : option addr) : Prop :=
    match ord with
    | [] => cur = fin /\ lastl = prev
    | a :: r => cur = Some a /\
                exists e, m a = Some e /\ eprev e = prev /\ lseg m (LNext a) (enext e) r lastl fin
    end.

  Definition links (m : store) (a : addr) : option (option addr * link) :=
    match m a with Some e => Some (enext e, eprev e) | None => None end.

  Lemma lseg_frame m m' ord : forall p c ll f,
    (forall a, In a ord -> links m' a = links m a) ->
    lseg m p c ord ll f -> lseg m' p c ord ll f.
  Proof.
    induction ord as [|a r IH]; intros p c ll f H; cbn; auto.
    intros [-> (e & Ha & Hp & Hr)].
    assert (Hl := H a (or_introl eq_refl)). unfold links in Hl. rewrite Ha in Hl.
    destruct (m' a) as [e'|] eqn:Ha'; try discriminate. injection Hl as Hn Hp'.
    split; auto. exists e'. repeat split; auto; try congruence.
    rewrite Hn. apply IH; auto. intros; apply H; right; auto.
  Qed.

  Lemma lseg_app m l1 : forall l2 p c ll f,
    lseg m p c (l1 ++ l2) ll f <->
    exists midl mid, lseg m p c l1 midl mid /\ lseg m midl mid l2 ll f.
  Proof.
    induction l1 as [|a r IH]; intros l2 p c ll f; cbn.
    - split.
      + intros H. exists p, c. auto.
      + intros (midl & mid & [-> ->] & H). auto.
    - split.
      + intros [-> (e & Ha & Hp & Hr)]. apply IH in Hr. destruct Hr as (midl & mid & H1 & H2).
        exists midl, mid. split; auto. split; auto. exists e. auto.
      + intros (midl & mid & [-> (e & Ha & Hp & Hr)] & H2). split; auto. exists e.
        repeat split; auto. apply IH. exists midl, mid. auto.
  Qed.

  Lemma lseg_occupied m ord : forall p c ll f a,
    lseg m p c ord ll f -> In a ord -> m a <> None.
  Proof.
    induction ord as [|x r IH]; intros p c ll f a H Hin; cbn in *; [contradiction|].
    destruct H as [-> (e & Hx & Hp & Hr)]. destruct Hin as [->|Hin]; [congruence|eauto].
  Qed.

  Lemma lseg_lastl m ord : forall p c ll f,
    lseg m p c ord ll f -> ll = match rev ord with [] => p | t :: _ => LNext t end.
  Proof.
    induction ord as [|x r IH]; intros p c ll f H; cbn in *.
    - destruct H; auto.
    - destruct H as [-> (e & Hx & Hp & Hr)]. apply IH in Hr. rewrite Hr.
      destruct (rev r) eqn:E; cbn; auto.
  Qed.

  (* walking the list from the head reads exactly the entries of ord *)
  Lemma walk_lseg m ord : forall p c ll,
    lseg m p c ord ll None -> walk (length ord) m c = Ok (entries m ord).
  Proof.
    induction ord as [|a r IH]; intros p c ll H; cbn in *.
    - destruct H as [-> _]. auto.
    - destruct H as [-> (e & Ha & Hp & Hr)]. rewrite Ha. cbn.
      erewrite IH by eauto. cbn. auto.
  Qed.

  (* *lastl = x: the segment now ends in x *)
  Lemma lseg_store_fin m ord : forall hd ll f x,
    lseg m LHead hd ord ll f -> NoDup ord ->
    exists m1 hd1, store_link m hd ll x = Ok (m1, hd1) /\
      lseg m1 LHead hd1 ord ll x /\
      (forall b, sv m1 b = sv m b) /\
      (forall b, ~ In b ord -> m1 b = m b) /\
      (ord <> [] -> hd1 = hd) /\ (ord = [] -> hd1 = x).
  Proof.
    intros hd ll f x H ND.
    destruct (rev ord) as [|t r'] eqn:E.
    - (* empty *)
      assert (ord = []) as -> by (apply (f_equal (@rev _)) in E; rewrite rev_involutive in E; auto).
      cbn in H. destruct H as [-> ->]. cbn. exists m, x. repeat split; auto. congruence.
    - assert (Ho : ord = rev r' ++ [t]).
      { apply (f_equal (@rev _)) in E. rewrite rev_involutive in E. cbn in E. auto. }
      subst ord. clear E. apply lseg_app in H. destruct H as (midl & mid & H1 & H2).
      cbn in H2. destruct H2 as [-> (e & Ht & Hp & [Hf ->])].
      apply NoDup_remove_2 in ND. rewrite app_nil_r in ND.
      cbn. rewrite Ht. eexists _, hd. split; [reflexivity|]. repeat split.
      + apply lseg_app. exists midl, (Some t). split.
        * eapply lseg_frame; [|exact H1]. intros a Ha. unfold links. rewrite upd_other; auto.
          intros ->. contradiction.
        * cbn. split; auto. eexists. rewrite upd_same. repeat split; auto.
      + intros b. unfold sv, upd. destruct (addr_eqb b t) eqn:Eb; auto.
        apply addr_eqb_eq in Eb. subst. rewrite Ht. auto.
      + intros b Hb. rewrite upd_other; auto. intros ->. apply Hb. apply in_or_app. right. left. auto.
      + intros Hc. destruct (rev r'); discriminate.
  Qed.

  (* ---- the chain scans ---- *)
  Lemma scan_find_some (m : store) c hk k idxs a e :
    scan_find eqb m c hk k idxs = Some (a, e) ->
    fst a = c /\ In (snd a) idxs /\ m a = Some e /\ ehash e = hk /\ ekey e = k.
  Proof.
    induction idxs as [|i r IH]; cbn; [discriminate|].
    destruct (m (c, i)) as [e0|] eqn:Hm.
    - destruct (N.eqb (ehash e0) hk && eqb k (ekey e0)) eqn:Ht.
      + intros [= <- <-]. apply andb_true_iff in Ht. destruct Ht as [H1 H2].
        apply N.eqb_eq in H1. apply eqb_spec in H2. cbn. repeat split; auto.
      + intros H. apply IH in H. tauto.
    - intros H. apply IH in H. tauto.
  Qed.

  Lemma scan_find_none (m : store) c hk k idxs :
    scan_find eqb m c hk k idxs = None ->
    forall i e, In i idxs -> m (c, i) = Some e -> ehash e = hk -> ekey e <> k.
  Proof.
    induction idxs as [|i r IH]; cbn; [contradiction|].
    intros H j e [<-|Hj] Hm Hh.
    - rewrite Hm in H. destruct (N.eqb (ehash e) hk && eqb k (ekey e)) eqn:Ht; [discriminate|].
      apply andb_false_iff in Ht. destruct Ht as [Ht|Ht].
      + apply N.eqb_neq in Ht. contradiction.
      + apply eqb_false in Ht. auto.
    - destruct (m (c, i)) as [e0|]; [destruct (N.eqb (ehash e0) hk && eqb k (ekey e0)); [discriminate|]|]; eauto.
  Qed.

  (* the last empty slot seen by insert's scan *)
  Fixpoint last_empty (m : store) (c : nat) (hk : N) (idxs : list nat) (ins : option addr) : option addr :=
    match idxs with
    | [] => ins
    | i :: r =>
        match m (c, i) with
        | None => last_empty m c hk r (Some (c, i))
        | Some e => if negb (N.eqb (ehash e) hk) && N.eqb (ehash e) 0
                    then last_empty m c hk r (Some (c, i)) else last_empty m c hk r ins
        end
    end.

  Lemma scan_insert_find (m : store) c hk k idxs : forall ins,
    scan_insert eqb m c hk k idxs ins =
    match scan_find eqb m c hk k idxs with
    | Some (a, e) => Found a e
    | None => NotFound (last_empty m c hk idxs ins)
    end.
  Proof.
    induction idxs as [|i r IH]; intros ins; cbn; auto.
    destruct (m (c, i)) as [e|]; auto.
    destruct (N.eqb (ehash e) hk); cbn; auto.
    - destruct (eqb k (ekey e)); auto.
    - destruct (N.eqb (ehash e) 0); auto.
  Qed.

  Lemma last_empty_some (m : store) c hk idxs : forall ins a,
    last_empty m c hk idxs ins = Some a ->
    ins = Some a \/ (fst a = c /\ In (snd a) idxs /\
                     (m a = None \/ exists e, m a = Some e /\ ehash e = 0%N)).
  Proof.
    induction idxs as [|i r IH]; intros ins a; cbn; auto.
    destruct (m (c, i)) as [e|] eqn:Hm.
    - destruct (negb (N.eqb (ehash e) hk) && N.eqb (ehash e) 0) eqn:Ht; intros H; apply IH in H.
      + destruct H as [[= <-]|H]; [|tauto]. right. cbn. repeat split; auto. right. exists e. split; auto.
        apply andb_true_iff in Ht. apply N.eqb_eq. tauto.
      + tauto.
    - intros H; apply IH in H. destruct H as [[= <-]|H]; [|tauto]. right. cbn. auto.
  Qed.

  (* ---- the invariant ---- *)
  Definition StaticOK (n : nat) (bk : nat -> nat) (m : store) : Prop :=
    forall a e, m a = Some e ->
      ehash e = hashk (ekey e) /\ fst a = chain_of (ehash e) n /\ snd a < bucketSize * bk (fst a).
  Definition KeysInj (m : store) : Prop :=
    forall a b ea eb, m a = Some ea -> m b = Some eb -> ekey ea = ekey eb -> a = b.
  Definition Covered (m : store) (ord : list addr) : Prop :=
    forall a, m a <> None -> In a ord.
  Definition LoadOK (n bk : nat) : Prop := n = 0 \/ overloaded (n - 1) bk = false.

  Record InvOrd (s : state) (ord : list addr) : Prop := {
    inv_lseg : lseg (mem s) LHead (head s) ord (tail s) None;
    inv_nodup : NoDup ord;
    inv_cov : Covered (mem s) ord;
    inv_static : StaticOK (nb s) (nbk s) (mem s);
    inv_keys : KeysInj (mem s);
    inv_len : len s = length ord;
    inv_load : LoadOK (len s) (nb s);
    inv_nil : nb s = 0 -> ord = []
  }.

  (* s represents the association list l *)
  Definition R (s : state) (l : list (K * V)) : Prop :=
    exists ord, InvOrd s ord /\ l = entries (mem s) ord.
  Definition Inv (s : state) : Prop := exists l, R s l.

  Lemma sv_static n bk (m m' : store) : (forall a, sv m' a = sv m a) -> StaticOK n bk m -> StaticOK n bk m'.
  Proof.
    intros H S a e Ha. specialize (H a). unfold sv in H. rewrite Ha in H.
    destruct (m a) as [e0|] eqn:E; [|discriminate]. injection H as H1 H2 H3.
    specialize (S a e0 E). rewrite H1, H2. auto.
  Qed.
  Lemma sv_keys (m m' : store) : (forall a, sv m' a = sv m a) -> KeysInj m -> KeysInj m'.
  Proof.
    intros H S a b ea eb Ha Hb Hk.
    assert (Ha' := H a). assert (Hb' := H b). unfold sv in Ha', Hb'. rewrite Ha in Ha'. rewrite Hb in Hb'.
    destruct (m a) as [ea0|] eqn:Ea; [|discriminate]. destruct (m b) as [eb0|] eqn:Eb; [|discriminate].
    injection Ha' as _ Hka _. injection Hb' as _ Hkb _. eapply S; eauto. congruence.
  Qed.
  Lemma sv_cov (m m' : store) ord : (forall a, sv m' a = sv m a) -> Covered m ord -> Covered m' ord.
  Proof.
    intros H S a Ha. apply S. specialize (H a). unfold sv in H. destruct (m' a); [|congruence].
    destruct (m a); [discriminate|discriminate].
  Qed.

  (* reading the abstraction *)
  Lemma R_items s l : R s l -> items s = Ok l /\ len s = length l.
  Proof.
    intros (ord & I & ->). destruct I. unfold items. rewrite inv_len0. split.
    - eapply walk_lseg; eauto.
    - clear - inv_lseg0. revert inv_lseg0. generalize (head s), (@LHead). 
      induction ord as [|a r IH]; intros c p H; cbn in *; auto.
      destruct H as [-> (e & Ha & Hp & Hr)]. rewrite Ha. cbn. f_equal. unfold entries in IH. eauto.
  Qed.

  Lemma R_fun s l l' : R s l -> items s = Ok l' -> l = l'.
  Proof. intros H H'. apply R_items in H. destruct H as [H _]. congruence. Qed.
End Base.
