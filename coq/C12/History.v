(* C12 -- behaviour of /repo BEFORE the two fix: commits (documentation only;
   these definitions are frozen copies of the old model, nothing else uses them).

   Set.Intersection used to iterate the RIGHT operand and insert what it found in
   the receiver, so the result was in the right operand's order;
   Set.SymmetricDifference used to test membership in the evolving result, so an
   element the argument yields twice was deleted and re-inserted. *)
From Coq Require Import List Bool NArith.
From SV Require Import C12.Ops C12.Spec C12.Concrete.
Import ListNotations.

Section Old.
  Context {K V : Type}.
  Variable eqb : K -> K -> bool.
  Variable h : K -> N.
  Variable vnone : V.

  Definition old_set_inter (s : @state K V) (ks : list K) : res state :=
    fold_res (fun z x => match lookup eqb h s x with
                         | Some _ => insert eqb h insert_fuel z x vnone
                         | None => Ok z
                         end) zero_state ks.

  Definition old_set_symdiff (s : @state K V) (ks : list K) : res state :=
    clone_set eqb h vnone s >>= fun d =>
    fold_res (fun d x => delete eqb h d x >>= fun r =>
                         match snd r with
                         | Some _ => Ok (fst r)
                         | None => insert eqb h insert_fuel (fst r) x vnone
                         end) d ks.
End Old.

Definition idh (k : N) : N := k.
Definition set_of (ks : list N) : res (@state N N) :=
  insert_all N.eqb idh zero_state (map (fun k => (k, 0%N)) ks).
Definition items_of (r : res (@state N N)) : option (list (N * N)) :=
  match r with Ok s => match items s with Ok l => Some l | _ => None end | _ => None end.

(* set([1,2,3]) & set([3,2]) iterated [3, 2]; the association list says [2, 3] *)
Lemma old_intersection_order_refuted :
  exists (l : list N) (ks : list N),
    items_of (set_of l >>= fun s => old_set_inter N.eqb idh 0%N s ks)
    <> Some (sp_inter N.eqb 0%N (map (fun k => (k, 0%N)) l) ks).
Proof. exists [1;2;3]%N, [3;2]%N. vm_compute. discriminate. Qed.

(* set([1]).symmetric_difference([1,1]) gave set([1]); the specification says set() *)
Lemma old_symmetric_difference_refuted :
  exists (l : list N) (ks : list N),
    items_of (set_of l >>= fun s => old_set_symdiff N.eqb idh 0%N s ks)
    <> Some (sp_symdiff N.eqb 0%N (map (fun k => (k, 0%N)) l) ks).
Proof. exists [1]%N, [1;1]%N. vm_compute. discriminate. Qed.

(* the repaired operations agree with the specification on the same inputs *)
Example new_intersection_witness :
  items_of (set_of [1;2;3]%N >>= fun s => set_inter N.eqb idh 0%N s [3;2]%N)
  = Some (sp_inter N.eqb 0%N (map (fun k => (k, 0%N)) [1;2;3]%N) [3;2]%N).
Proof. vm_compute. reflexivity. Qed.
Example new_symmetric_difference_witness :
  items_of (set_of [1;2]%N >>= fun s => set_symdiff N.eqb idh 0%N s [2;2;5;5]%N)
  = Some (sp_symdiff N.eqb 0%N (map (fun k => (k, 0%N)) [1;2]%N) [2;2;5;5]%N).
Proof. vm_compute. reflexivity. Qed.
