(* C12 (guarded layer) -- the hashtable of starlark/hashtable.go WITH its two
   guard fields.  Executable model, no proofs.

   state  = the pointer-level state of Concrete.v (table, buckets, store, len,
            head, tailLink)  +  frozen : bool  +  itercount : N (a uint32; ++ / --
            wrap modulo 2^32, written out with u32_inc / u32_dec).

   Every operation is the Concrete.v operation behind the guard the Go code puts
   in front of it, AT THE PLACE the code puts it:

     func (ht *hashtable) insert(k, v Value) error {
         if err := ht.checkMutable("insert into"); err != nil { return err }   <- first
         if ht.table == nil { ht.init(1) }                                     <- lazy init AFTER the check
         ...
     func (ht *hashtable) delete(k Value) (...) {
         if err := ht.checkMutable("delete from"); err != nil { return ... }   <- first
         if ht.table == nil { return None, false, nil }
         ...
     func (ht *hashtable) clear() error {
         if err := ht.checkMutable("clear"); err != nil { return err }         <- first, also when empty
         ...
     func (ht *hashtable) checkMutable(verb string) error {
         if ht.frozen { return "... frozen hash table" }                       <- frozen is tested first
         if ht.itercount > 0 { return "... during iteration" }
         return nil }
     func (ht *hashtable) iterate() *keyIterator {
         if !ht.frozen { ht.itercount++ }
         return &keyIterator{ht: ht, e: ht.head} }
     func (it *keyIterator) Done() { if !it.ht.frozen { it.ht.itercount-- } }
     func (ht *hashtable) freeze() { if !ht.frozen { ht.frozen = true; for e := ... { e.key.Freeze(); e.value.Freeze() } } }

   and, one level up (library.go), the two builtins that look before they call:
     dict_popitem / set_pop:  k, ok := recv.ht.first(); if !ok { "empty" error }; recv.Delete(k)
     set_clear:               if Len() > 0 { Clear() }
   so popitem()/pop() on an EMPTY frozen table report "empty", not "frozen", and
   s.clear() on an empty frozen set succeeds, while Dict.Clear / d.clear() /
   Set.Clear on an empty frozen table are refused.

   lookup, items, len, count, first, Next never call checkMutable and never write.

   A refused operation returns the state it was given -- the SAME record, hence
   the same store at every address, the same nb / nbk / len / head / tailLink and
   the same flags: nothing was written, in particular no lazy init.

   What is abstracted: as in Concrete.v (heap = store indexed by (chain, slot),
   uint32 len/hash, total Equal, Hash cannot fail); freeze()'s calls of
   e.key.Freeze() / e.value.Freeze() act on the key and value OBJECTS, not on the
   table's memory, and keys / values are abstract here (C04 is about them).
   The error is the class (Frozen | Iterating), never the message. *)
From Coq Require Import List Bool NArith Arith.
From SV Require Import C12.Ops C12.Concrete C12.GuardedOps.
Import ListNotations.

Section Guarded.
  Context {K V : Type}.
  Variable eqb : K -> K -> bool.     (* Equal(k, e.key) *)
  Variable h : K -> N.               (* k.Hash(): arbitrary *)
  Variable vnone : V.                (* starlark.None *)

  Record gstate := mkG {
    tbl : @state K V;         (* table, bucket0/buckets, len, head, tailLink *)
    frozen : bool;
    itercount : N             (* uint32 *)
  }.

  (* new(Dict) / new(Set): the zero hashtable *)
  Definition g_zero : gstate := mkG zero_state false 0.
  (* NewDict(size) / NewSet(size) *)
  Definition g_init (size : nat) : res gstate := init size >>= fun t => Ok (mkG t false 0).

  Definition with_tbl (g : gstate) (t : @state K V) : gstate := mkG t (frozen g) (itercount g).

  Definition check_mutable (g : gstate) : option gerr :=
    if frozen g then Some Frozen
    else if N.ltb 0 (itercount g) then Some Iterating
    else None.

  (* ---- mutators ---- *)
  Definition g_insert (g : gstate) (k : K) (v : V) : res (gstate * gout K V) :=
    match check_mutable g with
    | Some e => Ok (g, GErr e)
    | None =>
        (* Concrete.insert begins with `if ht.table == nil { ht.init(1) }` *)
        insert eqb h insert_fuel (tbl g) k v >>= fun t => Ok (with_tbl g t, GO ONone)
    end.

  Definition g_delete (g : gstate) (k : K) : res (gstate * gout K V) :=
    match check_mutable g with
    | Some e => Ok (g, GErr e)
    | None => delete eqb h (tbl g) k >>= fun r => Ok (with_tbl g (fst r), GO (OVal (snd r)))
    end.

  Definition g_clear (g : gstate) : res (gstate * gout K V) :=
    match check_mutable g with
    | Some e => Ok (g, GErr e)
    | None => Ok (with_tbl g (clear (tbl g)), GO ONone)
    end.

  (* set_clear (library.go): if Len() > 0 { Clear() } *)
  Definition g_set_clear (g : gstate) : res (gstate * gout K V) :=
    if Nat.eqb (len (tbl g)) 0 then Ok (g, GO ONone) else g_clear g.

  (* dict_popitem / set_pop (library.go): first(); "empty" error; Delete(k).
     The guard is the one inside delete: it is reached only when the table is
     not empty. *)
  Definition g_pop_first (g : gstate) : res (gstate * gout K V) :=
    first (tbl g) >>= fun fk =>
    match fk with
    | None => Ok (g, GO (OKV None))
    | Some k =>
        match check_mutable g with
        | Some e => Ok (g, GErr e)
        | None =>
            delete eqb h (tbl g) k >>= fun r =>
            Ok (with_tbl g (fst r), GO (OKV (Some (k, match snd r with Some v => v | None => vnone end))))
        end
    end.

  (* ---- readers ---- *)
  Definition g_lookup (g : gstate) (k : K) : gstate * option V := (g, lookup eqb h (tbl g) k).
  Definition g_items (g : gstate) : res (gstate * list (K * V)) := items (tbl g) >>= fun l => Ok (g, l).
  Definition g_len (g : gstate) : gstate * nat := (g, len (tbl g)).
  Definition g_count (g : gstate) (ks : list K) : gstate * nat := (g, count eqb h (tbl g) ks).

  (* ---- iteration and freezing ---- *)
  (* iterate(): the new state and the iterator's field e (= ht.head) *)
  Definition g_iter_begin (g : gstate) : gstate * option addr :=
    (if frozen g then g else mkG (tbl g) false (u32_inc (itercount g)), head (tbl g)).

  Definition g_iter_done (g : gstate) : gstate :=
    if frozen g then g else mkG (tbl g) false (u32_dec (itercount g)).

  (* keyIterator.Next: if it.e != nil { *k = it.e.key; it.e = it.e.next; return true }; return false *)
  Definition iter_next (m : @store K V) (cur : option addr) : res (option (K * option addr)) :=
    match cur with
    | None => Ok None
    | Some a => match m a with
                | Some e => Ok (Some (ekey e, enext e))
                | None => Dangling
                end
    end.

  (* for it.Next(&k) { ... } *)
  Fixpoint iter_drain (fuel : nat) (m : @store K V) (cur : option addr) : res (list K) :=
    match iter_next m cur with
    | Ok None => Ok []
    | Ok (Some (k, nx)) =>
        match fuel with
        | 0 => OutOfFuel
        | S f => iter_drain f m nx >>= fun l => Ok (k :: l)
        end
    | OutOfFuel => OutOfFuel
    | Dangling => Dangling
    end.

  (* it := ht.iterate(); defer it.Done(); for it.Next(&k) { collect k } *)
  Definition g_iterate (g : gstate) : res (gstate * gout K V) :=
    let b := g_iter_begin g in
    iter_drain (len (tbl (fst b))) (mem (tbl (fst b))) (snd b) >>= fun ks =>
    Ok (g_iter_done (fst b), GKeysOut ks).

  Definition g_freeze (g : gstate) : gstate := mkG (tbl g) true (itercount g).

  (* ---- one event, a history ---- *)
  Definition g_step (g : gstate) (o : gop K V) : res (gstate * gout K V) :=
    match o with
    | GInsert k v => g_insert g k v
    | GDelete k => g_delete g k
    | GClear => g_clear g
    | GSetClear => g_set_clear g
    | GPopFirst => g_pop_first g
    | GLookup k => Ok (g, GO (OVal (snd (g_lookup g k))))
    | GItems => g_items g >>= fun r => Ok (fst r, GItemsOut (snd r))
    | GLen => Ok (g, GLenOut (snd (g_len g)))
    | GIsSubset ks => Ok (g, GO (OBool (Nat.eqb (snd (g_count g ks)) (len (tbl g)))))
    | GIterBegin => Ok (fst (g_iter_begin g), GO ONone)
    | GIterDone => Ok (g_iter_done g, GO ONone)
    | GIterate => g_iterate g
    | GFreeze => Ok (g_freeze g, GO ONone)
    end.

  Fixpoint g_run (g : gstate) (os : list (gop K V)) : res (gstate * list (gout K V)) :=
    match os with
    | [] => Ok (g, [])
    | o :: r => g_step g o >>= fun gx => g_run (fst gx) r >>= fun gy => Ok (fst gy, snd gx :: snd gy)
    end.

  (* what an observer of the public API sees after every event: the output, then
     Len() and Items() *)
  Fixpoint g_trace (g : gstate) (os : list (gop K V)) : res (list (gout K V * nat * list (K * V))) :=
    match os with
    | [] => Ok []
    | o :: r => g_step g o >>= fun gx =>
                items (tbl (fst gx)) >>= fun l =>
                g_trace (fst gx) r >>= fun t => Ok ((snd gx, len (tbl (fst gx)), l) :: t)
    end.

  (* the mutators and lookup as operations of Concrete.step *)
  Definition core (o : gop K V) : option (op K V) :=
    match o with
    | GInsert k v => Some (OInsert k v)
    | GDelete k => Some (ODelete k)
    | GClear => Some OClear
    | GPopFirst => Some OPopFirst
    | GLookup k => Some (OLookup k)
    | GIsSubset ks => Some (OIsSubset ks)
    | _ => None
    end.

  Definition is_mutator (o : gop K V) : bool :=
    match o with GInsert _ _ | GDelete _ | GClear | GSetClear | GPopFirst => true | _ => false end.
  Definition is_reader (o : gop K V) : bool :=
    match o with GLookup _ | GItems | GLen | GIsSubset _ => true | _ => false end.
End Guarded.
