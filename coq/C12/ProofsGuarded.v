(* C12 (guarded layer) -- proofs about Guarded.v: refusals leave the whole state
   equal, allowed operations are the Concrete.v operations, readers never write,
   iterate / Done balance modulo 2^32, and every history of guarded events agrees
   with the guarded association list. *)
From Coq Require Import List Bool NArith Arith Lia.
From SV Require Import C12.Ops C12.Spec C12.Concrete C12.ProofsBase C12.ProofsOps C12.ProofsSpec
     C12.ProofsCount C12.ProofsStep C12.GuardedOps C12.GuardedSpec C12.Guarded.
Import ListNotations.

(* ---- uint32 counter arithmetic ---- *)
Lemma two32_pos : two32 <> 0%N.
Proof. unfold two32. discriminate. Qed.

Lemma u32_small x : (x < two32)%N -> u32 x = x.
Proof. intros H. unfold u32. apply N.mod_small. auto. Qed.

Lemma u32_lt x : (u32 x < two32)%N.
Proof. unfold u32. apply N.mod_lt. apply two32_pos. Qed.

Lemma u32_dec_inc x : u32_dec (u32_inc x) = u32 x.
Proof.
  unfold u32_dec, u32_inc, u32.
  rewrite N.add_mod_idemp_l by apply two32_pos.
  replace (x + 1 + (two32 - 1))%N with (x + 1 * two32)%N by (unfold two32; lia).
  apply N.mod_add. apply two32_pos.
Qed.

Lemma u32_inc_dec x : u32_inc (u32_dec x) = u32 x.
Proof.
  unfold u32_dec, u32_inc, u32.
  rewrite N.add_mod_idemp_l by apply two32_pos.
  replace (x + (two32 - 1) + 1)%N with (x + 1 * two32)%N by (unfold two32; lia).
  apply N.mod_add. apply two32_pos.
Qed.

Lemma u32_inc_max : u32_inc (two32 - 1) = 0%N.
Proof. vm_compute. reflexivity. Qed.

Lemma u32_inc_pos x : (x < two32 - 1)%N -> (0 < u32_inc x)%N.
Proof.
  intros H. unfold u32_inc. rewrite u32_small; unfold two32 in *; lia.
Qed.

(* ---- the fold_left specification run, unfolded one event at a time ---- *)
Section SpecRun.
  Context {K V : Type}.
  Variable eqb : K -> K -> bool.
  Variable vnone : V.

  Let f := fun (acc : @gspec K V * list (gout K V)) o =>
             let r := gspec_step eqb vnone (fst acc) o in (fst r, snd acc ++ [snd r]).

  Lemma gspec_fold_acc os : forall g acc,
    fold_left f os (g, acc) = (fst (fold_left f os (g, [])), acc ++ snd (fold_left f os (g, []))).
  Proof.
    induction os as [|o r IH]; intros g acc; cbn [fold_left].
    - cbn. rewrite app_nil_r. reflexivity.
    - unfold f at 2 4 6. cbn [fst snd]. rewrite (IH _ (acc ++ _)). rewrite (IH _ ([] ++ _)).
      cbn [fst snd app]. rewrite <- app_assoc. reflexivity.
  Qed.

  Lemma gspec_run_nil g : gspec_run eqb vnone g [] = (g, []).
  Proof. reflexivity. Qed.

  Lemma gspec_run_cons g o r :
    gspec_run eqb vnone g (o :: r) =
    (fst (gspec_run eqb vnone (fst (gspec_step eqb vnone g o)) r),
     snd (gspec_step eqb vnone g o) :: snd (gspec_run eqb vnone (fst (gspec_step eqb vnone g o)) r)).
  Proof.
    unfold gspec_run. cbn [fold_left fst snd app]. fold f.
    change (f (g, []) o) with (fst (gspec_step eqb vnone g o), [] ++ [snd (gspec_step eqb vnone g o)]).
    rewrite gspec_fold_acc. reflexivity.
  Qed.
End SpecRun.

Section GuardedProofs.
  Context {K V : Type}.
  Variable eqb : K -> K -> bool.
  Variable h : K -> N.
  Variable vnone : V.

  Notation gstate := (@gstate K V).
  Notation R := (@R K V h).
  Notation check_mutable := (@check_mutable K V).
  Notation g_insert := (g_insert eqb h).
  Notation g_delete := (g_delete eqb h).
  Notation g_pop_first := (g_pop_first eqb h vnone).
  Notation g_step := (g_step eqb h vnone).
  Notation g_run := (g_run eqb h vnone).
  Notation gspec_step := (gspec_step eqb vnone).
  Notation gspec_run := (gspec_run eqb vnone).

  Definition err_of (g : gstate) : gerr := if frozen g then Frozen else Iterating.

  Lemma with_tbl_same (g : gstate) : with_tbl g (tbl g) = g.
  Proof. destruct g. reflexivity. Qed.

  (* checkMutable refuses exactly when frozen or itercount > 0, frozen first *)
  Lemma check_refuses (g : gstate) :
    frozen g = true \/ (0 < itercount g)%N -> check_mutable g = Some (err_of g).
  Proof.
    intros H. unfold Guarded.check_mutable, err_of. destruct (frozen g); auto.
    destruct H as [H|H]; [discriminate|]. apply N.ltb_lt in H. rewrite H. auto.
  Qed.

  Lemma check_allows (g : gstate) :
    frozen g = false -> itercount g = 0%N -> check_mutable g = None.
  Proof. intros H1 H2. unfold Guarded.check_mutable. rewrite H1, H2. reflexivity. Qed.

  Lemma check_allows_inv (g : gstate) :
    check_mutable g = None -> frozen g = false /\ itercount g = 0%N.
  Proof.
    unfold Guarded.check_mutable. destruct (frozen g); [discriminate|].
    destruct (N.ltb 0 (itercount g)) eqn:E; [discriminate|]. intros _. split; auto.
    apply N.ltb_ge in E. lia.
  Qed.

  (* ---- (1) a refused mutation returns the state it was given ---- *)
  Lemma pop_first_refused (g : gstate) e : check_mutable g = Some e ->
    forall g' r, g_pop_first g = Ok (g', r) ->
      g' = g /\ ((r = GErr e /\ head (tbl g) <> None) \/ (r = GO (OKV None) /\ head (tbl g) = None)).
  Proof.
    intros Hc g' r. unfold Guarded.g_pop_first, first. rewrite Hc.
    destruct (head (tbl g)) as [a|].
    - destruct (mem (tbl g) a); cbn; [|discriminate]. intros E. injection E as <- <-.
      split; auto. left. split; auto. discriminate.
    - cbn. intros E. injection E as <- <-. auto.
  Qed.

  Lemma pop_first_refused_R (g : gstate) e l : check_mutable g = Some e -> R (tbl g) l ->
    g_pop_first g = Ok (g, match l with [] => GO (OKV None) | _ :: _ => GErr e end).
  Proof.
    intros Hc HR. unfold Guarded.g_pop_first. rewrite (first_ok h _ _ HR). cbn [bind].
    destruct l; auto. rewrite Hc. auto.
  Qed.

  Theorem refused_untouched (g : gstate) :
    frozen g = true \/ (0 < itercount g)%N ->
    let e := if frozen g then Frozen else Iterating in
    (forall k v, g_insert g k v = Ok (g, GErr e)) /\
    (forall k, g_delete g k = Ok (g, GErr e)) /\
    g_clear g = Ok (g, GErr e) /\
    g_set_clear g = Ok (g, if Nat.eqb (len (tbl g)) 0 then GO ONone else GErr e) /\
    (forall g' r, g_pop_first g = Ok (g', r) ->
        g' = g /\ ((r = GErr e /\ head (tbl g) <> None) \/ (r = GO (OKV None) /\ head (tbl g) = None))) /\
    (forall l, R (tbl g) l ->
        g_pop_first g = Ok (g, match l with [] => GO (OKV None) | _ :: _ => GErr e end)).
  Proof.
    intros H e. pose proof (check_refuses g H) as Hc. fold (err_of g) in e. subst e.
    repeat split.
    - intros k v. unfold Guarded.g_insert. rewrite Hc. auto.
    - intros k. unfold Guarded.g_delete. rewrite Hc. auto.
    - unfold g_clear. rewrite Hc. auto.
    - unfold g_set_clear, g_clear. rewrite Hc. destruct (Nat.eqb (len (tbl g)) 0); auto.
    - apply (pop_first_refused g _ Hc g' r H0).
    - apply (pop_first_refused g _ Hc g' r H0).
    - intros l HR. apply pop_first_refused_R; auto.
  Qed.

  (* every mutator event, in one statement: whatever a refused event returns, the
     state is the one given *)
  Lemma refused_step_same (g : gstate) o :
    frozen g = true \/ (0 < itercount g)%N -> is_mutator o = true ->
    forall g' r, g_step g o = Ok (g', r) -> g' = g.
  Proof.
    intros H Hm g' r. destruct (refused_untouched g H) as (H1 & H2 & H3 & H4 & H5 & _).
    destruct o; try discriminate; cbn [Guarded.g_step].
    - rewrite H1. intros E. injection E as <- _. auto.
    - rewrite H2. intros E. injection E as <- _. auto.
    - rewrite H3. intros E. injection E as <- _. auto.
    - rewrite H4. intros E. injection E as <- _. auto.
    - intros E. apply (H5 _ _ E).
  Qed.

  (* ---- (2) an allowed operation is the Concrete.v operation ---- *)
  Definition lift (g : gstate) (r : res (@state K V * out K V)) : res (gstate * gout K V) :=
    r >>= fun x => Ok (with_tbl g (fst x), GO (snd x)).

  Lemma allowed_is_concrete (g : gstate) o co :
    check_mutable g = None -> core o = Some co ->
    g_step g o = lift g (step eqb h vnone (tbl g) co).
  Proof.
    intros Hc Ho. unfold lift.
    destruct o; cbn in Ho; try discriminate; injection Ho as <-; cbn [Guarded.g_step Concrete.step].
    - unfold Guarded.g_insert. rewrite Hc. destruct (insert eqb h insert_fuel (tbl g) k v); reflexivity.
    - unfold Guarded.g_delete. rewrite Hc. destruct (delete eqb h (tbl g) k) as [[t w]| |]; reflexivity.
    - unfold g_clear. rewrite Hc. reflexivity.
    - unfold Guarded.g_pop_first. rewrite Hc. destruct (first (tbl g)) as [[k|]| |]; cbn [bind fst snd]; auto.
      + destruct (delete eqb h (tbl g) k) as [[t w]| |]; reflexivity.
      + rewrite with_tbl_same. reflexivity.
    - cbn. rewrite with_tbl_same. reflexivity.
    - cbn. rewrite with_tbl_same. reflexivity.
  Qed.

  Hypothesis eqb_spec : forall a b, eqb a b = true <-> a = b.

  Lemma allowed_refines (g : gstate) l o co :
    check_mutable g = None -> core o = Some co -> R (tbl g) l ->
    exists t', g_step g o = Ok (with_tbl g t', GO (snd (spec_step eqb vnone l co))) /\
               R t' (fst (spec_step eqb vnone l co)).
  Proof.
    intros Hc Ho HR. rewrite (allowed_is_concrete g o co Hc Ho).
    destruct (step_ok eqb eqb_spec h vnone (tbl g) l co HR) as (t' & H1 & R1).
    exists t'. unfold lift. rewrite H1. cbn. auto.
  Qed.

  (* ---- (3) readers ---- *)
  Lemma drain_walk fuel : forall (m : @store K V) cur l,
    walk fuel m cur = Ok l -> iter_drain fuel m cur = Ok (map fst l).
  Proof.
    induction fuel as [|f IH]; intros m cur l.
    - destruct cur as [a|]; cbn.
      + discriminate.
      + intros E. injection E as <-. reflexivity.
    - destruct cur as [a|]; cbn.
      + destruct (m a) as [e|]; [|discriminate].
        destruct (walk f m (enext e)) as [l'| |] eqn:E; cbn; try discriminate.
        intros E'. injection E' as <-. rewrite (IH _ _ _ E). reflexivity.
      + intros E. injection E as <-. reflexivity.
  Qed.

  Lemma reader_same (g : gstate) o :
    is_reader o = true -> forall g' r, g_step g o = Ok (g', r) -> g' = g.
  Proof.
    intros Hr g' r. destruct o; try discriminate; cbn [Guarded.g_step].
    - intros E. injection E as <- _. auto.
    - unfold g_items. destruct (items (tbl g)); cbn; try discriminate. intros E. injection E as <- _. auto.
    - intros E. injection E as <- _. auto.
    - intros E. injection E as <- _. auto.
  Qed.

  Lemma iterate_keys (g : gstate) l : R (tbl g) l ->
    g_iterate g = Ok (g_iter_done (fst (g_iter_begin g)), GKeysOut (keys l)).
  Proof.
    intros HR. unfold g_iterate. destruct (R_items h _ _ HR) as [Hit _]. unfold items in Hit.
    assert (E : tbl (fst (g_iter_begin g)) = tbl g).
    { unfold g_iter_begin. cbn [fst]. destruct (frozen g); reflexivity. }
    rewrite E. cbn [g_iter_begin snd]. rewrite (drain_walk _ _ _ _ Hit). reflexivity.
  Qed.

  Theorem reads_ok (g : gstate) l : R (tbl g) l ->
    (forall k, g_step g (GLookup k) = Ok (g, GO (OVal (sp_lookup eqb l k)))) /\
    g_step g GItems = Ok (g, GItemsOut l) /\
    g_step g GLen = Ok (g, GLenOut (length l)) /\
    (forall ks, g_step g (GIsSubset ks) = Ok (g, GO (OBool (sp_issubset eqb l ks)))) /\
    (forall ks, fst (g_count eqb h g ks) = g) /\
    (frozen g = true ->
       g_iter_begin g = (g, head (tbl g)) /\ g_iter_done g = g /\
       g_step g GIterBegin = Ok (g, GO ONone) /\ g_step g GIterDone = Ok (g, GO ONone) /\
       g_step g GIterate = Ok (g, GKeysOut (keys l)) /\
       g_step g GFreeze = Ok (g, GO ONone)).
  Proof.
    intros HR. destruct (R_items h _ _ HR) as [Hit Hlen]. repeat split.
    - intros k. cbn. rewrite (lookup_ok eqb eqb_spec h _ _ k HR). reflexivity.
    - cbn. unfold g_items. rewrite Hit. reflexivity.
    - cbn. rewrite Hlen. reflexivity.
    - intros ks. cbn. fold (is_subset eqb h (tbl g) ks).
      rewrite (is_subset_ok eqb eqb_spec h _ _ ks HR). reflexivity.
    - unfold g_iter_begin. rewrite H. reflexivity.
    - unfold g_iter_done. rewrite H. reflexivity.
    - cbn. unfold g_iter_begin. rewrite H. reflexivity.
    - cbn. unfold g_iter_done. rewrite H. reflexivity.
    - cbn [Guarded.g_step]. rewrite (iterate_keys g l HR). unfold g_iter_begin, g_iter_done. rewrite H.
      cbn [fst]. rewrite H. reflexivity.
    - cbn. unfold g_freeze. destruct g as [t fz ic]. cbn in *. subst fz. reflexivity.
  Qed.

  (* ---- (4) iterate / Done ---- *)
  Theorem iterate_done_balanced (g : gstate) : frozen g = false ->
    g_iter_done (fst (g_iter_begin g)) = mkG (tbl g) false (u32 (itercount g)) /\
    g_iter_begin (g_iter_done g) = (mkG (tbl g) false (u32 (itercount g)), head (tbl g)) /\
    ((itercount g < two32)%N -> g_iter_done (fst (g_iter_begin g)) = g) /\
    ((itercount g < two32 - 1)%N -> check_mutable (fst (g_iter_begin g)) = Some Iterating) /\
    (itercount g = (two32 - 1)%N -> check_mutable (fst (g_iter_begin g)) = None).
  Proof.
    intros Hf. unfold g_iter_begin, g_iter_done. rewrite Hf. cbn [fst frozen tbl itercount].
    repeat split.
    - rewrite u32_dec_inc. reflexivity.
    - rewrite u32_inc_dec. reflexivity.
    - intros Hlt. rewrite u32_dec_inc, u32_small by auto. destruct g as [t fz ic]. cbn in *. subst fz. reflexivity.
    - intros Hlt. unfold Guarded.check_mutable. cbn [frozen itercount].
      pose proof (u32_inc_pos _ Hlt) as Hp. apply N.ltb_lt in Hp. rewrite Hp. reflexivity.
    - intros ->. unfold Guarded.check_mutable. cbn [frozen itercount]. rewrite u32_inc_max. reflexivity.
  Qed.

  (* ---- (5) every history ---- *)
  Definition GR (g : gstate) (gs : @gspec K V) : Prop :=
    R (tbl g) (sl gs) /\ frozen g = sfrozen gs /\ itercount g = siter gs.

  Lemma GR_check g gs : GR g gs -> sp_check gs = check_mutable g.
  Proof. intros (_ & H1 & H2). unfold sp_check, Guarded.check_mutable. rewrite H1, H2. reflexivity. Qed.

  Lemma shape_ok g gs o co : GR g gs ->
    g_step g o = match check_mutable g with
                 | Some e => Ok (g, GErr e)
                 | None => lift g (step eqb h vnone (tbl g) co)
                 end ->
    exists g', g_step g o = Ok (g', snd (guarded eqb vnone gs co)) /\ GR g' (fst (guarded eqb vnone gs co)).
  Proof.
    intros HG Hs. rewrite Hs. pose proof (GR_check g gs HG) as Hc. destruct HG as (HR & Hf & Hi).
    unfold guarded. rewrite Hc. destruct (check_mutable g) as [e|] eqn:E.
    - exists g. cbn [fst snd]. split; auto. repeat split; auto.
    - destruct (step_ok eqb eqb_spec h vnone (tbl g) (sl gs) co HR) as (t' & H1 & R1).
      exists (with_tbl g t'). unfold lift. rewrite H1. cbn [bind fst snd]. split; auto.
      repeat split; auto.
  Qed.

  Lemma gstep_ok g gs o : GR g gs ->
    exists g', g_step g o = Ok (g', snd (gspec_step gs o)) /\ GR g' (fst (gspec_step gs o)).
  Proof.
    intros HG. pose proof HG as (HR & Hf & Hi).
    destruct (reads_ok g (sl gs) HR) as (L1 & L2 & L3 & L4 & _ & _).
    pose proof (first_ok h _ _ HR) as Hfst.
    destruct (R_items h _ _ HR) as [_ Hlen].
    destruct o; cbn [GuardedSpec.gspec_step].
    - (* insert *) apply shape_ok; auto. destruct (check_mutable g) eqn:E.
      + cbn. unfold Guarded.g_insert. rewrite E. reflexivity.
      + apply allowed_is_concrete; [exact E | reflexivity].
    - (* delete *) apply shape_ok; auto. destruct (check_mutable g) eqn:E.
      + cbn. unfold Guarded.g_delete. rewrite E. reflexivity.
      + apply allowed_is_concrete; [exact E | reflexivity].
    - (* clear *) apply shape_ok; auto.
    - (* s.clear() *) cbn [Guarded.g_step]. unfold g_set_clear. rewrite Hlen.
      destruct (sl gs) as [|kv r] eqn:El; cbn [length Nat.eqb].
      + exists g. split; auto.
      + change (g_clear g) with (g_step g GClear). apply shape_ok; auto.
    - (* popitem / pop *) destruct (sl gs) as [|kv r] eqn:El.
      + cbn [Guarded.g_step]. unfold Guarded.g_pop_first. rewrite Hfst. cbn. exists g. split; auto.
      + apply shape_ok; auto. destruct (check_mutable g) eqn:E.
        * cbn [Guarded.g_step]. unfold Guarded.g_pop_first. rewrite Hfst. cbn [bind]. rewrite E. reflexivity.
        * apply allowed_is_concrete; [exact E | reflexivity].
    - (* lookup *) rewrite L1. exists g. split; auto.
    - (* items *) rewrite L2. exists g. split; auto.
    - (* len *) rewrite L3. exists g. split; auto.
    - (* issubset *) rewrite L4. exists g. split; auto.
    - (* iterate() *) cbn [Guarded.g_step]. exists (fst (g_iter_begin g)). split; auto.
      unfold g_iter_begin. rewrite <- Hf, <- Hi. cbn [fst snd]. destruct (frozen g) eqn:Ef; auto.
      unfold GR. cbn. auto.
    - (* Done() *) cbn [Guarded.g_step]. exists (g_iter_done g). split; auto.
      unfold g_iter_done. rewrite <- Hf, <- Hi. cbn [fst snd]. destruct (frozen g) eqn:Ef; auto.
      unfold GR. cbn. auto.
    - (* a whole loop *) cbn [Guarded.g_step]. rewrite (iterate_keys g _ HR).
      exists (g_iter_done (fst (g_iter_begin g))). split; auto.
      unfold g_iter_begin, g_iter_done. rewrite <- Hf, <- Hi. cbn [fst snd].
      destruct (frozen g) eqn:Ef; cbn [fst frozen tbl itercount]; rewrite ?Ef; auto.
      unfold GR. cbn. auto.
    - (* freeze *) cbn [Guarded.g_step]. exists (g_freeze g). split; auto.
      unfold GR, g_freeze. cbn. auto.
  Qed.

  Theorem grun_ok os : forall g gs, GR g gs ->
    exists g', g_run g os = Ok (g', snd (gspec_run gs os)) /\ GR g' (fst (gspec_run gs os)).
  Proof.
    induction os as [|o r IH]; intros g gs HG.
    - rewrite gspec_run_nil. cbn. eauto.
    - rewrite gspec_run_cons. cbn [Guarded.g_run fst snd].
      destruct (gstep_ok g gs o HG) as (g1 & H1 & G1). rewrite H1. cbn [bind fst snd].
      destruct (IH _ _ G1) as (g2 & H2 & G2). rewrite H2. cbn [bind fst snd]. eauto.
  Qed.

  Lemma GR_zero : GR (@g_zero K V) (@gs_empty K V).
  Proof. unfold GR. cbn. repeat split; auto. apply R_zero. Qed.
End GuardedProofs.

(* ---- the statements of Properties.v ---- *)
Section GuardedStatements.
  Context {K V : Type}.
  Variable eqb : K -> K -> bool.
  Variable h : K -> N.
  Variable vnone : V.
  Hypothesis eqb_spec : forall a b, eqb a b = true <-> a = b.

  Lemma set_clear_allowed (g : @gstate K V) l :
    check_mutable g = None -> R h (tbl g) l ->
    exists t', g_set_clear g = Ok (with_tbl g t', GO ONone) /\ R h t' [].
  Proof.
    intros Hc HR. unfold g_set_clear. destruct (R_items h _ _ HR) as [_ Hlen]. rewrite Hlen.
    destruct l as [|kv r]; cbn [length Nat.eqb].
    - exists (tbl g). rewrite with_tbl_same. auto.
    - unfold g_clear. rewrite Hc. exists (clear (tbl g)). split; auto. apply (R_empty_table h).
  Qed.

  Lemma guarded_refines_all (g : @gstate K V) :
    frozen g = false -> itercount g = 0%N ->
    (forall o co, core o = Some co ->
       g_step eqb h vnone g o =
       step eqb h vnone (tbl g) co >>= fun r => Ok (with_tbl g (fst r), GO (snd r))) /\
    (forall l o co, core o = Some co -> R h (tbl g) l ->
       exists t', g_step eqb h vnone g o = Ok (with_tbl g t', GO (snd (spec_step eqb vnone l co))) /\
                  R h t' (fst (spec_step eqb vnone l co))) /\
    (forall l, R h (tbl g) l ->
       exists t', g_step eqb h vnone g GSetClear = Ok (with_tbl g t', GO ONone) /\ R h t' []).
  Proof.
    intros Hf Hi. pose proof (check_allows g Hf Hi) as Hc. repeat split.
    - intros o co Ho. apply (allowed_is_concrete eqb h vnone g o co Hc Ho).
    - intros l o co Ho HR. apply (allowed_refines eqb h vnone eqb_spec g l o co Hc Ho HR).
    - intros l HR. apply (set_clear_allowed g l Hc HR).
  Qed.

  Lemma reads_never_write_all (g : @gstate K V) :
    (forall o, is_reader o = true -> forall g' r, g_step eqb h vnone g o = Ok (g', r) -> g' = g) /\
    (forall l, R h (tbl g) l ->
      (forall k, g_step eqb h vnone g (GLookup k) = Ok (g, GO (OVal (sp_lookup eqb l k)))) /\
      g_step eqb h vnone g GItems = Ok (g, GItemsOut l) /\
      g_step eqb h vnone g GLen = Ok (g, GLenOut (length l)) /\
      (forall ks, g_step eqb h vnone g (GIsSubset ks) = Ok (g, GO (OBool (sp_issubset eqb l ks)))) /\
      (forall ks, fst (g_count eqb h g ks) = g) /\
      (frozen g = true ->
         g_iter_begin g = (g, head (tbl g)) /\ g_iter_done g = g /\
         g_step eqb h vnone g GIterBegin = Ok (g, GO ONone) /\
         g_step eqb h vnone g GIterDone = Ok (g, GO ONone) /\
         g_step eqb h vnone g GIterate = Ok (g, GKeysOut (keys l)) /\
         g_step eqb h vnone g GFreeze = Ok (g, GO ONone))).
  Proof.
    split.
    - intros o Ho. apply (reader_same eqb h vnone g o Ho).
    - intros l HR. apply (reads_ok eqb h vnone eqb_spec g l HR).
  Qed.

  Lemma history_guarded_all os :
    (forall (g : @gstate K V) l, R h (tbl g) l ->
       let gs := mkGS l (frozen g) (itercount g) in
       exists g', g_run eqb h vnone g os = Ok (g', snd (gspec_run eqb vnone gs os)) /\
                  R h (tbl g') (sl (fst (gspec_run eqb vnone gs os))) /\
                  frozen g' = sfrozen (fst (gspec_run eqb vnone gs os)) /\
                  itercount g' = siter (fst (gspec_run eqb vnone gs os))) /\
    (let final := fst (gspec_run eqb vnone gs_empty os) in
     exists g', g_run eqb h vnone g_zero os = Ok (g', snd (gspec_run eqb vnone gs_empty os)) /\
                items (tbl g') = Ok (sl final) /\ len (tbl g') = length (sl final) /\
                (forall k, lookup eqb h (tbl g') k = sp_lookup eqb (sl final) k) /\
                frozen g' = sfrozen final /\ itercount g' = siter final).
  Proof.
    split.
    - intros g l HR gs.
      assert (HG : GR h g gs) by (unfold GR; subst gs; cbn; auto).
      destruct (grun_ok eqb h vnone eqb_spec os g gs HG) as (g' & H1 & HR' & Hf & Hi).
      exists g'. auto.
    - intros final.
      destruct (grun_ok eqb h vnone eqb_spec os g_zero gs_empty (GR_zero h)) as (g' & H1 & HR' & Hf & Hi).
      exists g'. split; auto. destruct (R_items h _ _ HR') as [H2 H3]. repeat split; auto.
      intros k. apply (lookup_ok eqb eqb_spec h); auto.
  Qed.
End GuardedStatements.
