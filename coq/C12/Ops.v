(* C12 -- the operation alphabet and the outputs shared by the concrete model
   (Concrete.v) and the association-list specification (Spec.v).  Types only. *)
From Coq Require Import List.

Section Ops.
  Context {K V : Type}.

  (* One operation of a history on ONE dict / set variable x.  Operations that
     build a new collection (|, &, -, ^, union(...), ...) rebind x to the result,
     the second operand is given by the sequence its iterator yields. *)
  Inductive op :=
  | OInsert (k : K) (v : V)            (* Dict.SetKey, d[k] = v, Set.Insert (v = None)          *)
  | OLookup (k : K)                    (* Dict.Get, d.get(k), k in d, Set.Has                     *)
  | ODelete (k : K)                    (* Dict.Delete, d.pop(k[, dflt]), Set.Delete, s.remove(k)  *)
  | ODiscard (k : K)                   (* s.discard(k): Has, then Delete only when found          *)
  | OClear                             (* Clear, d.clear(), s.clear()                             *)
  | OPopFirst                          (* d.popitem(), s.pop(): first() then Delete               *)
  | OSetDefault (k : K) (v : V)        (* d.setdefault(k, v); s.add(k): lookup, insert if absent  *)
  | OUpdate (l : list (K * V))         (* d.update(l), d |= d2, s.update(l), Set.InsertAll        *)
  | ODictUnion (l : list (K * V))      (* x = x | d2   (Dict.Union)                               *)
  | OSetUnion (l : list K)             (* x = x | s2, x.union(l)           (clone, then insert)   *)
  | OSetInter (l : list K)             (* x = x & s2, x.intersection(l)                           *)
  | OSetDiff (l : list K)              (* x = x - s2, x.difference(l)      (clone, then delete)   *)
  | OSetSymDiff (l : list K)           (* x = x ^ s2, x.symmetric_difference(l)                   *)
  | OIsSubset (l : list K)             (* x.issubset(l), x <= s2           (hashtable.count)      *)
  | OIsSuperset (l : list K).          (* x.issuperset(l), x >= s2         (Has for every element) *)

  Inductive out :=
  | ONone                              (* nothing observable beyond the state                     *)
  | OVal (r : option V)                (* lookup/delete/setdefault: the value, None = not found   *)
  | OKV (r : option (K * V))           (* popitem / pop: the removed pair, None = "empty" error   *)
  | OBool (b : bool).                  (* issubset / issuperset                                   *)
End Ops.
Arguments op : clear implicits.
Arguments out : clear implicits.
