(* C12 -- executable model of starlark/hashtable.go (and of the derived
   operations of value.go / library.go built on it).  No proofs here.

   What is kept from the Go code
   -----------------------------
   * the table is an array of `nb` bucket chains; a chain is a linked list of
     buckets of 8 entries.  An entry is addressed by (chain, 8*bucket + slot);
     `nbk c` is the number of buckets of chain c, so the Go loops
         for p := &table[c]; p != nil; p = p.next { for i := range p.entries {..} }
     visit the addresses (c,0), (c,1), ... (c, 8*nbk c - 1) in this order.
   * memory is a store `mem : addr -> option entry`; `None` is the zeroed entry
     (hash 0 = empty slot).  Entries hold hash, key, value, `next` (an entry
     pointer, `option addr`) and `prevLink` (a pointer to a pointer cell:
     `LHead` = &ht.head, `LNext a` = &a.next).  ht.head / ht.tailLink likewise.
     Every pointer write of insert / delete is one store update, in the order of
     the code.
   * insert scans the WHOLE chain, remembers the LAST empty slot seen, updates in
     place when the key is found, otherwise tests `overloaded`, grows (walk the
     old list through the `next` pointers, re-insert into a fresh table of twice
     the size) and retries, appends a bucket when no slot is free, links the new
     entry at the tail.  delete unlinks through prevLink, moves tailLink when the
     last entry goes, zeroes the slot.  clear resets every chain to one empty
     bucket.  lookup, first, items (walk from head), len.
   * the hash function h : K -> N is a Section variable: arbitrary, so any
     collision pattern is covered; hash 0 is remapped to 1 as the code does.
     The chain of a hash is `h & (nb-1)`.

   What is abstracted (stated again in Properties.v)
   -------------------------------------------------
   * Go's garbage-collected heap: an address is (chain, index), a fresh table
     after grow / in a clone is a fresh store.  The inline `bucket0` array is not
     distinguished from a heap bucket.
   * uint32 `len` and `hash` wrap-around: len is a natural number, h is any N.
     `overloaded`'s float64 comparison elems >= 6.5*buckets is written
     2*elems >= 13*buckets (exact below 2^52 elements).
   * Equal(k, e.key) is a total boolean `eqb` (no "excessively recursive"
     errors), Hash() does not fail (unhashable keys are rejected before the
     table is touched), frozen / itercount guards (checkMutable) are the subject
     of C04 / C06 and are not modelled: the table is mutable and not iterated.
   * a nil tailLink (zero hashtable before init) is written LHead; it is never
     dereferenced before init sets it.
   Errors of the model: `OutOfFuel` (a loop bound of the model was exceeded: the
   order list is longer than len or cyclic, or insert->grow->insert recursed
   deeper than the fuel), `Dangling` (a link points into an empty slot).  Both
   are proved unreachable from states satisfying the invariant. *)
From Coq Require Import List Bool NArith Arith.
From SV Require Import C12.Ops.
Import ListNotations.

Inductive res (A : Type) := Ok (a : A) | OutOfFuel | Dangling.
Arguments Ok {A} a.
Arguments OutOfFuel {A}.
Arguments Dangling {A}.

Definition bind {A B} (x : res A) (f : A -> res B) : res B :=
  match x with Ok a => f a | OutOfFuel => OutOfFuel | Dangling => Dangling end.
Notation "x >>= f" := (bind x f) (at level 50, left associativity).

Definition addr := (nat * nat)%type.          (* chain number, 8*bucket + slot *)
Inductive link := LHead | LNext (a : addr).   (* &ht.head | &a.next *)

Definition addr_eqb (a b : addr) : bool :=
  Nat.eqb (fst a) (fst b) && Nat.eqb (snd a) (snd b).

(* const bucketSize = 8 *)
Definition bucketSize : nat := 8.

(* func overloaded(elems, buckets int) bool:
     elems >= bucketSize && float64(elems) >= 6.5*float64(buckets) *)
Definition overloaded (elems buckets : nat) : bool :=
  (bucketSize <=? elems) && (13 * buckets <=? 2 * elems).

Section Concrete.
  Context {K V : Type}.
  Variable eqb : K -> K -> bool.     (* Equal(k, e.key) *)
  Variable h : K -> N.               (* k.Hash(): arbitrary *)
  Variable vnone : V.                (* starlark.None *)

  Record entry := mkEntry {
    ehash : N;                (* nonzero => in use *)
    ekey : K;
    evalue : V;
    enext : option addr;      (* next *entry *)
    eprev : link              (* prevLink **entry *)
  }.

  Definition store := addr -> option entry.

  Record state := mkState {
    nb : nat;                 (* len(ht.table); 0 = nil table *)
    nbk : nat -> nat;         (* buckets in chain c *)
    mem : store;
    len : nat;
    head : option addr;
    tail : link               (* tailLink *)
  }.

  Definition upd (m : store) (a : addr) (x : option entry) : store :=
    fun b => if addr_eqb b a then x else m b.

  (* h, err := k.Hash(); if h == 0 { h = 1 } *)
  Definition hashk (k : K) : N := if N.eqb (h k) 0 then 1%N else h k.

  (* h & (uint32(len(ht.table) - 1)) *)
  Definition chain_of (hk : N) (n : nat) : nat :=
    N.to_nat (N.land hk (N.of_nat n - 1)).

  Definition chain_idxs (s : state) (c : nat) : list nat := seq 0 (bucketSize * nbk s c).

  Definition empty_table (n : nat) : state :=
    {| nb := n; nbk := fun _ => 1; mem := fun _ => None; len := 0; head := None; tail := LHead |}.

  (* the zero hashtable: table == nil *)
  Definition zero_state : state :=
    {| nb := 0; nbk := fun _ => 0; mem := fun _ => None; len := 0; head := None; tail := LHead |}.

  (* init: nb := 1; for overloaded(size, nb) { nb <<= 1 } *)
  Fixpoint init_nb (fuel size n : nat) : res nat :=
    match fuel with
    | 0 => OutOfFuel
    | S f => if overloaded size n then init_nb f size (2 * n) else Ok n
    end.
  Definition init (size : nat) : res state :=
    init_nb (S size) size 1 >>= fun n => Ok (empty_table n).

  (* for e := head; e != nil; e = e.next : the (key, value) pairs in list order *)
  Fixpoint walk (fuel : nat) (m : store) (cur : option addr) : res (list (K * V)) :=
    match cur with
    | None => Ok []
    | Some a =>
        match fuel with
        | 0 => OutOfFuel
        | S f =>
            match m a with
            | None => Dangling
            | Some e => walk f m (enext e) >>= fun l => Ok ((ekey e, evalue e) :: l)
            end
        end
    end.
  Definition items (s : state) : res (list (K * V)) := walk (len s) (mem s) (head s).

  (* ---- the chain scans ---- *)
  Inductive scan_res := Found (a : addr) (e : entry) | NotFound (ins : option addr).

  (* the loop of insert: whole chain; `ins` is the last empty slot seen *)
  Fixpoint scan_insert (m : store) (c : nat) (hk : N) (k : K) (idxs : list nat)
           (ins : option addr) : scan_res :=
    match idxs with
    | [] => NotFound ins
    | i :: r =>
        match m (c, i) with
        | None => scan_insert m c hk k r (Some (c, i))       (* e.hash == 0: make a note *)
        | Some e =>
            if N.eqb (ehash e) hk then
              if eqb k (ekey e) then Found (c, i) e
              else scan_insert m c hk k r ins
            else if N.eqb (ehash e) 0 then scan_insert m c hk k r (Some (c, i))
            else scan_insert m c hk k r ins
        end
    end.

  (* the loop of lookup / delete: first entry with e.hash == h && Equal(k, e.key) *)
  Fixpoint scan_find (m : store) (c : nat) (hk : N) (k : K) (idxs : list nat)
    : option (addr * entry) :=
    match idxs with
    | [] => None
    | i :: r =>
        match m (c, i) with
        | Some e => if N.eqb (ehash e) hk && eqb k (ekey e) then Some ((c, i), e)
                    else scan_find m c hk k r
        | None => scan_find m c hk k r
        end
    end.

  Definition with_next (e : entry) (n : option addr) : entry :=
    {| ehash := ehash e; ekey := ekey e; evalue := evalue e; enext := n; eprev := eprev e |}.
  Definition with_prev (e : entry) (p : link) : entry :=
    {| ehash := ehash e; ekey := ekey e; evalue := evalue e; enext := enext e; eprev := p |}.
  Definition with_value (e : entry) (v : V) : entry :=
    {| ehash := ehash e; ekey := ekey e; evalue := v; enext := enext e; eprev := eprev e |}.

  (* *l = v  for a link cell l: returns the new store and head *)
  Definition store_link (m : store) (hd : option addr) (l : link) (v : option addr)
    : res (store * option addr) :=
    match l with
    | LHead => Ok (m, v)
    | LNext t => match m t with
                 | Some e => Ok (upd m t (Some (with_next e v)), hd)
                 | None => Dangling
                 end
    end.

  (* insert.hash = h; insert.key = k; insert.value = v;
     insert.prevLink = ht.tailLink; *ht.tailLink = insert;
     ht.tailLink = &insert.next; ht.len++ *)
  Definition link_entry (s : state) (nbk' : nat -> nat) (a : addr) (hk : N) (k : K) (v : V)
    : res state :=
    let m1 := upd (mem s) a (Some (mkEntry hk k v None (tail s))) in
    store_link m1 (head s) (tail s) (Some a) >>= fun mh =>
    Ok {| nb := nb s; nbk := nbk'; mem := fst mh; len := S (len s); head := snd mh; tail := LNext a |}.

  Definition fold_res {A B} (f : A -> B -> res A) : A -> list B -> res A :=
    fix go (a : A) (l : list B) : res A :=
      match l with
      | [] => Ok a
      | x :: r => f a x >>= fun a' => go a' r
      end.

  Fixpoint insert (fuel : nat) (s : state) (k : K) (v : V) : res state :=
    match fuel with
    | 0 => OutOfFuel
    | S f =>
        (* if ht.table == nil { ht.init(1) } *)
        let s := if Nat.eqb (nb s) 0
                 then {| nb := 1; nbk := fun _ => 1; mem := fun _ => None;
                         len := len s; head := head s; tail := LHead |}
                 else s in
        let hk := hashk k in
        let c := chain_of hk (nb s) in
        match scan_insert (mem s) c hk k (chain_idxs s c) None with
        | Found a e =>
            (* Key already present; update value. *)
            Ok {| nb := nb s; nbk := nbk s; mem := upd (mem s) a (Some (with_value e v));
                  len := len s; head := head s; tail := tail s |}
        | NotFound ins =>
            if overloaded (len s) (nb s) then
              (* grow: fresh table of twice the size, re-insert in list order; goto retry *)
              items s >>= fun l =>
              fold_res (fun st kv => insert f st (fst kv) (snd kv)) (empty_table (2 * nb s)) l >>= fun s' =>
              insert f s' k v
            else
              match ins with
              | Some a => link_entry s (nbk s) a hk k v
              | None =>
                  (* No space in existing buckets.  Add a new one to the bucket list. *)
                  link_entry s (fun c' => if Nat.eqb c' c then S (nbk s c) else nbk s c')
                             (c, bucketSize * nbk s c) hk k v
              end
        end
    end.

  Definition insert_fuel : nat := 2.
  Definition insert_all (s : state) (l : list (K * V)) : res state :=
    fold_res (fun st kv => insert insert_fuel st (fst kv) (snd kv)) s l.

  Definition lookup (s : state) (k : K) : option V :=
    if Nat.eqb (nb s) 0 then None
    else
      let hk := hashk k in
      let c := chain_of hk (nb s) in
      match scan_find (mem s) c hk k (chain_idxs s c) with
      | Some (_, e) => Some (evalue e)
      | None => None
      end.

  Definition delete (s : state) (k : K) : res (state * option V) :=
    if Nat.eqb (nb s) 0 then Ok (s, None)
    else
      let hk := hashk k in
      let c := chain_of hk (nb s) in
      match scan_find (mem s) c hk k (chain_idxs s c) with
      | None => Ok (s, None)
      | Some (a, e) =>
          (* *e.prevLink = e.next *)
          store_link (mem s) (head s) (eprev e) (enext e) >>= fun mh =>
          let m1 := fst mh in
          match enext e with
          | None =>
              (* ht.tailLink = e.prevLink; *e = entry{}; ht.len-- *)
              Ok ({| nb := nb s; nbk := nbk s; mem := upd m1 a None; len := len s - 1;
                     head := snd mh; tail := eprev e |}, Some (evalue e))
          | Some n =>
              (* e.next.prevLink = e.prevLink; *e = entry{}; ht.len-- *)
              match m1 n with
              | None => Dangling
              | Some en =>
                  Ok ({| nb := nb s; nbk := nbk s;
                         mem := upd (upd m1 n (Some (with_prev en (eprev e)))) a None;
                         len := len s - 1; head := snd mh; tail := tail s |}, Some (evalue e))
              end
          end
      end.

  (* for i := range ht.table { ht.table[i] = bucket{} }; head = nil; tailLink = &head; len = 0 *)
  Definition clear (s : state) : state :=
    {| nb := nb s; nbk := fun _ => 1; mem := fun _ => None; len := 0; head := None; tail := LHead |}.

  Definition first (s : state) : res (option K) :=
    match head s with
    | None => Ok None
    | Some a => match mem s a with Some e => Ok (Some (ekey e)) | None => Dangling end
    end.

  (* ---- derived operations (value.go, library.go) ---- *)
  Definition as_set (l : list (K * V)) : list (K * V) := map (fun kv => (fst kv, vnone)) l.
  Definition elems (ks : list K) : list (K * V) := map (fun k => (k, vnone)) ks.

  (* Set.clone: new(Set); for e := head ... { set.Insert(e.key) } *)
  Definition clone_set (s : state) : res state :=
    items s >>= fun l => insert_all zero_state (as_set l).

  Definition delete_all (s : state) (ks : list K) : res state :=
    fold_res (fun st k => delete st k >>= fun r => Ok (fst r)) s ks.

  (* Set.Intersection(other): collect the elements of other that are in s, then
     list them in the order of s *)
  Definition set_inter (s : state) (ks : list K) : res state :=
    fold_res (fun c x => match lookup s x with
                         | Some _ => insert insert_fuel c x vnone
                         | None => Ok c
                         end) zero_state ks >>= fun common =>
    items s >>= fun l =>
    fold_res (fun z kv => match lookup common (fst kv) with
                          | Some _ => insert insert_fuel z (fst kv) vnone
                          | None => Ok z
                          end) zero_state l.

  (* Set.SymmetricDifference(other): membership is decided against s *)
  Definition set_symdiff (s : state) (ks : list K) : res state :=
    clone_set s >>= fun d =>
    fold_res (fun d x => match lookup s x with
                         | Some _ => delete d x >>= fun r => Ok (fst r)
                         | None => insert insert_fuel d x vnone
                         end) d ks.

  (* ---- hashtable.count / Set.IsSubset / Set.IsSuperset ---- *)
  (* the inner loops of count: every entry of the chain with e.hash == h && Equal(k, e.key),
     as (chain, bit index i<<3 + j) *)
  Fixpoint scan_all (m : store) (c : nat) (hk : N) (k : K) (idxs : list nat) : list addr :=
    match idxs with
    | [] => []
    | i :: r =>
        match m (c, i) with
        | Some e => if N.eqb (ehash e) hk && eqb k (ekey e) then (c, i) :: scan_all m c hk k r
                    else scan_all m c hk k r
        | None => scan_all m c hk k r
        end
    end.

  Definition mem_addr (a : addr) (l : list addr) : bool := existsb (addr_eqb a) l.

  (* count returns the number of distinct elements of the sequence that are elements of ht.
     `seen` stands for the bitsets, one per chain: bit 8*bucket+slot of chain c is address
     (c, 8*bucket+slot).  The loop stops consuming once count == len. *)
  Definition count (s : state) (ks : list K) : nat :=
    if Nat.eqb (nb s) 0 then 0
    else
      snd (fold_left
             (fun (acc : list addr * nat) k =>
                if Nat.eqb (snd acc) (len s) then acc
                else
                  let hk := hashk k in
                  let c := chain_of hk (nb s) in
                  fold_left (fun (acc : list addr * nat) a =>
                               if mem_addr a (fst acc) then acc else (a :: fst acc, S (snd acc)))
                            (scan_all (mem s) c hk k (chain_idxs s c)) acc)
             ks ([], 0)).

  (* IsSubset: count == s.Len();  IsSuperset: Has(x) for every x, false at the first miss *)
  Definition is_subset (s : state) (ks : list K) : bool := Nat.eqb (count s ks) (len s).
  Definition is_superset (s : state) (ks : list K) : bool :=
    forallb (fun x => match lookup s x with Some _ => true | None => false end) ks.

  (* Dict.Union: z.ht.init(x.Len()); z.ht.addAll(&x.ht); z.ht.addAll(&y.ht) *)
  Definition dict_union (s : state) (l : list (K * V)) : res state :=
    items s >>= fun xs =>
    init (len s) >>= fun z =>
    insert_all z xs >>= fun z1 => insert_all z1 l.

  Definition step (s : state) (o : op K V) : res (state * out K V) :=
    match o with
    | OInsert k v => insert insert_fuel s k v >>= fun s' => Ok (s', ONone)
    | OLookup k => Ok (s, OVal (lookup s k))
    | ODelete k => delete s k >>= fun r => Ok (fst r, OVal (snd r))
    | ODiscard k =>
        match lookup s k with
        | None => Ok (s, ONone)
        | Some _ => delete s k >>= fun r => Ok (fst r, ONone)
        end
    | OClear => Ok (clear s, ONone)
    | OPopFirst =>
        first s >>= fun fk =>
        match fk with
        | None => Ok (s, OKV None)
        | Some k => delete s k >>= fun r =>
                    Ok (fst r, OKV (Some (k, match snd r with Some v => v | None => vnone end)))
        end
    | OSetDefault k v =>
        match lookup s k with
        | Some w => Ok (s, OVal (Some w))
        | None => insert insert_fuel s k v >>= fun s' => Ok (s', OVal (Some v))
        end
    | OUpdate l => insert_all s l >>= fun s' => Ok (s', ONone)
    | ODictUnion l => dict_union s l >>= fun s' => Ok (s', ONone)
    | OSetUnion ks => clone_set s >>= fun z => insert_all z (elems ks) >>= fun s' => Ok (s', ONone)
    | OSetInter ks => set_inter s ks >>= fun s' => Ok (s', ONone)
    | OSetDiff ks => clone_set s >>= fun z => delete_all z ks >>= fun s' => Ok (s', ONone)
    | OSetSymDiff ks => set_symdiff s ks >>= fun s' => Ok (s', ONone)
    | OIsSubset ks => Ok (s, OBool (is_subset s ks))
    | OIsSuperset ks => Ok (s, OBool (is_superset s ks))
    end.

  (* a history: the state after the last operation and all outputs *)
  Fixpoint run (s : state) (os : list (op K V)) : res (state * list (out K V)) :=
    match os with
    | [] => Ok (s, [])
    | o :: r => step s o >>= fun so => run (fst so) r >>= fun sx => Ok (fst sx, snd so :: snd sx)
    end.

  (* what the harness observes after every operation: output, len, items in order *)
  Fixpoint trace (s : state) (os : list (op K V)) : res (list (out K V * nat * list (K * V))) :=
    match os with
    | [] => Ok []
    | o :: r => step s o >>= fun so =>
                items (fst so) >>= fun l =>
                trace (fst so) r >>= fun t => Ok ((snd so, len (fst so), l) :: t)
    end.

  (* coverage statistics only (never compared): buckets in the longest chain *)
  Definition max_chain (s : state) : nat :=
    fold_left (fun acc c => Nat.max acc (nbk s c)) (seq 0 (nb s)) 0.
End Concrete.
