(* C12 -- hashtable.count (the per-chain bitsets), Set.IsSubset and Set.IsSuperset
   against the association list. *)
From Coq Require Import List Bool NArith Arith Lia.
From SV Require Import C12.Ops C12.Spec C12.Concrete C12.ProofsBase C12.ProofsOps C12.ProofsSpec.
Import ListNotations.

Lemma mem_addr_in a l : mem_addr a l = true <-> In a l.
Proof.
  unfold mem_addr. rewrite existsb_exists. split.
  - intros (x & Hx & E). apply addr_eqb_eq in E. subst. auto.
  - intros H. exists a. split; auto. apply addr_eqb_refl.
Qed.

Section CountProofs.
  Context {K V : Type}.
  Variable eqb : K -> K -> bool.
  Hypothesis eqb_spec : forall a b, eqb a b = true <-> a = b.
  Variable h : K -> N.

  Notation state := (@state K V).
  Notation store := (@store K V).
  Notation R := (@R K V h).
  Notation hashk := (hashk h).

  Lemma scan_all_in (m : store) c hk k idxs a :
    In a (scan_all eqb m c hk k idxs) <->
    (fst a = c /\ In (snd a) idxs /\ exists e, m a = Some e /\ ehash e = hk /\ ekey e = k).
  Proof.
    induction idxs as [|i r IH]; cbn.
    - split; [contradiction | intros (_ & [] & _)].
    - destruct (m (c, i)) as [e|] eqn:Hm.
      + destruct (N.eqb (ehash e) hk && eqb k (ekey e)) eqn:Ht.
        * apply andb_true_iff in Ht. destruct Ht as [H1 H2]. apply N.eqb_eq in H1. apply eqb_spec in H2.
          cbn. rewrite IH. split.
          -- intros [<-|(Hc & Hi & He)]; [cbn; repeat split; auto; exists e; auto | repeat split; auto].
          -- intros (Hc & [Hi|Hi] & He); [left; destruct a; cbn in *; subst; auto | right; auto].
        * rewrite IH. split.
          -- intros (Hc & Hi & He). repeat split; auto.
          -- intros (Hc & [Hi|Hi] & (e' & He' & Hh & Hk)); [|repeat split; eauto].
             exfalso. destruct a as [a1 a2]. cbn in *. subst a1 a2. rewrite Hm in He'. injection He' as <-.
             apply andb_false_iff in Ht. destruct Ht as [Ht|Ht].
             ++ apply N.eqb_neq in Ht. contradiction.
             ++ subst k. rewrite (eqb_refl eqb eqb_spec) in Ht. discriminate.
      + rewrite IH. split.
        * intros (Hc & Hi & He). repeat split; auto.
        * intros (Hc & [Hi|Hi] & (e' & He' & Hr)); [|repeat split; eauto].
          exfalso. destruct a as [a1 a2]. cbn in *. subst a1 a2. congruence.
  Qed.

  Lemma scan_all_nodup (m : store) c hk k idxs : NoDup idxs -> NoDup (scan_all eqb m c hk k idxs).
  Proof.
    induction idxs as [|i r IH]; cbn; intros ND; [constructor|]. inversion ND; subst.
    destruct (m (c, i)) as [e|]; auto. destruct (N.eqb (ehash e) hk && eqb k (ekey e)); auto.
    constructor; auto. intros H. apply scan_all_in in H. cbn in H. tauto.
  Qed.

  (* the invariant of count's outer loop after the elements `done` *)
  Definition CountInv (s : state) (done : list K) (acc : list addr * nat) : Prop :=
    NoDup (fst acc) /\ snd acc = length (fst acc) /\
    forall a, In a (fst acc) <-> exists e, mem s a = Some e /\ In (ekey e) done.

  Lemma count_step (s : state) ord done acc k :
    InvOrd h s ord -> nb s <> 0 -> CountInv s done acc ->
    CountInv s (done ++ [k])
      (if Nat.eqb (snd acc) (len s) then acc
       else fold_left (fun (acc : list addr * nat) a =>
                         if mem_addr a (fst acc) then acc else (a :: fst acc, S (snd acc)))
                      (scan_all eqb (mem s) (chain_of (hashk k) (nb s)) (hashk k) k
                                (chain_idxs s (chain_of (hashk k) (nb s)))) acc).
  Proof.
    intros I Hnb (ND & Hc & Hin). destruct I as [Hl NDo Cov S KI Hlen Hload Hnil].
    assert (Hsub : forall a, In a (fst acc) -> In a ord).
    { intros a Ha. apply Hin in Ha. destruct Ha as (e & He & _). apply Cov. congruence. }
    destruct (Nat.eqb (snd acc) (len s)) eqn:Efull.
    - (* every entry is counted already *)
      apply Nat.eqb_eq in Efull. split; auto. split; auto. intros a. rewrite Hin. split.
      + intros (e & He & Hd). exists e. split; auto. apply in_or_app. auto.
      + intros (e & He & Hd). apply in_app_or in Hd. destruct Hd as [Hd|[Hk|[]]]; [eauto|].
        apply Hin. assert (Hi : incl ord (fst acc)) by (apply NoDup_length_incl; [exact ND | lia | exact Hsub]).
        apply Hi. apply Cov. congruence.
    - set (c := chain_of (hashk k) (nb s)).
      assert (Hall : forall a, In a (scan_all eqb (mem s) c (hashk k) k (chain_idxs s c)) <->
                               exists e, mem s a = Some e /\ ekey e = k).
      { intros a. rewrite scan_all_in. split.
        - intros (_ & _ & e & He & _ & Hk). eauto.
        - intros (e & He & Hk). destruct (S a e He) as (S1 & S2 & S3). subst k. unfold c.
          rewrite S1 in S2. split; [exact S2|]. split.
          + unfold chain_idxs. apply in_seq. rewrite <- S2. unfold bucketSize in *. lia.
          + exists e. auto. }
      assert (NDs : NoDup (scan_all eqb (mem s) c (hashk k) k (chain_idxs s c))).
      { apply scan_all_nodup. apply seq_NoDup. }
      revert Hall NDs. generalize (scan_all eqb (mem s) c (hashk k) k (chain_idxs s c)). intros xs Hall NDs.
      (* inner loop: add the addresses not seen yet *)
      assert (Hgen : forall (xs : list addr) (acc0 : list addr * nat) (pre : unit),
                 NoDup xs -> NoDup (fst acc0) -> snd acc0 = length (fst acc0) ->
                 let r := fold_left (fun (acc : list addr * nat) a =>
                                       if mem_addr a (fst acc) then acc else (a :: fst acc, Datatypes.S (snd acc))) xs acc0 in
                 NoDup (fst r) /\ snd r = length (fst r) /\ forall a, In a (fst r) <-> (In a (fst acc0) \/ In a xs)).
      { clear. induction xs as [|x r IH]; intros acc0 pre NDx ND0 Hc0; cbn.
        - split; auto. split; auto. intros a. cbn. tauto.
        - inversion NDx; subst. destruct (mem_addr x (fst acc0)) eqn:Ex.
          + apply mem_addr_in in Ex. destruct (IH acc0 pre H2 ND0 Hc0) as (A & B & C).
            repeat split; auto; rewrite C; [tauto|]. intros [Hh|[<-|Hh]]; auto.
          + assert (~ In x (fst acc0)) by (intros Hx; apply mem_addr_in in Hx; congruence).
            destruct (IH (x :: fst acc0, Datatypes.S (snd acc0)) pre H2) as (A & B & C).
            { cbn. constructor; auto. } { cbn. lia. }
            repeat split; auto; rewrite C; cbn; tauto. }
      destruct (Hgen xs acc tt NDs ND Hc) as (A & B & C). split; auto. split; auto.
      intros a. rewrite C, Hin, Hall. split.
      + intros [(e & He & Hd)|(e & He & Hk)]; exists e; split; auto; apply in_or_app; [auto|right; left; auto].
      + intros (e & He & Hd). apply in_app_or in Hd. destruct Hd as [Hd|[Hk|[]]]; eauto.
  Qed.

  Lemma count_fold (s : state) ord : InvOrd h s ord -> nb s <> 0 ->
    forall ks done acc, CountInv s done acc ->
    CountInv s (done ++ ks)
      (fold_left (fun (acc : list addr * nat) k =>
                    if Nat.eqb (snd acc) (len s) then acc
                    else fold_left (fun (acc : list addr * nat) a =>
                                      if mem_addr a (fst acc) then acc else (a :: fst acc, S (snd acc)))
                                   (scan_all eqb (mem s) (chain_of (hashk k) (nb s)) (hashk k) k
                                             (chain_idxs s (chain_of (hashk k) (nb s)))) acc) ks acc).
  Proof.
    intros I Hnb. induction ks as [|k r IH]; intros done acc HI; cbn [fold_left].
    - rewrite app_nil_r. auto.
    - replace (done ++ k :: r) with ((done ++ [k]) ++ r) by (rewrite <- app_assoc; auto).
      apply IH. apply (count_step s ord done acc k I Hnb HI).
  Qed.

  Lemma is_subset_ok (s : state) l ks : R s l -> is_subset eqb h s ks = sp_issubset eqb l ks.
  Proof.
    intros (ord & I & ->). unfold is_subset, count.
    destruct (Nat.eqb (nb s) 0) eqn:En.
    { apply Nat.eqb_eq in En. assert (ord = []) as -> by (apply (inv_nil _ _ _ I); auto).
      rewrite (inv_len _ _ _ I). auto. }
    apply Nat.eqb_neq in En.
    assert (H0 : CountInv s [] ([], 0)).
    { split; [constructor|]. split; auto. intros a. cbn. split; [contradiction|]. intros (e & _ & []). }
    pose proof (count_fold s ord I En ks [] ([], 0) H0) as HC. cbn [app] in HC.
    match type of HC with CountInv _ _ ?r => set (res := r) in * end. clearbody res.
    destruct HC as (ND & Hc & Hin). destruct res as [seen cnt]. cbn [fst snd] in *. subst cnt.
    destruct I as [Hl NDo Cov S KI Hlen Hload Hnil].
    assert (Hocc : forall a, In a ord -> mem s a <> None) by (intros; eapply lseg_occupied; eauto).
    assert (Hsub : incl seen ord).
    { intros a Ha. apply Hin in Ha. destruct Ha as (e & He & _). apply Cov. congruence. }
    assert (Hforall : sp_issubset eqb (entries (mem s) ord) ks = true <->
                      forall a, In a ord -> In a seen).
    { unfold sp_issubset. rewrite forallb_forall. split.
      - intros H a Ha. apply Hin. destruct (mem s a) as [e|] eqn:He; [|exfalso; eapply Hocc; eauto].
        exists e. split; auto. apply (memb_in eqb eqb_spec).
        apply (H (ekey e, evalue e)). unfold entries. apply in_flat_map. exists a. rewrite He. cbn. auto.
      - intros H [k v] Hkv. unfold entries in Hkv. apply in_flat_map in Hkv. destruct Hkv as (a & Ha & Hkv).
        destruct (mem s a) as [e|] eqn:He; [|contradiction]. destruct Hkv as [[= <- <-]|[]]. cbn.
        apply (memb_in eqb eqb_spec). apply H in Ha. apply Hin in Ha. destruct Ha as (e' & He' & Hd). congruence. }
    rewrite Hlen. destruct (sp_issubset eqb (entries (mem s) ord) ks) eqn:Es.
    - apply Nat.eqb_eq. apply Nat.le_antisymm.
      + apply NoDup_incl_length; auto.
      + apply NoDup_incl_length; auto. intros a Ha. apply Hforall; auto.
    - apply Nat.eqb_neq. intros Heq.
      assert (Hi : incl ord seen) by (apply NoDup_length_incl; [exact ND | lia | exact Hsub]).
      apply Hforall in Hi. discriminate.
  Qed.

  Lemma is_superset_ok (s : state) l ks : R s l -> is_superset eqb h s ks = sp_issuperset eqb l ks.
  Proof.
    intros HR. unfold is_superset, sp_issuperset. induction ks as [|x r IH]; cbn; auto.
    rewrite IH. f_equal.
    rewrite (lookup_ok eqb eqb_spec h s l x HR). rewrite <- (has_memb eqb). unfold has. auto.
  Qed.
End CountProofs.
