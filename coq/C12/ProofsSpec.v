(* C12 -- pure association-list lemmas: the operational reading of the derived
   operations (fold of insert / delete, as the code does) equals the declarative
   one of Spec.v (filter / append of first occurrences). *)
From Coq Require Import List Bool Arith Lia.
From SV Require Import C12.Ops C12.Spec.
Import ListNotations.

Lemma NoDup_app_snoc' {A} (l : list A) a : NoDup l -> ~ In a l -> NoDup (l ++ [a]).
Proof.
  intros ND Hn. induction l as [|x r IH]; cbn.
  - constructor; auto; constructor.
  - inversion ND; subst. constructor.
    + intros Hin. apply in_app_or in Hin. destruct Hin as [Hin|[->|[]]]; auto. apply Hn. left. auto.
    + apply IH; auto. intros H. apply Hn. right. auto.
Qed.

Section SpecLemmas.
  Context {K V : Type}.
  Variable eqb : K -> K -> bool.
  Hypothesis eqb_spec : forall a b, eqb a b = true <-> a = b.
  Variable vnone : V.

  Notation alist := (list (K * V)).
  Notation sp_lookup := (sp_lookup eqb).
  Notation sp_insert := (sp_insert eqb).
  Notation sp_replace := (sp_replace eqb).
  Notation sp_delete := (sp_delete eqb).
  Notation memb := (memb eqb).
  Notation dedup := (dedup eqb).
  Notation as_set := (as_set vnone).
  Notation elems := (elems vnone).

  Lemma eqb_refl' k : eqb k k = true.
  Proof. apply eqb_spec; auto. Qed.
  Lemma eqb_sym a b : eqb a b = eqb b a.
  Proof.
    destruct (eqb a b) eqn:E1, (eqb b a) eqn:E2; auto.
    - apply eqb_spec in E1. subst. rewrite eqb_refl' in E2. discriminate.
    - apply eqb_spec in E2. subst. rewrite eqb_refl' in E1. discriminate.
  Qed.

  Lemma memb_in k ks : memb k ks = true <-> In k ks.
  Proof.
    induction ks as [|x r IH]; cbn; [split; [discriminate|contradiction]|].
    rewrite orb_true_iff, IH, eqb_spec. split; intros [H|H]; auto.
  Qed.
  Lemma memb_app k a b : memb k (a ++ b) = memb k a || memb k b.
  Proof. induction a as [|x r IH]; cbn; auto. rewrite IH, orb_assoc. auto. Qed.

  Definition has (l : alist) (k : K) : bool := match sp_lookup l k with Some _ => true | None => false end.

  Lemma has_memb l k : has l k = memb k (keys l).
  Proof.
    unfold has. induction l as [|[x w] r IH]; cbn; auto.
    destruct (eqb k x); auto.
  Qed.

  Definition AllNone (l : alist) : Prop := forall kv, In kv l -> snd kv = vnone.

  Lemma sp_replace_none l k : AllNone l -> sp_replace l k vnone = l.
  Proof.
    induction l as [|[x w] r IH]; cbn; auto. intros H.
    destruct (eqb k x) eqn:E.
    - assert (w = vnone) as -> by (apply (H (x, w)); left; auto). auto.
    - rewrite IH; auto. intros kv Hkv. apply H. right. auto.
  Qed.

  Lemma sp_insert_none l k :
    AllNone l -> sp_insert l k vnone = if memb k (keys l) then l else l ++ [(k, vnone)].
  Proof.
    intros H. unfold Spec.sp_insert. rewrite <- has_memb. unfold has.
    destruct (sp_lookup l k); auto. apply sp_replace_none; auto.
  Qed.

  Lemma AllNone_app a b : AllNone a -> AllNone b -> AllNone (a ++ b).
  Proof. intros Ha Hb kv H. apply in_app_or in H. destruct H; auto. Qed.
  Lemma AllNone_elems ks : AllNone (elems ks).
  Proof. intros kv H. unfold Spec.elems in H. apply in_map_iff in H. destruct H as (k & <- & _). auto. Qed.
  Lemma AllNone_as_set (l : alist) : AllNone (as_set l).
  Proof. intros kv H. unfold Spec.as_set in H. apply in_map_iff in H. destruct H as (k & <- & _). auto. Qed.
  Lemma keys_as_set (l : alist) : keys (as_set l) = keys l.
  Proof. unfold keys, Spec.as_set. rewrite map_map. auto. Qed.
  Lemma keys_elems (ks : list K) : keys (elems ks) = ks.
  Proof. unfold keys, Spec.elems. rewrite map_map. cbn. apply map_id. Qed.
  Lemma keys_app (a b : alist) : keys (a ++ b) = keys a ++ keys b.
  Proof. apply map_app. Qed.
  Lemma elems_app (a b : list K) : elems (a ++ b) = elems a ++ elems b.
  Proof. apply map_app. Qed.

  (* ---- filters ---- *)
  Lemma filter_filter {A} (p q : A -> bool) l :
    filter p (filter q l) = filter (fun x => q x && p x) l.
  Proof.
    induction l as [|x r IH]; cbn; auto.
    destruct (q x); cbn; [destruct (p x); cbn; rewrite IH; auto | auto].
  Qed.
  Lemma filter_ext_in' {A} (p q : A -> bool) l :
    (forall x, In x l -> p x = q x) -> filter p l = filter q l.
  Proof.
    induction l as [|x r IH]; cbn; auto. intros H.
    rewrite (H x) by auto. rewrite IH; auto.
  Qed.
  Lemma filter_all {A} (p : A -> bool) l : (forall x, In x l -> p x = true) -> filter p l = l.
  Proof.
    induction l as [|x r IH]; cbn; auto. intros H. rewrite (H x) by auto. rewrite IH; auto.
  Qed.

  Lemma dedup_filter_ne x L :
    dedup (filter (fun y => negb (eqb y x)) L) = filter (fun y => negb (eqb y x)) (dedup L).
  Proof.
    induction L as [|y r IH]; cbn; auto.
    destruct (eqb y x) eqn:E; cbn.
    - apply eqb_spec in E. subst y. rewrite IH. rewrite filter_filter.
      apply filter_ext_in'. intros z _. destruct (eqb z x); auto.
    - f_equal. rewrite IH. rewrite !filter_filter.
      apply filter_ext_in'. intros z _. apply andb_comm.
  Qed.

  Lemma dedup_nodup L : NoDup (dedup L).
  Proof.
    induction L as [|y r IH]; cbn; [constructor|]. constructor.
    - intros H. apply filter_In in H. destruct H as [_ H]. rewrite eqb_refl' in H. discriminate.
    - apply NoDup_filter. auto.
  Qed.
  Lemma dedup_in k L : In k (dedup L) <-> In k L.
  Proof.
    induction L as [|y r IH]; cbn; [tauto|]. rewrite filter_In, IH. split.
    - intros [H|[H _]]; auto.
    - intros [H|H]; auto. destruct (eqb k y) eqn:E; [apply eqb_spec in E; auto | right; auto].
  Qed.

  (* ---- delete = filter ---- *)
  Lemma sp_delete_filter (l : alist) x :
    NoDup (keys l) -> sp_delete l x = filter (fun kv => negb (eqb (fst kv) x)) l.
  Proof.
    induction l as [|[y w] r IH]; cbn; auto. intros ND. inversion ND as [|? ? Hy ND']; subst.
    rewrite (eqb_sym y x). destruct (eqb x y) eqn:E; cbn.
    - apply eqb_spec in E. subst y. symmetry. apply filter_all. intros [z u] Hz. cbn.
      destruct (eqb z x) eqn:E2; auto. apply eqb_spec in E2. subst z. exfalso. apply Hy.
      apply in_map_iff. exists (x, u). auto.
    - f_equal. auto.
  Qed.

  Lemma keys_filter_nodup (l : alist) p : NoDup (keys l) -> NoDup (keys (filter p l)).
  Proof.
    induction l as [|[y w] r IH]; cbn; auto. intros ND. inversion ND as [|? ? Hy ND']; subst.
    destruct (p (y, w)); cbn; auto. constructor; auto.
    intros H. apply Hy. unfold keys in *. apply in_map_iff in H. destruct H as (kv & <- & H).
    apply filter_In in H. apply in_map. tauto.
  Qed.

  Lemma delete_all_filter ks : forall (l : alist),
    NoDup (keys l) ->
    fold_left sp_delete ks l = filter (fun kv => negb (memb (fst kv) ks)) l.
  Proof.
    induction ks as [|x r IH]; intros l ND; cbn.
    - symmetry. apply filter_all. auto.
    - rewrite sp_delete_filter by auto. rewrite IH by (apply keys_filter_nodup; auto).
      rewrite filter_filter. apply filter_ext_in'. intros kv _. rewrite negb_orb. auto.
  Qed.

  (* ---- union: insert all ---- *)
  Lemma insert_all_union ks : forall (B : alist),
    AllNone B ->
    fold_left (fun acc kv => sp_insert acc (fst kv) (snd kv)) (elems ks) B =
    B ++ elems (dedup (filter (fun k => negb (memb k (keys B))) ks)).
  Proof.
    induction ks as [|x r IH]; intros B HB; cbn.
    - rewrite app_nil_r. auto.
    - rewrite sp_insert_none by auto. destruct (memb x (keys B)) eqn:E; cbn.
      + apply IH; auto.
      + rewrite IH by (apply AllNone_app; auto; intros kv [<-|[]]; auto).
        assert (Hkey : dedup (filter (fun k => negb (memb k (keys (B ++ [(x, vnone)])))) r) =
                       filter (fun y => negb (eqb y x)) (dedup (filter (fun k => negb (memb k (keys B))) r))).
        { rewrite <- dedup_filter_ne. f_equal. rewrite filter_filter.
          apply filter_ext_in'. intros y _. rewrite keys_app, memb_app. cbn.
          rewrite orb_false_r, negb_orb. auto. }
        rewrite Hkey. rewrite <- app_assoc. reflexivity.
  Qed.

  (* insert all of a duplicate-free list into the empty list: the list itself *)
  Lemma insert_all_fresh : forall (xs B : alist),
    NoDup (keys (B ++ xs)) ->
    fold_left (fun acc kv => sp_insert acc (fst kv) (snd kv)) xs B = B ++ xs.
  Proof.
    induction xs as [|[k v] r IH]; intros B ND; cbn.
    - rewrite app_nil_r. auto.
    - unfold Spec.sp_insert at 2.
      assert (Hk : sp_lookup B k = None).
      { generalize (has_memb B k). unfold has. destruct (sp_lookup B k); auto. intros Hm. symmetry in Hm.
        apply memb_in in Hm. rewrite keys_app in ND. cbn in ND. apply NoDup_remove_2 in ND.
        exfalso. apply ND. apply in_or_app. auto. }
      rewrite Hk. rewrite IH; rewrite <- app_assoc; auto.
  Qed.

  (* ---- keys under insert ---- *)
  Lemma keys_sp_replace (l : alist) k v : keys (sp_replace l k v) = keys l.
  Proof.
    induction l as [|[x w] r IH]; cbn; auto. destruct (eqb k x); cbn; auto. f_equal. auto.
  Qed.
  Lemma has_sp_insert (l : alist) x v k : has (sp_insert l x v) k = has l k || eqb k x.
  Proof.
    rewrite !has_memb. unfold Spec.sp_insert. generalize (has_memb l x). unfold has.
    destruct (sp_lookup l x); intros Hm.
    - rewrite keys_sp_replace. destruct (eqb k x) eqn:E; [|rewrite orb_false_r; auto].
      apply eqb_spec in E. subst. rewrite <- Hm. auto.
    - rewrite keys_app, memb_app. cbn. rewrite orb_false_r. auto.
  Qed.
  Lemma has_in (l : alist) k : has l k = true <-> In k (keys l).
  Proof. rewrite has_memb. apply memb_in. Qed.

  (* ---- symmetric difference (repaired code: membership decided against l) ---- *)
  Definition symdiff_step (l : alist) (d : alist) (x : K) : alist :=
    if has l x then sp_delete d x else sp_insert d x vnone.

  Lemma filter_app' {A} (p : A -> bool) a b : filter p (a ++ b) = filter p a ++ filter p b.
  Proof. induction a as [|x r IH]; cbn; auto. destruct (p x); cbn; rewrite IH; auto. Qed.

  Lemma symdiff_fold (l : alist) : forall ks (A1 : alist) N,
    NoDup (keys A1) -> (forall k, In k (keys A1) -> In k (keys l)) -> AllNone A1 ->
    NoDup N -> (forall k, In k N -> ~ In k (keys l)) ->
    fold_left (symdiff_step l) ks (A1 ++ elems N) =
    filter (fun kv => negb (memb (fst kv) ks)) A1 ++
    elems (N ++ dedup (filter (fun k => negb (memb k (keys l)) && negb (memb k N)) ks)).
  Proof.
    induction ks as [|x r IH]; intros A1 N ND1 Sub AN NDN Dis; cbn [fold_left].
    - cbn. rewrite app_nil_r. rewrite filter_all; auto.
    - assert (NDall : NoDup (keys (A1 ++ elems N))).
      { rewrite keys_app, keys_elems. clear - ND1 NDN Sub Dis. induction (keys A1) as [|y q IHq]; cbn; auto.
        inversion ND1; subst. constructor.
        - intros H. apply in_app_or in H. destruct H as [H|H]; auto. apply (Dis y H). apply Sub. left. auto.
        - apply IHq; auto. intros; apply Sub; right; auto. }
      unfold symdiff_step at 2. destruct (has l x) eqn:Hx.
      + (* x is an element of the left operand: remove it (idempotent) *)
        rewrite sp_delete_filter by auto. rewrite filter_app'.
        assert (HN : filter (fun kv : K * V => negb (eqb (fst kv) x)) (elems N) = elems N).
        { apply filter_all. intros kv Hkv. unfold Spec.elems in Hkv. apply in_map_iff in Hkv.
          destruct Hkv as (y & <- & Hy). cbn. destruct (eqb y x) eqn:E; auto. apply eqb_spec in E. subst y.
          exfalso. apply (Dis x Hy). apply has_in. auto. }
        rewrite HN. rewrite IH; auto.
        * rewrite filter_filter. f_equal.
          { apply filter_ext_in'. intros kv _. cbn. rewrite negb_orb. auto. }
          cbn [filter]. rewrite <- has_memb, Hx. cbn. auto.
        * apply keys_filter_nodup; auto.
        * intros k Hk. apply Sub. unfold keys in *. apply in_map_iff in Hk. destruct Hk as (kv & <- & Hk).
          apply filter_In in Hk. apply in_map. tauto.
        * intros kv Hkv. apply filter_In in Hkv. apply AN. tauto.
      + (* x is not in the left operand: append it once *)
        assert (HA1 : memb x (keys A1) = false).
        { destruct (memb x (keys A1)) eqn:E; auto. apply memb_in in E. apply Sub in E.
          apply has_in in E. congruence. }
        assert (Hf : filter (fun kv : K * V => negb (memb (fst kv) (x :: r))) A1 =
                     filter (fun kv => negb (memb (fst kv) r)) A1).
        { apply filter_ext_in'. intros kv Hkv. cbn. destruct (eqb (fst kv) x) eqn:E; auto.
          apply eqb_spec in E. subst x. exfalso.
          assert (In (fst kv) (keys A1)) by (apply in_map; auto). apply memb_in in H. congruence. }
        rewrite Hf. rewrite sp_insert_none by (apply AllNone_app; auto; apply AllNone_elems).
        rewrite keys_app, keys_elems, memb_app, HA1. cbn [orb filter].
        rewrite <- has_memb, Hx. cbn [negb andb].
        destruct (memb x N) eqn:HxN; cbn [negb].
        * apply IH; auto.
        * rewrite <- app_assoc. change [(x, vnone)] with (elems [x]). rewrite <- elems_app.
          rewrite IH; auto.
          -- f_equal. f_equal. rewrite <- app_assoc. cbn. do 2 f_equal.
             rewrite <- dedup_filter_ne. f_equal. rewrite filter_filter.
             apply filter_ext_in'. intros y _. rewrite memb_app. cbn.
             rewrite orb_false_r, negb_orb, andb_assoc. auto.
          -- apply NoDup_app_snoc'; auto. intros H. apply memb_in in H. congruence.
          -- intros k Hk. apply in_app_or in Hk. destruct Hk as [Hk|[<-|[]]]; auto.
             intros H. apply has_in in H. congruence.
  Qed.

  Lemma symdiff_ok (l : alist) ks :
    NoDup (keys l) -> fold_left (symdiff_step l) ks (as_set l) = sp_symdiff eqb vnone l ks.
  Proof.
    intros ND. generalize (symdiff_fold l ks (as_set l) []). cbn [Spec.elems map app]. rewrite app_nil_r.
    intros H. rewrite H; auto.
    - unfold sp_symdiff, sp_diff, Spec.elems. f_equal. f_equal. f_equal. apply filter_ext_in'. intros k _.
      rewrite andb_true_r. auto.
    - rewrite keys_as_set. auto.
    - intros k. rewrite keys_as_set. auto.
    - apply AllNone_as_set.
    - constructor.
  Qed.

  (* ---- intersection (repaired code: collect, then list in the order of l) ---- *)
  Definition inter_common (l : alist) (ks : list K) : alist :=
    fold_left (fun c x => if has l x then sp_insert c x vnone else c) ks [].

  Lemma has_inter_fold (l : alist) ks : forall c k,
    has (fold_left (fun c x => if has l x then sp_insert c x vnone else c) ks c) k =
    has c k || (memb k ks && has l k).
  Proof.
    induction ks as [|x r IH]; intros c k; cbn [fold_left].
    - cbn. rewrite orb_false_r. auto.
    - rewrite IH. cbn [Spec.memb]. destruct (has l x) eqn:Hx.
      + rewrite has_sp_insert. destruct (eqb k x) eqn:E; cbn.
        * apply eqb_spec in E. subst. rewrite Hx. rewrite !orb_true_r. auto.
        * rewrite orb_false_r. auto.
      + destruct (eqb k x) eqn:E; cbn; auto.
        apply eqb_spec in E. subst. rewrite Hx. rewrite !andb_false_r. auto.
  Qed.

  Lemma cond_insert_all (p : K -> bool) : forall (xs z : alist),
    NoDup (keys z ++ keys xs) ->
    fold_left (fun z kv => if p (fst kv) then sp_insert z (fst kv) vnone else z) xs z =
    z ++ filter (fun kv => p (fst kv)) (as_set xs).
  Proof.
    induction xs as [|[k v] r IH]; intros z ND; cbn [fold_left].
    - cbn. rewrite app_nil_r. auto.
    - cbn [fst snd Spec.as_set map filter]. destruct (p k) eqn:Hp.
      + assert (Hk : sp_lookup z k = None).
        { generalize (has_memb z k). unfold has. destruct (sp_lookup z k); auto. intros Hm. symmetry in Hm.
          apply memb_in in Hm. cbn in ND. apply NoDup_remove_2 in ND. exfalso. apply ND. apply in_or_app. auto. }
        unfold Spec.sp_insert at 2. rewrite Hk. rewrite IH.
        * rewrite <- app_assoc. auto.
        * rewrite keys_app. cbn. rewrite <- app_assoc. auto.
      + rewrite IH; auto. cbn in ND. apply NoDup_remove_1 in ND. auto.
  Qed.

  Lemma inter_ok (l : alist) ks :
    NoDup (keys l) ->
    fold_left (fun z kv => if has (inter_common l ks) (fst kv) then sp_insert z (fst kv) vnone else z) l [] =
    sp_inter eqb vnone l ks.
  Proof.
    intros ND. rewrite cond_insert_all by auto. cbn [app]. unfold sp_inter.
    apply filter_ext_in'. intros kv Hkv. unfold inter_common. rewrite has_inter_fold. cbn [has Spec.sp_lookup orb].
    assert (In (fst kv) (keys l)).
    { rewrite <- keys_as_set. apply in_map. auto. }
    apply has_in in H. rewrite H. apply andb_true_r.
  Qed.

  (* ---- keys of an update / dict union: left keys first, then the new ones ---- *)
  Lemma keys_sp_insert (l : alist) k v :
    keys (sp_insert l k v) = if memb k (keys l) then keys l else keys l ++ [k].
  Proof.
    unfold Spec.sp_insert. rewrite <- has_memb. unfold has. destruct (sp_lookup l k).
    - apply keys_sp_replace.
    - rewrite keys_app. auto.
  Qed.

  Lemma keys_sp_update xs : forall (B : alist),
    keys (sp_update eqb B xs) = keys B ++ dedup (filter (fun k => negb (memb k (keys B))) (keys xs)).
  Proof.
    unfold sp_update. induction xs as [|[x v] r IH]; intros B; cbn [fold_left fst snd].
    - cbn. rewrite app_nil_r. auto.
    - rewrite IH. rewrite keys_sp_insert. change (keys ((x, v) :: r)) with (x :: keys r). cbn [filter].
      destruct (memb x (keys B)) eqn:E; cbn [negb]; auto.
      rewrite <- app_assoc. cbn [app Spec.dedup]. do 2 f_equal.
      rewrite <- dedup_filter_ne. f_equal. rewrite filter_filter.
      apply filter_ext_in'. intros y _. rewrite memb_app. cbn.
      rewrite orb_false_r, negb_orb. auto.
  Qed.

  Lemma sp_lookup_in (l : alist) k v : NoDup (keys l) -> (sp_lookup l k = Some v <-> In (k, v) l).
  Proof.
    induction l as [|[x w] r IH]; cbn; intros ND; [split; [discriminate|contradiction]|].
    inversion ND as [|? ? Hx ND']; subst. destruct (eqb k x) eqn:E.
    - apply eqb_spec in E. subst x. split.
      + intros [= ->]. auto.
      + intros [[= ->]|H]; auto. exfalso. apply Hx. apply (in_map fst) in H. auto.
    - rewrite IH by auto. split; auto. intros [[= -> ->]|H]; auto. rewrite eqb_refl' in E. discriminate.
  Qed.

  Lemma sp_lookup_insert_same (l : alist) k v : sp_lookup (sp_insert l k v) k = Some v.
  Proof.
    unfold Spec.sp_insert. destruct (sp_lookup l k) eqn:E.
    - induction l as [|[x w] r IH]; cbn in *; [discriminate|].
      destruct (eqb k x) eqn:Ex; cbn; rewrite Ex; auto.
    - induction l as [|[x w] r IH]; cbn in *.
      + rewrite eqb_refl'. auto.
      + destruct (eqb k x) eqn:Ex; [discriminate|auto].
  Qed.
End SpecLemmas.
