(* C12 -- pure association-list lemmas: the operational reading of the derived
   operations (fold of insert / delete, as the code does) equals the declarative
   one of Spec.v (filter / append of first occurrences). *)
From Coq Require Import List Bool Arith Lia.
From SV Require Import C12.Ops C12.Spec.
Import ListNotations.

Section SpecLemmas.
  Context {K V : Type}.
  Variable eqb : K -> K -> bool.
  Hypothesis eqb_spec : forall a b, eqb a b = true <-> a = b.
  Variable vnone : V.

  Notation alist := (list (K * V)).
  Notation sp_lookup := (sp_lookup eqb).
  Notation sp_insert := (sp_insert eqb).
  Notation sp_replace := (sp_replace eqb).
  Notation sp_delete := (sp_delete eqb).
  Notation memb := (memb eqb).
  Notation dedup := (dedup eqb).
  Notation as_set := (as_set vnone).
  Notation elems := (elems vnone).

  Lemma eqb_refl' k : eqb k k = true.
  Proof. apply eqb_spec; auto. Qed.
  Lemma eqb_sym a b : eqb a b = eqb b a.
  Proof.
    destruct (eqb a b) eqn:E1, (eqb b a) eqn:E2; auto.
    - apply eqb_spec in E1. subst. rewrite eqb_refl' in E2. discriminate.
    - apply eqb_spec in E2. subst. rewrite eqb_refl' in E1. discriminate.
  Qed.

  Lemma memb_in k ks : memb k ks = true <-> In k ks.
  Proof.
    induction ks as [|x r IH]; cbn; [split; [discriminate|contradiction]|].
    rewrite orb_true_iff, IH, eqb_spec. split; intros [H|H]; auto.
  Qed.
  Lemma memb_app k a b : memb k (a ++ b) = memb k a || memb k b.
  Proof. induction a as [|x r IH]; cbn; auto. rewrite IH, orb_assoc. auto. Qed.

  Definition has (l : alist) (k : K) : bool := match sp_lookup l k with Some _ => true | None => false end.

  Lemma has_memb l k : has l k = memb k (keys l).
  Proof.
    unfold has. induction l as [|[x w] r IH]; cbn; auto.
    destruct (eqb k x); auto.
  Qed.

  Definition AllNone (l : alist) : Prop := forall kv, In kv l -> snd kv = vnone.

  Lemma sp_replace_none l k : AllNone l -> sp_replace l k vnone = l.
  Proof.
    induction l as [|[x w] r IH]; cbn; auto. intros H.
    destruct (eqb k x) eqn:E.
    - assert (w = vnone) as -> by (apply (H (x, w)); left; auto). auto.
    - rewrite IH; auto. intros kv Hkv. apply H. right. auto.
  Qed.

  Lemma sp_insert_none l k :
    AllNone l -> sp_insert l k vnone = if memb k (keys l) then l else l ++ [(k, vnone)].
  Proof.
    intros H. unfold Spec.sp_insert. rewrite <- has_memb. unfold has.
    destruct (sp_lookup l k); auto. apply sp_replace_none; auto.
  Qed.

  Lemma AllNone_app a b : AllNone a -> AllNone b -> AllNone (a ++ b).
  Proof. intros Ha Hb kv H. apply in_app_or in H. destruct H; auto. Qed.
  Lemma AllNone_elems ks : AllNone (elems ks).
  Proof. intros kv H. unfold Spec.elems in H. apply in_map_iff in H. destruct H as (k & <- & _). auto. Qed.
  Lemma AllNone_as_set (l : alist) : AllNone (as_set l).
  Proof. intros kv H. unfold Spec.as_set in H. apply in_map_iff in H. destruct H as (k & <- & _). auto. Qed.
  Lemma keys_as_set (l : alist) : keys (as_set l) = keys l.
  Proof. unfold keys, Spec.as_set. rewrite map_map. auto. Qed.
  Lemma keys_elems (ks : list K) : keys (elems ks) = ks.
  Proof. unfold keys, Spec.elems. rewrite map_map. cbn. apply map_id. Qed.
  Lemma keys_app (a b : alist) : keys (a ++ b) = keys a ++ keys b.
  Proof. apply map_app. Qed.
  Lemma elems_app (a b : list K) : elems (a ++ b) = elems a ++ elems b.
  Proof. apply map_app. Qed.

  (* ---- filters ---- *)
  Lemma filter_filter {A} (p q : A -> bool) l :
    filter p (filter q l) = filter (fun x => q x && p x) l.
  Proof.
    induction l as [|x r IH]; cbn; auto.
    destruct (q x); cbn; [destruct (p x); cbn; rewrite IH; auto | auto].
  Qed.
  Lemma filter_ext_in' {A} (p q : A -> bool) l :
    (forall x, In x l -> p x = q x) -> filter p l = filter q l.
  Proof.
    induction l as [|x r IH]; cbn; auto. intros H.
    rewrite (H x) by auto. rewrite IH; auto.
  Qed.
  Lemma filter_all {A} (p : A -> bool) l : (forall x, In x l -> p x = true) -> filter p l = l.
  Proof.
    induction l as [|x r IH]; cbn; auto. intros H. rewrite (H x) by auto. rewrite IH; auto.
  Qed.

  Lemma dedup_filter_ne x L :
    dedup (filter (fun y => negb (eqb y x)) L) = filter (fun y => negb (eqb y x)) (dedup L).
  Proof.
    induction L as [|y r IH]; cbn; auto.
    destruct (eqb y x) eqn:E; cbn.
    - apply eqb_spec in E. subst y. rewrite IH. rewrite filter_filter.
      apply filter_ext_in'. intros z _. destruct (eqb z x); auto.
    - rewrite E. cbn. f_equal. rewrite IH. rewrite !filter_filter.
      apply filter_ext_in'. intros z _. apply andb_comm.
  Qed.

  Lemma dedup_nodup L : NoDup (dedup L).
  Proof.
    induction L as [|y r IH]; cbn; [constructor|]. constructor.
    - intros H. apply filter_In in H. destruct H as [_ H]. rewrite eqb_refl' in H. discriminate.
    - apply NoDup_filter. auto.
  Qed.
  Lemma dedup_in k L : In k (dedup L) <-> In k L.
  Proof.
    induction L as [|y r IH]; cbn; [tauto|]. rewrite filter_In, IH. split.
    - intros [H|[H _]]; auto.
    - intros [H|H]; auto. destruct (eqb k y) eqn:E; [apply eqb_spec in E; auto | right; auto].
  Qed.

  (* ---- delete = filter ---- *)
  Lemma sp_delete_filter (l : alist) x :
    NoDup (keys l) -> sp_delete l x = filter (fun kv => negb (eqb (fst kv) x)) l.
  Proof.
    induction l as [|[y w] r IH]; cbn; auto. intros ND. inversion ND as [|? ? Hy ND']; subst.
    rewrite (eqb_sym y x). destruct (eqb x y) eqn:E; cbn.
    - apply eqb_spec in E. subst y. symmetry. apply filter_all. intros [z u] Hz. cbn.
      destruct (eqb z x) eqn:E2; auto. apply eqb_spec in E2. subst z. exfalso. apply Hy.
      apply in_map_iff. exists (x, u). auto.
    - f_equal. auto.
  Qed.

  Lemma keys_filter_nodup (l : alist) p : NoDup (keys l) -> NoDup (keys (filter p l)).
  Proof.
    induction l as [|[y w] r IH]; cbn; auto. intros ND. inversion ND as [|? ? Hy ND']; subst.
    destruct (p (y, w)); cbn; auto. constructor; auto.
    intros H. apply Hy. unfold keys in *. apply in_map_iff in H. destruct H as (kv & <- & H).
    apply filter_In in H. apply in_map. tauto.
  Qed.

  Lemma delete_all_filter ks : forall (l : alist),
    NoDup (keys l) ->
    fold_left sp_delete ks l = filter (fun kv => negb (memb (fst kv) ks)) l.
  Proof.
    induction ks as [|x r IH]; intros l ND; cbn.
    - symmetry. apply filter_all. auto.
    - rewrite sp_delete_filter by auto. rewrite IH by (apply keys_filter_nodup; auto).
      rewrite filter_filter. apply filter_ext_in'. intros kv _. rewrite negb_orb. auto.
  Qed.

  (* ---- union: insert all ---- *)
  Lemma insert_all_union ks : forall (B : alist),
    AllNone B ->
    fold_left (fun acc kv => sp_insert acc (fst kv) (snd kv)) (elems ks) B =
    B ++ elems (dedup (filter (fun k => negb (memb k (keys B))) ks)).
  Proof.
    induction ks as [|x r IH]; intros B HB; cbn.
    - rewrite app_nil_r. auto.
    - rewrite sp_insert_none by auto. destruct (memb x (keys B)) eqn:E; cbn.
      + apply IH; auto.
      + rewrite IH by (apply AllNone_app; auto; intros kv [<-|[]]; auto).
        rewrite <- app_assoc. cbn. do 2 f_equal.
        rewrite <- dedup_filter_ne. f_equal. rewrite filter_filter.
        apply filter_ext_in'. intros y _. rewrite keys_app, memb_app. cbn.
        rewrite orb_false_r, negb_orb. auto.
  Qed.

  (* insert all of a duplicate-free list into the empty list: the list itself *)
  Lemma insert_all_fresh : forall (xs B : alist),
    NoDup (keys (B ++ xs)) ->
    fold_left (fun acc kv => sp_insert acc (fst kv) (snd kv)) xs B = B ++ xs.
  Proof.
    induction xs as [|[k v] r IH]; intros B ND; cbn.
    - rewrite app_nil_r. auto.
    - unfold Spec.sp_insert at 2.
      assert (Hk : sp_lookup B k = None).
      { generalize (has_memb B k). unfold has. destruct (sp_lookup B k); auto. intros Hm. symmetry in Hm.
        apply memb_in in Hm. rewrite keys_app in ND. cbn in ND. apply NoDup_remove_2 in ND.
        exfalso. apply ND. apply in_or_app. auto. }
      rewrite Hk. rewrite IH; rewrite <- app_assoc; auto.
  Qed.
End SpecLemmas.
