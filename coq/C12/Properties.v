(* C12 -- dict and set behave as insertion-ordered maps under every operation
   history.  Property theorems only; each is closed by `exact <lemma>` (or a
   two-line instantiation of lemmas); axioms are printed by the audit step of
   bin/check (Print Assumptions per theorem).

   Reading guide
   -------------
   * `state`, `step`, `run`, `insert`, `delete`, `lookup`, `items`, `first`, `len`
     (Concrete.v) are the executable model of starlark/hashtable.go and of the
     derived operations of value.go / library.go: chains of 8-slot buckets with
     overflow buckets, insert scanning the whole chain and reusing the last empty
     slot, `overloaded` / grow = rehash in list order, delete unlinking through
     prevLink / moving tailLink / zeroing the slot; the insertion-order list as
     next / prevLink / head / tailLink POINTERS in a store.
   * `spec_step`, `spec_run` (Spec.v) are the plain ordered association list.
   * `R h s l` (ProofsBase.v): the concrete state s is well formed (the invariant:
     the next-chain from head enumerates exactly the occupied slots without
     repetition, prevLinks / tailLink consistent, every entry sits in the chain of
     its hash inside the chain's buckets, keys pairwise distinct, len = number of
     entries, load bound) and its insertion-order list reads l.
   * EVERY theorem is for an ARBITRARY hash function h : K -> N (so all collision
     patterns, hash 0 included -- the model remaps it as the code does) and an
     arbitrary key type with a decidable equality, arbitrary values, all states
     reachable or not that satisfy the invariant, all operation histories.

   What is abstracted (see Concrete.v header): the Go heap is a store indexed by
   (chain, 8*bucket+slot) and a fresh table is a fresh store; uint32 len / hash
   do not wrap; Equal is a total boolean equality consistent with Hash, Hash does
   not fail; the frozen / itercount guards are not modelled (C04 / C06); the
   second operand of a derived operation is the sequence its iterator yields.
   The tie to /repo is the correspondence check of checks/c12.py. *)
From Coq Require Import List Bool NArith Arith Lia.
From SV Require Import C12.Ops C12.Spec C12.Concrete C12.ProofsBase C12.ProofsOps C12.ProofsSpec C12.ProofsCount C12.ProofsStep.
Import ListNotations.

Definition eq_ok {K} (eqb : K -> K -> bool) : Prop := forall a b, eqb a b = true <-> a = b.

(* ---------------------------------------------------------------- refinement *)

(* The initial tables represent the empty list: the zero value (new(Dict),
   table == nil) and NewDict(size) / NewSet(size) for every size (init's loop
   terminates within its fuel). *)
Theorem refinement_init :
  forall (K V : Type) (h : K -> N),
    R h (@zero_state K V) [] /\
    forall size, exists s, @init K V size = Ok s /\ R h s [].
Proof.
  intros K V h. split; [apply R_zero|]. intros size. unfold init.
  destruct (init_nb_ok size size 1) as (n & Hn & _); [lia|lia|]. rewrite Hn. cbn.
  eexists. split; [reflexivity | apply R_empty_table].
Qed.

(* What R means for an observer: walking the order links (Keys / Items /
   iteration) yields exactly l, len is its length, lookup is the list lookup,
   first is its head -- and the model's loops do not run out of fuel. *)
Theorem refinement_observe :
  forall (K V : Type) (eqb : K -> K -> bool) (h : K -> N), eq_ok eqb ->
  forall (s : @state K V) l, R h s l ->
    items s = Ok l /\ len s = length l /\
    (forall k, lookup eqb h s k = sp_lookup eqb l k) /\
    first s = Ok (match l with [] => None | kv :: _ => Some (fst kv) end) /\
    NoDup (keys l).
Proof.
  intros K V eqb h He s l HR. destruct (R_items h s l HR) as [H1 H2].
  repeat split; auto.
  - intros k. apply (lookup_ok eqb He h); auto.
  - apply (first_ok h); auto.
  - apply (R_keys_nodup h s l HR).
Qed.

(* One operation, any of the 15 (insert / lookup / delete / discard / clear /
   pop-first / setdefault / update / dict union / set union / intersection /
   difference / symmetric difference / issubset / issuperset): from a well-formed state representing l
   the model succeeds (no OutOfFuel, no Dangling pointer), returns exactly the
   output of the association list, and ends in a well-formed state representing
   the association list's result. *)
Theorem refinement_step :
  forall (K V : Type) (eqb : K -> K -> bool) (h : K -> N) (vnone : V), eq_ok eqb ->
  forall (s : @state K V) l o, R h s l ->
    exists s', step eqb h vnone s o = Ok (s', snd (spec_step eqb vnone l o)) /\
               R h s' (fst (spec_step eqb vnone l o)).
Proof. intros K V eqb h vnone He. exact (step_ok eqb He h vnone). Qed.

(* All operation histories, of any length (induction over the operation list). *)
Theorem refinement_history :
  forall (K V : Type) (eqb : K -> K -> bool) (h : K -> N) (vnone : V), eq_ok eqb ->
  forall os (s : @state K V) l, R h s l ->
    exists s', run eqb h vnone s os = Ok (s', snd (spec_run eqb vnone l os)) /\
               R h s' (fst (spec_run eqb vnone l os)).
Proof. intros K V eqb h vnone He. exact (run_ok eqb He h vnone). Qed.

(* The property in one statement: start from an empty dict / set, apply any
   history; then every output, len, the iteration order (keys and values), and
   every lookup equal those of the association list. *)
Theorem insertion_ordered_map_under_every_history :
  forall (K V : Type) (eqb : K -> K -> bool) (h : K -> N) (vnone : V), eq_ok eqb ->
  forall os,
    let final := fst (spec_run eqb vnone [] os) in
    exists s : @state K V,
      run eqb h vnone zero_state os = Ok (s, snd (spec_run eqb vnone [] os)) /\
      items s = Ok final /\ len s = length final /\
      (forall k, lookup eqb h s k = sp_lookup eqb final k).
Proof.
  intros K V eqb h vnone He os final.
  destruct (run_ok eqb He h vnone os zero_state [] (R_zero h)) as (s & H1 & HR).
  exists s. split; auto. destruct (R_items h s _ HR) as [H2 H3]. repeat split; auto.
  intros k. apply (lookup_ok eqb He h); auto.
Qed.

(* the two table operations with a proof of their own (used by everything else) *)
Theorem insert_refines :
  forall (K V : Type) (eqb : K -> K -> bool) (h : K -> N), eq_ok eqb ->
  forall (s : @state K V) l k v, R h s l ->
    exists s', insert eqb h insert_fuel s k v = Ok s' /\ R h s' (sp_insert eqb l k v).
Proof. intros K V eqb h He s l k v. exact (insert_ok eqb He h 0 s l k v). Qed.

Theorem delete_refines :
  forall (K V : Type) (eqb : K -> K -> bool) (h : K -> N), eq_ok eqb ->
  forall (s : @state K V) l k, R h s l ->
    exists s', delete eqb h s k = Ok (s', sp_lookup eqb l k) /\ R h s' (sp_delete eqb l k) /\ nb s' = nb s.
Proof. intros K V eqb h He. exact (delete_ok eqb He h). Qed.

(* ------------------------------------------- the property's words, as corollaries *)

(* new keys go last; updating a key keeps its place (and everybody else's) *)
Theorem new_keys_go_last_updates_keep_place :
  forall (K V : Type) (eqb : K -> K -> bool) (h : K -> N) (vnone : V), eq_ok eqb ->
  forall (s : @state K V) l k v, R h s l ->
    exists s', step eqb h vnone s (OInsert k v) = Ok (s', ONone) /\
      (sp_lookup eqb l k = None -> items s' = Ok (l ++ [(k, v)])) /\
      (sp_lookup eqb l k <> None ->
         items s' = Ok (sp_replace eqb l k v) /\ keys (sp_replace eqb l k v) = keys l) /\
      lookup eqb h s' k = Some v.
Proof.
  intros K V eqb h vnone He s l k v HR.
  destruct (step_ok eqb He h vnone s l (OInsert k v) HR) as (s' & H1 & R1). cbn in H1, R1.
  exists s'. split; auto. destruct (R_items h s' _ R1) as [H2 _].
  assert (Hl : lookup eqb h s' k = Some v).
  { rewrite (lookup_ok eqb He h s' _ k R1). apply (sp_lookup_insert_same eqb He). }
  repeat split; auto.
  - intros E. unfold sp_insert in H2. rewrite E in H2. auto.
  - unfold sp_insert in H2. destruct (sp_lookup eqb l k); [auto|contradiction].
  - apply keys_sp_replace.
Qed.

(* deleting and re-inserting moves the key to the end *)
Theorem delete_reinsert_moves_to_end :
  forall (K V : Type) (eqb : K -> K -> bool) (h : K -> N) (vnone : V), eq_ok eqb ->
  forall (s : @state K V) l k v, R h s l ->
    exists s' w, run eqb h vnone s [ODelete k; OInsert k v] = Ok (s', [OVal w; ONone]) /\
                 w = sp_lookup eqb l k /\
                 items s' = Ok (sp_delete eqb l k ++ [(k, v)]) /\
                 ~ In k (keys (sp_delete eqb l k)).
Proof.
  intros K V eqb h vnone He s l k v HR.
  destruct (run_ok eqb He h vnone [ODelete k; OInsert k v] s l HR) as (s' & H1 & R1).
  cbn in H1, R1. exists s', (sp_lookup eqb l k). split; auto. split; auto.
  assert (ND : NoDup (keys l)) by (apply (R_keys_nodup h s l HR)).
  assert (Hn : ~ In k (keys (sp_delete eqb l k))).
  { rewrite (sp_delete_filter eqb He) by auto. intros H. unfold keys in H. apply in_map_iff in H.
    destruct H as (kv & <- & H). apply filter_In in H. destruct H as [_ H].
    rewrite (eqb_refl eqb He) in H. discriminate. }
  split; auto. destruct (R_items h s' _ R1) as [H2 _]. rewrite H2. f_equal.
  unfold sp_insert. rewrite (sp_lookup_notin eqb He); auto.
Qed.

(* len = number of distinct live keys; lookup finds exactly the live pairs;
   iteration order = the association list's order *)
Theorem len_lookup_iteration :
  forall (K V : Type) (eqb : K -> K -> bool) (h : K -> N), eq_ok eqb ->
  forall (s : @state K V) l, R h s l ->
    len s = length (keys l) /\ NoDup (keys l) /\
    (forall k v, lookup eqb h s k = Some v <-> In (k, v) l) /\
    items s = Ok l.
Proof.
  intros K V eqb h He s l HR. destruct (R_items h s l HR) as [H1 H2].
  assert (ND : NoDup (keys l)) by (apply (R_keys_nodup h s l HR)).
  repeat split; auto.
  - unfold keys. rewrite map_length. auto.
  - rewrite (lookup_ok eqb He h s l k HR). apply (sp_lookup_in eqb He); auto.
  - rewrite (lookup_ok eqb He h s l k HR). apply (sp_lookup_in eqb He); auto.
Qed.

(* derived collections list left-operand elements first: the keys of the result,
   in iteration order, are -- union / update: the left keys, then the new keys of
   the right operand in first-occurrence order; intersection and difference: the
   left keys that are / are not in the right operand, in left order; symmetric
   difference: the left keys not in the right operand, then the right-only keys
   in first-occurrence order. *)
Theorem derived_collections_left_operand_first :
  forall (K V : Type) (eqb : K -> K -> bool) (h : K -> N) (vnone : V), eq_ok eqb ->
  forall (s : @state K V) l, R h s l ->
    let newkeys ks := dedup eqb (filter (fun k => negb (memb eqb k (keys l))) ks) in
    (forall xs, exists s', step eqb h vnone s (ODictUnion xs) = Ok (s', ONone) /\ R h s' (sp_update eqb l xs) /\
                           keys (sp_update eqb l xs) = keys l ++ newkeys (keys xs)) /\
    (forall xs, exists s', step eqb h vnone s (OUpdate xs) = Ok (s', ONone) /\ R h s' (sp_update eqb l xs) /\
                           keys (sp_update eqb l xs) = keys l ++ newkeys (keys xs)) /\
    (forall ks, exists s' l', step eqb h vnone s (OSetUnion ks) = Ok (s', ONone) /\ R h s' l' /\
                              keys l' = keys l ++ newkeys ks) /\
    (forall ks, exists s' l', step eqb h vnone s (OSetInter ks) = Ok (s', ONone) /\ R h s' l' /\
                              keys l' = filter (fun k => memb eqb k ks) (keys l)) /\
    (forall ks, exists s' l', step eqb h vnone s (OSetDiff ks) = Ok (s', ONone) /\ R h s' l' /\
                              keys l' = filter (fun k => negb (memb eqb k ks)) (keys l)) /\
    (forall ks, exists s' l', step eqb h vnone s (OSetSymDiff ks) = Ok (s', ONone) /\ R h s' l' /\
                              keys l' = filter (fun k => negb (memb eqb k ks)) (keys l) ++ newkeys ks).
Proof.
  intros K V eqb h vnone He s l HR newkeys.
  assert (Hf : forall (p : K -> bool) (a : list (K * V)),
             keys (filter (fun kv => p (fst kv)) (as_set vnone a)) = filter p (keys a)).
  { intros p a. unfold keys, as_set. induction a as [|[x w] r IH]; cbn; auto. destruct (p x); cbn; rewrite IH; auto. }
  repeat split.
  - intros xs. destruct (step_ok eqb He h vnone s l (ODictUnion xs) HR) as (s' & H1 & R1).
    exists s'. repeat split; auto. apply (keys_sp_update eqb He).
  - intros xs. destruct (step_ok eqb He h vnone s l (OUpdate xs) HR) as (s' & H1 & R1).
    exists s'. repeat split; auto. apply (keys_sp_update eqb He).
  - intros ks. destruct (step_ok eqb He h vnone s l (OSetUnion ks) HR) as (s' & H1 & R1).
    exists s', (sp_union eqb vnone l ks). repeat split; auto.
    unfold sp_union. rewrite keys_app, keys_as_set, keys_elems. auto.
  - intros ks. destruct (step_ok eqb He h vnone s l (OSetInter ks) HR) as (s' & H1 & R1).
    exists s', (sp_inter eqb vnone l ks). repeat split; auto. apply (Hf (fun k => memb eqb k ks)).
  - intros ks. destruct (step_ok eqb He h vnone s l (OSetDiff ks) HR) as (s' & H1 & R1).
    exists s', (sp_diff eqb vnone l ks). repeat split; auto. apply (Hf (fun k => negb (memb eqb k ks))).
  - intros ks. destruct (step_ok eqb He h vnone s l (OSetSymDiff ks) HR) as (s' & H1 & R1).
    exists s', (sp_symdiff eqb vnone l ks). repeat split; auto.
    unfold sp_symdiff, sp_diff. rewrite keys_app, keys_elems. f_equal.
    apply (Hf (fun k => negb (memb eqb k ks))).
Qed.

(* pop / popitem / setdefault / clear against the association list (instances of
   refinement_step, spelled out) *)
Theorem pop_popitem_setdefault_clear :
  forall (K V : Type) (eqb : K -> K -> bool) (h : K -> N) (vnone : V), eq_ok eqb ->
  forall (s : @state K V) l, R h s l ->
    (forall k, exists s', step eqb h vnone s (ODelete k) = Ok (s', OVal (sp_lookup eqb l k)) /\
                          R h s' (sp_delete eqb l k)) /\
    (exists s', step eqb h vnone s OPopFirst =
                  Ok (s', OKV (match l with [] => None | kv :: _ => Some kv end)) /\ R h s' (tl l)) /\
    (forall k v, exists s', step eqb h vnone s (OSetDefault k v) =
                              Ok (s', OVal (Some (match sp_lookup eqb l k with Some w => w | None => v end))) /\
                            R h s' (match sp_lookup eqb l k with Some _ => l | None => l ++ [(k, v)] end)) /\
    (exists s', step eqb h vnone s OClear = Ok (s', ONone) /\ R h s' [] /\ nb s' = nb s).
Proof.
  intros K V eqb h vnone He s l HR. repeat split.
  - intros k. apply (step_ok eqb He h vnone s l (ODelete k) HR).
  - destruct (step_ok eqb He h vnone s l OPopFirst HR) as (s' & H1 & R1). exists s'.
    destruct l as [|kv r]; cbn in *; auto.
  - intros k v. destruct (step_ok eqb He h vnone s l (OSetDefault k v) HR) as (s' & H1 & R1). exists s'.
    cbn in *. destruct (sp_lookup eqb l k); auto.
  - exists (clear s). repeat split. apply (R_empty_table h).
Qed.

(* hashtable.count with its per-chain bitsets: issubset / issuperset (and the set
   comparisons <=, >=, built on them) answer as the association list does *)
Theorem subset_queries :
  forall (K V : Type) (eqb : K -> K -> bool) (h : K -> N), eq_ok eqb ->
  forall (s : @state K V) l ks, R h s l ->
    (is_subset eqb h s ks = true <-> forall k, In k (keys l) -> In k ks) /\
    (is_superset eqb h s ks = true <-> forall k, In k ks -> In k (keys l)).
Proof.
  intros K V eqb h He s l ks HR.
  rewrite (is_subset_ok eqb He h s l ks HR), (is_superset_ok eqb He h s l ks HR).
  unfold sp_issubset, sp_issuperset. rewrite !forallb_forall. split; split.
  - intros H k Hk. unfold keys in Hk. apply in_map_iff in Hk. destruct Hk as (kv & <- & Hkv).
    apply (memb_in eqb He). auto.
  - intros H kv Hkv. apply (memb_in eqb He). apply H. apply in_map. auto.
  - intros H k Hk. apply (memb_in eqb He). auto.
  - intros H k Hk. apply (memb_in eqb He). auto.
Qed.

(* ---------------------------------------------------------------- non-vacuity *)

(* The hypothesis R is satisfiable by a non-trivial state: 12 keys that all hash
   to 0 (remapped to 1), so one chain with an overflow bucket after a grow; then
   a delete in the full chain and a re-insert that reuses the vacated slot. *)
Definition ex_ops : list (op N N) :=
  map (fun i => OInsert (N.of_nat i) (N.of_nat (100 + i))) (seq 0 12)
  ++ [ODelete 3%N; OInsert 20%N 7%N; OInsert 3%N 8%N; OSetDefault 5%N 9%N; OPopFirst].

Example premises_hold_on_a_grown_overflowing_table :
  exists s, run N.eqb (fun _ => 0%N) 0%N zero_state ex_ops = Ok (s, snd (spec_run N.eqb 0%N [] ex_ops)) /\
            R (fun _ : N => 0%N) s (fst (spec_run N.eqb 0%N [] ex_ops)) /\
            nb s = 2 /\ max_chain s = 2 /\
            map fst (fst (spec_run N.eqb 0%N [] ex_ops)) = [1; 2; 4; 5; 6; 7; 8; 9; 10; 11; 20; 3]%N.
Proof.
  destruct (run_ok N.eqb N.eqb_eq (fun _ => 0%N) 0%N ex_ops zero_state [] (R_zero _)) as (s & H1 & R1).
  exists s. split; auto. split; auto.
  assert (E : match run N.eqb (fun _ => 0%N) 0%N zero_state ex_ops with
              | Ok (s, _) => (nb s, max_chain s) | _ => (0, 0) end = (2, 2)) by (vm_compute; reflexivity).
  rewrite H1 in E. injection E as E1 E2. repeat split; auto.
Qed.

(* ======================================================================
   The guarded layer: the same pointer-level table WITH hashtable.go's two guard
   fields (Guarded.v: state = Concrete.state + frozen : bool + itercount : N, a
   uint32 whose ++ / -- wrap modulo 2^32), every mutator behind checkMutable at
   the place the code has it (insert: BEFORE the lazy `if ht.table == nil
   { ht.init(1) }`; delete; clear -- also on an empty table), popitem / pop and
   s.clear() with their look-before-you-call tests (library.go), iterate() /
   Done() touching itercount only when not frozen, freeze().  The specification
   (GuardedSpec.v) is the association list plus the two flags.

   Abstracted: as above; freeze()'s e.key.Freeze() / e.value.Freeze() act on the
   key / value objects (abstract here), not on the table's memory; errors are
   compared by class (Frozen | Iterating), never by message.  The tie of THIS
   layer to /repo is the guard mode of checks/c12.py (`c12 guard`: public API
   SetKey / Insert / Delete / Clear / popitem / pop / s.clear() / Get / Has /
   Items / Len / IsSubset / Iterate / Done / Freeze, every observation evaluated
   against Guarded.v and GuardedSpec.v by GuardedCheck.v; and the bytes of the
   real hashtable struct and all its buckets must not change across a refused
   mutator, a reader, any event on a frozen table, a whole iteration).
   ====================================================================== *)
From SV Require Import C12.GuardedOps C12.GuardedSpec C12.Guarded C12.ProofsGuarded.

(* (1) A refused mutation leaves the table untouched: for EVERY state g (any
   store, well formed or not, any hash function) that is frozen or has a live
   iterator, insert / delete / clear return the error of checkMutable (Frozen
   first, else Iterating) and the state returned is EQUAL to g -- the whole
   record: store at every address, nb, nbk, len, head, tailLink and both flags;
   in particular a nil table stays nil (no lazy init), an existing key keeps its
   value.  s.clear() does the same unless the set is empty (then it succeeds
   without calling Clear -- the code's `if Len() > 0`); popitem() / pop() return
   the error when the table has a first entry and the "empty" error when it has
   none (first() comes before Delete), the state equal to g in both cases. *)
Theorem refused_leaves_table_untouched :
  forall (K V : Type) (eqb : K -> K -> bool) (h : K -> N) (vnone : V) (g : @gstate K V),
    frozen g = true \/ (0 < itercount g)%N ->
    let e := if frozen g then Frozen else Iterating in
    (forall k v, g_insert eqb h g k v = Ok (g, GErr e)) /\
    (forall k, g_delete eqb h g k = Ok (g, GErr e)) /\
    g_clear g = Ok (g, GErr e) /\
    g_set_clear g = Ok (g, if Nat.eqb (len (tbl g)) 0 then GO ONone else GErr e) /\
    (forall g' r, g_pop_first eqb h vnone g = Ok (g', r) ->
        g' = g /\ ((r = GErr e /\ head (tbl g) <> None) \/ (r = GO (OKV None) /\ head (tbl g) = None))) /\
    (forall l, R h (tbl g) l ->
        g_pop_first eqb h vnone g = Ok (g, match l with [] => GO (OKV None) | _ :: _ => GErr e end)).
Proof. intros K V eqb h vnone. exact (refused_untouched eqb h vnone). Qed.

(* the same for the event alphabet: whatever a refused mutator event returns, the state is g *)
Theorem refused_event_returns_the_same_state :
  forall (K V : Type) (eqb : K -> K -> bool) (h : K -> N) (vnone : V) (g : @gstate K V) o,
    frozen g = true \/ (0 < itercount g)%N -> is_mutator o = true ->
    forall g' r, g_step eqb h vnone g o = Ok (g', r) -> g' = g.
Proof. intros K V eqb h vnone. exact (refused_step_same eqb h vnone). Qed.

(* (2) Not frozen and no live iterator: the guarded operation IS the Concrete.v
   operation (equal results, flags unchanged: with_tbl keeps frozen / itercount),
   hence inherits refinement_step.  s.clear() clears, or does nothing on an empty set. *)
Theorem guarded_refines :
  forall (K V : Type) (eqb : K -> K -> bool) (h : K -> N) (vnone : V), eq_ok eqb ->
  forall g : @gstate K V, frozen g = false -> itercount g = 0%N ->
    (forall o co, core o = Some co ->
       g_step eqb h vnone g o =
       step eqb h vnone (tbl g) co >>= fun r => Ok (with_tbl g (fst r), GO (snd r))) /\
    (forall l o co, core o = Some co -> R h (tbl g) l ->
       exists t', g_step eqb h vnone g o = Ok (with_tbl g t', GO (snd (spec_step eqb vnone l co))) /\
                  R h t' (fst (spec_step eqb vnone l co))) /\
    (forall l, R h (tbl g) l ->
       exists t', g_step eqb h vnone g GSetClear = Ok (with_tbl g t', GO ONone) /\ R h t' []).
Proof. intros K V eqb h vnone He. exact (guarded_refines_all eqb h vnone He). Qed.

(* (3) Readers never write: lookup / items / len / issubset (hashtable.count)
   return the state they were given -- for EVERY state and whatever the flags --
   and, on a well-formed table, the association list's answers; on a FROZEN table
   iterate() / Done() / a whole iteration / freeze() leave the state equal too
   (itercount is not touched) and the iteration yields the list's keys in order. *)
Theorem reads_never_write :
  forall (K V : Type) (eqb : K -> K -> bool) (h : K -> N) (vnone : V), eq_ok eqb ->
  forall g : @gstate K V,
    (forall o, is_reader o = true -> forall g' r, g_step eqb h vnone g o = Ok (g', r) -> g' = g) /\
    (forall l, R h (tbl g) l ->
      (forall k, g_step eqb h vnone g (GLookup k) = Ok (g, GO (OVal (sp_lookup eqb l k)))) /\
      g_step eqb h vnone g GItems = Ok (g, GItemsOut l) /\
      g_step eqb h vnone g GLen = Ok (g, GLenOut (length l)) /\
      (forall ks, g_step eqb h vnone g (GIsSubset ks) = Ok (g, GO (OBool (sp_issubset eqb l ks)))) /\
      (forall ks, fst (g_count eqb h g ks) = g) /\
      (frozen g = true ->
         g_iter_begin g = (g, head (tbl g)) /\ g_iter_done g = g /\
         g_step eqb h vnone g GIterBegin = Ok (g, GO ONone) /\
         g_step eqb h vnone g GIterDone = Ok (g, GO ONone) /\
         g_step eqb h vnone g GIterate = Ok (g, GKeysOut (keys l)) /\
         g_step eqb h vnone g GFreeze = Ok (g, GO ONone))).
Proof. intros K V eqb h vnone He. exact (reads_never_write_all eqb h vnone He). Qed.

(* (4) iterate(); Done() on an unfrozen table: the table is not touched and
   itercount comes back modulo 2^32 -- exactly, for every value a uint32 can hold
   (also Done(); iterate()).  In between the table refuses mutation -- unless the
   counter wrapped: with 2^32 - 1 live iterators one more iterate() makes
   itercount 0 and checkMutable passes (the uint32 wrap, stated as it is). *)
Theorem iterate_balanced :
  forall (K V : Type) (g : @gstate K V), frozen g = false ->
    g_iter_done (fst (g_iter_begin g)) = mkG (tbl g) false (u32 (itercount g)) /\
    g_iter_begin (g_iter_done g) = (mkG (tbl g) false (u32 (itercount g)), head (tbl g)) /\
    ((itercount g < two32)%N -> g_iter_done (fst (g_iter_begin g)) = g) /\
    ((itercount g < two32 - 1)%N -> check_mutable (fst (g_iter_begin g)) = Some Iterating) /\
    (itercount g = (two32 - 1)%N -> check_mutable (fst (g_iter_begin g)) = None).
Proof. intros K V. exact (@iterate_done_balanced K V). Qed.

(* (5) Every history of guarded events (mutators, readers, iterate / Done, whole
   iterations, freeze -- in any order, any length, Done without iterate included)
   from any well-formed table with any flags: every output -- values, errors and
   their class, items, len, iteration order -- equals that of the guarded
   association list, the table stays well formed and represents the list, the
   flags agree.  Induction over the event list; the specification's run is a
   fold_left.  In particular from new(Dict) / new(Set). *)
Theorem history_guarded :
  forall (K V : Type) (eqb : K -> K -> bool) (h : K -> N) (vnone : V), eq_ok eqb ->
  forall os,
    (forall (g : @gstate K V) l, R h (tbl g) l ->
       let gs := mkGS l (frozen g) (itercount g) in
       exists g', g_run eqb h vnone g os = Ok (g', snd (gspec_run eqb vnone gs os)) /\
                  R h (tbl g') (sl (fst (gspec_run eqb vnone gs os))) /\
                  frozen g' = sfrozen (fst (gspec_run eqb vnone gs os)) /\
                  itercount g' = siter (fst (gspec_run eqb vnone gs os))) /\
    (let final := fst (gspec_run eqb vnone gs_empty os) in
     exists g', g_run eqb h vnone g_zero os = Ok (g', snd (gspec_run eqb vnone gs_empty os)) /\
                items (tbl g') = Ok (sl final) /\ len (tbl g') = length (sl final) /\
                (forall k, lookup eqb h (tbl g') k = sp_lookup eqb (sl final) k) /\
                frozen g' = sfrozen final /\ itercount g' = siter final).
Proof. intros K V eqb h vnone He. exact (history_guarded_all eqb h vnone He). Qed.

(* ---- non-vacuity of the guarded layer ---- *)
(* History 1: two inserts; iterate(); insert of the EXISTING key 1, insert of a
   new key, delete -- all refused (Iterating), key 1 still maps to 10; Done();
   the same insert now succeeds; freeze(); clear refused (Frozen); iterate() /
   Done() on the frozen table leave itercount at 0; a whole iteration yields
   1, 2; popitem refused (Frozen); the items are (1,11), (2,20).
   History 2: new(Dict), frozen while its table is still nil: Clear is refused
   although the table is empty, s.clear() succeeds, popitem says "empty" (not
   "frozen"), insert and delete are refused -- and the table is STILL nil
   (nb = 0): the refused insert did not run the lazy init. *)
Definition ex_gops1 : list (gop N N) :=
  [GInsert 1 10; GInsert 2 20; GIterBegin; GInsert 1 99; GInsert 3 30; GDelete 2; GLookup 1; GIterDone;
   GInsert 1 11; GFreeze; GClear; GIterBegin; GIterDone; GIterate; GPopFirst; GItems]%N.
Definition ex_gops2 : list (gop N N) :=
  [GFreeze; GClear; GSetClear; GPopFirst; GInsert 1 1; GDelete 1; GLen; GIterate]%N.
Definition ex_gobs (os : list (gop N N)) :=
  match g_run N.eqb (fun _ => 0%N) 0%N g_zero os with
  | Ok (g', outs) => Some (outs, frozen g', itercount g', nb (tbl g'), items (tbl g'))
  | _ => None
  end.

Example guarded_premises_hold :
  ex_gobs ex_gops1 =
    Some ([GO ONone; GO ONone; GO ONone; GErr Iterating; GErr Iterating; GErr Iterating;
           GO (OVal (Some 10)); GO ONone; GO ONone; GO ONone; GErr Frozen; GO ONone; GO ONone;
           GKeysOut [1; 2]; GErr Frozen; GItemsOut [(1, 11); (2, 20)]],
          true, 0, 1%nat, Ok [(1, 11); (2, 20)])%N /\
  ex_gobs ex_gops2 =
    Some ([GO ONone; GErr Frozen; GO ONone; GO (OKV None); GErr Frozen; GErr Frozen; GLenOut 0; GKeysOut []],
          true, 0%N, 0%nat, Ok []) /\
  (* a well-formed state with a live iterator exists (premise of (1)), and one
     that is mutable (premise of (2)) *)
  (exists g : @gstate N N,
     g_run N.eqb (fun _ => 0%N) 0%N g_zero [GInsert 1 10; GInsert 2 20; GIterBegin]%N = Ok (g, [GO ONone; GO ONone; GO ONone]) /\
     R (fun _ : N => 0%N) (tbl g) [(1, 10); (2, 20)]%N /\ frozen g = false /\ (0 < itercount g)%N) /\
  (exists g : @gstate N N,
     g_run N.eqb (fun _ => 0%N) 0%N g_zero [GInsert 1 10; GIterBegin; GIterDone]%N = Ok (g, [GO ONone; GO ONone; GO ONone]) /\
     R (fun _ : N => 0%N) (tbl g) [(1, 10)]%N /\ frozen g = false /\ itercount g = 0%N).
Proof.
  split; [vm_compute; reflexivity|]. split; [vm_compute; reflexivity|]. split.
  - destruct (grun_ok N.eqb (fun _ => 0%N) 0%N N.eqb_eq [GInsert 1 10; GInsert 2 20; GIterBegin]%N
                      g_zero gs_empty (GR_zero _)) as (g & H1 & HR & Hf & Hi).
    exists g. split; [exact H1|]. split; [exact HR|]. split; [exact Hf|]. rewrite Hi. vm_compute. reflexivity.
  - destruct (grun_ok N.eqb (fun _ => 0%N) 0%N N.eqb_eq [GInsert 1 10; GIterBegin; GIterDone]%N
                      g_zero gs_empty (GR_zero _)) as (g & H1 & HR & Hf & Hi).
    exists g. split; [exact H1|]. split; [exact HR|]. split; [exact Hf|]. rewrite Hi. vm_compute. reflexivity.
Qed.
