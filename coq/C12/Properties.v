(* C12 -- property theorems only (work in progress: first theorems). *)
From Coq Require Import List Bool NArith.
From SV Require Import C12.Ops C12.Spec C12.Concrete C12.ProofsBase C12.ProofsOps.
Import ListNotations.

Theorem lookup_refines :
  forall (K V : Type) (eqb : K -> K -> bool) (h : K -> N),
    (forall a b, eqb a b = true <-> a = b) ->
    forall (s : @state K V) l k, R h s l -> lookup eqb h s k = sp_lookup eqb l k.
Proof. intros K V eqb h H. exact (lookup_ok eqb H h). Qed.

Example zero_state_represents_empty : R (fun k : N => k) (@zero_state N N) [].
Proof. apply R_zero. Qed.
