(* C12 -- the specification: a plain ordered association list.
   Independent of the hashtable model (imports only the operation alphabet). *)
From Coq Require Import List Bool.
From SV Require Import C12.Ops.
Import ListNotations.

Section Spec.
  Context {K V : Type}.
  Variable eqb : K -> K -> bool.      (* key equality (Starlark ==) *)
  Variable vnone : V.                 (* the value stored for set elements (None) *)

  Definition alist := list (K * V).

  Definition keys (l : alist) : list K := map fst l.

  Fixpoint memb (k : K) (ks : list K) : bool :=
    match ks with [] => false | x :: r => eqb k x || memb k r end.

  Fixpoint sp_lookup (l : alist) (k : K) : option V :=
    match l with
    | [] => None
    | (x, v) :: r => if eqb k x then Some v else sp_lookup r k
    end.

  (* updating a key keeps its place *)
  Fixpoint sp_replace (l : alist) (k : K) (v : V) : alist :=
    match l with
    | [] => []
    | (x, w) :: r => if eqb k x then (x, v) :: r else (x, w) :: sp_replace r k v
    end.

  (* new keys go last *)
  Definition sp_insert (l : alist) (k : K) (v : V) : alist :=
    match sp_lookup l k with
    | Some _ => sp_replace l k v
    | None => l ++ [(k, v)]
    end.

  Fixpoint sp_delete (l : alist) (k : K) : alist :=
    match l with
    | [] => []
    | (x, w) :: r => if eqb k x then r else (x, w) :: sp_delete r k
    end.

  Definition sp_update (l : alist) (items : alist) : alist :=
    fold_left (fun acc kv => sp_insert acc (fst kv) (snd kv)) items l.

  (* first occurrences only, in order *)
  Fixpoint dedup (ks : list K) : list K :=
    match ks with
    | [] => []
    | x :: r => x :: filter (fun y => negb (eqb y x)) (dedup r)
    end.

  Definition as_set (l : alist) : alist := map (fun kv => (fst kv, vnone)) l.
  Definition elems (ks : list K) : alist := map (fun k => (k, vnone)) ks.

  (* derived collections list left-operand elements first *)
  Definition sp_union (l : alist) (ks : list K) : alist :=
    as_set l ++ elems (dedup (filter (fun k => negb (memb k (keys l))) ks)).
  Definition sp_inter (l : alist) (ks : list K) : alist :=
    filter (fun kv => memb (fst kv) ks) (as_set l).
  Definition sp_diff (l : alist) (ks : list K) : alist :=
    filter (fun kv => negb (memb (fst kv) ks)) (as_set l).
  Definition sp_symdiff (l : alist) (ks : list K) : alist :=
    sp_diff l ks ++ elems (dedup (filter (fun k => negb (memb k (keys l))) ks)).

  (* every element of l occurs in ks / every element of ks is in l *)
  Definition sp_issubset (l : alist) (ks : list K) : bool := forallb (fun kv => memb (fst kv) ks) l.
  Definition sp_issuperset (l : alist) (ks : list K) : bool := forallb (fun k => memb k (keys l)) ks.

  Definition spec_step (l : alist) (o : op K V) : alist * out K V :=
    match o with
    | OInsert k v => (sp_insert l k v, ONone)
    | OLookup k => (l, OVal (sp_lookup l k))
    | ODelete k => (sp_delete l k, OVal (sp_lookup l k))
    | ODiscard k => (sp_delete l k, ONone)
    | OClear => ([], ONone)
    | OPopFirst => match l with [] => ([], OKV None) | kv :: r => (r, OKV (Some kv)) end
    | OSetDefault k v =>
        match sp_lookup l k with
        | Some w => (l, OVal (Some w))
        | None => (l ++ [(k, v)], OVal (Some v))
        end
    | OUpdate items => (sp_update l items, ONone)
    | ODictUnion items => (sp_update l items, ONone)
    | OSetUnion ks => (sp_union l ks, ONone)
    | OSetInter ks => (sp_inter l ks, ONone)
    | OSetDiff ks => (sp_diff l ks, ONone)
    | OSetSymDiff ks => (sp_symdiff l ks, ONone)
    | OIsSubset ks => (l, OBool (sp_issubset l ks))
    | OIsSuperset ks => (l, OBool (sp_issuperset l ks))
    end.

  (* a whole history: final list and the outputs, in order *)
  Fixpoint spec_run (l : alist) (os : list (op K V)) : alist * list (out K V) :=
    match os with
    | [] => (l, [])
    | o :: r => let '(l1, x) := spec_step l o in
                let '(l2, xs) := spec_run l1 r in (l2, x :: xs)
    end.

  (* the list after each operation of a history (what the harness observes) *)
  Fixpoint spec_trace (l : alist) (os : list (op K V)) : list (alist * out K V) :=
    match os with
    | [] => []
    | o :: r => let '(l1, x) := spec_step l o in (l1, x) :: spec_trace l1 r
    end.
End Spec.
