(* Go machine-integer arithmetic written out over Z: two's-complement wrap,
   truncated division.  Shared prelude of every model that mirrors Go integer
   code (DESIGN.md section 4). *)
From Coq Require Import ZArith Lia Bool List.
From Coq Require Import ZifyBool.
Open Scope Z_scope.

Definition wrapS (bits : Z) (z : Z) : Z :=
  (z + 2 ^ (bits - 1)) mod 2 ^ bits - 2 ^ (bits - 1).
Definition wrapU (bits : Z) (z : Z) : Z := z mod 2 ^ bits.

Definition wrap64 (z : Z) : Z := (z + 9223372036854775808) mod 18446744073709551616 - 9223372036854775808.
Definition wrap32 (z : Z) : Z := (z + 2147483648) mod 4294967296 - 2147483648.
Definition wrap16 (z : Z) : Z := (z + 32768) mod 65536 - 32768.
Definition wrap8  (z : Z) : Z := (z + 128) mod 256 - 128.
Definition wrapu64 (z : Z) : Z := z mod 18446744073709551616.
Definition wrapu32 (z : Z) : Z := z mod 4294967296.
Definition wrapu16 (z : Z) : Z := z mod 65536.
Definition wrapu8  (z : Z) : Z := z mod 256.

Definition min_int64 : Z := -9223372036854775808.
Definition max_int64 : Z := 9223372036854775807.
Definition min_int32 : Z := -2147483648.
Definition max_int32 : Z := 2147483647.
Definition max_uint32 : Z := 4294967295.
Definition max_uint64 : Z := 18446744073709551615.

Definition in_int64 (z : Z) : bool := (min_int64 <=? z) && (z <=? max_int64).
Definition in_int32 (z : Z) : bool := (min_int32 <=? z) && (z <=? max_int32).
Definition in_uint64 (z : Z) : bool := (0 <=? z) && (z <=? max_uint64).
Definition in_uint32 (z : Z) : bool := (0 <=? z) && (z <=? max_uint32).

Lemma wrap64_id z : in_int64 z = true -> wrap64 z = z.
Proof.
  unfold in_int64, wrap64, min_int64, max_int64. intros H.
  apply andb_true_iff in H. destruct H as [H1 H2].
  apply Z.leb_le in H1. apply Z.leb_le in H2.
  rewrite Z.mod_small; lia.
Qed.

Lemma wrap64_range z : in_int64 (wrap64 z) = true.
Proof.
  unfold in_int64, wrap64, min_int64, max_int64.
  pose proof (Z.mod_pos_bound (z + 9223372036854775808) 18446744073709551616 ltac:(lia)).
  apply andb_true_iff. split; apply Z.leb_le; lia.
Qed.

Lemma wrap32_id z : in_int32 z = true -> wrap32 z = z.
Proof.
  unfold in_int32, wrap32, min_int32, max_int32. intros H.
  apply andb_true_iff in H. destruct H as [H1 H2].
  apply Z.leb_le in H1. apply Z.leb_le in H2.
  rewrite Z.mod_small; lia.
Qed.

Lemma wrap32_range z : in_int32 (wrap32 z) = true.
Proof.
  unfold in_int32, wrap32, min_int32, max_int32.
  pose proof (Z.mod_pos_bound (z + 2147483648) 4294967296 ltac:(lia)).
  apply andb_true_iff. split; apply Z.leb_le; lia.
Qed.

Lemma wrapu32_range z : in_uint32 (wrapu32 z) = true.
Proof.
  unfold in_uint32, wrapu32, max_uint32.
  pose proof (Z.mod_pos_bound z 4294967296 ltac:(lia)).
  apply andb_true_iff. split; apply Z.leb_le; lia.
Qed.

Lemma wrapu32_id z : in_uint32 z = true -> wrapu32 z = z.
Proof.
  unfold in_uint32, wrapu32, max_uint32. intros H.
  apply andb_true_iff in H. destruct H as [H1 H2].
  apply Z.leb_le in H1. apply Z.leb_le in H2.
  rewrite Z.mod_small; lia.
Qed.

Lemma wrap64_wrap64 z : wrap64 (wrap64 z) = wrap64 z.
Proof. apply wrap64_id, wrap64_range. Qed.

(* a / b is bounded by |a| : lia cannot find this by itself *)
Lemma quot_bound a b : b <> 0 -> Z.abs (Z.quot a b) <= Z.abs a.
Proof.
  intros Hb. rewrite <- Z.quot_abs by assumption.
  destruct (Z.eq_dec (Z.abs a) 0) as [E|E].
  - rewrite E. rewrite Z.quot_0_l; lia.
  - apply Z.quot_le_upper_bound; try lia.
    assert (1 <= Z.abs b) by lia. nia.
Qed.

(* Go's x / y and x % y on signed integers: truncated; y = 0 panics (None). *)
Definition go_quot (x y : Z) : option Z := if y =? 0 then None else Some (Z.quot x y).
Definition go_rem  (x y : Z) : option Z := if y =? 0 then None else Some (Z.rem x y).
