(* C07 -- lemmas: a run that reaches its N-th loop head cannot succeed; with
   error-transparent host code it ends with the cancellation error. *)
From Coq Require Import NArith List Bool Lia ZifyBool ZifyNat ZifyN.
From SV Require Import C07.Model C07.Spec C07.Proofs.
Import ListNotations.
Open Scope N_scope.

Fixpoint bottom_is_star (k : list frame) : bool :=
  match k with
  | [] => false
  | f :: r => match r with
              | [] => match f with FStar _ => true | FHost => false end
              | _ :: _ => bottom_is_star r
              end
  end.

Lemma bis_cons f g r : bottom_is_star (f :: g :: r) = bottom_is_star (g :: r).
Proof. reflexivity. Qed.
Lemma bis_top p q r : bottom_is_star (FStar p :: r) = bottom_is_star (FStar q :: r).
Proof. destruct r; reflexivity. Qed.
Lemma bis_resume k : bottom_is_star (resume_head k) = bottom_is_star k.
Proof. destruct k as [|[p|] r]; auto. Qed.
Lemma bis_push f k : bottom_is_star k = true -> bottom_is_star (f :: resume_head k) = true.
Proof.
  intros H. destruct k as [|g r]; [discriminate|].
  destruct g; cbn [resume_head]; rewrite bis_cons; [rewrite (bis_top Head p)|]; exact H.
Qed.

Section M.
  Variable St : Type.
  Variable dispatch : St -> action St.
  Variable host : St -> option err -> haction St.
  Variable recursion : bool.
  Variable entry_err : St -> bool.

  Notation mstep := (mstep St dispatch host recursion entry_err).
  Notation run := (run St dispatch host recursion entry_err).
  Notation tick_step := (tick_step St dispatch host recursion entry_err).
  Notation start := (start St recursion entry_err).
  Notation push_star := (push_star St recursion entry_err).
  Notation sthread := (sthread St).
  Notation pend := (pend St).
  Notation status := (status St).
  Notation budget_inv := (budget_inv St).

  (* host code hands an error it receives from a nested call on to its caller *)
  Definition host_transparent : Prop :=
    forall s e, exists s', host s (Some e) = HFail e s'.

  Definition inv2 (n : N) (s : status) : Prop :=
    match s with
    | Running c => bottom_is_star (stk c) = true
    | Finished t _ r => r = None -> steps t < n
    end.

  Definition invJ (n : N) (s : status) : Prop :=
    n <= steps (sthread s) ->
    match s with
    | Running c => (exists x, perr c = Some (ECancel x)) \/
                   (perr c = None /\ exists rest, stk c = FStar Head :: rest)
    | Finished _ _ r => exists x, r = Some (ECancel x)
    end.

  Lemma deliver_full_inv2 n t K s r : bottom_is_star K = true -> inv2 n (deliver St t K s r).
  Proof.
    intros H. destruct K as [|[p|] rest]; [discriminate| |]; cbn; auto.
  Qed.

  Lemma deliver_inv2 n t top rest s r :
    bottom_is_star (top :: rest) = true -> (rest = [] -> r = None -> steps t < n) ->
    inv2 n (deliver St t rest s r).
  Proof.
    intros H H0. destruct rest as [|g rest'].
    - cbn. auto.
    - apply deliver_full_inv2. exact H.
  Qed.

  Lemma deliver_J n t rest s r :
    (n <= steps t -> exists x, r = Some (ECancel x)) -> invJ n (deliver St t rest s r).
  Proof.
    intros H. unfold invJ. rewrite deliver_thread. intros L. destruct (H L) as [x ->].
    destruct rest as [|[p|] rest']; cbn; eauto.
  Qed.

  Lemma tick_limit n s k s' ev :
    host_transparent ->
    1 <= n -> budget_inv n s -> (pend s = 1 -> steps (sthread s) < n) ->
    inv2 n s -> invJ n s ->
    tick_step s k = (s', ev) ->
    steps (sthread s) + nheads ev < two64 ->
    inv2 n s' /\ invJ n s'.
  Proof.
    intros HT Hn [Hm Hd] Hpn I2 IJ Ht Hw.
    destruct k as [|r|]; cbn in Ht.
    3: injection Ht as <- <-; destruct s as [[a b c d]|t x r0]; cbn in *; auto.
    2:{ injection Ht as <- <-. destruct s as [[a b c d]|t x r0]; unfold invJ in *; cbn in *;
        rewrite (proj1 (do_cancel_fields _ r)); auto. }
    destruct s as [c|t x r0]; [|injection Ht as <- <-; auto].
    unfold Model.mstep in Ht. unfold invJ in IJ. cbn [sthread Proofs.sthread status_thread pend Proofs.pend inv2] in *.
    destruct (stk c) as [|[ph|] rest] eqn:Hs; [discriminate| |].
    - destruct (perr c) as [e|] eqn:Hp.
      + injection Ht as <- <-. split.
        * eapply deliver_inv2; [exact I2|]. intros _ X; discriminate X.
        * apply deliver_J. intros L. destruct (IJ L) as [[x X]|[X _]]; [|discriminate]. eauto.
      + destruct ph.
        * destruct (loop_head (th c)) as [t' cr] eqn:Hl.
          destruct (loop_head_fields _ _ _ Hl) as (Hst & Hmx & _ & Hon & Hcr).
          destruct (loop_head_default _ _ _ Hd Hl) as (Hlim & _ & _ & _).
          destruct (head_events_counts (th c)) as [Hh0 Hd0].
          destruct cr as [r|]; injection Ht as <- <-.
          -- split.
             ++ eapply deliver_inv2; [exact I2|]. intros _ X; discriminate X.
             ++ apply deliver_J. eauto.
          -- rewrite nheads_cons, Hh0 in Hw. cbn [is_head] in Hw.
             assert (Hs1 : steps t' = steps (th c) + 1) by (rewrite Hst; apply N.mod_small; lia).
             assert (Hlt : steps t' < n).
             { destruct (N.le_gt_cases (maxSteps (th c)) ((steps (th c) + 1) mod two64)) as [L|L].
               - exfalso. apply (Hlim L). reflexivity.
               - rewrite <- Hst in L. lia. }
             split; [exact I2|].
             unfold invJ. cbn [sthread Proofs.sthread status_thread th]. intros L. lia.
        * specialize (Hpn eq_refl).
          destruct (call_init_fields (th c)) as (C1 & C2 & C3 & C4).
          destruct (dispatch (st c)); injection Ht as <- <-.
          -- split; [exact I2|]. unfold invJ; cbn. intros L; lia.
          -- unfold Model.push_star.
             destruct (_ || _).
             ++ split; [apply deliver_full_inv2; rewrite bis_resume; exact I2|].
                apply deliver_J. rewrite C1. intros L; lia.
             ++ split; [cbn [inv2 stk]; apply bis_push; exact I2|]. unfold invJ; cbn. rewrite C1. intros L; lia.
          -- split; [cbn [inv2 stk push_host]; apply bis_push; exact I2|]. unfold invJ; cbn. rewrite C1. intros L; lia.
          -- split; [eapply deliver_inv2; [exact I2|]; intros; lia|]. apply deliver_J. intros L; lia.
          -- split; [eapply deliver_inv2; [exact I2|]; intros _ X; discriminate X|]. apply deliver_J. intros L; lia.
    - destruct (call_init_fields (th c)) as (C1 & C2 & C3 & C4).
      destruct (N.le_gt_cases n (steps (th c))) as [L|L].
      + (* over the limit: an error is being delivered; the host hands it on *)
        destruct (IJ L) as [[x X]|[_ [rest' X]]]; [|discriminate].
        rewrite X in Ht. destruct (HT (st c) (ECancel x)) as [s1 E]. rewrite E in Ht.
        injection Ht as <- <-. split.
        * destruct rest as [|g rest']; [discriminate I2|]. apply deliver_full_inv2. exact I2.
        * apply deliver_J. eauto.
      + destruct (host (st c) (perr c)); injection Ht as <- <-.
        * split; [exact I2|]. unfold invJ; cbn. intros; lia.
        * unfold Model.push_star. destruct (_ || _).
          -- split; [apply deliver_full_inv2; rewrite bis_resume; exact I2|].
             apply deliver_J. rewrite C1. intros; lia.
          -- split; [cbn [inv2 stk]; apply bis_push; exact I2|]. unfold invJ; cbn. rewrite C1. intros; lia.
        * split; [exact I2|]. unfold invJ; cbn. rewrite (proj1 (do_cancel_fields _ _)). intros; lia.
        * split; [exact I2|]. unfold invJ; cbn. intros; lia.
        * split.
          -- destruct rest as [|g rest']; [discriminate I2|]. apply deliver_full_inv2. exact I2.
          -- apply deliver_J. intros; lia.
        * split.
          -- destruct rest as [|g rest']; [discriminate I2|]. apply deliver_full_inv2. exact I2.
          -- apply deliver_J. intros; lia.
  Qed.

  Lemma tick_inv2 n s k s' ev :
    1 <= n -> budget_inv n s -> (pend s = 1 -> steps (sthread s) < n) ->
    inv2 n s ->
    tick_step s k = (s', ev) ->
    steps (sthread s) + nheads ev < two64 ->
    inv2 n s'.
  Proof.
    intros Hn [Hm Hd] Hpn I2 Ht Hw.
    destruct k as [|r|]; cbn in Ht.
    3: injection Ht as <- <-; destruct s as [[a b c d]|t x r0]; cbn in *; auto.
    2:{ injection Ht as <- <-. destruct s as [[a b c d]|t x r0]; cbn in *;
        rewrite ?(proj1 (do_cancel_fields _ r)); auto. }
    destruct s as [c|t x r0]; [|injection Ht as <- <-; auto].
    unfold Model.mstep in Ht. cbn [sthread Proofs.sthread status_thread pend Proofs.pend inv2] in *.
    destruct (stk c) as [|[ph|] rest] eqn:Hs; [discriminate| |].
    - destruct (perr c) as [e|] eqn:Hp.
      + injection Ht as <- <-. eapply deliver_inv2; [exact I2|]. intros _ X; discriminate X.
      + destruct ph.
        * destruct (loop_head (th c)) as [t' cr] eqn:Hl.
          destruct cr as [r|]; injection Ht as <- <-.
          -- eapply deliver_inv2; [exact I2|]. intros _ X; discriminate X.
          -- exact I2.
        * specialize (Hpn eq_refl).
          destruct (dispatch (st c)); injection Ht as <- <-.
          -- exact I2.
          -- unfold Model.push_star. destruct (_ || _).
             ++ apply deliver_full_inv2; rewrite bis_resume; exact I2.
             ++ cbn [inv2 stk]; apply bis_push; exact I2.
          -- cbn [inv2 stk push_host]; apply bis_push; exact I2.
          -- eapply deliver_inv2; [exact I2|]; intros; lia.
          -- eapply deliver_inv2; [exact I2|]; intros _ X; discriminate X.
    - destruct (host (st c) (perr c)); injection Ht as <- <-.
      + exact I2.
      + unfold Model.push_star. destruct (_ || _).
        * apply deliver_full_inv2; rewrite bis_resume; exact I2.
        * cbn [inv2 stk]; apply bis_push; exact I2.
      + exact I2.
      + exact I2.
      + destruct rest as [|g rest']; [discriminate I2|]. apply deliver_full_inv2. exact I2.
      + destruct rest as [|g rest']; [discriminate I2|]. apply deliver_full_inv2. exact I2.
  Qed.

  Lemma run_inv2 n sched : forall s s' tr,
    1 <= n -> budget_inv n s -> (pend s = 1 -> steps (sthread s) < n) -> inv2 n s ->
    run s sched = (s', tr) ->
    steps (sthread s) + nheads tr < two64 ->
    inv2 n s' /\ steps (sthread s') = steps (sthread s) + nheads tr.
  Proof.
    induction sched as [|k rest IH]; intros s s' tr Hn Hb Hp I2 Hr Hw; cbn in Hr.
    - injection Hr as <- <-. rewrite nheads_nil. split; auto. lia.
    - destruct (tick_step s k) as [s1 e1] eqn:Ht. destruct (run s1 rest) as [s2 e2] eqn:Hr2.
      injection Hr as <- <-. rewrite nheads_app in Hw.
      destruct (tick_budget St dispatch host recursion entry_err n s k s1 e1 Hn Hb Hp Ht ltac:(lia)) as (B1 & B2 & _ & _ & B5).
      pose proof (tick_inv2 n s k s1 e1 Hn Hb Hp I2 Ht ltac:(lia)) as I2'.
      destruct (IH s1 s2 e2 Hn B1 B5 I2' Hr2 ltac:(lia)) as (X & Y).
      rewrite nheads_app. split; auto. lia.
  Qed.

  Lemma run_limit n sched : forall s s' tr,
    host_transparent ->
    1 <= n -> budget_inv n s -> (pend s = 1 -> steps (sthread s) < n) -> inv2 n s -> invJ n s ->
    run s sched = (s', tr) ->
    steps (sthread s) + nheads tr < two64 ->
    invJ n s'.
  Proof.
    induction sched as [|k rest IH]; intros s s' tr HT Hn Hb Hp I2 IJ Hr Hw; cbn in Hr.
    - injection Hr as <- <-. exact IJ.
    - destruct (tick_step s k) as [s1 e1] eqn:Ht. destruct (run s1 rest) as [s2 e2] eqn:Hr2.
      injection Hr as <- <-. rewrite nheads_app in Hw.
      destruct (tick_budget St dispatch host recursion entry_err n s k s1 e1 Hn Hb Hp Ht ltac:(lia)) as (B1 & B2 & _ & _ & B5).
      destruct (tick_limit n s k s1 e1 HT Hn Hb Hp I2 IJ Ht ltac:(lia)) as (I2' & IJ').
      apply (IH s1 s2 e2 HT Hn B1 B5 I2' IJ' Hr2). lia.
  Qed.

  (* budget_respected, parts (b) and (c) *)
  Lemma budget_outcome_lemma : forall n t s sched t' x r tr,
    1 <= n -> maxSteps t = n -> onmax t = None ->
    run (start t s) sched = (Finished t' x r, tr) ->
    steps t + nheads tr < two64 ->
    steps t' = steps t + nheads tr /\
    (r = None -> steps t + nheads tr < n) /\
    (host_transparent -> steps t < n -> n <= steps t + nheads tr -> exists y, r = Some (ECancel y)).
  Proof.
    intros n t s sched t' x r tr Hn Hm Ho Hr Hw.
    destruct (call_init_fields t) as (C1 & C2 & C3 & C4).
    assert (Hb : budget_inv n (start t s)).
    { unfold Proofs.budget_inv, default_thread, start, Proofs.sthread. rewrite push_star_thread, C3, C4; auto. lia. }
    assert (Hp : pend (start t s) = 0) by apply push_star_pend.
    assert (Hs : steps (sthread (start t s)) = steps t) by (unfold start, Proofs.sthread; rewrite push_star_thread; auto).
    assert (I2 : inv2 n (start t s)).
    { unfold start, Model.push_star. destruct (_ || _); cbn; auto. intros X; discriminate X. }
    destruct (run_inv2 n sched _ _ _ Hn Hb ltac:(rewrite Hp; lia) I2 Hr ltac:(rewrite Hs; lia)) as (X & Y).
    cbn in X, Y. rewrite Hs in Y. split; [exact Y|]. split; [intros E; specialize (X E); lia|].
    intros HT L1 L2.
    assert (IJ : invJ n (start t s)) by (unfold invJ; rewrite Hs; intros; lia).
    pose proof (run_limit n sched _ _ _ HT Hn Hb ltac:(rewrite Hp; lia) I2 IJ Hr ltac:(rewrite Hs; lia)) as Z.
    unfold invJ in Z. cbn in Z. apply Z. lia.
  Qed.
End M.
