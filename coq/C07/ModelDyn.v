(* C07 -- step limits that change while the program runs: executable model (no proofs).

   Model.v fixes the limit for the length of a run and lets only the loop head
   write Thread.Steps.  The API allows more: host code running on the
   interpreter's goroutine (a built-in, an iterator's Next, ...) holds the
   *Thread and may, at any moment of a run,

     thread.SetMaxExecutionSteps(n)      eval.go:  func (thread *Thread) SetMaxExecutionSteps(max uint64) {
                                                      thread.maxSteps = max }
         -- a plain store of n, ALSO for n = 0: the rewrite `maxSteps == 0 -> MaxUint64`
            is made once, in Call, under `if thread.stack == nil` (Model.call_init), i.e.
            never while a built-in is running.  In mid-run 0 is therefore an ordinary
            limit that every counter value has reached.
     thread.Steps += k                   Steps is an exported uint64 field ("It is incremented
                                          by the interpreter. It may be used as a measure of the
                                          approximate cost"): host code charges for expensive
                                          work by adding to it; uint64 arithmetic wraps.

   thread.maxSteps is not cached anywhere: interp.go reads the field at every
   loop head (`if thread.Steps >= thread.maxSteps`), whichever frame the head
   belongs to.  The loop head is NOT redefined here: the dynamic machine runs
   Model.mstep (hence Model.loop_head) for everything except the two new host
   actions. *)
From Coq Require Import NArith List Bool.
From SV Require Import C07.Model.
Import ListNotations.
Open Scope N_scope.

Definition do_set_max (t : thread) (n : N) : thread := set_max_execution_steps t n.   (* thread.maxSteps = n *)
Definition do_charge (t : thread) (k : N) : thread := set_steps t ((steps t + k) mod two64). (* thread.Steps += k *)

(* events of the dynamic machine: those of the static one, plus the two host actions *)
Inductive devent :=
| DE (e : event)
| DESetMax (n : N)        (* host code called thread.SetMaxExecutionSteps(n) during the run *)
| DECharge (k : N).       (* host code executed thread.Steps += k *)

Section MachineDyn.
  Variable St : Type.

  Inductive dhaction :=        (* one atomic piece of host code inside a built-in *)
  | DOld (a : haction St)      (* work / call back / Cancel / Uncancel / return / fail, as in Model.v *)
  | DSetMax (n : N) (s : St)   (* thread.SetMaxExecutionSteps(n) *)
  | DCharge (k : N) (s : St).  (* thread.Steps += k *)

  Variable dispatch : St -> action St.
  Variable dhost : St -> option err -> dhaction.
  Variable recursion : bool.
  Variable entry_err : St -> bool.

  (* the host code as the static machine sees it (the two new actions are never
     passed to Model.mstep: dmstep below handles them itself) *)
  Definition erase (s : St) (pe : option err) : haction St :=
    match dhost s pe with
    | DOld a => a
    | DSetMax _ s' => HWork s'
    | DCharge _ s' => HWork s'
    end.

  Definition static_step (c : config St) : status St * list devent :=
    let (s', ev) := mstep St dispatch erase recursion entry_err c in (s', map DE ev).

  Definition dmstep (c : config St) : status St * list devent :=
    match stk c with
    | FHost :: _ =>
        match dhost (st c) (perr c) with
        | DSetMax n s => (Running (mkConfig (do_set_max (th c) n) (stk c) s None), [DE EvHostStep; DESetMax n])
        | DCharge k s => (Running (mkConfig (do_charge (th c) k) (stk c) s None), [DE EvHostStep; DECharge k])
        | DOld _ => static_step c
        end
    | _ => static_step c           (* loop head, dispatch, error delivery: Model.mstep unchanged *)
    end.

  (* other goroutines: as in Model.v (they may Cancel / Uncancel between any two
     micro-steps; SetMaxExecutionSteps and Steps are documented as not safe to use
     from another goroutine, so the adversary does not get them) *)
  Definition dtick_step (s : status St) (k : tick) : status St * list devent :=
    match k with
    | TRun => match s with Running c => dmstep c | Finished _ _ _ => (s, []) end
    | TCancel r => (with_thread St s (fun t => do_cancel t r), [DE (EvCancel r)])
    | TUncancel => (with_thread St s do_uncancel, [DE EvUncancel])
    end.

  Fixpoint drun (s : status St) (sched : list tick) : status St * list devent :=
    match sched with
    | [] => (s, [])
    | k :: rest =>
        let (s1, e1) := dtick_step s k in
        let (s2, e2) := drun s1 rest in
        (s2, e1 ++ e2)
    end.

  Definition dstart (t : thread) (s : St) : status St := start St recursion entry_err t s.
End MachineDyn.

Arguments DOld {St}. Arguments DSetMax {St}. Arguments DCharge {St}.

(* host code without the new actions *)
Definition lift_host {St} (host : St -> option err -> haction St) : St -> option err -> dhaction St :=
  fun s pe => DOld (host s pe).

(* ---- reading a dynamic trace ---- *)
Fixpoint strip (tr : list devent) : list event :=          (* the static machine's events *)
  match tr with
  | [] => []
  | DE e :: r => e :: strip r
  | _ :: r => strip r
  end.

Fixpoint charged (tr : list devent) : N :=                 (* total of the charges *)
  match tr with
  | [] => 0
  | DECharge k :: r => k + charged r
  | _ :: r => charged r
  end.

Definition is_static (e : devent) : bool := match e with DE _ => true | _ => false end.
Definition no_dyn (tr : list devent) : bool := forallb is_static tr.

(* every SetMaxExecutionSteps in the trace installs a limit <= n *)
Definition setmax_le (n : N) (tr : list devent) : bool :=
  forallb (fun e => match e with DESetMax m => m <=? n | _ => true end) tr.

Definition ddispatches (tr : list devent) : nat := dispatches (strip tr).
Definition dheads (tr : list devent) : nat := heads (strip tr).

(* ---- the instance used by the correspondence check: a measured instruction
   stream (as Model.sinstr) whose built-ins may also change the limit / charge ---- *)
Inductive dop := DOp (o : sop) | DOSetMax (n : N) | DOCharge (k : N).
Inductive dinstr :=
| DPlain (n : N)
| DBuiltin (ops : list dop)
| DFail
| DLoop.

Record dstate := mkD { dcode : list dinstr; dpending : option (list dop) }.

Definition d_dispatch (s : dstate) : action dstate :=
  match dcode s with
  | [] => AReturn s
  | DPlain n :: r => if n <=? 1 then ANext (mkD r None) else ANext (mkD (DPlain (n - 1) :: r) None)
  | DBuiltin ops :: r => ABuiltin (mkD r (Some ops))
  | DFail :: r => AError 1 (mkD r None)
  | DLoop :: _ => ANext s
  end.

Definition d_host (s : dstate) (_ : option err) : dhaction dstate :=
  match dpending s with
  | Some (DOp (SCancel r) :: ops) => DOld (HCancel r (mkD (dcode s) (Some ops)))
  | Some (DOp SUncancel :: ops) => DOld (HUncancel (mkD (dcode s) (Some ops)))
  | Some (DOSetMax n :: ops) => DSetMax n (mkD (dcode s) (Some ops))
  | Some (DOCharge k :: ops) => DCharge k (mkD (dcode s) (Some ops))
  | _ => DOld (HReturn (mkD (dcode s) None))
  end.

Definition d_start (t : thread) (prog : list dinstr) : status dstate :=
  dstart dstate true (fun _ => false) t (mkD prog None).

Definition d_run (s : status dstate) (sched : list tick) :=
  drun dstate d_dispatch d_host true (fun _ => false) s sched.

(* run to completion without adversary; acc: events so far, most recent first *)
Fixpoint d_exec (fuel : nat) (s : status dstate) (acc : list devent) : status dstate * list devent :=
  match fuel with
  | O => (s, acc)
  | S f => match s with
           | Finished _ _ _ => (s, acc)
           | Running c => let (s', e) := dmstep dstate d_dispatch d_host true (fun _ => false) c in
                          d_exec f s' (rev_append e acc)
           end
  end.

(* a static script as a dynamic one *)
Definition lift_instr (i : sinstr) : dinstr :=
  match i with
  | SPlain n => DPlain n
  | SBuiltin ops => DBuiltin (map DOp ops)
  | SFail => DFail
  | SLoop => DLoop
  end.

(* ---- a measured program as the harness reports it: T loop heads in the
   unlimited run (for a non-terminating program: in the measured prefix), the
   head number of every call of the host built-in, how the run ends ---- *)
Inductive pend_kind := EOk | EErr | EInf.
Record profile := mkProf { p_t : N; p_idx : list N; p_end : pend_kind }.

(* what the k-th built-in call does besides returning *)
Inductive dact := ASetMax (n : N) | ACharge (j : N).
Definition dop_of (a : dact) : dop := match a with ASetMax n => DOSetMax n | ACharge j => DOCharge j end.

(* the instruction stream with that profile; built-in call number j performs plan j *)
Fixpoint script_from (prev : N) (idx : list N) (j : nat) (plan : nat -> list dop) (T : N) (e : pend_kind) : list dinstr :=
  match idx with
  | [] => let tail := T - prev in
          match e with
          | EOk => if 1 <? tail then [DPlain (tail - 1)] else []
          | EErr => (if 1 <? tail then [DPlain (tail - 1)] else []) ++ [DFail]
          | EInf => (if 0 <? tail then [DPlain tail] else []) ++ [DLoop]
          end
  | ix :: r => let gap := ix - prev - 1 in
               (if 0 <? gap then [DPlain gap] else []) ++ DBuiltin (plan j) :: script_from ix r (S j) plan T e
  end.

Definition script_of (pr : profile) (plan : nat -> list dop) : list dinstr :=
  script_from 0 (p_idx pr) 1%nat plan (p_t pr) (p_end pr).

Definition plan1 (k : nat) (ops : list dop) : nat -> list dop := fun j => if Nat.eqb j k then ops else [].

(* run it on thread t; observation = (result, counter afterwards, built-ins entered); None = still running *)
Definition dyn_run (t : thread) (prog : list dinstr) (fuel : nat) : option (option err * N * N) :=
  match d_exec fuel (d_start t prog) [] with
  | (Finished t' _ r, tr) => Some (r, steps t', N.of_nat (count_ev is_builtin (strip tr)))
  | (Running _, _) => None
  end.
