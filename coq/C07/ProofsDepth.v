(* C07 -- the frame-depth limit: with Prog.Recursion no Starlark frame ever runs
   above depth 100000 and the call stack never exceeds 100001 frames. *)
From Coq Require Import NArith List Bool Lia ZifyBool ZifyNat ZifyN.
From SV Require Import C07.Model C07.Spec C07.Proofs.
Import ListNotations.
Open Scope N_scope.

(* every Starlark frame sits at a position <= depth_limit (counted from the
   bottom), and a host frame is never directly on top of another host frame *)
Fixpoint stack_ok (k : list frame) : Prop :=
  match k with
  | [] => True
  | f :: r => stack_ok r /\
              match f with
              | FStar _ => N.of_nat (length k) <= depth_limit
              | FHost => match r with FHost :: _ => False | _ => True end
              end
  end.

Lemma stack_ok_len k : stack_ok k -> N.of_nat (length k) <= depth_limit + 1.
Proof.
  destruct k as [|[p|] r]; cbn [stack_ok]; intros H.
  - cbn. unfold depth_limit. lia.
  - lia.
  - destruct H as [H1 H2]. destruct r as [|[p|] r']; cbn [stack_ok length] in *; try contradiction; unfold depth_limit in *; lia.
Qed.

Lemma stack_ok_top p q r : stack_ok (FStar p :: r) -> stack_ok (FStar q :: r).
Proof. cbn. auto. Qed.

Lemma stack_ok_resume k : stack_ok k -> stack_ok (resume_head k).
Proof. destruct k as [|[p|] r]; auto. Qed.

Lemma resume_head_length k : length (resume_head k) = length k.
Proof. destruct k as [|[p|] r]; auto. Qed.

Section M.
  Variable St : Type.
  Variable dispatch : St -> action St.
  Variable host : St -> option err -> haction St.
  Variable entry_err : St -> bool.

  Notation mstep := (mstep St dispatch host true entry_err).
  Notation run := (run St dispatch host true entry_err).
  Notation tick_step := (tick_step St dispatch host true entry_err).
  Notation start := (start St true entry_err).
  Notation push_star := (push_star St true entry_err).

  Definition status_ok (s : status St) : Prop :=
    match s with Running c => stack_ok (stk c) | Finished _ _ _ => True end.

  Lemma deliver_ok t rest s r : stack_ok rest -> status_ok (deliver St t rest s r).
  Proof. destruct rest as [|[p|] rest']; cbn; auto. Qed.

  Lemma push_star_ok t callers s : stack_ok callers -> status_ok (push_star t callers s).
  Proof.
    intros H. unfold Model.push_star. cbn [andb].
    destruct (depth_limit <? N.of_nat (length (FStar Head :: resume_head callers))) eqn:E; cbn [orb].
    - apply deliver_ok, stack_ok_resume, H.
    - destruct (entry_err s).
      + apply deliver_ok, stack_ok_resume, H.
      + cbn [status_ok stk stack_ok]. split; [apply stack_ok_resume, H|]. lia.
  Qed.

  Lemma mstep_ok c s' ev : stack_ok (stk c) -> mstep c = (s', ev) -> status_ok s'.
  Proof.
    intros H E. unfold Model.mstep in E.
    destruct (stk c) as [|[ph|] rest] eqn:Hk.
    - injection E as <- _. exact I.
    - destruct H as [Hr Hl]. destruct (perr c).
      + injection E as <- _. apply deliver_ok, Hr.
      + destruct ph.
        * destruct (loop_head (th c)) as [t' cr]. destruct cr; injection E as <- _.
          -- apply deliver_ok, Hr.
          -- cbn. auto.
        * assert (Hs : stack_ok (FStar Disp :: rest)) by (cbn; auto).
          destruct (dispatch (st c)); injection E as <- _.
          -- cbn. auto.
          -- apply push_star_ok, Hs.
          -- cbn [status_ok push_host stk resume_head stack_ok]. repeat split; auto.
          -- apply deliver_ok, Hr.
          -- apply deliver_ok, Hr.
    - assert (Hs : stack_ok (FHost :: rest)) by exact H. destruct H as [Hr Hl].
      destruct (host (st c) (perr c)); injection E as <- _; try exact Hs.
      + apply push_star_ok, Hs.
      + apply deliver_ok, Hr.
      + apply deliver_ok, Hr.
  Qed.

  Lemma tick_ok s k s' ev : status_ok s -> tick_step s k = (s', ev) -> status_ok s'.
  Proof.
    intros H E. destruct k; cbn in E.
    - destruct s as [c|]; [eapply mstep_ok; eauto|injection E as <- _; exact I].
    - injection E as <- _. destruct s; exact H.
    - injection E as <- _. destruct s; exact H.
  Qed.

  Lemma run_ok sched : forall s s' tr, status_ok s -> run s sched = (s', tr) -> status_ok s'.
  Proof.
    induction sched as [|k rest IH]; intros s s' tr H E; cbn in E.
    - injection E as <- _. exact H.
    - destruct (tick_step s k) as [s1 e1] eqn:Et. destruct (run s1 rest) as [s2 e2] eqn:Er.
      injection E as <- _. eapply IH; [eapply tick_ok; eauto|eauto].
  Qed.

  Lemma recursion_bounded_lemma : forall t s sched c tr,
    run (start t s) sched = (Running c, tr) ->
    N.of_nat (length (stk c)) <= depth_limit + 1 /\ stack_ok (stk c).
  Proof.
    intros t s sched c tr E.
    assert (H : status_ok (Running c)).
    { eapply run_ok; [|exact E]. apply push_star_ok. exact I. }
    split; [apply stack_ok_len|]; exact H.
  Qed.
End M.
