(* C07 -- specification / oracle, written from the property text, independent of
   the machine in Model.v (it only shares the vocabulary: reasons, events, the
   script syntax used to describe a measured program).

   1. `first_reason`: which reason a thread must report after a history of
      Cancel / Uncancel calls: the first Cancel since the last Uncancel.
   2. `spec_exec`: what an execution of a measured instruction stream must
      look like to an observer under a step limit N: instruction number k
      (counted over the thread's life) runs only if k < N and no cancellation is
      in force when its turn comes. *)
From Coq Require Import NArith List Bool.
From SV Require Import C07.Model.
Import ListNotations.
Open Scope N_scope.

Inductive cop := CCancel (r : reason) | CUncancel.

Definition is_unc (o : cop) := match o with CUncancel => true | _ => false end.

(* the operations after the last Uncancel *)
Fixpoint since_last_uncancel (ops : list cop) : list cop :=
  match ops with
  | [] => []
  | o :: rest => if existsb is_unc rest then since_last_uncancel rest
                 else if is_unc o then rest else o :: rest
  end.

Definition first_reason (ops : list cop) : option reason :=
  match since_last_uncancel ops with
  | CCancel r :: _ => Some r
  | _ => None
  end.

(* the Cancel / Uncancel calls recorded in a trace, in order *)
Fixpoint ops_of_trace (tr : list event) : list cop :=
  match tr with
  | [] => []
  | EvCancel r :: rest => CCancel r :: ops_of_trace rest
  | EvUncancel :: rest => CUncancel :: ops_of_trace rest
  | _ :: rest => ops_of_trace rest
  end.

Definition init_ops (c : option reason) : list cop :=
  match c with None => [] | Some r => [CCancel r] end.

(* ---- observable outcome of one execution ---- *)
Inductive sres := ROk | RErr | RCancelled (r : reason) | RDiverge | RRead.

Definition sres_eqb (a b : sres) : bool :=
  match a, b with
  | ROk, ROk | RErr, RErr | RDiverge, RDiverge | RRead, RRead => true
  | RCancelled x, RCancelled y => x =? y
  | _, _ => false
  end.

Record sobs := mkObs { o_res : sres; o_steps : N; o_nlog : N }.

Definition cop_of (o : sop) : cop := match o with SCancel r => CCancel r | SUncancel => CUncancel end.

(* `lr` is the reason given when the limit is reached: "too many steps" by default, or the
   reason used by a client OnMaxSteps hook that cancels the thread.  *)
(* one loop-head visit when the thread has already counted `steps` and the
   history of Cancel/Uncancel calls is `ops`; limit 0 on a fresh thread means none *)
Definition visit (lr : reason) (limit : N) (ops : list cop) (steps : N) : list cop * option reason :=
  let ops' := if limit <=? steps + 1 then ops ++ [CCancel lr] else ops in
  (ops', first_reason ops').

(* returns (result, thread step counter afterwards, built-ins entered, history) *)
Fixpoint spec_exec (lr : reason) (limit : N) (prog : list sinstr) (ops : list cop) (steps nlog : N)
  : sres * N * N * list cop :=
  match prog with
  | [] => let (ops', c) := visit lr limit ops steps in
          match c with Some r => (RCancelled r, steps + 1, nlog, ops') | None => (ROk, steps + 1, nlog, ops') end
  | SFail :: _ => let (ops', c) := visit lr limit ops steps in
          match c with Some r => (RCancelled r, steps + 1, nlog, ops') | None => (RErr, steps + 1, nlog, ops') end
  | SBuiltin bops :: rest =>
          let (ops', c) := visit lr limit ops steps in
          match c with
          | Some r => (RCancelled r, steps + 1, nlog, ops')
          | None => spec_exec lr limit rest (ops' ++ map cop_of bops) (steps + 1) (nlog + 1)
          end
  | SPlain n :: rest =>
          if n =? 0 then spec_exec lr limit rest ops steps nlog else
          match first_reason ops with
          | Some r => (RCancelled r, steps + 1, nlog, if limit <=? steps + 1 then ops ++ [CCancel lr] else ops)
          | None =>
              if limit <=? steps + n                          (* the limit falls inside this run of instructions *)
              then let at_ := N.max limit (steps + 1) in
                   (RCancelled lr, at_, nlog, ops ++ [CCancel lr])
              else spec_exec lr limit rest ops (steps + n) nlog
          end
  | SLoop :: _ =>
          match first_reason ops with
          | Some r => (RCancelled r, steps + 1, nlog, if limit <=? steps + 1 then ops ++ [CCancel lr] else ops)
          | None => if limit <? two64 - 1 then (RCancelled lr, N.max limit (steps + 1), nlog, ops ++ [CCancel lr])
                    else (RDiverge, steps, nlog, ops)
          end
  end.

(* a thread's life as the harness scripts it.  SetMaxExecutionSteps changes the
   limit and nothing else: in particular it is not an operation on the
   cancellation state (first_reason does not see it).  A limit of 0 means "none"
   until the thread's first execution; set to 0 afterwards it is an ordinary
   limit that every step count has reached. *)
Inductive lev := LCancel (r : reason) | LUncancel | LSetMax (n : N) | LRead | LExec (prog : list sinstr).

Fixpoint spec_life (lr : reason) (limit : N) (started : bool) (evs : list lev) (ops : list cop) (steps : N) : list sobs :=
  match evs with
  | [] => []
  | LCancel r :: rest => spec_life lr limit started rest (ops ++ [CCancel r]) steps
  | LUncancel :: rest => spec_life lr limit started rest (ops ++ [CUncancel]) steps
  | LSetMax n :: rest => spec_life lr n started rest ops steps
  | LRead :: rest => mkObs RRead steps 0 :: spec_life lr limit started rest ops steps
  | LExec prog :: rest =>
      let limit' := if negb started && (limit =? 0) then max_uint64 else limit in
      match spec_exec lr limit' prog ops steps 0 with
      | (r, steps', nlog, ops') => mkObs r steps' nlog :: spec_life lr limit' true rest ops' steps'
      end
  end.

Definition sobs_eqb (a b : sobs) : bool :=
  sres_eqb (o_res a) (o_res b) && (o_steps a =? o_steps b) && (o_nlog a =? o_nlog b).

Fixpoint list_eqb {A} (f : A -> A -> bool) (a b : list A) : bool :=
  match a, b with
  | [], [] => true
  | x :: a', y :: b' => f x y && list_eqb f a' b'
  | _, _ => false
  end.

(* "never executes N or more steps": on a thread whose counter started at 0 an
   execution that ended with steps' on the counter has executed steps' instructions
   if it ended normally and steps'-1 if its last loop head cancelled it *)
Definition executed (o : sobs) : N :=
  match o_res o with RCancelled _ => o_steps o - 1 | _ => o_steps o end.
Definition budget_ok (limit : N) (o : sobs) : bool :=
  (limit =? 0) || (executed o <? limit).
