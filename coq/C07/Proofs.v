(* C07 -- lemmas: budget, cancellation, reasons. *)
From Coq Require Import NArith List Bool Lia ZifyBool ZifyNat ZifyN.
From SV Require Import C07.Model C07.Spec.
Import ListNotations.
Open Scope N_scope.

(* ---------- counting events ---------- *)
Lemma count_app f a b : count_ev f (a ++ b) = (count_ev f a + count_ev f b)%nat.
Proof. unfold count_ev. rewrite filter_app, app_length. reflexivity. Qed.

Definition ndisp (tr : list event) : N := N.of_nat (dispatches tr).
Definition nheads (tr : list event) : N := N.of_nat (heads tr).

Lemma ndisp_app a b : ndisp (a ++ b) = ndisp a + ndisp b.
Proof. unfold ndisp, dispatches. rewrite count_app. lia. Qed.
Lemma nheads_app a b : nheads (a ++ b) = nheads a + nheads b.
Proof. unfold nheads, heads. rewrite count_app. lia. Qed.

Lemma nheads_cons e l : nheads (e :: l) = (if is_head e then 1 else 0) + nheads l.
Proof. unfold nheads, heads, count_ev. cbn [filter]. destruct (is_head e); cbn [length]; lia. Qed.
Lemma ndisp_cons e l : ndisp (e :: l) = (if is_dispatch e then 1 else 0) + ndisp l.
Proof. unfold ndisp, dispatches, count_ev. cbn [filter]. destruct (is_dispatch e); cbn [length]; lia. Qed.
Lemma nheads_nil : nheads [] = 0. Proof. reflexivity. Qed.
Lemma ndisp_nil : ndisp [] = 0. Proof. reflexivity. Qed.
Lemma head_events_counts t : nheads (head_events t) = 0 /\ ndisp (head_events t) = 0.
Proof. unfold head_events. destruct (limit_hit _); [destruct (onmax _)|]; split; reflexivity. Qed.

(* ---------- the loop head ---------- *)
Definition default_thread (t : thread) : Prop := onmax t = None.

Lemma do_cancel_fields t r :
  steps (do_cancel t r) = steps t /\ maxSteps (do_cancel t r) = maxSteps t /\
  inited (do_cancel t r) = inited t /\ onmax (do_cancel t r) = onmax t.
Proof. unfold do_cancel. destruct (cancel t); cbn; auto. Qed.

Lemma loop_head_fields t t' cr :
  loop_head t = (t', cr) ->
  steps t' = (steps t + 1) mod two64 /\ maxSteps t' = maxSteps t /\ inited t' = inited t /\
  onmax t' = onmax t /\ cr = cancel t'.
Proof.
  unfold loop_head. set (t1 := set_steps t ((steps t + 1) mod two64)).
  intros H. inversion H; subst; clear H.
  destruct (limit_hit t1); [destruct (onmax t1) eqn:E|].
  - cbn in E |- *. rewrite E. cbn. auto.
  - cbn in E |- *. rewrite E.
    destruct (do_cancel_fields t1 too_many_steps) as (A & B & C & D).
    rewrite A, B, C, D. cbn. auto.
  - cbn. auto.
Qed.

Lemma loop_head_default t t' cr :
  default_thread t -> loop_head t = (t', cr) ->
  (maxSteps t <= (steps t + 1) mod two64 -> cr <> None) /\
  (forall r, cancel t = Some r -> cr = Some r) /\
  (cancel t = None -> (steps t + 1) mod two64 < maxSteps t -> cr = None) /\
  (cancel t = None -> maxSteps t <= (steps t + 1) mod two64 -> cr = Some too_many_steps).
Proof.
  unfold default_thread, loop_head, limit_hit. intros D H. inversion H; subst; clear H.
  cbn [onmax set_steps maxSteps steps]. rewrite D.
  destruct (maxSteps t <=? (steps t + 1) mod two64) eqn:E; unfold do_cancel;
    cbn [cancel set_steps set_cancel steps maxSteps inited onmax];
    destruct (cancel t) eqn:C; cbn [cancel set_steps set_cancel steps maxSteps inited onmax];
    repeat split; intros; try congruence; try lia.
Qed.

(* a client hook that cancels is enforced at EVERY loop head at or past the limit,
   not only at the one where Steps = maxSteps *)
Lemma hook_enforced_lemma t h t' cr :
  onmax t = Some h -> (forall c, h c <> None) ->
  maxSteps t <= (steps t + 1) mod two64 ->
  loop_head t = (t', cr) -> cr <> None.
Proof.
  unfold loop_head, limit_hit. intros Ho Hh L E. inversion E; subst; clear E.
  cbn [onmax set_steps maxSteps steps]. rewrite Ho.
  destruct (maxSteps t <=? (steps t + 1) mod two64) eqn:X; [|lia].
  cbn [cancel set_cancel set_steps]. apply Hh.
Qed.

Lemma call_init_fields t :
  steps (call_init t) = steps t /\ cancel (call_init t) = cancel t /\ onmax (call_init t) = onmax t /\
  (maxSteps t <> 0 -> maxSteps (call_init t) = maxSteps t).
Proof.
  unfold call_init. destruct (inited t); cbn; repeat split; auto.
  intros H. destruct (maxSteps t =? 0) eqn:E; auto. lia.
Qed.

Section M.
  Variable St : Type.
  Variable dispatch : St -> action St.
  Variable host : St -> option err -> haction St.
  Variable recursion : bool.
  Variable entry_err : St -> bool.

  Notation mstep := (mstep St dispatch host recursion entry_err).
  Notation run := (run St dispatch host recursion entry_err).
  Notation tick_step := (tick_step St dispatch host recursion entry_err).
  Notation start := (start St recursion entry_err).
  Notation push_star := (push_star St recursion entry_err).
  Notation status := (status St).
  Notation config := (config St).

  Definition sthread (s : status) : thread := status_thread St s.

  (* 1 when the top frame has passed its cancellation test and is about to dispatch *)
  Definition pend_stk (k : list frame) : N :=
    match k with FStar Disp :: _ => 1 | _ => 0 end.
  Definition pend (s : status) : N :=
    match s with Running c => pend_stk (stk c) | Finished _ _ _ => 0 end.

  Lemma deliver_pend t rest s r : pend (deliver St t rest s r) = 0.
  Proof. destruct rest as [|[p|] rest]; reflexivity. Qed.
  Lemma deliver_thread t rest s r : sthread (deliver St t rest s r) = t.
  Proof. destruct rest as [|[p|] rest]; reflexivity. Qed.

  Lemma push_star_pend t k s : pend (push_star t k s) = 0.
  Proof. unfold push_star. destruct (_ || _); [apply deliver_pend|reflexivity]. Qed.
  Lemma push_star_thread t k s : sthread (push_star t k s) = call_init t.
  Proof. unfold push_star. destruct (_ || _); [apply deliver_thread|reflexivity]. Qed.

  (* ---------- one tick: effect on the thread, the pending flag, the events ---------- *)
  (* A tick either leaves steps alone and dispatches at most the pending
     instruction, or is a loop head. *)
  Definition budget_inv (n : N) (s : status) : Prop :=
    maxSteps (sthread s) = n /\ default_thread (sthread s).

  Lemma tick_budget n s k s' ev :
    1 <= n -> budget_inv n s -> (pend s = 1 -> steps (sthread s) < n) -> tick_step s k = (s', ev) ->
    steps (sthread s) + nheads ev < two64 ->
    budget_inv n s' /\
    steps (sthread s') = steps (sthread s) + nheads ev /\
    ndisp ev <= pend s /\
    (* what remains possible afterwards *)
    pend s' + (n - 1 - steps (sthread s')) + ndisp ev <= pend s + (n - 1 - steps (sthread s)) /\
    (pend s' = 1 -> steps (sthread s') < n).
  Proof.
    intros Hn [Hm Hd] Hpn Ht Hw.
    destruct k as [|r|]; cbn in Ht.
    2,3: inversion Ht; subst; clear Ht; destruct s as [c|t x r0]; cbn in *;
         unfold budget_inv, default_thread, do_cancel, do_uncancel; cbn;
         try destruct (cancel _); cbn; repeat split; auto; try lia.
    clear Hpn.
    destruct s as [c|t x r0]; [|inversion Ht; subst; cbn; unfold budget_inv; cbn in *; repeat split; auto; lia].
    unfold Model.mstep in Ht. cbn in Hm, Hd, Hw |- *.
    destruct (stk c) as [|[ph|] rest] eqn:Hs.
    - inversion Ht; subst; cbn. unfold budget_inv; cbn. repeat split; auto; lia.
    - destruct (perr c) as [e|] eqn:Hp.
      + inversion Ht; subst; clear Ht. unfold budget_inv. rewrite deliver_pend, deliver_thread. cbn.
        repeat split; auto; try lia; destruct ph; cbn; lia.
      + destruct ph.
        * destruct (loop_head (th c)) as [t' cr] eqn:Hl.
          destruct (loop_head_fields _ _ _ Hl) as (Hst & Hmx & _ & Hon & Hcr).
          destruct (loop_head_default _ _ _ Hd Hl) as (Hlim & _ & _ & _).
          destruct (head_events_counts (th c)) as [Hh0 Hd0].
          destruct cr as [r|].
          -- injection Ht as <- <-.
             rewrite nheads_cons, nheads_app, Hh0, nheads_cons, nheads_nil in Hw. cbn [is_head] in Hw.
             assert (Hs1 : steps t' = steps (th c) + 1) by (rewrite Hst; apply N.mod_small; lia).
             unfold budget_inv. rewrite deliver_pend, deliver_thread.
             rewrite nheads_cons, ndisp_cons, nheads_app, ndisp_app, Hh0, Hd0, nheads_cons, ndisp_cons, nheads_nil, ndisp_nil.
             unfold default_thread. rewrite Hon, Hmx. cbn [is_head is_dispatch pend_stk].
             repeat split; auto; try lia.
          -- injection Ht as <- <-.
             rewrite nheads_cons, Hh0 in Hw. cbn [is_head] in Hw.
             assert (Hs1 : steps t' = steps (th c) + 1) by (rewrite Hst; apply N.mod_small; lia).
             assert (Hlt : steps t' < n).
             { destruct (N.le_gt_cases (maxSteps (th c)) ((steps (th c) + 1) mod two64)) as [L|L].
               - exfalso. apply (Hlim L). reflexivity.
               - rewrite <- Hst in L. lia. }
             unfold budget_inv, default_thread. cbn [pend sthread status_thread th stk pend_stk].
             rewrite nheads_cons, ndisp_cons, Hh0, Hd0, Hon, Hmx. cbn [is_head is_dispatch].
             repeat split; auto; try lia.
        * (* dispatch *)
          assert (Hev : nheads ev = 0 /\ ndisp ev = 1).
          { destruct (dispatch (st c)); inversion Ht; subst; split; reflexivity. }
          destruct Hev as [He1 He2]. rewrite He1, He2. cbn [pend_stk].
          assert (Hs' : pend s' = 0 /\ (sthread s' = th c \/ sthread s' = call_init (th c))).
          { destruct (dispatch (st c)); inversion Ht; subst; cbn.
            - auto.
            - rewrite push_star_pend, push_star_thread. auto.
            - auto.
            - rewrite deliver_pend, deliver_thread. auto.
            - rewrite deliver_pend, deliver_thread. auto. }
          destruct Hs' as [Hp0 Hth]. rewrite Hp0.
          destruct (call_init_fields (th c)) as (C1 & C2 & C3 & C4).
          unfold budget_inv, default_thread.
          destruct Hth as [-> | ->]; rewrite ?C1, ?C3, ?C4; repeat split; auto; try lia.
    - (* host frame *)
      assert (Hev : nheads ev = 0 /\ ndisp ev = 0).
      { destruct (host (st c) (perr c)); inversion Ht; subst; split; reflexivity. }
      destruct Hev as [He1 He2]. rewrite He1, He2. cbn [pend_stk].
      destruct (call_init_fields (th c)) as (C1 & C2 & C3 & C4).
      assert (Hs' : pend s' = 0 /\ steps (sthread s') = steps (th c) /\ maxSteps (sthread s') = n /\ onmax (sthread s') = None).
      { destruct (host (st c) (perr c)); inversion Ht; subst; cbn;
          rewrite ?push_star_pend, ?push_star_thread, ?deliver_pend, ?deliver_thread, ?C1, ?C3, ?C4;
          unfold do_cancel, do_uncancel; cbn; try destruct (cancel (th c)); cbn; repeat split; auto; lia. }
      destruct Hs' as (Hp0 & S1 & S2 & S3). unfold budget_inv, default_thread.
      rewrite Hp0, S1. repeat split; auto; lia.
  Qed.

  Lemma run_budget' n sched : forall s s' tr,
    1 <= n -> budget_inv n s -> (pend s = 1 -> steps (sthread s) < n) ->
    run s sched = (s', tr) ->
    steps (sthread s) + nheads tr < two64 ->
    budget_inv n s' /\
    steps (sthread s') = steps (sthread s) + nheads tr /\
    (pend s' = 1 -> steps (sthread s') < n) /\
    pend s' + (n - 1 - steps (sthread s')) + ndisp tr <= pend s + (n - 1 - steps (sthread s)).
  Proof.
    induction sched as [|k rest IH]; intros s s' tr Hn Hb Hp Hr Hw.
    - cbn in Hr. injection Hr as <- <-. rewrite nheads_nil, ndisp_nil. split; [exact Hb|]. repeat split; auto; lia.
    - cbn in Hr. destruct (tick_step s k) as [s1 e1] eqn:Ht.
      destruct (run s1 rest) as [s2 e2] eqn:Hr2. inversion Hr; subst s' tr; clear Hr.
      rewrite nheads_app in Hw.
      destruct (tick_budget n s k s1 e1 Hn Hb Hp Ht ltac:(lia)) as (B1 & B2 & B3 & B4 & B5).
      destruct (IH s1 s2 e2 Hn B1 B5 Hr2 ltac:(lia)) as (I1 & I2 & I3 & I4).
      rewrite nheads_app, ndisp_app. split; [exact I1|]. repeat split; auto; lia.
  Qed.

  (* budget_respected, part (a): fewer than N dispatches, whatever the program,
     the host code and the schedule *)
  Lemma budget_dispatch_lemma : forall n t s sched s' tr,
    1 <= n -> maxSteps t = n -> onmax t = None ->
    run (start t s) sched = (s', tr) ->
    steps t + nheads tr < two64 ->
    steps t + ndisp tr < n \/ ndisp tr = 0.
  Proof.
    intros n t s sched s' tr Hn Hm Ho Hr Hw.
    destruct (call_init_fields t) as (C1 & C2 & C3 & C4).
    assert (Hb : budget_inv n (start t s)).
    { unfold budget_inv, default_thread, start, sthread. rewrite push_star_thread, C3, C4; auto. lia. }
    assert (Hp : pend (start t s) = 0) by apply push_star_pend.
    assert (Hs : steps (sthread (start t s)) = steps t) by (unfold start, sthread; rewrite push_star_thread; auto).
    destruct (run_budget' n sched _ _ _ Hn Hb ltac:(rewrite Hp; lia) Hr ltac:(rewrite Hs; lia)) as (_ & _ & _ & I).
    rewrite Hp, Hs in I. lia.
  Qed.

  Lemma budget_fresh_lemma : forall n s sched s' tr,
    1 <= n ->
    run (start (set_max_execution_steps new_thread n) s) sched = (s', tr) ->
    nheads tr < two64 ->
    ndisp tr < n.
  Proof.
    intros n s sched s' tr Hn Hr Hw.
    destruct (budget_dispatch_lemma n (set_max_execution_steps new_thread n) s sched s' tr Hn eq_refl eq_refl Hr) as [H|H];
      cbn in *; lia.
  Qed.
End M.
