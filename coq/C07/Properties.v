(* C07 -- property theorems only.  Each is closed by `exact <lemma>`.

   Vocabulary (C07/Model.v): a program is ANY step function `dispatch` on an
   opaque state St (all byte strings, all non-terminating instruction streams),
   host built-ins are ANY step function `host` (may work, call back into Starlark,
   Cancel, Uncancel, return, fail), other goroutines are ticks TCancel / TUncancel
   interleaved anywhere in the schedule.  `ndisp tr` = instructions dispatched,
   `nheads tr` = loop heads reached (= increments of Thread.Steps), over all
   nested frames.  The uint64 counter wraps in the model; the theorems assume the
   run visits fewer than 2^64 loop heads. *)
From Coq Require Import NArith List Bool.
From SV Require Import C07.Model C07.Spec C07.Proofs C07.ProofsCancel C07.ProofsLimit C07.ProofsDet C07.ProofsTerm C07.ProofsDepth.
From SV Require Import C07.ModelDyn C07.SpecDyn C07.ProofsDyn C07.ProofsDynTerm.
Import ListNotations.
Open Scope N_scope.

Section Statements.
  Variable St : Type.
  Variable dispatch : St -> action St.
  Variable host : St -> option err -> haction St.
  Variable recursion : bool.
  Variable entry_err : St -> bool.
  Notation run := (run St dispatch host recursion entry_err).
  Notation start := (start St recursion entry_err).
  Notation life := (life St dispatch host recursion entry_err).

  (* A thread with limit n >= 1 and the default OnMaxSteps: whatever the program,
     the host code and the schedule,
     (a) fewer than n instructions are dispatched in total (counting the steps the
         thread had already counted): "never executes N or more steps";
     (b) an execution that returns successfully has reached fewer than n loop heads,
         i.e. a computation that needs an n-th step cannot succeed;
     (c) if the n-th loop head is reached during this execution it ends with the
         cancellation error, provided host code hands errors on unchanged. *)
  Definition budget_respected_stmt : Prop :=
    forall n t s sched s' tr,
      1 <= n -> maxSteps t = n -> onmax t = None ->
      run (start t s) sched = (s', tr) ->
      steps t + nheads tr < two64 ->
      (steps t + ndisp tr < n \/ ndisp tr = 0) /\
      (forall t' x r, s' = Finished t' x r ->
         steps t' = steps t + nheads tr /\
         (r = None -> steps t + nheads tr < n) /\
         (host_transparent St host -> steps t < n -> n <= steps t + nheads tr ->
          exists y, r = Some (ECancel y))).

  (* the same for a fresh thread, as the property text reads *)
  Definition budget_respected_fresh_stmt : Prop :=
    forall n s sched s' tr,
      1 <= n ->
      run (start (set_max_execution_steps new_thread n) s) sched = (s', tr) ->
      nheads tr < two64 ->
      ndisp tr < n.

  (* From any moment at which a reason r is in force (cancel = Some r), and as
     long as nobody calls Uncancel: at most the one instruction whose cancellation
     test had already passed is dispatched (none if the Cancel came from a built-in
     running on the interpreter's goroutine: then no frame is between test and
     dispatch), r stays in force, and every loop exit names r. *)
  Definition no_step_after_cancel_stmt : Prop :=
    forall sched s s' tr r,
      default_thread (sthread St s) -> cancel (sthread St s) = Some r ->
      run s sched = (s', tr) -> has_uncancel tr = false ->
      pend St s' + ndisp tr <= pend St s /\ cancel (sthread St s') = Some r /\
      exits_ok [CCancel r] tr = true.

  (* Over a whole life of one thread -- any sequence of Cancel / Uncancel /
     SetMaxExecutionSteps / ExecutionSteps reads /
     executions under any schedules, with any Cancel / Uncancel calls by built-ins
     and other goroutines during the executions: the reason in force at the end is
     the first Cancel since the last Uncancel (Spec.first_reason, defined on the
     history alone), and every cancellation exit in every execution names the
     reason that was first at that moment. *)
  Definition first_reason_wins_stmt : Prop :=
    forall h t t' obs ops,
      default_thread t -> cancel t = first_reason ops ->
      life t h = (t', obs) ->
      default_thread t' /\
      cancel t' = first_reason (ops ++ ops_of_trace (life_trace obs)) /\
      exits_ok ops (life_trace obs) = true.

  (* An execution started while r is in force (other goroutines may call Cancel
     again meanwhile) is over after its first machine step: nothing is dispatched,
     r is still in force, and unless the call fails before the loop (argument
     binding / recursion check) the result is the cancellation error naming r after
     exactly one loop head. *)
  Definition cancel_persists_stmt : Prop :=
    forall t s adv r,
      default_thread t -> cancel t = Some r -> forallb cancel_tick adv = true ->
      exists t' x e tr,
        run (start t s) (adv ++ [TRun]) = (Finished t' x (Some e), tr) /\
        ndisp tr = 0 /\ cancel t' = Some r /\
        ((recursion && (depth_limit <? 1) || entry_err s = false) ->
           e = ECancel r /\ nheads tr = 1 /\ steps t' = (steps t + 1) mod two64).

  (* The run of a program (same start state, same schedule) is the same -- same
     trace, same outcome, same number of steps -- whatever the limit and whatever
     the thread had counted before, as long as the limit is not reached. *)
  Definition steps_deterministic_stmt : Prop :=
    forall t1 t2 s sched s1 tr,
      onmax t1 = None -> onmax t2 = None -> cancel t1 = cancel t2 ->
      run (start t1 s) sched = (s1, tr) ->
      steps t1 + nheads tr < maxSteps (call_init t1) -> steps t1 + nheads tr < two64 ->
      steps t2 + nheads tr < maxSteps (call_init t2) -> steps t2 + nheads tr < two64 ->
      exists s2, run (start t2 s) sched = (s2, tr) /\ same_outcome St s1 s2 /\
                 steps (sthread St s1) = steps t1 + nheads tr /\
                 steps (sthread St s2) = steps t2 + nheads tr.

  (* With the default OnMaxSteps every execution terminates (no infinite sequence
     of machine steps, whatever other goroutines do to cancelReason in between),
     provided built-ins terminate (host_terminates: a measure on host code) and the
     64-bit counter does not wrap (part of step_rel). *)
  Definition terminates_under_budget_stmt : Prop :=
    forall hm : St -> nat,
      host_terminates St host hm ->
      (forall c, good St c -> Acc (step_rel St dispatch host recursion entry_err) c) /\
      (forall f : nat -> config St, good St (f O) ->
         (forall i, step_rel St dispatch host recursion entry_err (f (S i)) (f i)) -> False).
End Statements.

Theorem budget_respected : forall St dispatch host recursion entry_err,
  budget_respected_stmt St dispatch host recursion entry_err.
Proof.
  intros St d h rc ee n t s sched s' tr Hn Hm Ho Hr Hw. split.
  - exact (budget_dispatch_lemma St d h rc ee n t s sched s' tr Hn Hm Ho Hr Hw).
  - intros t' x r ->. exact (budget_outcome_lemma St d h rc ee n t s sched t' x r tr Hn Hm Ho Hr Hw).
Qed.

Theorem budget_respected_fresh : forall St dispatch host recursion entry_err,
  budget_respected_fresh_stmt St dispatch host recursion entry_err.
Proof. exact budget_fresh_lemma. Qed.

Theorem no_step_after_cancel : forall St dispatch host recursion entry_err,
  no_step_after_cancel_stmt St dispatch host recursion entry_err.
Proof. exact no_step_after_cancel_lemma. Qed.

Theorem first_reason_wins : forall St dispatch host recursion entry_err,
  first_reason_wins_stmt St dispatch host recursion entry_err.
Proof. exact life_cancel_state. Qed.

Theorem cancel_persists : forall St dispatch host recursion entry_err,
  cancel_persists_stmt St dispatch host recursion entry_err.
Proof. exact cancel_persists_lemma. Qed.

Theorem steps_deterministic : forall St dispatch host recursion entry_err,
  steps_deterministic_stmt St dispatch host recursion entry_err.
Proof. exact steps_deterministic_lemma. Qed.

Theorem terminates_under_budget : forall St dispatch host recursion entry_err,
  terminates_under_budget_stmt St dispatch host recursion entry_err.
Proof.
  intros St d h rc ee hm HT. split.
  - exact (terminates_lemma St d h rc ee hm HT).
  - exact (no_infinite_run_lemma St d h rc ee hm HT).
Qed.

(* With Prog.Recursion enabled (the `len(thread.stack) > 100_000` test of
   CallInternal), in every reachable state the call stack holds at most 100001
   frames, every Starlark frame sits at depth <= 100000 and host frames never
   stack directly on each other (stack_ok): unbounded recursion ends with the
   "Starlark stack overflow" error, not with a Go stack overflow. *)
Theorem recursion_bounded : forall St dispatch host entry_err t s sched c tr,
  run St dispatch host true entry_err (start St true entry_err t s) sched = (Running c, tr) ->
  N.of_nat (length (stk c)) <= depth_limit + 1 /\ stack_ok (stk c).
Proof. exact recursion_bounded_lemma. Qed.

(* SetMaxExecutionSteps is not an operation on the cancellation state: whatever
   the new limit, the reason in force (if any) stays in force. *)
Theorem set_max_keeps_reason :
  forall t n, cancel (set_max_execution_steps t n) = cancel t /\
              steps (set_max_execution_steps t n) = steps t /\
              onmax (set_max_execution_steps t n) = onmax t.
Proof. intros t n. repeat split. Qed.

(* A client OnMaxSteps hook that cancels the thread (whatever its reason) stops the
   loop at every head at which Steps >= maxSteps -- also when the counter has
   jumped past the limit (a re-used thread given a lower limit, a built-in that
   charges steps) and never equals it. *)
Theorem hook_enforced :
  forall t h t' cr,
    onmax t = Some h -> (forall c, h c <> None) ->
    maxSteps t <= (steps t + 1) mod two64 ->
    loop_head t = (t', cr) -> cr <> None.
Proof. exact hook_enforced_lemma. Qed.

(* ---- non-vacuity: the hypotheses hold on concrete, non-trivial inputs ---- *)

(* `while True: b()` (4 ordinary instructions, then a built-in, for ever) under
   limit 7: the premises of budget_respected hold, 6 instructions are dispatched,
   the run ends with "too many steps" at the 7th loop head *)
Example budget_premises_hold :
  let prog := [SPlain 3; SBuiltin []; SPlain 2; SBuiltin []; SLoop] in
  let t := set_max_execution_steps new_thread 7 in
  let res := s_run (s_start t prog) (repeat TRun 40) in
  fst res = Finished (mkThread 7 7 (Some too_many_steps) true None) (mkS [SBuiltin []; SLoop] None)
                     (Some (ECancel too_many_steps)) /\
  1 <= 7 /\ maxSteps t = 7 /\ onmax t = None /\ steps t + nheads (snd res) < two64 /\
  ndisp (snd res) = 6 /\ nheads (snd res) = 7 /\ count_ev is_builtin (snd res) = 1%nat.
Proof. vm_compute. repeat split; discriminate. Qed.

(* a built-in cancels with reason 2, then another goroutine with reason 3: the
   premises of no_step_after_cancel hold from the built-in's step on *)
Example cancel_premises_hold :
  let prog := [SPlain 2; SBuiltin [SCancel 2]; SPlain 5; SBuiltin []] in
  let r1 := s_run (s_start new_thread prog) (repeat TRun 7) in
  let r2 := s_run (fst r1) (TCancel 3 :: repeat TRun 10) in
  default_thread (status_thread sstate (fst r1)) /\ cancel (status_thread sstate (fst r1)) = Some 2 /\
  has_uncancel (snd r2) = false /\ ndisp (snd r2) = 0 /\
  fst r2 = Finished (mkThread 4 max_uint64 (Some 2) true None) (mkS [SPlain 5; SBuiltin []] None) (Some (ECancel 2)).
Proof. vm_compute. repeat split. Qed.

(* host code satisfying both host hypotheses exists: the scripted built-ins
   terminate, and a host that hands errors on is transparent *)
Example script_host_terminates :
  host_terminates sstate s_host (fun s => match pending s with Some l => length l | None => O end).
Proof.
  intros s pe. unfold s_host. destruct (pending s) as [[|[r|] l]|]; cbn; auto.
Qed.

Example transparent_host_exists :
  host_transparent nat (fun s pe => match pe with Some e => HFail e s | None => HReturn s end).
Proof. intros s e. exists s. reflexivity. Qed.

(* first_reason on a history: Cancel 1, Cancel 2, Uncancel, Cancel 3, Cancel 4 *)
Example first_reason_example :
  first_reason [CCancel 1; CCancel 2] = Some 1 /\
  first_reason [CCancel 1; CCancel 2; CUncancel] = None /\
  first_reason [CCancel 1; CCancel 2; CUncancel; CCancel 3; CCancel 4] = Some 3.
Proof. vm_compute. repeat split. Qed.

Example hook_premises_hold :
  let t := set_onmax (mkThread 500 100 None true None) (Some (cancel_hook 4)) in
  onmax t = Some (cancel_hook 4) /\ (forall c, cancel_hook 4 c <> None) /\
  maxSteps t <= (steps t + 1) mod two64 /\ snd (loop_head t) = Some 4.
Proof. repeat split; try (intros [x|]; discriminate); vm_compute; congruence. Qed.

(* ======================================================================
   The limit changes, and steps are charged, WHILE the program runs
   (C07/ModelDyn.v).  Host code inside a built-in -- it runs on the
   interpreter's goroutine and holds the *Thread -- may at any moment call
   thread.SetMaxExecutionSteps(n) (a plain store `thread.maxSteps = n`, also
   for n = 0: the rewrite 0 -> MaxUint64 happens once, in Call, while
   thread.stack == nil, never in mid-run) and add to the exported counter
   (thread.Steps += k, uint64 wrap-around explicit: DCharge).  The loop head is
   Model.loop_head, unchanged: the dynamic machine runs Model.mstep for every
   step that is not one of the two new host actions.

   Vocabulary: `dndisp tr` / `dnheads tr` = instructions dispatched / loop
   heads reached in a dynamic trace, `charged tr` = sum of the charges,
   `installed m0 tr` = the limit most recently installed (the last
   SetMaxExecutionSteps in tr; m0 if there is none), `setmax_le n tr` = every
   SetMaxExecutionSteps in tr installs a limit <= n, `no_dyn tr` = tr contains
   neither of the new actions, `hook_ok t` = OnMaxSteps is nil (default: Cancel
   "too many steps") or a client hook that leaves the thread cancelled
   (cf. hook_enforced).
   ====================================================================== *)
Section DynStatements.
  Variable St : Type.
  Variable dispatch : St -> action St.
  Variable dhost : St -> option err -> dhaction St.
  Variable recursion : bool.
  Variable entry_err : St -> bool.
  Notation drun := (drun St dispatch dhost recursion entry_err).
  Notation dtick_step := (dtick_step St dispatch dhost recursion entry_err).
  Notation dstart := (dstart St recursion entry_err).

  (* In every run -- any program, any host code using Cancel / Uncancel /
     SetMaxExecutionSteps / Steps += k in any order, any schedule of the other
     goroutines -- and at every moment s1 of it:
     (a) the thread's limit is the value most recently installed;
     (b) if the next tick dispatches an instruction, then it is the machine's own
         tick, it dispatches exactly one, and Steps < that limit at that moment
         (the code's test is `Steps >= maxSteps` => no dispatch); no assumption
         about wrap-around is needed for this;
     (c) from s1 on, as long as no limit above n is installed (n any bound on the
         current limit) and the 64-bit counter does not wrap: the counter is what
         it was plus the heads plus the charges, and at most
         [pending instruction] + max(0, n - 1 - Steps) more instructions are ever
         dispatched.  With n = the current limit and Steps >= n (a host action has
         just lowered the limit to or below the count, or charged past it) that
         is 0: the next loop head cancels, in whatever frame it is. *)
  Definition budget_respected_dynamic_stmt : Prop :=
    forall t s sched s1 tr1,
      hook_ok t ->
      drun (dstart t s) sched = (s1, tr1) ->
      maxSteps (sthread St s1) = installed (maxSteps (call_init t)) tr1 /\
      (forall k s2 ev, dtick_step s1 k = (s2, ev) -> dndisp ev <> 0 ->
         k = TRun /\ dndisp ev = 1 /\ steps (sthread St s1) < installed (maxSteps (call_init t)) tr1) /\
      (forall n sched2 s2 tr2,
         installed (maxSteps (call_init t)) tr1 <= n ->
         drun s1 sched2 = (s2, tr2) -> setmax_le n tr2 = true ->
         steps (sthread St s1) + dnheads tr2 + charged tr2 < two64 ->
         steps (sthread St s2) = steps (sthread St s1) + dnheads tr2 + charged tr2 /\
         dndisp tr2 <= pend St s1 + (n - 1 - steps (sthread St s1))).

  (* A run of the dynamic machine in which neither of the new actions occurs IS
     the run of the static machine of Model.v (same final state, same events) on
     the same host code: the theorems above this section apply to it unchanged. *)
  Definition dynamic_reduces_to_static_stmt : Prop :=
    forall sched s s' tr,
      drun s sched = (s', tr) -> no_dyn tr = true ->
      run St dispatch (erase St dhost) recursion entry_err s sched = (s', strip tr) /\
      tr = map DE (strip tr).

  (* A built-in -- under any stack of active frames `rest`, at any moment of any
     run -- calls SetMaxExecutionSteps(n).  From that call on (tr2 starts with
     it), unless a later action installs a limit above n, at most
     max(0, n - 1 - Steps) further instructions are dispatched, Steps being the
     counter at the moment of the call: the new limit is the limit at the very
     next loop head of every frame.  (A limit cached per frame violates this.) *)
  Definition limit_change_takes_effect_at_next_head_stmt : Prop :=
    forall t s sched c tr1 rest n x,
      hook_ok t ->
      drun (dstart t s) sched = (Running c, tr1) ->
      stk c = FHost :: rest -> dhost (st c) (perr c) = DSetMax n x ->
      forall sched2 s2 tr2,
        drun (Running c) (TRun :: sched2) = (s2, tr2) ->
        setmax_le n tr2 = true ->
        steps (th c) + dnheads tr2 + charged tr2 < two64 ->
        dndisp tr2 <= n - 1 - steps (th c).

  (* The same for a charge: after `thread.Steps += j` in a built-in at most
     max(0, maxSteps - 1 - (Steps + j)) further instructions are dispatched -- none
     if the counter has jumped to or past the limit, whether or not it ever
     equals it (default behaviour and cancelling hook alike). *)
  Definition charge_takes_effect_at_next_head_stmt : Prop :=
    forall t s sched c tr1 rest j x,
      hook_ok t ->
      drun (dstart t s) sched = (Running c, tr1) ->
      stk c = FHost :: rest -> dhost (st c) (perr c) = DCharge j x ->
      forall sched2 s2 tr2,
        drun (Running c) (TRun :: sched2) = (s2, tr2) ->
        setmax_le (maxSteps (th c)) tr2 = true ->
        steps (th c) + dnheads tr2 + charged tr2 < two64 ->
        dndisp tr2 <= maxSteps (th c) - 1 - (steps (th c) + j).

  (* Every execution of the dynamic machine terminates (no infinite sequence of
     machine steps, whatever other goroutines do to cancelReason in between; the
     64-bit counter does not wrap: part of dstep_rel), provided
       - built-ins terminate: a measure hm on host code that every host step,
         SetMaxExecutionSteps and charges included, decreases (dhost_terminates);
       - the limit is not raised for ever (raises_limited): there are a bound B and a
         credit rc : St -> nat such that no step of the program or of host code
         increases rc and every SetMaxExecutionSteps(n) either has n <= B or
         strictly decreases rc.  Instances: rc = 0 -- every limit installed in
         mid-run is <= B, however often it is changed; B = 0 -- at most rc(initial
         state) calls of SetMaxExecutionSteps in the whole run, with any values.
     (Without such a hypothesis the statement is false: `while True: b()` with b
     raising the limit by 10 at every call runs for ever.) *)
  Definition terminates_under_dynamic_budget_stmt : Prop :=
    forall (hm rc : St -> nat) (B : N),
      dhost_terminates St dhost hm -> raises_limited St dispatch dhost rc B ->
      (forall c, dgood St c -> Acc (dstep_rel St dispatch dhost recursion entry_err) c) /\
      (forall f : nat -> config St, dgood St (f O) ->
         (forall i, dstep_rel St dispatch dhost recursion entry_err (f (S i)) (f i)) -> False).
End DynStatements.

Theorem budget_respected_dynamic : forall St dispatch dhost recursion entry_err,
  budget_respected_dynamic_stmt St dispatch dhost recursion entry_err.
Proof. exact budget_dynamic_lemma. Qed.

Theorem dynamic_reduces_to_static : forall St dispatch dhost recursion entry_err,
  dynamic_reduces_to_static_stmt St dispatch dhost recursion entry_err.
Proof. exact reduces_to_static_lemma. Qed.

(* for host code that never uses the new actions (`lift_host host`) the two
   machines are the same function ... *)
Theorem dynamic_reduces_to_static_host :
  forall St dispatch (host : St -> option err -> haction St) recursion entry_err sched s,
    drun St dispatch (lift_host host) recursion entry_err s sched =
    (let (s', tr) := run St dispatch host recursion entry_err s sched in (s', map DE tr)).
Proof. exact lifted_is_static. Qed.

(* ... so the theorems about Model.v are instances; e.g. budget_respected_fresh read
   on the dynamic machine *)
Theorem static_budget_is_an_instance :
  forall St dispatch (host : St -> option err -> haction St) recursion entry_err n s sched s' tr,
    1 <= n ->
    drun St dispatch (lift_host host) recursion entry_err
         (dstart St recursion entry_err (set_max_execution_steps new_thread n) s) sched = (s', tr) ->
    dnheads tr < two64 ->
    no_dyn tr = true /\ dndisp tr < n.
Proof. exact static_budget_instance. Qed.

Theorem limit_change_takes_effect_at_next_head : forall St dispatch dhost recursion entry_err,
  limit_change_takes_effect_at_next_head_stmt St dispatch dhost recursion entry_err.
Proof. exact setmax_next_head_lemma. Qed.

Theorem charge_takes_effect_at_next_head : forall St dispatch dhost recursion entry_err,
  charge_takes_effect_at_next_head_stmt St dispatch dhost recursion entry_err.
Proof. exact charge_next_head_lemma. Qed.

Theorem terminates_under_dynamic_budget : forall St dispatch dhost recursion entry_err,
  terminates_under_dynamic_budget_stmt St dispatch dhost recursion entry_err.
Proof. exact dterm_both. Qed.

(* ---- non-vacuity ---- *)

(* the scripted programs of ModelDyn.v satisfy both hypotheses of
   terminates_under_dynamic_budget (credit = the SetMaxExecutionSteps calls the
   script still contains, B = 0), and dgood holds for a started thread *)
Example script_hosts_terminate : dhost_terminates dstate d_host d_measure.
Proof. exact script_dhost_terminates. Qed.
Example script_raises_are_limited : raises_limited dstate d_dispatch d_host d_credit 0.
Proof. exact script_raises_limited. Qed.
Example dgood_holds :
  dgood dstate (mkConfig (mkThread 3 40 None true (Some (cancel_hook 4))) [FHost; FStar Head]
                         (mkD [DPlain 50] (Some [DOCharge 1000])) None).
Proof. repeat split. intros [x|]; discriminate. Qed.

(* A built-in lowers the limit BELOW the current count: limit 100, five ordinary
   instructions, then b() -- entered at Steps = 6 under an active top-level frame --
   calls SetMaxExecutionSteps(3).  The premises of
   limit_change_takes_effect_at_next_head hold (n = 3, Steps = 6), the bound is
   max(0, 3 - 1 - 6) = 0, and indeed nothing more is dispatched: the next head
   (Steps = 7) cancels with "too many steps". *)
Example lowered_below_count :
  let prog := [DPlain 5; DBuiltin [DOSetMax 3]; DPlain 10; DBuiltin []] in
  let t := set_max_execution_steps new_thread 100 in
  let r1 := d_run (d_start t prog) (repeat TRun 12) in
  let r2 := d_run (fst r1) (TRun :: repeat TRun 20) in
  hook_ok t /\
  (exists c x, fst r1 = Running c /\ stk c = [FHost; FStar Head] /\ steps (th c) = 6 /\ maxSteps (th c) = 100 /\
               d_host (st c) (perr c) = DSetMax 3 x) /\
  setmax_le 3 (snd r2) = true /\ steps (sthread dstate (fst r1)) + dnheads (snd r2) + charged (snd r2) < two64 /\
  dndisp (snd r1) = 6 /\ dndisp (snd r2) = 0 /\ 3 - 1 - 6 = 0 /\
  fst r2 = Finished (mkThread 7 3 (Some too_many_steps) true None) (mkD [DPlain 10; DBuiltin []] None)
                    (Some (ECancel too_many_steps)).
Proof.
  cbv zeta. split; [exact I|]. split.
  - eexists. eexists. vm_compute. repeat split.
  - vm_compute. repeat split.
Qed.

(* A charge of 1000 under limit 40 with a cancelling OnMaxSteps hook (reason 4):
   the counter jumps from 3 to 1003 and never equals 40; the premises of
   charge_takes_effect_at_next_head hold, the bound is 0, the next head stops the run
   with the hook's reason. *)
Example charge_of_1000 :
  let prog := [DPlain 2; DBuiltin [DOCharge 1000]; DPlain 50; DBuiltin []] in
  let t := set_onmax (set_max_execution_steps new_thread 40) (Some (cancel_hook 4)) in
  let r1 := d_run (d_start t prog) (repeat TRun 6) in
  let r2 := d_run (fst r1) (TRun :: repeat TRun 20) in
  hook_ok t /\
  (exists c x, fst r1 = Running c /\ stk c = [FHost; FStar Head] /\ steps (th c) = 3 /\ maxSteps (th c) = 40 /\
               d_host (st c) (perr c) = DCharge 1000 x) /\
  setmax_le 40 (snd r2) = true /\ steps (sthread dstate (fst r1)) + dnheads (snd r2) + charged (snd r2) < two64 /\
  charged (snd r2) = 1000 /\ dndisp (snd r2) = 0 /\ 40 - 1 - (3 + 1000) = 0 /\
  (exists t' x, fst r2 = Finished t' x (Some (ECancel 4)) /\ steps t' = 1004 /\ cancel t' = Some 4).
Proof.
  cbv zeta. split; [intros [x|]; discriminate|]. split.
  - eexists. eexists. vm_compute. repeat split.
  - vm_compute. repeat split. eexists. eexists. repeat split.
Qed.

(* The limit can also be RAISED in mid-run (limit 5, b() at Steps = 4 installs 9,
   endless loop): the run goes on past 5 and is stopped at 9 -- the limit in force
   is the one most recently installed, in both directions. *)
Example raised_in_mid_run :
  dyn_run (set_max_execution_steps new_thread 5) [DPlain 3; DBuiltin [DOSetMax 9]; DLoop] 100
  = Some (Some (ECancel too_many_steps), 9, 1).
Proof. vm_compute. reflexivity. Qed.

(* Wrap-around is explicit: a charge of 2^64 - 3 takes the counter from 6 back to 3,
   and the run under limit 10 completes -- which is why parts (c) above assume that
   heads + charges stay below 2^64. *)
Example charge_wraps :
  dyn_run (mkThread 5 10 None true None) [DBuiltin [DOCharge 18446744073709551613]; DPlain 3] 100
  = Some (None, 7, 1).
Proof. vm_compute. reflexivity. Qed.

(* no_dyn holds for real runs (premise of dynamic_reduces_to_static), and the
   arithmetic specification SpecDyn.spec_dyn agrees with the machine on the
   harness's charge program (profile: 51 heads, b() at heads 2 7 21 31 41 48) *)
Example no_dyn_and_spec_examples :
  let pr := mkProf 51 [2; 7; 21; 31; 41; 48] EOk in
  no_dyn (snd (d_run (d_start (set_max_execution_steps new_thread 30) (script_of pr (fun _ => []))) (repeat TRun 200))) = true /\
  dyn_run (set_max_execution_steps new_thread 40) (script_of pr (plan1 1 [DOCharge 1000])) 300
    = Some (Some (ECancel too_many_steps), 1003, 1) /\
  spec_dyn too_many_steps 40 pr 1 (ACharge 1000) = Some (mkObs (RCancelled too_many_steps) 1003 1) /\
  dyn_run new_thread (script_of pr (plan1 3 [DOSetMax 0])) 300 = Some (Some (ECancel too_many_steps), 22, 3) /\
  spec_dyn too_many_steps 0 pr 3 (ASetMax 0) = Some (mkObs (RCancelled too_many_steps) 22 3).
Proof. vm_compute. repeat split. Qed.
