(* C07 -- property theorems only. *)
From Coq Require Import NArith List Bool.
From SV Require Import C07.Model C07.Spec C07.Proofs.
Import ListNotations.
Open Scope N_scope.

Theorem budget_respected_dispatch :
  forall (St : Type) (dispatch : St -> action St) (host : St -> option err -> haction St)
         (recursion : bool) (entry_err : St -> bool)
         (n : N) (t : thread) (s : St) (sched : list tick) s' tr,
    1 <= n -> maxSteps t = n -> onmax t = None ->
    run St dispatch host recursion entry_err (start St recursion entry_err t s) sched = (s', tr) ->
    steps t + nheads tr < two64 ->
    steps t + ndisp tr < n \/ ndisp tr = 0.
Proof. exact budget_dispatch_lemma. Qed.
