(* C07 -- property theorems only.  Each is closed by `exact <lemma>`.

   Vocabulary (C07/Model.v): a program is ANY step function `dispatch` on an
   opaque state St (all byte strings, all non-terminating instruction streams),
   host built-ins are ANY step function `host` (may work, call back into Starlark,
   Cancel, Uncancel, return, fail), other goroutines are ticks TCancel / TUncancel
   interleaved anywhere in the schedule.  `ndisp tr` = instructions dispatched,
   `nheads tr` = loop heads reached (= increments of Thread.Steps), over all
   nested frames.  The uint64 counter wraps in the model; the theorems assume the
   run visits fewer than 2^64 loop heads. *)
From Coq Require Import NArith List Bool.
From SV Require Import C07.Model C07.Spec C07.Proofs C07.ProofsCancel C07.ProofsLimit C07.ProofsDet C07.ProofsTerm C07.ProofsDepth.
Import ListNotations.
Open Scope N_scope.

Section Statements.
  Variable St : Type.
  Variable dispatch : St -> action St.
  Variable host : St -> option err -> haction St.
  Variable recursion : bool.
  Variable entry_err : St -> bool.
  Notation run := (run St dispatch host recursion entry_err).
  Notation start := (start St recursion entry_err).
  Notation life := (life St dispatch host recursion entry_err).

  (* A thread with limit n >= 1 and the default OnMaxSteps: whatever the program,
     the host code and the schedule,
     (a) fewer than n instructions are dispatched in total (counting the steps the
         thread had already counted): "never executes N or more steps";
     (b) an execution that returns successfully has reached fewer than n loop heads,
         i.e. a computation that needs an n-th step cannot succeed;
     (c) if the n-th loop head is reached during this execution it ends with the
         cancellation error, provided host code hands errors on unchanged. *)
  Definition budget_respected_stmt : Prop :=
    forall n t s sched s' tr,
      1 <= n -> maxSteps t = n -> onmax t = None ->
      run (start t s) sched = (s', tr) ->
      steps t + nheads tr < two64 ->
      (steps t + ndisp tr < n \/ ndisp tr = 0) /\
      (forall t' x r, s' = Finished t' x r ->
         steps t' = steps t + nheads tr /\
         (r = None -> steps t + nheads tr < n) /\
         (host_transparent St host -> steps t < n -> n <= steps t + nheads tr ->
          exists y, r = Some (ECancel y))).

  (* the same for a fresh thread, as the property text reads *)
  Definition budget_respected_fresh_stmt : Prop :=
    forall n s sched s' tr,
      1 <= n ->
      run (start (set_max_execution_steps new_thread n) s) sched = (s', tr) ->
      nheads tr < two64 ->
      ndisp tr < n.

  (* From any moment at which a reason r is in force (cancel = Some r), and as
     long as nobody calls Uncancel: at most the one instruction whose cancellation
     test had already passed is dispatched (none if the Cancel came from a built-in
     running on the interpreter's goroutine: then no frame is between test and
     dispatch), r stays in force, and every loop exit names r. *)
  Definition no_step_after_cancel_stmt : Prop :=
    forall sched s s' tr r,
      default_thread (sthread St s) -> cancel (sthread St s) = Some r ->
      run s sched = (s', tr) -> has_uncancel tr = false ->
      pend St s' + ndisp tr <= pend St s /\ cancel (sthread St s') = Some r /\
      exits_ok [CCancel r] tr = true.

  (* Over a whole life of one thread -- any sequence of Cancel / Uncancel /
     SetMaxExecutionSteps / ExecutionSteps reads /
     executions under any schedules, with any Cancel / Uncancel calls by built-ins
     and other goroutines during the executions: the reason in force at the end is
     the first Cancel since the last Uncancel (Spec.first_reason, defined on the
     history alone), and every cancellation exit in every execution names the
     reason that was first at that moment. *)
  Definition first_reason_wins_stmt : Prop :=
    forall h t t' obs ops,
      default_thread t -> cancel t = first_reason ops ->
      life t h = (t', obs) ->
      default_thread t' /\
      cancel t' = first_reason (ops ++ ops_of_trace (life_trace obs)) /\
      exits_ok ops (life_trace obs) = true.

  (* An execution started while r is in force (other goroutines may call Cancel
     again meanwhile) is over after its first machine step: nothing is dispatched,
     r is still in force, and unless the call fails before the loop (argument
     binding / recursion check) the result is the cancellation error naming r after
     exactly one loop head. *)
  Definition cancel_persists_stmt : Prop :=
    forall t s adv r,
      default_thread t -> cancel t = Some r -> forallb cancel_tick adv = true ->
      exists t' x e tr,
        run (start t s) (adv ++ [TRun]) = (Finished t' x (Some e), tr) /\
        ndisp tr = 0 /\ cancel t' = Some r /\
        ((recursion && (depth_limit <? 1) || entry_err s = false) ->
           e = ECancel r /\ nheads tr = 1 /\ steps t' = (steps t + 1) mod two64).

  (* The run of a program (same start state, same schedule) is the same -- same
     trace, same outcome, same number of steps -- whatever the limit and whatever
     the thread had counted before, as long as the limit is not reached. *)
  Definition steps_deterministic_stmt : Prop :=
    forall t1 t2 s sched s1 tr,
      onmax t1 = None -> onmax t2 = None -> cancel t1 = cancel t2 ->
      run (start t1 s) sched = (s1, tr) ->
      steps t1 + nheads tr < maxSteps (call_init t1) -> steps t1 + nheads tr < two64 ->
      steps t2 + nheads tr < maxSteps (call_init t2) -> steps t2 + nheads tr < two64 ->
      exists s2, run (start t2 s) sched = (s2, tr) /\ same_outcome St s1 s2 /\
                 steps (sthread St s1) = steps t1 + nheads tr /\
                 steps (sthread St s2) = steps t2 + nheads tr.

  (* With the default OnMaxSteps every execution terminates (no infinite sequence
     of machine steps, whatever other goroutines do to cancelReason in between),
     provided built-ins terminate (host_terminates: a measure on host code) and the
     64-bit counter does not wrap (part of step_rel). *)
  Definition terminates_under_budget_stmt : Prop :=
    forall hm : St -> nat,
      host_terminates St host hm ->
      (forall c, good St c -> Acc (step_rel St dispatch host recursion entry_err) c) /\
      (forall f : nat -> config St, good St (f O) ->
         (forall i, step_rel St dispatch host recursion entry_err (f (S i)) (f i)) -> False).
End Statements.

Theorem budget_respected : forall St dispatch host recursion entry_err,
  budget_respected_stmt St dispatch host recursion entry_err.
Proof.
  intros St d h rc ee n t s sched s' tr Hn Hm Ho Hr Hw. split.
  - exact (budget_dispatch_lemma St d h rc ee n t s sched s' tr Hn Hm Ho Hr Hw).
  - intros t' x r ->. exact (budget_outcome_lemma St d h rc ee n t s sched t' x r tr Hn Hm Ho Hr Hw).
Qed.

Theorem budget_respected_fresh : forall St dispatch host recursion entry_err,
  budget_respected_fresh_stmt St dispatch host recursion entry_err.
Proof. exact budget_fresh_lemma. Qed.

Theorem no_step_after_cancel : forall St dispatch host recursion entry_err,
  no_step_after_cancel_stmt St dispatch host recursion entry_err.
Proof. exact no_step_after_cancel_lemma. Qed.

Theorem first_reason_wins : forall St dispatch host recursion entry_err,
  first_reason_wins_stmt St dispatch host recursion entry_err.
Proof. exact life_cancel_state. Qed.

Theorem cancel_persists : forall St dispatch host recursion entry_err,
  cancel_persists_stmt St dispatch host recursion entry_err.
Proof. exact cancel_persists_lemma. Qed.

Theorem steps_deterministic : forall St dispatch host recursion entry_err,
  steps_deterministic_stmt St dispatch host recursion entry_err.
Proof. exact steps_deterministic_lemma. Qed.

Theorem terminates_under_budget : forall St dispatch host recursion entry_err,
  terminates_under_budget_stmt St dispatch host recursion entry_err.
Proof.
  intros St d h rc ee hm HT. split.
  - exact (terminates_lemma St d h rc ee hm HT).
  - exact (no_infinite_run_lemma St d h rc ee hm HT).
Qed.

(* With Prog.Recursion enabled (the `len(thread.stack) > 100_000` test of
   CallInternal), in every reachable state the call stack holds at most 100001
   frames, every Starlark frame sits at depth <= 100000 and host frames never
   stack directly on each other (stack_ok): unbounded recursion ends with the
   "Starlark stack overflow" error, not with a Go stack overflow. *)
Theorem recursion_bounded : forall St dispatch host entry_err t s sched c tr,
  run St dispatch host true entry_err (start St true entry_err t s) sched = (Running c, tr) ->
  N.of_nat (length (stk c)) <= depth_limit + 1 /\ stack_ok (stk c).
Proof. exact recursion_bounded_lemma. Qed.

(* SetMaxExecutionSteps is not an operation on the cancellation state: whatever
   the new limit, the reason in force (if any) stays in force. *)
Theorem set_max_keeps_reason :
  forall t n, cancel (set_max_execution_steps t n) = cancel t /\
              steps (set_max_execution_steps t n) = steps t /\
              onmax (set_max_execution_steps t n) = onmax t.
Proof. intros t n. repeat split. Qed.

(* A client OnMaxSteps hook that cancels the thread (whatever its reason) stops the
   loop at every head at which Steps >= maxSteps -- also when the counter has
   jumped past the limit (a re-used thread given a lower limit, a built-in that
   charges steps) and never equals it. *)
Theorem hook_enforced :
  forall t h t' cr,
    onmax t = Some h -> (forall c, h c <> None) ->
    maxSteps t <= (steps t + 1) mod two64 ->
    loop_head t = (t', cr) -> cr <> None.
Proof. exact hook_enforced_lemma. Qed.

(* ---- non-vacuity: the hypotheses hold on concrete, non-trivial inputs ---- *)

(* `while True: b()` (4 ordinary instructions, then a built-in, for ever) under
   limit 7: the premises of budget_respected hold, 6 instructions are dispatched,
   the run ends with "too many steps" at the 7th loop head *)
Example budget_premises_hold :
  let prog := [SPlain 3; SBuiltin []; SPlain 2; SBuiltin []; SLoop] in
  let t := set_max_execution_steps new_thread 7 in
  let res := s_run (s_start t prog) (repeat TRun 40) in
  fst res = Finished (mkThread 7 7 (Some too_many_steps) true None) (mkS [SBuiltin []; SLoop] None)
                     (Some (ECancel too_many_steps)) /\
  1 <= 7 /\ maxSteps t = 7 /\ onmax t = None /\ steps t + nheads (snd res) < two64 /\
  ndisp (snd res) = 6 /\ nheads (snd res) = 7 /\ count_ev is_builtin (snd res) = 1%nat.
Proof. vm_compute. repeat split; discriminate. Qed.

(* a built-in cancels with reason 2, then another goroutine with reason 3: the
   premises of no_step_after_cancel hold from the built-in's step on *)
Example cancel_premises_hold :
  let prog := [SPlain 2; SBuiltin [SCancel 2]; SPlain 5; SBuiltin []] in
  let r1 := s_run (s_start new_thread prog) (repeat TRun 7) in
  let r2 := s_run (fst r1) (TCancel 3 :: repeat TRun 10) in
  default_thread (status_thread sstate (fst r1)) /\ cancel (status_thread sstate (fst r1)) = Some 2 /\
  has_uncancel (snd r2) = false /\ ndisp (snd r2) = 0 /\
  fst r2 = Finished (mkThread 4 max_uint64 (Some 2) true None) (mkS [SPlain 5; SBuiltin []] None) (Some (ECancel 2)).
Proof. vm_compute. repeat split. Qed.

(* host code satisfying both host hypotheses exists: the scripted built-ins
   terminate, and a host that hands errors on is transparent *)
Example script_host_terminates :
  host_terminates sstate s_host (fun s => match pending s with Some l => length l | None => O end).
Proof.
  intros s pe. unfold s_host. destruct (pending s) as [[|[r|] l]|]; cbn; auto.
Qed.

Example transparent_host_exists :
  host_transparent nat (fun s pe => match pe with Some e => HFail e s | None => HReturn s end).
Proof. intros s e. exists s. reflexivity. Qed.

(* first_reason on a history: Cancel 1, Cancel 2, Uncancel, Cancel 3, Cancel 4 *)
Example first_reason_example :
  first_reason [CCancel 1; CCancel 2] = Some 1 /\
  first_reason [CCancel 1; CCancel 2; CUncancel] = None /\
  first_reason [CCancel 1; CCancel 2; CUncancel; CCancel 3; CCancel 4] = Some 3.
Proof. vm_compute. repeat split. Qed.

Example hook_premises_hold :
  let t := set_onmax (mkThread 500 100 None true None) (Some (cancel_hook 4)) in
  onmax t = Some (cancel_hook 4) /\ (forall c, cancel_hook 4 c <> None) /\
  maxSteps t <= (steps t + 1) mod two64 /\ snd (loop_head t) = Some 4.
Proof. repeat split; try (intros [x|]; discriminate); vm_compute; congruence. Qed.
