(* C07 -- step limits and cancellation: executable model (no proofs).

   Mirrors, from /repo/starlark:
     eval.go    Thread{Steps,maxSteps,cancelReason,OnMaxSteps}, SetMaxExecutionSteps,
                ExecutionSteps, Cancel (CompareAndSwap(nil,&reason)), Uncancel (Store(nil)),
                Call (one-time `if thread.maxSteps == 0 { thread.maxSteps-- }` while
                thread.stack == nil; frame push; deferred frame pop)
     interp.go  Function.CallInternal: the frame-depth test
                `len(thread.stack) > 100_000` when Prog.Recursion, and the head of `loop:`
                    thread.Steps++
                    if thread.Steps >= thread.maxSteps { OnMaxSteps / Cancel("too many steps") }
                    if reason := thread.cancelReason.Load(); reason != nil { err = ...; break loop }
                    ... fetch, dispatch ...

   Everything below the loop head is abstract: a "program" is an arbitrary step
   function `dispatch` on an opaque machine state (so: every byte string, every
   non-terminating instruction stream), a built-in is an arbitrary host step
   function `host` which may work, call back into Starlark, Cancel, Uncancel,
   return or fail.  Other goroutines are an adversary that may Cancel / Uncancel
   between any two micro-steps of the machine (ticks). *)
From Coq Require Import NArith List Bool.
Import ListNotations.
Open Scope N_scope.

Definition reason := N.                  (* cancellation reasons, by number *)
Definition too_many_steps : reason := 0. (* the reason used by the default OnMaxSteps *)
Definition two64 : N := 18446744073709551616.
Definition max_uint64 : N := 18446744073709551615.
Definition depth_limit : N := 100000.

(* ---- thread state (eval.go) ---- *)
Record thread := mkThread {
  steps : N;                 (* Thread.Steps, uint64 *)
  maxSteps : N;              (* Thread.maxSteps, uint64 *)
  cancel : option reason;    (* Thread.cancelReason (nil = None) *)
  inited : bool;             (* thread.stack != nil *)
  onmax : option (option reason -> option reason)
                             (* Thread.OnMaxSteps; None = nil = default.  A custom handler is
                                abstracted by what it does to cancelReason. *)
}.

Definition new_thread : thread := mkThread 0 0 None false None.

Definition set_steps (t : thread) (n : N) := mkThread n (maxSteps t) (cancel t) (inited t) (onmax t).
Definition set_max (t : thread) (n : N) := mkThread (steps t) n (cancel t) (inited t) (onmax t).
Definition set_cancel (t : thread) (c : option reason) := mkThread (steps t) (maxSteps t) c (inited t) (onmax t).
Definition set_onmax (t : thread) h := mkThread (steps t) (maxSteps t) (cancel t) (inited t) h.

(* a client hook `func(t) { t.Cancel(r) }` as a handler *)
Definition cancel_hook (r : reason) : option reason -> option reason :=
  fun c => match c with None => Some r | Some x => Some x end.

(* Cancel: compare-and-swap on nil -- the first reason wins *)
Definition do_cancel (t : thread) (r : reason) : thread :=
  match cancel t with None => set_cancel t (Some r) | Some _ => t end.
Definition do_uncancel (t : thread) : thread := set_cancel t None.
Definition set_max_execution_steps := set_max.
Definition execution_steps := steps.

(* Call's one-time initialisation *)
Definition call_init (t : thread) : thread :=
  if inited t then t
  else mkThread (steps t) (if maxSteps t =? 0 then max_uint64 else maxSteps t) (cancel t) true (onmax t).

(* the loop head up to (not including) `fr.pc = pc`: returns the thread and
   Some reason when the loop is left with the cancellation error *)
Definition limit_hit (t1 : thread) : bool := maxSteps t1 <=? steps t1.   (* Steps >= maxSteps *)
Definition loop_head (t : thread) : thread * option reason :=
  let t1 := set_steps t ((steps t + 1) mod two64) in            (* thread.Steps++ *)
  let t2 := if limit_hit t1
            then match onmax t1 with
                 | Some h => set_cancel t1 (h (cancel t1))       (* thread.OnMaxSteps(thread) *)
                 | None => do_cancel t1 too_many_steps           (* thread.Cancel("too many steps") *)
                 end
            else t1 in
  (t2, cancel t2).                                               (* cancelReason.Load() != nil *)

(* ---- the abstract machine ---- *)
Inductive err := ECancel (r : reason) | EOther (tag : N).

Inductive phase := Head | Disp.          (* at the loop head / cancel test passed, about to dispatch *)
Inductive frame := FStar (p : phase) | FHost.

Inductive event :=
| EvHead                      (* a loop head was reached (Steps incremented) *)
| EvDispatch                  (* an instruction was fetched and dispatched *)
| EvCancelExit (r : reason)   (* a loop was left with "Starlark computation cancelled: r" *)
| EvBuiltin                   (* a built-in was entered *)
| EvHostStep                  (* host code inside a built-in made one step *)
| EvCancel (r : reason)       (* somebody called thread.Cancel(r): another goroutine, a built-in,
                                 or the default OnMaxSteps behaviour *)
| EvUncancel                  (* somebody called thread.Uncancel() *)
| EvOnMaxCustom.              (* the client's OnMaxSteps handler ran *)

(* the Cancel / handler call made by the loop head, as an event *)
Definition head_events (t : thread) : list event :=
  if limit_hit (set_steps t ((steps t + 1) mod two64))
  then match onmax t with None => [EvCancel too_many_steps] | Some _ => [EvOnMaxCustom] end
  else [].

Section Machine.
  Variable St : Type.

  Inductive action :=           (* what the instruction at the current pc does *)
  | ANext (s : St)              (* any instruction that stays in the frame (incl. jumps) *)
  | ACall (s : St)              (* CALL of a Starlark function *)
  | ABuiltin (s : St)           (* CALL of a built-in *)
  | AReturn (s : St)            (* RETURN *)
  | AError (tag : N) (s : St).  (* err != nil; break loop *)

  Inductive haction :=          (* one atomic piece of host code inside a built-in *)
  | HWork (s : St)
  | HCall (s : St)              (* starlark.Call of a Starlark function *)
  | HCancel (r : reason) (s : St)
  | HUncancel (s : St)
  | HReturn (s : St)
  | HFail (e : err) (s : St).

  Variable dispatch : St -> action.
  Variable host : St -> option err -> haction.  (* 2nd: error just returned by a nested Call *)
  Variable recursion : bool.                     (* Prog.Recursion *)
  Variable entry_err : St -> bool.               (* recursion detection (when disabled) / setArgs failure *)

  Record config := mkConfig {
    th : thread;
    stk : list frame;          (* thread.stack, top first *)
    st : St;
    perr : option err          (* error being delivered to the top frame *)
  }.

  Inductive status :=
  | Running (c : config)
  | Finished (t : thread) (s : St) (r : option err).   (* None = success *)

  (* a frame was popped with result r: hand r to the frame below *)
  Definition deliver (t : thread) (rest : list frame) (s : St) (r : option err) : status :=
    match rest with
    | [] => Finished t s r
    | FStar _ :: rest' => Running (mkConfig t (FStar Head :: rest') s r)
    | FHost :: _ => Running (mkConfig t rest s r)
    end.

  (* Call(fn) from a running frame; the caller (if a Starlark frame) resumes at its next loop head *)
  Definition resume_head (f : list frame) : list frame :=
    match f with FStar _ :: r => FStar Head :: r | _ => f end.

  Definition push_star (t : thread) (callers : list frame) (s : St) : status :=
    let t := call_init t in
    let stack' := FStar Head :: resume_head callers in
    if (recursion && (depth_limit <? N.of_nat (length stack'))) || entry_err s
    then deliver t (resume_head callers) s (Some (EOther 0))   (* CallInternal returns an error before the loop *)
    else Running (mkConfig t stack' s None).

  Definition push_host (t : thread) (callers : list frame) (s : St) : status :=
    Running (mkConfig (call_init t) (FHost :: resume_head callers) s None).

  Definition mstep (c : config) : status * list event :=
    match stk c with
    | [] => (Finished (th c) (st c) (perr c), [])
    | FStar ph :: rest =>
        match perr c with
        | Some e => (deliver (th c) rest (st c) (Some e), [])   (* CALL returned err: break loop *)
        | None =>
          match ph with
          | Head =>
              let (t', cr) := loop_head (th c) in
              let ev := EvHead :: head_events (th c) in
              match cr with
              | Some r => (deliver t' rest (st c) (Some (ECancel r)), ev ++ [EvCancelExit r])
              | None => (Running (mkConfig t' (FStar Disp :: rest) (st c) None), ev)
              end
          | Disp =>
              (match dispatch (st c) with
               | ANext s => Running (mkConfig (th c) (FStar Head :: rest) s None)
               | ACall s => push_star (th c) (stk c) s
               | ABuiltin s => push_host (th c) (stk c) s
               | AReturn s => deliver (th c) rest s None
               | AError tag s => deliver (th c) rest s (Some (EOther tag))
               end,
               match dispatch (st c) with ABuiltin _ => [EvDispatch; EvBuiltin] | _ => [EvDispatch] end)
          end
        end
    | FHost :: rest =>
        (match host (st c) (perr c) with
         | HWork s => Running (mkConfig (th c) (stk c) s None)
         | HCall s => push_star (th c) (stk c) s
         | HCancel r s => Running (mkConfig (do_cancel (th c) r) (stk c) s None)
         | HUncancel s => Running (mkConfig (do_uncancel (th c)) (stk c) s None)
         | HReturn s => deliver (th c) rest s None
         | HFail e s => deliver (th c) rest s (Some e)
         end,
         match host (st c) (perr c) with
         | HCancel r _ => [EvHostStep; EvCancel r]
         | HUncancel _ => [EvHostStep; EvUncancel]
         | _ => [EvHostStep]
         end)
    end.

  (* ---- schedules: the machine interleaved with other goroutines ---- *)
  Inductive tick := TRun | TCancel (r : reason) | TUncancel.

  Definition status_thread (s : status) : thread :=
    match s with Running c => th c | Finished t _ _ => t end.

  Definition with_thread (s : status) (f : thread -> thread) : status :=
    match s with
    | Running c => Running (mkConfig (f (th c)) (stk c) (st c) (perr c))
    | Finished t x r => Finished (f t) x r
    end.

  Definition tick_step (s : status) (k : tick) : status * list event :=
    match k with
    | TRun => match s with Running c => mstep c | Finished _ _ _ => (s, []) end
    | TCancel r => (with_thread s (fun t => do_cancel t r), [EvCancel r])
    | TUncancel => (with_thread s do_uncancel, [EvUncancel])
    end.

  Fixpoint run (s : status) (sched : list tick) : status * list event :=
    match sched with
    | [] => (s, [])
    | k :: rest =>
        let (s1, e1) := tick_step s k in
        let (s2, e2) := run s1 rest in
        (s2, e1 ++ e2)
    end.

  (* the host calls starlark.Call(thread, fn) on an idle thread, fn a Starlark function *)
  Definition start (t : thread) (s : St) : status := push_star t [] s.

  (* ---- a thread's life: Cancel / Uncancel / executions, one after another ---- *)
  Inductive hevent :=
  | HEvCancel (r : reason)
  | HEvUncancel
  | HEvSetMax (n : N)                        (* thread.SetMaxExecutionSteps(n) between executions *)
  | HEvRead                                  (* thread.ExecutionSteps() *)
  | HEvExec (s : St) (sched : list tick).    (* must run to completion under sched *)

  Inductive hobs :=
  | OOp (tr : list event)                     (* a Cancel / Uncancel / SetMaxExecutionSteps between executions *)
  | ORead (n : N)                             (* what ExecutionSteps() returned *)
  | OExec (r : option err) (steps_after : N) (tr : list event)
  | OStuck (tr : list event).                  (* the schedule ended before the execution did *)

  Fixpoint life (t : thread) (h : list hevent) : thread * list hobs :=
    match h with
    | [] => (t, [])
    | HEvCancel r :: h' => let (t2, o) := life (do_cancel t r) h' in (t2, OOp [EvCancel r] :: o)
    | HEvUncancel :: h' => let (t2, o) := life (do_uncancel t) h' in (t2, OOp [EvUncancel] :: o)
    | HEvSetMax n :: h' => let (t2, o) := life (set_max_execution_steps t n) h' in (t2, OOp [] :: o)
    | HEvRead :: h' => let (t2, o) := life t h' in (t2, ORead (execution_steps t) :: o)
    | HEvExec s sched :: h' =>
        match run (start t s) sched with
        | (Finished t' _ r, tr) => let (t2, o) := life t' h' in (t2, OExec r (steps t') tr :: o)
        | (Running c, tr) => (th c, [OStuck tr])
        end
    end.
End Machine.

Arguments ANext {St}. Arguments ACall {St}. Arguments ABuiltin {St}. Arguments AReturn {St}. Arguments AError {St}.
Arguments HWork {St}. Arguments HCall {St}. Arguments HCancel {St}. Arguments HUncancel {St}.
Arguments HReturn {St}. Arguments HFail {St}.
Arguments Running {St}. Arguments Finished {St}.
Arguments mkConfig {St}. Arguments th {St}. Arguments stk {St}. Arguments st {St}. Arguments perr {St}.
Arguments HEvCancel {St}. Arguments HEvUncancel {St}. Arguments HEvExec {St}.
Arguments HEvSetMax {St}. Arguments HEvRead {St}.

Fixpoint life_trace (l : list hobs) : list event :=
  match l with
  | [] => []
  | OOp tr :: r => tr ++ life_trace r
  | ORead _ :: r => life_trace r
  | OExec _ _ tr :: r => tr ++ life_trace r
  | OStuck tr :: r => tr ++ life_trace r
  end.

Definition count_ev (f : event -> bool) (tr : list event) : nat := length (filter f tr).
Definition is_dispatch (e : event) := match e with EvDispatch => true | _ => false end.
Definition is_head (e : event) := match e with EvHead => true | _ => false end.
Definition is_builtin (e : event) := match e with EvBuiltin => true | _ => false end.
Definition dispatches := count_ev is_dispatch.
Definition heads := count_ev is_head.

(* ---- the instance used by the correspondence check: a measured instruction
   stream.  A real program's unlimited run is summarised by the harness as the
   sequence of its loop-head visits; visit i either is an ordinary instruction or
   the CALL of a host built-in that (optionally) cancels / uncancels. ---- *)
Inductive sop := SCancel (r : reason) | SUncancel.
Inductive sinstr :=
| SPlain (n : N)                 (* n ordinary instructions *)
| SBuiltin (ops : list sop)     (* CALL of a logging host built-in performing ops *)
| SFail                          (* an instruction that fails (err != nil; break loop) *)
| SLoop.                         (* the measured prefix ended: the program goes on for ever *)

Record sstate := mkS { code : list sinstr; pending : option (list sop) }.

Definition s_dispatch (s : sstate) : action sstate :=
  match code s with
  | [] => AReturn s
  | SPlain n :: r => if n <=? 1 then ANext (mkS r None) else ANext (mkS (SPlain (n - 1) :: r) None)
  | SBuiltin ops :: r => ABuiltin (mkS r (Some ops))
  | SFail :: r => AError 1 (mkS r None)
  | SLoop :: _ => ANext s
  end.

Definition s_host (s : sstate) (_ : option err) : haction sstate :=
  match pending s with
  | Some (SCancel r :: ops) => HCancel r (mkS (code s) (Some ops))
  | Some (SUncancel :: ops) => HUncancel (mkS (code s) (Some ops))
  | _ => HReturn (mkS (code s) None)
  end.

Definition s_start (t : thread) (prog : list sinstr) : status sstate :=
  start sstate true (fun _ => false) t (mkS prog None).

Definition s_run (s : status sstate) (sched : list (tick)) :=
  run sstate s_dispatch s_host true (fun _ => false) s sched.

(* run to completion without adversary: fuel = number of micro-steps *)
(* acc: events so far, most recent first *)
Fixpoint s_exec (fuel : nat) (s : status sstate) (acc : list event) : status sstate * list event :=
  match fuel with
  | O => (s, acc)
  | S f => match s with
           | Finished _ _ _ => (s, acc)
           | Running c => let (s', e) := mstep sstate s_dispatch s_host true (fun _ => false) c in
                          s_exec f s' (rev_append e acc)
           end
  end.
