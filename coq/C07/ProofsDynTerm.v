(* C07 -- termination when the limit may change during the run: every execution
   ends provided built-ins terminate and the limit cannot be raised for ever. *)
From Coq Require Import NArith PeanoNat List Bool Lia ZifyBool ZifyNat ZifyN Wf_nat.
From SV Require Import C07.Model C07.Spec C07.Proofs C07.ProofsTerm C07.ModelDyn C07.ProofsDyn.
Import ListNotations.
Open Scope N_scope.

Lemma lex4_acc (A : Type) (R : A -> A -> Prop) (f0 : A -> nat) (f1 : A -> N) (f2 f3 : A -> nat) (P : A -> Prop) :
  (forall a b, P b -> R a b ->
     P a /\ ((f0 a < f0 b)%nat \/ ((f0 a <= f0 b)%nat /\
       (f1 a < f1 b \/ (f1 a <= f1 b /\ ((f2 a < f2 b)%nat \/ ((f2 a <= f2 b)%nat /\ (f3 a < f3 b)%nat))))))) ->
  forall b, P b -> Acc R b.
Proof.
  intros H.
  assert (S0 : forall w b, P b -> f0 b = w -> Acc R b).
  { intros w. induction w as [w IH0] using lt_wf_ind.
    assert (S1 : forall x b, P b -> f0 b = w -> f1 b = x -> Acc R b).
    { intros x. induction x as [x IH1] using (well_founded_induction N.lt_wf_0).
      assert (S2 : forall y b, P b -> f0 b = w -> f1 b = x -> f2 b = y -> Acc R b).
      { intros y. induction y as [y IH2] using lt_wf_ind.
        assert (S3 : forall z b, P b -> f0 b = w -> f1 b = x -> f2 b = y -> f3 b = z -> Acc R b).
        { intros z. induction z as [z IH3] using lt_wf_ind.
          intros b Pb E0 E1 E2 E3. constructor. intros a Rab.
          destruct (H a b Pb Rab) as (Pa & D).
          destruct (Nat.lt_ge_cases (f0 a) w) as [L0|G0]; [apply (IH0 (f0 a) L0 a Pa eq_refl)|].
          assert (F0 : f0 a = w) by (destruct D as [D|[D _]]; lia).
          assert (D1 : f1 a < f1 b \/ (f1 a <= f1 b /\ ((f2 a < f2 b)%nat \/ ((f2 a <= f2 b)%nat /\ (f3 a < f3 b)%nat))))
            by (destruct D as [D|[_ D]]; [lia|exact D]).
          destruct (N.lt_ge_cases (f1 a) x) as [L1|G1]; [apply (IH1 (f1 a) L1 a Pa F0 eq_refl)|].
          assert (F1 : f1 a = x) by (destruct D1 as [D1|[D1 _]]; lia).
          destruct (Nat.lt_ge_cases (f2 a) y) as [L2|G2]; [apply (IH2 (f2 a) L2 a Pa F0 F1 eq_refl)|].
          assert (F2 : f2 a = y) by (destruct D1 as [D1|[_ [D1|[D1 _]]]]; lia).
          apply (IH3 (f3 a)); auto. destruct D1 as [D1|[_ [D1|[_ D1]]]]; lia. }
        intros b Pb E0 E1 E2. apply (S3 (f3 b) b Pb E0 E1 E2 eq_refl). }
      intros b Pb E0 E1. apply (S2 (f2 b) b Pb E0 E1 eq_refl). }
    intros b Pb E0. apply (S1 (f1 b) b Pb E0 eq_refl). }
  intros b Pb. apply (S0 (f0 b) b Pb eq_refl).
Qed.

Section T.
  Variable St : Type.
  Variable dispatch : St -> action St.
  Variable dhost : St -> option err -> dhaction St.
  Variable recursion : bool.
  Variable entry_err : St -> bool.

  Notation dmstep := (dmstep St dispatch dhost recursion entry_err).
  Notation config := (config St).

  Definition anext (a : action St) : St :=
    match a with ANext s | ACall s | ABuiltin s | AReturn s | AError _ s => s end.
  Definition hnext (a : haction St) : St :=
    match a with HWork s | HCall s | HCancel _ s | HUncancel s | HReturn s | HFail _ s => s end.

  (* built-ins terminate: a measure on host code that every internal step -- also a
     SetMaxExecutionSteps and a charge -- decreases and that returning does not increase *)
  Variable hm : St -> nat.
  Definition dhost_terminates : Prop :=
    forall s pe,
      match dhost s pe with
      | DOld (HReturn s') | DOld (HFail _ s') => (hm s' <= hm s)%nat
      | DOld a => (hm (hnext a) < hm s)%nat
      | DSetMax _ s' | DCharge _ s' => (hm s' < hm s)%nat
      end.

  (* the limit is not raised for ever: there are a bound B and a credit rc (a
     natural number computed from the program/host state) such that no step of the
     program or of host code increases the credit, and every
     SetMaxExecutionSteps(n) either installs a limit n <= B or uses up credit.
     (rc = 0 everywhere: all limits ever installed are <= B.  B = 0: at most
     rc(initial state) calls of SetMaxExecutionSteps with n > 0 in the whole run.) *)
  Variable rc : St -> nat.
  Variable B : N.
  Definition raises_limited : Prop :=
    (forall s, (rc (anext (dispatch s)) <= rc s)%nat) /\
    (forall s pe,
       match dhost s pe with
       | DOld a => (rc (hnext a) <= rc s)%nat
       | DCharge _ s' => (rc s' <= rc s)%nat
       | DSetMax n s' => (n <= B /\ (rc s' <= rc s)%nat) \/ (rc s' < rc s)%nat
       end).

  (* one step of the dynamic machine, other goroutines having done anything to
     cancelReason before it; the step counter does not wrap around *)
  Definition dstep_rel (c' c : config) : Prop :=
    exists x ev,
      dmstep (mkConfig (set_cancel (th c) x) (stk c) (st c) (perr c)) = (Running c', ev) /\
      steps (th c) <= steps (th c').

  Definition dgood (c : config) : Prop := hook_ok (th c) /\ inited (th c) = true /\ steps (th c) < two64.

  Definition g0 (c : config) : nat := rc (st c).
  Definition g1 (c : config) : N := 2 * (N.max B (maxSteps (th c)) - steps (th c)) + pend_stk (stk c).
  Definition g2 (c : config) : nat := hm (st c).
  Definition g3 (c : config) : nat := length (stk c).

  Lemma psr t k s c' :
    inited t = true -> push_star St recursion entry_err t k s = Running c' ->
    th c' = t /\ st c' = s /\ pend_stk (stk c') = 0.
  Proof. exact (push_star_running St dispatch (erase St dhost) recursion entry_err hm t k s c'). Qed.

  Lemma dstep_decreases :
    dhost_terminates -> raises_limited ->
    forall a b, dgood b -> dstep_rel a b ->
      dgood a /\ ((g0 a < g0 b)%nat \/ ((g0 a <= g0 b)%nat /\
        (g1 a < g1 b \/ (g1 a <= g1 b /\ ((g2 a < g2 b)%nat \/ ((g2 a <= g2 b)%nat /\ (g3 a < g3 b)%nat)))))).
  Proof.
    intros HT (HRd & HRh) a b (Go & Gi & Gs) (x & ev & Hs & Hw).
    set (t0 := set_cancel (th b) x) in *.
    assert (I0 : inited t0 = true) by exact Gi.
    assert (H0 : hook_ok t0) by exact Go.
    assert (CI : call_init t0 = t0) by (apply call_init_id; exact I0).
    unfold ModelDyn.dmstep, static_step in Hs. cbn [th stk st perr] in Hs.
    unfold dgood, g0, g1, g2, g3.
    destruct (stk b) as [|[ph|] rest] eqn:Hk.
    - unfold Model.mstep in Hs. cbn [stk] in Hs. rewrite ?Hk in Hs. discriminate Hs.
    - unfold Model.mstep in Hs. cbn [th stk st perr] in Hs. rewrite ?Hk in Hs.
      destruct (perr b) as [e|] eqn:Hp.
      + injection Hs as Hs _. apply deliver_running in Hs. destruct Hs as (A & B0 & C & D).
        rewrite A, B0, C, D. cbn. split; [auto|]. right. split; [lia|]. right. split; [destruct ph; cbn; lia|]. right. lia.
      + destruct ph.
        * destruct (loop_head t0) as [t' cr] eqn:Hl.
          destruct (loop_head_fields _ _ _ Hl) as (Hst & Hmx & Hin & Hon & Hcr). cbn in Hst, Hmx, Hin.
          assert (Hsb : steps t' < two64) by (rewrite Hst; apply N.mod_upper_bound; discriminate).
          assert (Hok : hook_ok t') by (unfold hook_ok in *; rewrite Hon; exact H0).
          destruct cr as [r|].
          -- injection Hs as Hs _. apply deliver_running in Hs. destruct Hs as (A & B0 & C & D).
             rewrite A in Hw. rewrite A, B0, C, D, Hin, Hmx. cbn [length pend_stk]. split; [auto|].
             assert (steps t' = steps (th b) + 1) by (rewrite Hst in *; apply nowrap_succ; auto).
             right. split; [lia|]. right. split; [lia|]. right. lia.
          -- injection Hs as Hs _. subst a. cbn [th stk st length pend_stk]. rewrite Hin. split; [auto|].
             right. split; [lia|]. left. rewrite Hmx.
             pose proof (loop_head_pass _ _ H0 Hl) as Hlt. rewrite Hmx in Hlt.
             cbn in Hw. rewrite Hst in *. rewrite (nowrap_succ _ Gs Hw) in *. lia.
        * pose proof (HRd (st b)) as Hr.
          destruct (dispatch (st b)); cbn [anext] in Hr; injection Hs as Hs _.
          -- subst a. cbn. repeat split; auto. right. split; [exact Hr|]. left. lia.
          -- apply (psr _ _ _ _ I0) in Hs. destruct Hs as (A & B0 & C). rewrite A, B0, C. cbn.
             repeat split; auto. right. split; [exact Hr|]. left. lia.
          -- subst a. unfold push_host. rewrite CI. cbn. repeat split; auto. right. split; [exact Hr|]. left. lia.
          -- apply deliver_running in Hs. destruct Hs as (A & B0 & C & D). rewrite A, B0, C. cbn.
             repeat split; auto. right. split; [exact Hr|]. left. lia.
          -- apply deliver_running in Hs. destruct Hs as (A & B0 & C & D). rewrite A, B0, C. cbn.
             repeat split; auto. right. split; [exact Hr|]. left. lia.
    - pose proof (HT (st b) (perr b)) as Hh. pose proof (HRh (st b) (perr b)) as Hr.
      destruct (dhost (st b) (perr b)) as [a0|n s'|j s'] eqn:Hd.
      + unfold Model.mstep in Hs. cbn [th stk st perr] in Hs. rewrite ?Hk in Hs.
        unfold erase in Hs. rewrite Hd in Hs.
        destruct a0; cbn [hnext] in Hr, Hh; injection Hs as Hs _.
        * subst a. cbn. repeat split; auto. right. split; [exact Hr|]. right. split; [lia|]. left. exact Hh.
        * apply (psr _ _ _ _ I0) in Hs. destruct Hs as (A & B0 & C). rewrite A, B0, C. cbn.
          repeat split; auto. right. split; [exact Hr|]. right. split; [lia|]. left. exact Hh.
        * subst a. cbn [th stk st]. destruct (do_cancel_fields t0 r) as (D1 & D2 & D3 & D4).
          unfold hook_ok. rewrite D1, D2, D3, D4. cbn. repeat split; auto.
          right. split; [exact Hr|]. right. split; [lia|]. left. exact Hh.
        * subst a. cbn. repeat split; auto. right. split; [exact Hr|]. right. split; [lia|]. left. exact Hh.
        * apply deliver_running in Hs. destruct Hs as (A & B0 & C & D). rewrite A, B0, C, D. cbn. repeat split; auto.
          right. split; [exact Hr|]. right. split; [lia|]. right. split; [exact Hh|lia].
        * apply deliver_running in Hs. destruct Hs as (A & B0 & C & D). rewrite A, B0, C, D. cbn. repeat split; auto.
          right. split; [exact Hr|]. right. split; [lia|]. right. split; [exact Hh|lia].
      + injection Hs as Hs _. subst a. cbn -[N.mul N.sub N.max N.add]. repeat split; auto.
        destruct Hr as [[Hn Hr]|Hr]; [|left; exact Hr].
        right. split; [exact Hr|]. right. split; [lia|]. left. exact Hh.
      + injection Hs as Hs _. subst a. cbn -[N.mul N.sub N.max N.add N.modulo] in Hw |- *. repeat split; auto.
        * apply N.mod_upper_bound. discriminate.
        * right. split; [exact Hr|]. right. split; [lia|]. left. exact Hh.
  Qed.

  Lemma dterminates_lemma :
    dhost_terminates -> raises_limited -> forall c, dgood c -> Acc dstep_rel c.
  Proof.
    intros HT HR. apply (lex4_acc config dstep_rel g0 g1 g2 g3 dgood). apply dstep_decreases; assumption.
  Qed.

  Lemma dno_infinite_run_lemma :
    dhost_terminates -> raises_limited ->
    forall f : nat -> config, dgood (f O) -> (forall i, dstep_rel (f (S i)) (f i)) -> False.
  Proof.
    intros HT HR f G Hf. pose proof (dterminates_lemma HT HR (f O) G) as A. clear G.
    remember (f O) as c eqn:E. revert E. generalize O.
    induction A as [c _ IH]. intros i E. subst c. apply (IH (f (S i)) (Hf i) (S i) eq_refl).
  Qed.

  Lemma dterm_both :
    dhost_terminates -> raises_limited ->
    (forall c, dgood c -> Acc dstep_rel c) /\
    (forall f : nat -> config, dgood (f O) -> (forall i, dstep_rel (f (S i)) (f i)) -> False).
  Proof. intros HT HR. split; [exact (dterminates_lemma HT HR)|exact (dno_infinite_run_lemma HT HR)]. Qed.
End T.

(* ---- the hypotheses are satisfiable: the scripted programs of ModelDyn.v ---- *)
Definition setmax_ops (ops : list dop) : nat :=
  length (filter (fun o => match o with DOSetMax _ => true | _ => false end) ops).
Fixpoint code_credit (p : list dinstr) : nat :=
  match p with
  | [] => 0
  | DBuiltin ops :: r => setmax_ops ops + code_credit r
  | _ :: r => code_credit r
  end.
(* credit of a scripted program: the SetMaxExecutionSteps calls it still contains *)
Definition d_credit (s : dstate) : nat :=
  (code_credit (dcode s) + match dpending s with Some ops => setmax_ops ops | None => 0 end)%nat.
Definition d_measure (s : dstate) : nat := match dpending s with Some l => S (length l) | None => O end.

Lemma script_dhost_terminates : dhost_terminates dstate d_host d_measure.
Proof.
  intros s pe. unfold d_host, d_measure. destruct (dpending s) as [[|[[r|]|n|k] ops]|]; cbn; lia.
Qed.

Lemma script_raises_limited : raises_limited dstate d_dispatch d_host d_credit 0.
Proof.
  split.
  - intros s. unfold d_dispatch, d_credit. destruct (dcode s) as [|[n|ops| |] r] eqn:E; cbn [anext dcode dpending code_credit].
    + rewrite E. cbn. lia.
    + destruct (n <=? 1); cbn [anext dcode dpending code_credit]; lia.
    + lia.
    + lia.
    + rewrite E. cbn [code_credit]. lia.
  - intros s pe. unfold d_host, d_credit, setmax_ops.
    destruct (dpending s) as [[|[[r|]|n|k] ops]|]; cbn [hnext dcode dpending filter length]; first [lia | right; lia].
Qed.
