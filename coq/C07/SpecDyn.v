(* C07 -- specification of a run during which ONE built-in call changes the limit
   or charges steps, and of a run on a re-used thread: what an observer must see,
   computed from the measured profile by arithmetic alone (no machine, no loop
   head; shares only vocabulary -- reasons, observations, profiles -- with the
   models).  Written from the property text: head number i of the run is let
   through iff the counter it shows is below the limit then in force; a
   built-in is entered iff its head is let through.  Counters are assumed to
   stay below 2^64 (the check only feeds small numbers). *)
From Coq Require Import NArith List Bool.
From SV Require Import C07.Model C07.Spec C07.ModelDyn.
Import ListNotations.
Open Scope N_scope.

Definition count_lt (h : N) (idx : list N) : N := N.of_nat (length (filter (fun i => i <? h) idx)).

(* Heads 1..p of the profile have been let through.  From head p+1 on, head
   number i shows the counter i + d and the limit is lim.  The first head that is
   stopped is number h = max (lim - d) (p + 1); if the program has that many heads
   the run is cancelled there (counter h + d, built-ins entered: those before
   h), otherwise it ends as measured. *)
Definition finish (lr : reason) (pr : profile) (p d lim : N) : option sobs :=
  let h := N.max (lim - d) (p + 1) in
  if h <=? p_t pr then Some (mkObs (RCancelled lr) (h + d) (count_lt h (p_idx pr)))
  else match p_end pr with
       | EOk => Some (mkObs ROk (p_t pr + d) (N.of_nat (length (p_idx pr))))
       | EErr => Some (mkObs RErr (p_t pr + d) (N.of_nat (length (p_idx pr))))
       | EInf => None                       (* beyond the measured prefix: nothing is required *)
       end.

(* fresh thread, SetMaxExecutionSteps(l0) before the run (0 = none), the k-th
   built-in call performs a; lr = the reason given when the limit is reached *)
Definition spec_dyn (lr : reason) (l0 : N) (pr : profile) (k : nat) (a : dact) : option sobs :=
  let l0 := if l0 =? 0 then max_uint64 else l0 in
  match k, nth_error (p_idx pr) (k - 1) with
  | S _, Some p =>
      if p <? l0                             (* call k is reached under the original limit *)
      then match a with
           | ASetMax n => finish lr pr p 0 n          (* the new limit counts from the very next head *)
           | ACharge j => finish lr pr p j l0         (* every later head shows j more *)
           end
      else finish lr pr 0 0 l0
  | _, _ => finish lr pr 0 0 l0
  end.

(* a thread that has counted st0 steps in earlier executions and is then given
   the limit lim (0 is then an ordinary limit): head i shows st0 + i *)
Definition spec_reuse (lr : reason) (lim st0 : N) (pr : profile) : option sobs :=
  finish lr pr 0 st0 lim.

Definition sobs_matches (want : option sobs) (o : sobs) : bool :=
  match want with Some w => sobs_eqb w o | None => true end.
