(* C07 -- the step count of a run does not depend on the limit (when it is not
   reached) nor on the number of steps the thread had counted before. *)
From Coq Require Import NArith List Bool Lia ZifyBool ZifyNat ZifyN.
From SV Require Import C07.Model C07.Spec C07.Proofs.
Import ListNotations.
Open Scope N_scope.

Definition tsim (t1 t2 : thread) : Prop :=
  cancel t1 = cancel t2 /\ onmax t1 = None /\ onmax t2 = None /\ inited t1 = true /\ inited t2 = true.

Lemma tsim_do_cancel t1 t2 r : tsim t1 t2 -> tsim (do_cancel t1 r) (do_cancel t2 r).
Proof.
  intros (A & B & C & D & E). unfold tsim, do_cancel. rewrite <- A.
  destruct (cancel t1) eqn:X; cbn; rewrite ?X; auto.
Qed.
Lemma tsim_do_uncancel t1 t2 : tsim t1 t2 -> tsim (do_uncancel t1) (do_uncancel t2).
Proof. intros (A & B & C & D & E). unfold tsim. cbn. auto. Qed.
Lemma call_init_inited t : inited t = true -> call_init t = t.
Proof. unfold call_init. intros ->. reflexivity. Qed.

Section M.
  Variable St : Type.
  Variable dispatch : St -> action St.
  Variable host : St -> option err -> haction St.
  Variable recursion : bool.
  Variable entry_err : St -> bool.

  Notation mstep := (mstep St dispatch host recursion entry_err).
  Notation run := (run St dispatch host recursion entry_err).
  Notation tick_step := (tick_step St dispatch host recursion entry_err).
  Notation start := (start St recursion entry_err).
  Notation push_star := (push_star St recursion entry_err).
  Notation sthread := (sthread St).
  Notation status := (status St).

  Definition ssim (s1 s2 : status) : Prop :=
    match s1, s2 with
    | Running c1, Running c2 => tsim (th c1) (th c2) /\ stk c1 = stk c2 /\ st c1 = st c2 /\ perr c1 = perr c2
    | Finished t1 x1 r1, Finished t2 x2 r2 => tsim t1 t2 /\ x1 = x2 /\ r1 = r2
    | _, _ => False
    end.

  Lemma ssim_thread s1 s2 : ssim s1 s2 -> tsim (sthread s1) (sthread s2).
  Proof. destruct s1, s2; cbn; intuition. Qed.

  Lemma deliver_sim t1 t2 rest s r : tsim t1 t2 -> ssim (deliver St t1 rest s r) (deliver St t2 rest s r).
  Proof. intros H. destruct rest as [|[p|] rest']; cbn; auto. Qed.

  Lemma push_star_sim t1 t2 k s : tsim t1 t2 -> ssim (push_star t1 k s) (push_star t2 k s).
  Proof.
    intros H. pose proof H as (A & B & C & D & E). unfold Model.push_star.
    rewrite (call_init_inited _ D), (call_init_inited _ E).
    destruct (_ || _); [apply deliver_sim; exact H|cbn; auto].
  Qed.

  Lemma head_nolimit t :
    onmax t = None -> steps t + 1 < maxSteps t -> steps t + 1 < two64 ->
    loop_head t = (set_steps t (steps t + 1), cancel t) /\ head_events t = [].
  Proof.
    intros Ho L W. unfold loop_head, head_events, limit_hit. cbn [set_steps steps maxSteps].
    rewrite (N.mod_small _ _ W).
    destruct (maxSteps t <=? steps t + 1) eqn:E; [lia|]. auto.
  Qed.

  Lemma tick_sim s1 s2 k s1' ev :
    ssim s1 s2 -> tick_step s1 k = (s1', ev) ->
    steps (sthread s1) + nheads ev < maxSteps (sthread s1) -> steps (sthread s1) + nheads ev < two64 ->
    steps (sthread s2) + nheads ev < maxSteps (sthread s2) -> steps (sthread s2) + nheads ev < two64 ->
    exists s2', tick_step s2 k = (s2', ev) /\ ssim s1' s2' /\
                steps (sthread s1') = steps (sthread s1) + nheads ev /\
                steps (sthread s2') = steps (sthread s2) + nheads ev /\
                maxSteps (sthread s1') = maxSteps (sthread s1) /\
                maxSteps (sthread s2') = maxSteps (sthread s2).
  Proof.
    intros Hs Ht L1 W1 L2 W2.
    destruct k as [|r|]; cbn in Ht |- *.
    - destruct s1 as [c1|t1 x1 r1], s2 as [c2|t2 x2 r2]; try contradiction.
      2:{ injection Ht as <- <-. eexists. rewrite nheads_nil. split; [reflexivity|]. split; [exact Hs|]. cbn. repeat split; lia. }
      destruct Hs as (Ts & Ek & Es & Ep). pose proof Ts as (A & B & C & D & E).
      unfold Model.mstep in *. rewrite <- Ek, <- Es, <- Ep.
      cbn [sthread Proofs.sthread status_thread] in *.
      destruct (stk c1) as [|[ph|] rest] eqn:Hk.
      + injection Ht as <- <-. eexists. rewrite nheads_nil. split; [reflexivity|]. split; [cbn; auto|]. cbn. repeat split; lia.
      + destruct (perr c1) as [e|] eqn:Hp.
        * injection Ht as <- <-. eexists. rewrite nheads_nil, !deliver_thread. split; [reflexivity|].
          split; [apply deliver_sim; exact Ts|]. repeat split; lia.
        * destruct ph.
          -- (* loop head: the same on both sides *)
             assert (Hh : 1 <= nheads ev).
             { destruct (loop_head (th c1)) as [t' cr]. destruct cr; injection Ht as <- <-; rewrite nheads_cons; cbn [is_head]; lia. }
             destruct (head_nolimit (th c1) B ltac:(lia) ltac:(lia)) as [H1 G1].
             destruct (head_nolimit (th c2) C ltac:(lia) ltac:(lia)) as [H2 G2].
             rewrite H1 in Ht. rewrite H2, G2. rewrite G1 in Ht. rewrite <- A.
             assert (Ts' : tsim (set_steps (th c1) (steps (th c1) + 1)) (set_steps (th c2) (steps (th c2) + 1)))
               by (unfold tsim; cbn; auto).
             destruct (cancel (th c1)) as [r|]; injection Ht as <- <-.
             ++ eexists. split; [reflexivity|]. rewrite !deliver_thread. split; [apply deliver_sim; exact Ts'|].
                rewrite nheads_cons, nheads_cons, nheads_nil. cbn. repeat split; lia.
             ++ eexists. split; [reflexivity|]. split; [cbn; auto|].
                rewrite nheads_cons, nheads_nil. cbn. repeat split; lia.
          -- destruct (dispatch (st c1)) eqn:Hd; injection Ht as <- <-; eexists; (split; [reflexivity|]);
               rewrite ?nheads_cons, ?nheads_nil; cbn [is_head];
               rewrite ?deliver_thread; unfold Model.push_host; rewrite ?(call_init_inited _ D), ?(call_init_inited _ E).
             ++ split; [cbn; auto|]. cbn. repeat split; lia.
             ++ split; [apply push_star_sim; exact Ts|]. unfold Proofs.sthread. rewrite !push_star_thread, (call_init_inited _ D), (call_init_inited _ E). repeat split; lia.
             ++ split; [cbn; auto|]. cbn. repeat split; lia.
             ++ split; [apply deliver_sim; exact Ts|]. repeat split; lia.
             ++ split; [apply deliver_sim; exact Ts|]. repeat split; lia.
      + destruct (host (st c1) (perr c1)) eqn:Hh; injection Ht as <- <-; eexists; (split; [reflexivity|]);
          rewrite ?nheads_cons, ?nheads_nil; cbn [is_head]; rewrite ?deliver_thread.
        * split; [cbn; auto|]. cbn. repeat split; lia.
        * split; [apply push_star_sim; exact Ts|]. unfold Proofs.sthread. rewrite !push_star_thread, (call_init_inited _ D), (call_init_inited _ E). repeat split; lia.
        * split; [cbn; split; [apply tsim_do_cancel; exact Ts|auto]|]. cbn.
          destruct (do_cancel_fields (th c1) r) as (X1 & X2 & _). destruct (do_cancel_fields (th c2) r) as (Y1 & Y2 & _).
          rewrite X1, X2, Y1, Y2. repeat split; lia.
        * split; [cbn; split; [apply tsim_do_uncancel; exact Ts|auto]|]. cbn. repeat split; lia.
        * split; [apply deliver_sim; exact Ts|]. repeat split; lia.
        * split; [apply deliver_sim; exact Ts|]. repeat split; lia.
    - injection Ht as <- <-. eexists. split; [reflexivity|]. rewrite nheads_cons, nheads_nil. cbn [is_head].
      destruct s1 as [c1|t1 x1 r1], s2 as [c2|t2 x2 r2]; try contradiction; cbn in *.
      + destruct Hs as (Ts & ? & ? & ?). destruct (do_cancel_fields (th c1) r) as (X1 & X2 & _). destruct (do_cancel_fields (th c2) r) as (Y1 & Y2 & _).
        rewrite X1, X2, Y1, Y2. split; [split; [apply tsim_do_cancel; exact Ts|auto]|]. repeat split; lia.
      + destruct Hs as (Ts & ? & ?). destruct (do_cancel_fields t1 r) as (X1 & X2 & _). destruct (do_cancel_fields t2 r) as (Y1 & Y2 & _).
        rewrite X1, X2, Y1, Y2. split; [split; [apply tsim_do_cancel; exact Ts|auto]|]. repeat split; lia.
    - injection Ht as <- <-. eexists. split; [reflexivity|]. rewrite nheads_cons, nheads_nil. cbn [is_head].
      destruct s1 as [c1|t1 x1 r1], s2 as [c2|t2 x2 r2]; try contradiction; cbn in *.
      + destruct Hs as (Ts & ? & ? & ?). split; [split; [apply tsim_do_uncancel; exact Ts|auto]|]. repeat split; lia.
      + destruct Hs as (Ts & ? & ?). split; [split; [apply tsim_do_uncancel; exact Ts|auto]|]. repeat split; lia.
  Qed.

  Lemma run_sim sched : forall s1 s2 s1' tr,
    ssim s1 s2 -> run s1 sched = (s1', tr) ->
    steps (sthread s1) + nheads tr < maxSteps (sthread s1) -> steps (sthread s1) + nheads tr < two64 ->
    steps (sthread s2) + nheads tr < maxSteps (sthread s2) -> steps (sthread s2) + nheads tr < two64 ->
    exists s2', run s2 sched = (s2', tr) /\ ssim s1' s2' /\
                steps (sthread s1') = steps (sthread s1) + nheads tr /\
                steps (sthread s2') = steps (sthread s2) + nheads tr.
  Proof.
    induction sched as [|k rest IH]; intros s1 s2 s1' tr Hs Hr L1 W1 L2 W2; cbn in Hr |- *.
    - injection Hr as <- <-. exists s2. rewrite nheads_nil. repeat split; auto; lia.
    - destruct (tick_step s1 k) as [a1 e1] eqn:Ht. destruct (run a1 rest) as [b1 e2] eqn:Hr2.
      injection Hr as <- <-. rewrite nheads_app in *.
      destruct (tick_sim s1 s2 k a1 e1 Hs Ht ltac:(lia) ltac:(lia) ltac:(lia) ltac:(lia)) as (a2 & T2 & S2 & P1 & P2 & M1 & M2).
      destruct (IH a1 a2 b1 e2 S2 Hr2 ltac:(lia) ltac:(lia) ltac:(lia) ltac:(lia)) as (b2 & R2 & S3 & Q1 & Q2).
      exists b2. rewrite T2, R2. repeat split; auto; lia.
  Qed.

  Definition same_outcome (s1 s2 : status) : Prop :=
    match s1, s2 with
    | Running c1, Running c2 => stk c1 = stk c2 /\ st c1 = st c2 /\ perr c1 = perr c2
    | Finished _ x1 r1, Finished _ x2 r2 => x1 = x2 /\ r1 = r2
    | _, _ => False
    end.

  Lemma steps_deterministic_lemma : forall t1 t2 s sched s1 tr,
    onmax t1 = None -> onmax t2 = None -> cancel t1 = cancel t2 ->
    run (start t1 s) sched = (s1, tr) ->
    steps t1 + nheads tr < maxSteps (call_init t1) -> steps t1 + nheads tr < two64 ->
    steps t2 + nheads tr < maxSteps (call_init t2) -> steps t2 + nheads tr < two64 ->
    exists s2, run (start t2 s) sched = (s2, tr) /\ same_outcome s1 s2 /\
               steps (sthread s1) = steps t1 + nheads tr /\
               steps (sthread s2) = steps t2 + nheads tr.
  Proof.
    intros t1 t2 s sched s1 tr O1 O2 Hc Hr L1 W1 L2 W2.
    destruct (call_init_fields t1) as (A1 & A2 & A3 & _). destruct (call_init_fields t2) as (B1 & B2 & B3 & _).
    assert (I1 : inited (call_init t1) = true) by (unfold call_init; destruct (inited t1) eqn:E; auto).
    assert (I2 : inited (call_init t2) = true) by (unfold call_init; destruct (inited t2) eqn:E; auto).
    assert (Ts : tsim (call_init t1) (call_init t2)) by (unfold tsim; rewrite A2, A3, B2, B3; auto).
    assert (Hs : ssim (start t1 s) (start t2 s)).
    { unfold start, Model.push_star. destruct (_ || _); cbn; auto. }
    assert (T1 : sthread (start t1 s) = call_init t1) by apply push_star_thread.
    assert (T2 : sthread (start t2 s) = call_init t2) by apply push_star_thread.
    destruct (run_sim sched _ _ _ _ Hs Hr) as (s2 & R & S & P1 & P2); rewrite ?T1, ?T2, ?A1, ?B1; auto.
    exists s2. rewrite T1, A1 in P1. rewrite T2, B1 in P2. repeat split; auto.
    destruct s1, s2; cbn in S |- *; intuition.
  Qed.
End M.
