(* C07 -- lemmas about the dynamic machine (ModelDyn.v): the limit test at every
   loop head reads the current limit and the current counter. *)
From Coq Require Import NArith List Bool Lia ZifyBool ZifyNat ZifyN.
From SV Require Import C07.Model C07.Spec C07.Proofs C07.ModelDyn.
Import ListNotations.
Open Scope N_scope.

(* ---------- counting in dynamic traces ---------- *)
Definition dndisp (tr : list devent) : N := ndisp (strip tr).
Definition dnheads (tr : list devent) : N := nheads (strip tr).

Lemma strip_app a b : strip (a ++ b) = strip a ++ strip b.
Proof. induction a as [|[e|n|k] a IH]; cbn; auto. rewrite IH. reflexivity. Qed.
Lemma strip_map_DE l : strip (map DE l) = l.
Proof. induction l; cbn; congruence. Qed.
Lemma charged_app a b : charged (a ++ b) = charged a + charged b.
Proof. induction a as [|[e|n|k] a IH]; cbn [charged app]; auto. rewrite IH. lia. Qed.
Lemma charged_map_DE l : charged (map DE l) = 0.
Proof. induction l; cbn; auto. Qed.
Lemma no_dyn_map_DE l : no_dyn (map DE l) = true.
Proof. induction l; cbn; auto. Qed.
Lemma setmax_le_map_DE n l : setmax_le n (map DE l) = true.
Proof. induction l; cbn; auto. Qed.
Lemma no_dyn_app a b : no_dyn (a ++ b) = no_dyn a && no_dyn b.
Proof. apply forallb_app. Qed.
Lemma setmax_le_app n a b : setmax_le n (a ++ b) = setmax_le n a && setmax_le n b.
Proof. apply forallb_app. Qed.
Lemma dndisp_app a b : dndisp (a ++ b) = dndisp a + dndisp b.
Proof. unfold dndisp. rewrite strip_app. apply ndisp_app. Qed.
Lemma dnheads_app a b : dnheads (a ++ b) = dnheads a + dnheads b.
Proof. unfold dnheads. rewrite strip_app. apply nheads_app. Qed.
Lemma no_dyn_charged tr : no_dyn tr = true -> charged tr = 0.
Proof. induction tr as [|[e|n|k] tr IH]; cbn; auto; discriminate. Qed.
Lemma no_dyn_setmax_le n tr : no_dyn tr = true -> setmax_le n tr = true.
Proof. induction tr as [|[e|m|k] tr IH]; cbn; auto; discriminate. Qed.
Lemma no_dyn_is_map tr : no_dyn tr = true -> tr = map DE (strip tr).
Proof. induction tr as [|[e|m|k] tr IH]; cbn; auto; try discriminate. intros H. f_equal. auto. Qed.

(* ---------- the limit is enforced by the default behaviour and by every hook that cancels ---------- *)
Definition hook_ok (t : thread) : Prop :=
  match onmax t with None => True | Some h => forall c, h c <> None end.

Lemma call_init_id t : inited t = true -> call_init t = t.
Proof. unfold call_init. intros ->. reflexivity. Qed.

Lemma call_init_inited t : inited (call_init t) = true.
Proof. unfold call_init. destruct (inited t) eqn:E; auto. Qed.

(* a loop head that lets the frame go on to dispatch has seen Steps < maxSteps
   (both read at that head) -- whatever the counter and the limit were before *)
Lemma loop_head_pass t t' :
  hook_ok t -> loop_head t = (t', None) -> steps t' < maxSteps t'.
Proof.
  unfold hook_ok, loop_head, limit_hit. intros Hh E. cbv zeta in E. injection E as E1 E2.
  cbn [onmax set_steps maxSteps steps] in *.
  destruct (maxSteps t <=? (steps t + 1) mod two64) eqn:L.
  - exfalso. destruct (onmax t) as [h|].
    + cbn [cancel set_cancel] in E2. exact (Hh _ E2).
    + unfold do_cancel in E2. cbn [cancel set_steps] in E2.
      destruct (cancel t) eqn:C; cbn [cancel set_cancel set_steps] in E2; congruence.
  - subst t'. cbn [steps maxSteps set_steps]. lia.
Qed.

Ltac fin_other := split; [auto|split; [auto|split; [auto|split; [cbn; try lia|right; repeat split; cbn; try lia]]]].

Section S.
  Variable St : Type.
  Variable dispatch : St -> action St.
  Variable host : St -> option err -> haction St.
  Variable recursion : bool.
  Variable entry_err : St -> bool.

  Notation mstep := (mstep St dispatch host recursion entry_err).
  Notation tick_step := (tick_step St dispatch host recursion entry_err).
  Notation sthread := (sthread St).
  Notation pend := (pend St).

  (* one tick of the STATIC machine, any host code, no assumption on the limit:
     it is a loop head, or it leaves counter and limit alone and dispatches at
     most the instruction whose test had passed *)
  Lemma static_tick_cases s k s' ev :
    inited (sthread s) = true -> tick_step s k = (s', ev) ->
    onmax (sthread s') = onmax (sthread s) /\ inited (sthread s') = true /\
    maxSteps (sthread s') = maxSteps (sthread s) /\ ndisp ev <= pend s /\
    ((nheads ev = 1 /\ ndisp ev = 0 /\ pend s = 0 /\
      exists cr, loop_head (sthread s) = (sthread s', cr) /\ pend s' = match cr with None => 1 | Some _ => 0 end)
     \/ (nheads ev = 0 /\ steps (sthread s') = steps (sthread s) /\ pend s' + ndisp ev <= pend s)).
  Proof.
    intros Hi Ht. destruct k as [|r|]; cbn in Ht.
    2:{ injection Ht as <- <-. destruct s as [c|t x r0]; cbn in *;
        [destruct (do_cancel_fields (th c) r) as (A & B & C & D)|destruct (do_cancel_fields t r) as (A & B & C & D)];
        rewrite A, B, C, D; fin_other. }
    2:{ injection Ht as <- <-. destruct s as [c|t x r0]; cbn in *; fin_other. }
    destruct s as [c|t x r0].
    2:{ injection Ht as <- <-. cbn in *. fin_other. }
    cbn [sthread Proofs.sthread status_thread] in Hi.
    pose proof (call_init_id _ Hi) as CI.
    unfold Model.mstep in Ht. cbn [sthread Proofs.sthread status_thread pend Proofs.pend].
    destruct (stk c) as [|[ph|] rest] eqn:Hs.
    - injection Ht as <- <-. cbn. fin_other.
    - destruct (perr c) as [e|] eqn:Hp.
      + injection Ht as <- <-. rewrite deliver_pend, deliver_thread.
        fin_other.
      + destruct ph.
        * destruct (loop_head (th c)) as [t' cr] eqn:Hl.
          destruct (loop_head_fields _ _ _ Hl) as (Hst & Hmx & Hin & Hon & Hcr).
          destruct (head_events_counts (th c)) as [Hh0 Hd0].
          destruct cr as [r|]; injection Ht as <- <-.
          -- rewrite deliver_pend, deliver_thread.
             rewrite nheads_cons, ndisp_cons, nheads_app, ndisp_app, Hh0, Hd0, nheads_cons, ndisp_cons, nheads_nil, ndisp_nil.
             cbn [is_head is_dispatch pend_stk]. repeat split; auto; try congruence; try lia.
             left. repeat split; try lia. exists (Some r). split; reflexivity.
          -- cbn [Proofs.sthread Proofs.pend status_thread th stk pend_stk].
             rewrite nheads_cons, ndisp_cons, Hh0, Hd0. cbn [is_head is_dispatch].
             repeat split; auto; try congruence; try lia.
             left. repeat split; try lia. exists None. split; reflexivity.
        * assert (Hev : nheads ev = 0 /\ ndisp ev = 1).
          { destruct (dispatch (st c)); injection Ht as <- <-; split; reflexivity. }
          destruct Hev as [He1 He2]. rewrite He1, He2. cbn [pend_stk].
          assert (Hs' : pend s' = 0 /\ sthread s' = th c).
          { destruct (dispatch (st c)); injection Ht as <- <-; cbn [push_host];
              rewrite ?push_star_pend, ?push_star_thread, ?deliver_pend, ?deliver_thread, ?CI; cbn; auto. }
          destruct Hs' as [Hp0 Hth]. unfold Proofs.sthread, Proofs.pend in *. rewrite Hp0, Hth.
          fin_other.
    - assert (Hev : nheads ev = 0 /\ ndisp ev = 0).
      { destruct (host (st c) (perr c)); injection Ht as <- <-; split; reflexivity. }
      destruct Hev as [He1 He2]. rewrite He1, He2. cbn [pend_stk].
      assert (Hs' : pend s' = 0 /\ steps (sthread s') = steps (th c) /\ maxSteps (sthread s') = maxSteps (th c) /\
                    onmax (sthread s') = onmax (th c) /\ inited (sthread s') = true).
      { destruct (host (st c) (perr c)); injection Ht as <- <-;
          rewrite ?push_star_pend, ?push_star_thread, ?deliver_pend, ?deliver_thread, ?CI; cbn;
          unfold do_cancel, do_uncancel; cbn; try destruct (cancel (th c)); cbn; repeat split; auto. }
      destruct Hs' as (Hp0 & S1 & S2 & S3 & S4). unfold Proofs.sthread, Proofs.pend in *.
      rewrite Hp0, S1, S2, S3, S4. fin_other.
  Qed.
End S.

(* the limit most recently installed: the last SetMaxExecutionSteps of the trace,
   or m0 (the limit in force when the trace began) if there is none *)
Fixpoint installed (m0 : N) (tr : list devent) : N :=
  match tr with
  | [] => m0
  | DESetMax n :: r => installed n r
  | _ :: r => installed m0 r
  end.

Lemma installed_app m a b : installed m (a ++ b) = installed (installed m a) b.
Proof. revert m. induction a as [|[e|n|k] a IH]; intros m; cbn; auto. Qed.
Lemma installed_map_DE m l : installed m (map DE l) = m.
Proof. induction l; cbn; auto. Qed.

Section D.
  Variable St : Type.
  Variable dispatch : St -> action St.
  Variable dhost : St -> option err -> dhaction St.
  Variable recursion : bool.
  Variable entry_err : St -> bool.

  Notation dmstep := (dmstep St dispatch dhost recursion entry_err).
  Notation dtick_step := (dtick_step St dispatch dhost recursion entry_err).
  Notation drun := (drun St dispatch dhost recursion entry_err).
  Notation dstart := (dstart St recursion entry_err).
  Notation host0 := (erase St dhost).
  Notation tick_step := (tick_step St dispatch host0 recursion entry_err).
  Notation run := (run St dispatch host0 recursion entry_err).
  Notation sthread := (sthread St).
  Notation pend := (pend St).

  Lemma pend_le1 s : pend s <= 1.
  Proof. destruct s as [c|t x r]; cbn; [|lia]. destruct (stk c) as [|[[|]|] rest]; cbn; lia. Qed.

  (* a tick of the dynamic machine is a tick of the static one (same loop head,
     same dispatch, same Cancel / Uncancel) or one of the two new host actions *)
  Definition is_setmax_step (s : status St) (k : tick) (s' : status St) (ev : list devent) (n : N) : Prop :=
    exists c rest x, s = Running c /\ k = TRun /\ stk c = FHost :: rest /\
      dhost (st c) (perr c) = DSetMax n x /\
      s' = Running (mkConfig (do_set_max (th c) n) (stk c) x None) /\ ev = [DE EvHostStep; DESetMax n].
  Definition is_charge_step (s : status St) (k : tick) (s' : status St) (ev : list devent) (j : N) : Prop :=
    exists c rest x, s = Running c /\ k = TRun /\ stk c = FHost :: rest /\
      dhost (st c) (perr c) = DCharge j x /\
      s' = Running (mkConfig (do_charge (th c) j) (stk c) x None) /\ ev = [DE EvHostStep; DECharge j].

  Lemma dtick_split s k s' ev :
    dtick_step s k = (s', ev) ->
    (exists ev0, tick_step s k = (s', ev0) /\ ev = map DE ev0) \/
    (exists n, is_setmax_step s k s' ev n) \/ (exists j, is_charge_step s k s' ev j).
  Proof.
    intros Ht. destruct k as [|r|]; cbn in Ht.
    2,3: injection Ht as <- <-; left; eexists; split; reflexivity.
    destruct s as [c|t x r0].
    2:{ injection Ht as <- <-. left. exists []. split; reflexivity. }
    cbn [Model.tick_step]. unfold ModelDyn.dmstep, static_step in Ht.
    destruct (stk c) as [|[ph|] rest] eqn:Hs.
    - destruct (Model.mstep St dispatch host0 recursion entry_err c) as [s1 e1] eqn:E.
      injection Ht as <- <-. left. exists e1. auto.
    - destruct (Model.mstep St dispatch host0 recursion entry_err c) as [s1 e1] eqn:E.
      injection Ht as <- <-. left. exists e1. auto.
    - destruct (dhost (st c) (perr c)) as [a|n x|j x] eqn:Hh.
      + destruct (Model.mstep St dispatch host0 recursion entry_err c) as [s1 e1] eqn:E.
        injection Ht as <- <-. left. exists e1. auto.
      + injection Ht as <- <-. right. left. exists n, c, rest, x. rewrite Hs. repeat split; auto.
      + injection Ht as <- <-. right. right. exists j, c, rest, x. rewrite Hs. repeat split; auto.
  Qed.

  (* what holds in every reachable state *)
  Definition dinv (s : status St) : Prop :=
    hook_ok (sthread s) /\ inited (sthread s) = true /\
    (pend s = 1 -> steps (sthread s) < maxSteps (sthread s)).

  Lemma dtick_inv s k s' ev :
    dinv s -> dtick_step s k = (s', ev) ->
    dinv s' /\ dndisp ev <= pend s /\ (dndisp ev <> 0 -> k = TRun) /\
    maxSteps (sthread s') = installed (maxSteps (sthread s)) ev.
  Proof.
    intros (Hh & Hi & Hp) Ht.
    destruct (dtick_split _ _ _ _ Ht) as [(ev0 & Ht0 & ->)|[(n & c & rest & x & -> & -> & Hs & Hd & -> & ->)|(j & c & rest & x & -> & -> & Hs & Hd & -> & ->)]].
    - destruct (static_tick_cases St dispatch host0 recursion entry_err s k s' ev0 Hi Ht0) as (Ho & Hi' & Hm & Hnd & Hc).
      unfold dndisp. rewrite strip_map_DE, installed_map_DE.
      split; [|split; [exact Hnd|split; [|exact Hm]]].
      + unfold dinv, hook_ok. rewrite Ho. split; [exact Hh|split; [exact Hi'|]].
        intros P1. destruct Hc as [(_ & _ & _ & cr & Hl & Hpc)|(_ & Hst & Hle)].
        * destruct cr as [r|]; [rewrite Hpc in P1; discriminate|].
          apply (loop_head_pass _ _ Hh Hl).
        * pose proof (pend_le1 s). rewrite Hst, Hm. apply Hp. lia.
      + intros Hnz. destruct k as [|r|]; auto; cbn in Ht0; injection Ht0 as <- <-; exfalso; apply Hnz; reflexivity.
    - unfold dinv. cbn [sthread Proofs.sthread status_thread th pend Proofs.pend stk]. rewrite Hs. cbn [pend_stk].
      cbn in Hh, Hi. repeat split; auto; try discriminate; try (cbn; lia).
    - unfold dinv. cbn [sthread Proofs.sthread status_thread th pend Proofs.pend stk]. rewrite Hs. cbn [pend_stk].
      cbn in Hh, Hi. repeat split; auto; try discriminate; try (cbn; lia).
  Qed.

  Lemma dtick_budget n s k s' ev :
    dinv s -> maxSteps (sthread s) <= n -> dtick_step s k = (s', ev) ->
    setmax_le n ev = true ->
    steps (sthread s) + dnheads ev + charged ev < two64 ->
    maxSteps (sthread s') <= n /\
    steps (sthread s') = steps (sthread s) + dnheads ev + charged ev /\
    pend s' + (n - 1 - steps (sthread s')) + dndisp ev <= pend s + (n - 1 - steps (sthread s)).
  Proof.
    intros Hinv Hn Ht Hle Hw.
    destruct (dtick_inv _ _ _ _ Hinv Ht) as ((_ & _ & Hp') & _).
    destruct Hinv as (Hh & Hi & Hp).
    destruct (dtick_split _ _ _ _ Ht) as [(ev0 & Ht0 & ->)|[(m & c & rest & x & -> & -> & Hs & Hd & -> & ->)|(j & c & rest & x & -> & -> & Hs & Hd & -> & ->)]].
    - destruct (static_tick_cases St dispatch host0 recursion entry_err s k s' ev0 Hi Ht0) as (Ho & Hi' & Hm & Hnd & Hc).
      unfold dndisp, dnheads in *. rewrite strip_map_DE, ?charged_map_DE in *.
      rewrite Hm. split; [exact Hn|].
      destruct Hc as [(Hh1 & Hd0 & Hp0 & cr & Hl & Hpc)|(Hh0 & Hst & Hle')].
      + destruct (loop_head_fields _ _ _ Hl) as (Hst & _).
        rewrite Hh1 in *. rewrite Hd0, Hp0.
        assert (Hs1 : steps (sthread s') = steps (sthread s) + 1) by (rewrite Hst; apply N.mod_small; lia).
        split; [lia|]. destruct cr as [r|]; rewrite Hpc; [lia|].
        specialize (Hp' Hpc). lia.
      + rewrite Hh0, Hst. split; lia.
    - cbn [sthread Proofs.sthread status_thread th pend Proofs.pend stk]. rewrite Hs. cbn [pend_stk].
      cbn in Hle. cbn [do_set_max set_max_execution_steps set_max maxSteps steps].
      unfold dnheads, dndisp. cbn [strip charged]. rewrite nheads_cons, ndisp_cons, nheads_nil, ndisp_nil. cbn [is_head is_dispatch].
      repeat split; lia.
    - cbn [sthread Proofs.sthread status_thread th pend Proofs.pend stk] in *. rewrite Hs. cbn [pend_stk].
      cbn [do_charge set_steps maxSteps steps].
      unfold dnheads, dndisp in *. cbn [strip charged] in *. rewrite nheads_cons, ndisp_cons, nheads_nil, ndisp_nil in *. cbn [is_head is_dispatch] in *.
      rewrite N.mod_small by lia. repeat split; lia.
  Qed.

  Lemma drun_inv sched : forall s s' tr,
    dinv s -> drun s sched = (s', tr) ->
    dinv s' /\ maxSteps (sthread s') = installed (maxSteps (sthread s)) tr.
  Proof.
    induction sched as [|k rest IH]; intros s s' tr Hinv Hr; cbn in Hr.
    - injection Hr as <- <-. auto.
    - destruct (dtick_step s k) as [s1 e1] eqn:Ht. destruct (drun s1 rest) as [s2 e2] eqn:Hr2.
      injection Hr as <- <-.
      destruct (dtick_inv _ _ _ _ Hinv Ht) as (I1 & _ & _ & M1).
      destruct (IH _ _ _ I1 Hr2) as (I2 & M2). split; [exact I2|].
      rewrite installed_app, <- M1. exact M2.
  Qed.

  Lemma drun_budget n sched : forall s s' tr,
    dinv s -> maxSteps (sthread s) <= n -> drun s sched = (s', tr) ->
    setmax_le n tr = true ->
    steps (sthread s) + dnheads tr + charged tr < two64 ->
    maxSteps (sthread s') <= n /\
    steps (sthread s') = steps (sthread s) + dnheads tr + charged tr /\
    pend s' + (n - 1 - steps (sthread s')) + dndisp tr <= pend s + (n - 1 - steps (sthread s)).
  Proof.
    induction sched as [|k rest IH]; intros s s' tr Hinv Hn Hr Hle Hw; cbn in Hr.
    - injection Hr as <- <-. unfold dnheads, dndisp. cbn [strip charged]. rewrite nheads_nil, ndisp_nil. repeat split; lia.
    - destruct (dtick_step s k) as [s1 e1] eqn:Ht. destruct (drun s1 rest) as [s2 e2] eqn:Hr2.
      injection Hr as <- <-.
      rewrite setmax_le_app in Hle. apply andb_prop in Hle. destruct Hle as [Hle1 Hle2].
      rewrite dnheads_app, charged_app in Hw.
      destruct (dtick_inv _ _ _ _ Hinv Ht) as (I1 & _).
      destruct (dtick_budget n _ _ _ _ Hinv Hn Ht Hle1 ltac:(lia)) as (B1 & B2 & B3).
      destruct (IH _ _ _ I1 B1 Hr2 Hle2 ltac:(lia)) as (C1 & C2 & C3).
      rewrite dnheads_app, dndisp_app, charged_app. repeat split; lia.
  Qed.

  Lemma dstart_inv t s : hook_ok t -> dinv (dstart t s) /\ pend (dstart t s) = 0 /\ sthread (dstart t s) = call_init t.
  Proof.
    intros Hh. unfold ModelDyn.dstart, start, dinv.
    rewrite push_star_pend, push_star_thread.
    destruct (call_init_fields t) as (C1 & C2 & C3 & C4).
    repeat split; auto; try discriminate.
    - unfold hook_ok in *. rewrite C3. exact Hh.
    - apply call_init_inited.
  Qed.

  (* ---- (1) the budget under a limit that changes ---- *)
  Lemma budget_dynamic_lemma : forall t s sched s1 tr1,
    hook_ok t ->
    drun (dstart t s) sched = (s1, tr1) ->
    maxSteps (sthread s1) = installed (maxSteps (call_init t)) tr1 /\
    (forall k s2 ev, dtick_step s1 k = (s2, ev) -> dndisp ev <> 0 ->
       k = TRun /\ dndisp ev = 1 /\ steps (sthread s1) < installed (maxSteps (call_init t)) tr1) /\
    (forall n sched2 s2 tr2,
       installed (maxSteps (call_init t)) tr1 <= n ->
       drun s1 sched2 = (s2, tr2) -> setmax_le n tr2 = true ->
       steps (sthread s1) + dnheads tr2 + charged tr2 < two64 ->
       steps (sthread s2) = steps (sthread s1) + dnheads tr2 + charged tr2 /\
       dndisp tr2 <= pend s1 + (n - 1 - steps (sthread s1))).
  Proof.
    intros t s sched s1 tr1 Hh Hr.
    destruct (dstart_inv t s Hh) as (I0 & P0 & T0).
    destruct (drun_inv _ _ _ _ I0 Hr) as (I1 & M1). rewrite T0 in M1.
    split; [exact M1|]. split.
    - intros k s2 ev Ht Hnz.
      destruct (dtick_inv _ _ _ _ I1 Ht) as (_ & Hle & Hk & _).
      pose proof (pend_le1 s1). split; [auto|]. split; [lia|].
      rewrite <- M1. apply I1. lia.
    - intros n sched2 s2 tr2 Hn Hr2 Hle Hw. rewrite <- M1 in Hn.
      destruct (drun_budget n _ _ _ _ I1 Hn Hr2 Hle Hw) as (_ & B2 & B3). split; [exact B2|lia].
  Qed.

  (* ---- (3) a new limit is the limit from the next loop head on, in every frame ---- *)
  Lemma setmax_next_head_lemma : forall t s sched c tr1 rest n x,
    hook_ok t ->
    drun (dstart t s) sched = (Running c, tr1) ->
    stk c = FHost :: rest -> dhost (st c) (perr c) = DSetMax n x ->
    forall sched2 s2 tr2,
      drun (Running c) (TRun :: sched2) = (s2, tr2) ->
      setmax_le n tr2 = true ->
      steps (th c) + dnheads tr2 + charged tr2 < two64 ->
      dndisp tr2 <= n - 1 - steps (th c).
  Proof.
    intros t s sched c tr1 rest n x Hh Hr Hs Hd sched2 s2 tr2 Hr2 Hle Hw.
    destruct (dstart_inv t s Hh) as (I0 & _ & _).
    destruct (drun_inv _ _ _ _ I0 Hr) as (I1 & _).
    cbn [ModelDyn.drun] in Hr2.
    destruct (dtick_step (Running c) TRun) as [s1 e1] eqn:Ht. destruct (drun s1 sched2) as [s3 e3] eqn:Hr3.
    injection Hr2 as <- <-.
    pose proof Ht as Ht'. cbn in Ht'. unfold ModelDyn.dmstep in Ht'. rewrite Hs, Hd in Ht'. injection Ht' as <- <-.
    destruct (dtick_inv _ _ _ _ I1 Ht) as (I2 & _).
    rewrite setmax_le_app in Hle. apply andb_prop in Hle. destruct Hle as [_ Hle2].
    rewrite dnheads_app, charged_app in Hw. rewrite dndisp_app.
    unfold dnheads, dndisp in Hw |- *. cbn [strip charged app] in Hw |- *.
    rewrite nheads_cons, nheads_nil in Hw. rewrite ndisp_cons, ndisp_nil. cbn [is_head is_dispatch] in Hw |- *.
    destruct (drun_budget n _ _ _ _ I2 ltac:(cbn; lia) Hr3 Hle2 ltac:(cbn; unfold dnheads; lia)) as (_ & _ & B3).
    cbn [sthread Proofs.sthread status_thread th pend Proofs.pend stk do_set_max set_max_execution_steps set_max steps] in B3.
    rewrite ?Hs in B3. cbn [pend_stk] in B3. unfold dndisp in B3. lia.
  Qed.

  (* the same for a charge: the counter after `Steps += j` is what the next head tests *)
  Lemma charge_next_head_lemma : forall t s sched c tr1 rest j x,
    hook_ok t ->
    drun (dstart t s) sched = (Running c, tr1) ->
    stk c = FHost :: rest -> dhost (st c) (perr c) = DCharge j x ->
    forall sched2 s2 tr2,
      drun (Running c) (TRun :: sched2) = (s2, tr2) ->
      setmax_le (maxSteps (th c)) tr2 = true ->
      steps (th c) + dnheads tr2 + charged tr2 < two64 ->
      dndisp tr2 <= maxSteps (th c) - 1 - (steps (th c) + j).
  Proof.
    intros t s sched c tr1 rest j x Hh Hr Hs Hd sched2 s2 tr2 Hr2 Hle Hw.
    destruct (dstart_inv t s Hh) as (I0 & _ & _).
    destruct (drun_inv _ _ _ _ I0 Hr) as (I1 & _).
    cbn [ModelDyn.drun] in Hr2.
    destruct (dtick_step (Running c) TRun) as [s1 e1] eqn:Ht. destruct (drun s1 sched2) as [s3 e3] eqn:Hr3.
    injection Hr2 as <- <-.
    pose proof Ht as Ht'. cbn in Ht'. unfold ModelDyn.dmstep in Ht'. rewrite Hs, Hd in Ht'. injection Ht' as <- <-.
    destruct (dtick_inv _ _ _ _ I1 Ht) as (I2 & _).
    rewrite setmax_le_app in Hle. apply andb_prop in Hle. destruct Hle as [_ Hle2].
    rewrite dnheads_app, charged_app in Hw. rewrite dndisp_app.
    unfold dnheads, dndisp in Hw |- *. cbn [strip charged app] in Hw |- *.
    rewrite nheads_cons, nheads_nil in Hw. rewrite ndisp_cons, ndisp_nil. cbn [is_head is_dispatch] in Hw |- *.
    assert (Hms : (steps (th c) + j) mod two64 = steps (th c) + j) by (apply N.mod_small; lia).
    destruct (drun_budget (maxSteps (th c)) _ _ _ _ I2 ltac:(cbn; lia) Hr3 Hle2
                ltac:(cbn [sthread Proofs.sthread status_thread th do_charge set_steps steps]; rewrite Hms; unfold dnheads; lia)) as (_ & _ & B3).
    cbn [sthread Proofs.sthread status_thread th pend Proofs.pend stk do_charge set_steps steps] in B3.
    rewrite ?Hs, ?Hms in B3. cbn [pend_stk] in B3. unfold dndisp in B3. lia.
  Qed.

  (* ---- (2) without the new actions the dynamic machine is the static one ---- *)
  Lemma dtick_static s k s' ev :
    dtick_step s k = (s', ev) -> no_dyn ev = true ->
    tick_step s k = (s', strip ev) /\ ev = map DE (strip ev).
  Proof.
    intros Ht Hn.
    destruct (dtick_split _ _ _ _ Ht) as [(ev0 & Ht0 & ->)|[(n & c & rest & x & -> & -> & Hs & Hd & -> & ->)|(j & c & rest & x & -> & -> & Hs & Hd & -> & ->)]].
    - rewrite strip_map_DE. auto.
    - discriminate Hn.
    - discriminate Hn.
  Qed.

  Lemma reduces_to_static_lemma : forall sched s s' tr,
    drun s sched = (s', tr) -> no_dyn tr = true ->
    run s sched = (s', strip tr) /\ tr = map DE (strip tr).
  Proof.
    induction sched as [|k rest IH]; intros s s' tr Hr Hn; cbn in Hr.
    - injection Hr as <- <-. auto.
    - destruct (dtick_step s k) as [s1 e1] eqn:Ht. destruct (drun s1 rest) as [s2 e2] eqn:Hr2.
      injection Hr as <- <-.
      rewrite no_dyn_app in Hn. apply andb_prop in Hn. destruct Hn as [Hn1 Hn2].
      destruct (dtick_static _ _ _ _ Ht Hn1) as (T1 & T2).
      destruct (IH _ _ _ Hr2 Hn2) as (R1 & R2).
      cbn [Model.run]. rewrite T1, R1, strip_app. split; [reflexivity|].
      rewrite map_app, <- T2, <- R2. reflexivity.
  Qed.
End D.

(* host code that does not use the new actions at all: the two machines are one *)
Lemma lifted_is_static St dispatch (host : St -> option err -> haction St) recursion entry_err :
  forall sched s,
    drun St dispatch (lift_host host) recursion entry_err s sched =
    (let (s', tr) := run St dispatch host recursion entry_err s sched in (s', map DE tr)).
Proof.
  induction sched as [|k rest IH]; intros s; [reflexivity|].
  cbn [drun run].
  assert (T : dtick_step St dispatch (lift_host host) recursion entry_err s k =
              (let (s1, e1) := tick_step St dispatch host recursion entry_err s k in (s1, map DE e1))).
  { destruct k as [|r|]; [|reflexivity|reflexivity].
    destruct s as [c|t x r0]; [|reflexivity].
    cbn [dtick_step tick_step]. unfold dmstep, static_step, lift_host.
    change (erase St (fun s pe => DOld (host s pe))) with host.
    destruct (stk c) as [|[ph|] rest']; reflexivity. }
  rewrite T. destruct (tick_step St dispatch host recursion entry_err s k) as [s1 e1].
  rewrite IH. destruct (run St dispatch host recursion entry_err s1 rest) as [s2 e2].
  rewrite map_app. reflexivity.
Qed.

(* so the theorems about Model.v carry over, e.g. the budget on a fresh thread *)
Lemma static_budget_instance St dispatch (host : St -> option err -> haction St) recursion entry_err :
  forall n s sched s' tr,
    1 <= n ->
    drun St dispatch (lift_host host) recursion entry_err
         (dstart St recursion entry_err (set_max_execution_steps new_thread n) s) sched = (s', tr) ->
    dnheads tr < two64 ->
    no_dyn tr = true /\ dndisp tr < n.
Proof.
  intros n s sched s' tr Hn Hr Hw. rewrite lifted_is_static in Hr. unfold dstart in Hr.
  destruct (run St dispatch host recursion entry_err (start St recursion entry_err (set_max_execution_steps new_thread n) s) sched) as [s1 tr1] eqn:E.
  injection Hr as <- <-. unfold dnheads, dndisp in *. rewrite strip_map_DE in *.
  split; [apply no_dyn_map_DE|].
  exact (budget_fresh_lemma St dispatch host recursion entry_err n s sched s1 tr1 Hn E Hw).
Qed.
