(* C07 -- termination under a finite budget: the machine cannot run for ever
   (as long as the 64-bit counter does not wrap and built-ins terminate). *)
From Coq Require Import NArith PeanoNat List Bool Lia ZifyBool ZifyNat ZifyN Wf_nat.
From SV Require Import C07.Model C07.Spec C07.Proofs.
Import ListNotations.
Open Scope N_scope.

Lemma lex3_acc (A : Type) (R : A -> A -> Prop) (f1 : A -> N) (f2 f3 : A -> nat) (P : A -> Prop) :
  (forall a b, P b -> R a b ->
     P a /\ (f1 a < f1 b \/ (f1 a <= f1 b /\ ((f2 a < f2 b)%nat \/ ((f2 a <= f2 b)%nat /\ (f3 a < f3 b)%nat))))) ->
  forall b, P b -> Acc R b.
Proof.
  intros H.
  assert (S1 : forall x b, P b -> f1 b = x -> Acc R b).
  { intros x. induction x as [x IH1] using (well_founded_induction N.lt_wf_0).
    assert (S2 : forall y b, P b -> f1 b = x -> f2 b = y -> Acc R b).
    { intros y. induction y as [y IH2] using lt_wf_ind.
      assert (S3 : forall z b, P b -> f1 b = x -> f2 b = y -> f3 b = z -> Acc R b).
      { intros z. induction z as [z IH3] using lt_wf_ind.
        intros b Pb E1 E2 E3. constructor. intros a Rab.
        destruct (H a b Pb Rab) as (Pa & D).
        destruct (N.lt_ge_cases (f1 a) x) as [L1|G1]; [apply (IH1 (f1 a) L1 a Pa eq_refl)|].
        assert (f1 a = x) by (destruct D as [D|[D _]]; lia).
        destruct (Nat.lt_ge_cases (f2 a) y) as [L2|G2]; [apply (IH2 (f2 a) L2 a Pa H0 eq_refl)|].
        assert (f2 a = y) by (destruct D as [D|[_ [D|[D _]]]]; lia).
        apply (IH3 (f3 a)); auto. destruct D as [D|[_ [D|[_ D]]]]; lia. }
      intros b Pb E1 E2. apply (S3 (f3 b) b Pb E1 E2 eq_refl). }
    intros b Pb E1. apply (S2 (f2 b) b Pb E1 eq_refl). }
  intros b Pb. apply (S1 (f1 b) b Pb eq_refl).
Qed.

Lemma nowrap_succ s : s < two64 -> s <= (s + 1) mod two64 -> (s + 1) mod two64 = s + 1.
Proof.
  unfold two64. intros B H.
  destruct (N.eq_dec (s + 1) 18446744073709551616) as [E|E].
  - rewrite E, N.mod_same in H by discriminate. lia.
  - apply N.mod_small. lia.
Qed.

Section M.
  Variable St : Type.
  Variable dispatch : St -> action St.
  Variable host : St -> option err -> haction St.
  Variable recursion : bool.
  Variable entry_err : St -> bool.

  Notation mstep := (mstep St dispatch host recursion entry_err).
  Notation config := (config St).

  (* built-ins terminate: host code has a measure that every internal step,
     nested call, Cancel and Uncancel decreases, and that returning does not increase *)
  Variable hm : St -> nat.
  Definition host_terminates : Prop :=
    forall s pe,
      match host s pe with
      | HWork s' | HCall s' | HCancel _ s' | HUncancel s' => (hm s' < hm s)%nat
      | HReturn s' | HFail _ s' => (hm s' <= hm s)%nat
      end.

  (* one machine step, other goroutines having done anything to cancelReason
     before it; the step counter does not wrap around *)
  Definition step_rel (c' c : config) : Prop :=
    exists x ev,
      mstep (mkConfig (set_cancel (th c) x) (stk c) (st c) (perr c)) = (Running c', ev) /\
      steps (th c) <= steps (th c').

  Definition good (c : config) : Prop := onmax (th c) = None /\ inited (th c) = true /\ steps (th c) < two64.

  Definition m1 (c : config) : N := 2 * (maxSteps (th c) - steps (th c)) + pend_stk (stk c).
  Definition m2 (c : config) : nat := hm (st c).
  Definition m3 (c : config) : nat := length (stk c).

  Lemma deliver_running t rest s r c' :
    deliver St t rest s r = Running c' ->
    th c' = t /\ st c' = s /\ pend_stk (stk c') = 0 /\ length (stk c') = length rest.
  Proof.
    destruct rest as [|[p|] rest']; cbn; intros H; [discriminate| |]; injection H as <-; cbn; auto.
  Qed.

  Lemma push_star_running t k s c' :
    inited t = true ->
    push_star St recursion entry_err t k s = Running c' ->
    th c' = t /\ st c' = s /\ pend_stk (stk c') = 0.
  Proof.
    intros I. unfold push_star. rewrite (ltac:(unfold call_init; rewrite I; reflexivity) : call_init t = t).
    destruct (_ || _).
    - intros H. apply deliver_running in H. tauto.
    - intros H. injection H as <-. cbn. auto.
  Qed.

  Lemma step_decreases :
    host_terminates ->
    forall a b, good b -> step_rel a b ->
      good a /\ (m1 a < m1 b \/ (m1 a <= m1 b /\ ((m2 a < m2 b)%nat \/ ((m2 a <= m2 b)%nat /\ (m3 a < m3 b)%nat)))).
  Proof.
    intros HT a b (Go & Gi & Gs) (x & ev & Hs & Hw).
    unfold Model.mstep in Hs. cbn [th stk st perr] in Hs. unfold good, m1, m2, m3.
    destruct (stk b) as [|[ph|] rest] eqn:Hk; [discriminate| |].
    - destruct (perr b) as [e|] eqn:Hp.
      + injection Hs as Hs _. apply deliver_running in Hs. destruct Hs as (A & B & C & D).
        rewrite A, B, C, D. cbn. repeat split; auto. right. split; [destruct ph; cbn; lia|]. right. lia.
      + destruct ph.
        * destruct (loop_head (set_cancel (th b) x)) as [t' cr] eqn:Hl.
          destruct (loop_head_fields _ _ _ Hl) as (Hst & Hmx & Hin & Hon & Hcr). cbn in Hst, Hmx, Hin, Hon.
          assert (Hd : default_thread (set_cancel (th b) x)) by exact Go.
          destruct (loop_head_default _ _ _ Hd Hl) as (Hlim & _). cbn in Hlim.
          assert (Hsb : steps t' < two64) by (rewrite Hst; apply N.mod_upper_bound; discriminate).
          destruct cr as [r|].
          -- injection Hs as Hs _. apply deliver_running in Hs. destruct Hs as (A & B & C & D).
             rewrite A in Hw. rewrite A, B, C, D, Hon, Hin, Hmx. cbn [length pend_stk]. split; [auto|].
             assert (steps t' = steps (th b) + 1) by (rewrite Hst in *; apply nowrap_succ; auto).
             right. split; [lia|]. right. lia.
          -- injection Hs as <-. cbn [th stk st length pend_stk]. rewrite Hon, Hin. split; [auto|].
             left. rewrite Hmx.
             destruct (N.le_gt_cases (maxSteps (th b)) ((steps (th b) + 1) mod two64)) as [L|L];
               [exfalso; apply (Hlim L); reflexivity|].
             cbn in Hw. rewrite Hst in *. rewrite (nowrap_succ _ Gs Hw) in *. lia.
        * set (t0 := set_cancel (th b) x) in *.
          assert (I0 : inited t0 = true) by exact Gi.
          destruct (dispatch (st b)); injection Hs as Hs _.
          -- subst a. cbn. repeat split; auto. left. lia.
          -- apply (push_star_running _ _ _ _ I0) in Hs. destruct Hs as (A & B & C). rewrite A, C. cbn. repeat split; auto. left. lia.
          -- subst a. unfold push_host. rewrite (ltac:(unfold call_init; rewrite I0; reflexivity) : call_init t0 = t0).
             cbn. repeat split; auto. left. lia.
          -- apply deliver_running in Hs. destruct Hs as (A & B & C & D). rewrite A, C. cbn. repeat split; auto. left. lia.
          -- apply deliver_running in Hs. destruct Hs as (A & B & C & D). rewrite A, C. cbn. repeat split; auto. left. lia.
    - set (t0 := set_cancel (th b) x) in *.
      assert (I0 : inited t0 = true) by exact Gi.
      pose proof (HT (st b) (perr b)) as Hh.
      destruct (host (st b) (perr b)); injection Hs as Hs _.
      + subst a. cbn. repeat split; auto. right. split; [lia|]. left. exact Hh.
      + apply (push_star_running _ _ _ _ I0) in Hs. destruct Hs as (A & B & C). rewrite A, B, C. cbn. repeat split; auto.
        right. split; [lia|]. left. exact Hh.
      + subst a. cbn [th stk st]. destruct (do_cancel_fields t0 r) as (D1 & D2 & D3 & D4). rewrite D1, D2, D3, D4.
        cbn. repeat split; auto. right. split; [lia|]. left. exact Hh.
      + subst a. cbn. repeat split; auto. right. split; [lia|]. left. exact Hh.
      + apply deliver_running in Hs. destruct Hs as (A & B & C & D). rewrite A, B, C, D. cbn. repeat split; auto.
        right. split; [lia|]. right. split; [exact Hh|lia].
      + apply deliver_running in Hs. destruct Hs as (A & B & C & D). rewrite A, B, C, D. cbn. repeat split; auto.
        right. split; [lia|]. right. split; [exact Hh|lia].
  Qed.

  Lemma terminates_lemma : host_terminates -> forall c, good c -> Acc step_rel c.
  Proof.
    intros HT. apply (lex3_acc config step_rel m1 m2 m3 good). apply step_decreases. exact HT.
  Qed.

  Lemma no_infinite_run_lemma :
    host_terminates -> forall f : nat -> config, good (f O) -> (forall i, step_rel (f (S i)) (f i)) -> False.
  Proof.
    intros HT f G Hf. pose proof (terminates_lemma HT (f O) G) as A. clear G.
    remember (f O) as c eqn:E. revert E. generalize O.
    induction A as [c _ IH]. intros i E. subst c. apply (IH (f (S i)) (Hf i) (S i) eq_refl).
  Qed.
End M.
