(* C07 -- lemmas about the cancellation state: first reason wins, persists,
   no dispatch after cancellation. *)
From Coq Require Import NArith List Bool Lia ZifyBool ZifyNat ZifyN.
From SV Require Import C07.Model C07.Spec C07.Proofs.
Import ListNotations.
Open Scope N_scope.

(* ---------- algebra of first_reason ---------- *)
Lemma existsb_unc_app l o : existsb is_unc (l ++ [o]) = existsb is_unc l || is_unc o.
Proof. rewrite existsb_app. cbn. rewrite orb_false_r. reflexivity. Qed.

Lemma since_app_uncancel ops : since_last_uncancel (ops ++ [CUncancel]) = [].
Proof.
  induction ops as [|a l IH]; cbn; auto.
  rewrite existsb_unc_app. cbn. rewrite orb_true_r. exact IH.
Qed.

Lemma since_app_cancel ops r :
  since_last_uncancel (ops ++ [CCancel r]) = since_last_uncancel ops ++ [CCancel r].
Proof.
  induction ops as [|a l IH]; cbn; auto.
  rewrite existsb_unc_app. cbn. rewrite orb_false_r.
  destruct (existsb is_unc l); auto. destruct (is_unc a); auto.
Qed.

Lemma since_no_unc ops : existsb is_unc (since_last_uncancel ops) = false.
Proof.
  induction ops as [|a l IH]; cbn; auto.
  destruct (existsb is_unc l) eqn:E; auto.
  destruct (is_unc a) eqn:A; auto. cbn. rewrite A, E. reflexivity.
Qed.

Lemma first_reason_uncancel ops : first_reason (ops ++ [CUncancel]) = None.
Proof. unfold first_reason. rewrite since_app_uncancel. reflexivity. Qed.

Lemma first_reason_cancel ops r :
  first_reason (ops ++ [CCancel r]) =
  match first_reason ops with Some x => Some x | None => Some r end.
Proof.
  unfold first_reason. rewrite since_app_cancel.
  pose proof (since_no_unc ops) as H.
  destruct (since_last_uncancel ops) as [|[x|] l]; cbn in *; auto. discriminate.
Qed.

Lemma first_reason_init c : first_reason (init_ops c) = c.
Proof. destruct c; reflexivity. Qed.

Lemma ops_of_trace_app a b : ops_of_trace (a ++ b) = ops_of_trace a ++ ops_of_trace b.
Proof. induction a as [|e a IH]; cbn; auto. destruct e; cbn; rewrite ?IH; auto. Qed.

(* every loop exit by cancellation names the first reason since the last Uncancel *)
Fixpoint exits_ok (ops : list cop) (tr : list event) : bool :=
  match tr with
  | [] => true
  | EvCancel r :: rest => exits_ok (ops ++ [CCancel r]) rest
  | EvUncancel :: rest => exits_ok (ops ++ [CUncancel]) rest
  | EvCancelExit r :: rest =>
      match first_reason ops with Some x => (x =? r) | None => false end && exits_ok ops rest
  | _ :: rest => exits_ok ops rest
  end.

Lemma exits_ok_app a : forall ops b,
  exits_ok ops (a ++ b) = exits_ok ops a && exits_ok (ops ++ ops_of_trace a) b.
Proof.
  induction a as [|e a IH]; intros ops b; cbn.
  - rewrite app_nil_r. reflexivity.
  - destruct e; cbn; rewrite ?IH, <- ?app_assoc; cbn; auto.
    rewrite andb_assoc. reflexivity.
Qed.

Lemma do_cancel_spec t r ops :
  cancel t = first_reason ops -> cancel (do_cancel t r) = first_reason (ops ++ [CCancel r]).
Proof.
  intros H. rewrite first_reason_cancel, <- H. unfold do_cancel. destruct (cancel t) eqn:E; cbn; auto.
Qed.
Lemma do_uncancel_spec t ops : cancel (do_uncancel t) = first_reason (ops ++ [CUncancel]).
Proof. rewrite first_reason_uncancel. reflexivity. Qed.

Definition has_uncancel (tr : list event) : bool :=
  existsb (fun e => match e with EvUncancel => true | _ => false end) tr.

Lemma has_uncancel_app a b : has_uncancel (a ++ b) = has_uncancel a || has_uncancel b.
Proof. apply existsb_app. Qed.

Section M.
  Variable St : Type.
  Variable dispatch : St -> action St.
  Variable host : St -> option err -> haction St.
  Variable recursion : bool.
  Variable entry_err : St -> bool.

  Notation mstep := (mstep St dispatch host recursion entry_err).
  Notation run := (run St dispatch host recursion entry_err).
  Notation tick_step := (tick_step St dispatch host recursion entry_err).
  Notation start := (start St recursion entry_err).
  Notation push_star := (push_star St recursion entry_err).
  Notation life := (life St dispatch host recursion entry_err).
  Notation sthread := (sthread St).
  Notation pend := (pend St).

  Lemma run_app a : forall s b,
    run s (a ++ b) = let (s1, t1) := run s a in let (s2, t2) := run s1 b in (s2, t1 ++ t2).
  Proof.
    induction a as [|k a IH]; intros s b; cbn.
    - destruct (run s b); reflexivity.
    - destruct (tick_step s k) as [s1 e1]. rewrite IH.
      destruct (run s1 a) as [s2 e2]. destruct (run s2 b) as [s3 e3]. rewrite app_assoc. reflexivity.
  Qed.

  (* ---------- one tick and the cancellation state ---------- *)
  Lemma tick_cancel_state s k s' ev ops :
    default_thread (sthread s) -> cancel (sthread s) = first_reason ops ->
    tick_step s k = (s', ev) ->
    default_thread (sthread s') /\
    cancel (sthread s') = first_reason (ops ++ ops_of_trace ev) /\
    exits_ok ops ev = true /\
    (cancel (sthread s) <> None -> has_uncancel ev = false -> pend s' + ndisp ev <= pend s).
  Proof.
    intros Hd Hc Ht.
    destruct k as [|r|]; cbn in Ht.
    - destruct s as [c|t x r0].
      2:{ injection Ht as <- <-. cbn. rewrite app_nil_r. repeat split; auto; intros; lia. }
      unfold Model.mstep in Ht. cbn [sthread Proofs.sthread status_thread pend Proofs.pend] in *.
      destruct (stk c) as [|[ph|] rest] eqn:Hs.
      + injection Ht as <- <-. cbn. rewrite app_nil_r. repeat split; auto; intros; lia.
      + destruct (perr c) as [e|] eqn:Hp.
        * injection Ht as <- <-. rewrite deliver_thread, deliver_pend. cbn [ops_of_trace exits_ok]. rewrite app_nil_r.
          repeat split; auto. intros _ _. rewrite ndisp_nil. lia.
        * destruct ph.
          -- destruct (loop_head (th c)) as [t' cr] eqn:Hl.
             destruct (loop_head_fields _ _ _ Hl) as (Hst & Hmx & _ & Hon & Hcr).
             assert (Hops : cancel t' = first_reason (ops ++ ops_of_trace (head_events (th c))) /\
                            ndisp (head_events (th c)) = 0 /\ has_uncancel (head_events (th c)) = false /\
                            exits_ok ops (head_events (th c)) = true).
             { unfold loop_head in Hl. injection Hl as Hl _. subst t'. unfold head_events.
               destruct (limit_hit (set_steps (th c) ((steps (th c) + 1) mod two64))).
               - cbn [onmax set_steps]. rewrite Hd. cbn [ops_of_trace].
                 split; [apply do_cancel_spec; exact Hc|repeat split; reflexivity].
               - cbn. rewrite app_nil_r. auto. }
             destruct Hops as (Hops & Hnd & Hnu & Hex).
             destruct cr as [r|]; injection Ht as <- <-.
             ++ rewrite deliver_thread, deliver_pend.
                change (EvHead :: head_events (th c) ++ [EvCancelExit r]) with ([EvHead] ++ head_events (th c) ++ [EvCancelExit r]).
                rewrite !ops_of_trace_app, !exits_ok_app, !ndisp_app. cbn [ops_of_trace exits_ok app]. rewrite !app_nil_r, Hex, Hnd.
                unfold default_thread. rewrite Hon. rewrite <- Hops, <- Hcr, N.eqb_refl.
                split; [exact Hd|]. split; [reflexivity|]. split; [reflexivity|].
                intros _ _. rewrite !ndisp_cons, ndisp_nil. cbn [is_dispatch]. lia.
             ++ change (EvHead :: head_events (th c)) with ([EvHead] ++ head_events (th c)).
                rewrite !ops_of_trace_app, !exits_ok_app, !ndisp_app, !has_uncancel_app.
                cbn [ops_of_trace exits_ok sthread Proofs.sthread status_thread th app].
                rewrite !app_nil_r, Hex, Hnd, Hnu. unfold default_thread. rewrite Hon.
                split; [exact Hd|]. split; [exact Hops|]. split; [reflexivity|].
                intros Hne _. exfalso. rewrite Hc in Hne.
                rewrite <- Hcr in Hops. unfold head_events in Hops.
                destruct (limit_hit _); [rewrite Hd in Hops; cbn [ops_of_trace] in Hops; rewrite first_reason_cancel in Hops
                                        |cbn in Hops; rewrite app_nil_r in Hops];
                destruct (first_reason ops); congruence.
          -- assert (Hev : ops_of_trace ev = [] /\ ndisp ev = 1 /\ exits_ok ops ev = true).
             { destruct (dispatch (st c)); injection Ht as <- <-; repeat split; reflexivity. }
             destruct Hev as (E1 & E2 & E3). rewrite E1, E2, E3, app_nil_r.
             destruct (call_init_fields (th c)) as (C1 & C2 & C3 & C4).
             assert (Hs' : pend s' = 0 /\ (sthread s' = th c \/ sthread s' = call_init (th c))).
             { destruct (dispatch (st c)); injection Ht as <- <-; cbn;
                 rewrite ?push_star_pend, ?push_star_thread, ?deliver_pend, ?deliver_thread; auto. }
             destruct Hs' as [P0 [-> | ->]]; unfold default_thread; rewrite ?C2, ?C3, P0; cbn [pend_stk];
               repeat split; auto; intros; lia.
      + destruct (call_init_fields (th c)) as (C1 & C2 & C3 & C4).
        destruct (do_cancel_fields (th c)) as (D1 & D2 & D3 & D4) || idtac.
        destruct (host (st c) (perr c)) eqn:Hh; injection Ht as <- <-; cbn [ops_of_trace exits_ok];
          rewrite ?push_star_pend, ?push_star_thread, ?deliver_pend, ?deliver_thread, ?app_nil_r;
          unfold default_thread; cbn [sthread Proofs.sthread status_thread th pend Proofs.pend stk pend_stk];
          rewrite ?C2, ?C3, ?ndisp_cons, ?ndisp_nil; cbn [is_dispatch];
          (split; [try exact Hd; try (rewrite (proj2 (proj2 (proj2 (do_cancel_fields _ _)))); exact Hd)|]);
          (split; [try exact Hc; try (apply do_cancel_spec; exact Hc); try apply do_uncancel_spec|]);
          (split; [reflexivity|]); intros; try lia; try discriminate.
    - injection Ht as <- <-. cbn [ops_of_trace exits_ok].
      assert (sthread (with_thread St s (fun t => do_cancel t r)) = do_cancel (sthread s) r /\
              pend (with_thread St s (fun t => do_cancel t r)) = pend s) as [-> ->] by (destruct s; auto).
      split; [unfold default_thread; rewrite (proj2 (proj2 (proj2 (do_cancel_fields _ _)))); exact Hd|].
      split; [apply do_cancel_spec; exact Hc|]. split; [reflexivity|]. intros. rewrite ndisp_cons, ndisp_nil. cbn [is_dispatch]. lia.
    - injection Ht as <- <-. cbn [ops_of_trace exits_ok].
      assert (sthread (with_thread St s do_uncancel) = do_uncancel (sthread s) /\
              pend (with_thread St s do_uncancel) = pend s) as [-> ->] by (destruct s; auto).
      split; [exact Hd|]. split; [apply do_uncancel_spec|]. split; [reflexivity|]. intros _ H. discriminate H.
  Qed.

  Lemma run_cancel_state sched : forall s s' tr ops,
    default_thread (sthread s) -> cancel (sthread s) = first_reason ops ->
    run s sched = (s', tr) ->
    default_thread (sthread s') /\
    cancel (sthread s') = first_reason (ops ++ ops_of_trace tr) /\
    exits_ok ops tr = true.
  Proof.
    induction sched as [|k rest IH]; intros s s' tr ops Hd Hc Hr; cbn in Hr.
    - injection Hr as <- <-. cbn. rewrite app_nil_r. auto.
    - destruct (tick_step s k) as [s1 e1] eqn:Ht. destruct (run s1 rest) as [s2 e2] eqn:Hr2.
      injection Hr as <- <-.
      destruct (tick_cancel_state _ _ _ _ _ Hd Hc Ht) as (A & B & C & _).
      destruct (IH _ _ _ _ A B Hr2) as (A2 & B2 & C2).
      rewrite ops_of_trace_app, exits_ok_app, app_assoc, C, C2. auto.
  Qed.

  Lemma first_reason_stable l : forall ops r,
    first_reason ops = Some r -> existsb is_unc l = false -> first_reason (ops ++ l) = Some r.
  Proof.
    induction l as [|o l IH]; intros ops r H E.
    - rewrite app_nil_r. exact H.
    - cbn in E. apply orb_false_iff in E. destruct E as [E1 E2].
      change (ops ++ o :: l) with (ops ++ [o] ++ l). rewrite app_assoc. apply IH; auto.
      destruct o; [|discriminate]. rewrite first_reason_cancel, H. reflexivity.
  Qed.

  Lemma unc_ops_of_trace tr : existsb is_unc (ops_of_trace tr) = has_uncancel tr.
  Proof. induction tr as [|e tr IH]; cbn; auto. destruct e; cbn; rewrite ?IH; auto. Qed.

  (* no_step_after_cancel: from a moment at which a reason is in force, and as long
     as nobody calls Uncancel, the only instruction that can still be dispatched is
     the one whose cancellation test had already passed *)
  Lemma no_step_after_cancel_lemma sched : forall s s' tr r,
    default_thread (sthread s) -> cancel (sthread s) = Some r ->
    run s sched = (s', tr) -> has_uncancel tr = false ->
    pend s' + ndisp tr <= pend s /\ cancel (sthread s') = Some r /\
    exits_ok [CCancel r] tr = true.
  Proof.
    induction sched as [|k rest IH]; intros s s' tr r Hd Hc Hr Hu; cbn in Hr.
    - injection Hr as <- <-. rewrite ndisp_nil. repeat split; auto. lia.
    - destruct (tick_step s k) as [s1 e1] eqn:Ht. destruct (run s1 rest) as [s2 e2] eqn:Hr2.
      injection Hr as <- <-. rewrite has_uncancel_app in Hu. apply orb_false_iff in Hu. destruct Hu as [U1 U2].
      assert (Hc' : cancel (sthread s) = first_reason [CCancel r]) by (rewrite Hc; reflexivity).
      destruct (tick_cancel_state _ _ _ _ _ Hd Hc' Ht) as (A & B & C & D).
      assert (B' : cancel (sthread s1) = Some r).
      { rewrite B. apply first_reason_stable; [reflexivity|]. rewrite unc_ops_of_trace. exact U1. }
      destruct (IH _ _ _ _ A B' Hr2 U2) as (I1 & I2 & I3).
      specialize (D ltac:(congruence) U1).
      rewrite ndisp_app. split; [lia|]. split; [exact I2|].
      destruct (run_cancel_state (k :: rest) s s2 (e1 ++ e2) [CCancel r] Hd Hc') as (_ & _ & X); auto.
      cbn. rewrite Ht, Hr2. reflexivity.
  Qed.

  (* an execution started while a reason is in force stops at its first loop head *)
  Definition cancel_tick (k : tick) : bool := match k with TCancel _ => true | _ => false end.

  Lemma cancel_ticks_only adv : forall s,
    forallb cancel_tick adv = true ->
    exists tr, run s adv = (with_thread St s (fun t => fold_left (fun t k => match k with TCancel r => do_cancel t r | _ => t end) adv t), tr)
               /\ ndisp tr = 0 /\ nheads tr = 0.
  Proof.
    induction adv as [|k adv IH]; intros s H.
    - exists []. cbn. destruct s as [[a b c d]|]; auto.
    - cbn in H. apply andb_true_iff in H. destruct H as [H1 H2]. destruct k; try discriminate.
      cbn. destruct (IH (with_thread St s (fun t => do_cancel t r)) H2) as (tr & E & N1 & N2).
      rewrite E. exists (EvCancel r :: tr). rewrite ndisp_cons, nheads_cons, N1, N2. cbn [is_dispatch is_head].
      repeat split; auto. destruct s as [[a b c d]|]; reflexivity.
  Qed.

  Lemma fold_cancel_keeps adv : forall t r,
    cancel t = Some r ->
    let t' := fold_left (fun t k => match k with TCancel r => do_cancel t r | _ => t end) adv t in
    cancel t' = Some r /\ steps t' = steps t /\ maxSteps t' = maxSteps t /\ onmax t' = onmax t /\ inited t' = inited t.
  Proof.
    induction adv as [|k adv IH]; intros t r H; cbn; auto.
    destruct k; try (apply IH; exact H).
    destruct (do_cancel_fields t r0) as (A & B & C & D).
    assert (cancel (do_cancel t r0) = Some r) by (unfold do_cancel; rewrite H; exact H).
    destruct (IH _ _ H0) as (I1 & I2 & I3 & I4 & I5). cbn in *. rewrite I1, I2, I3, I4, I5, A, B, C, D. auto.
  Qed.

  Lemma cancel_persists_lemma t s adv r :
    default_thread t -> cancel t = Some r -> forallb cancel_tick adv = true ->
    exists t' x e tr,
      run (start t s) (adv ++ [TRun]) = (Finished t' x (Some e), tr) /\
      ndisp tr = 0 /\ cancel t' = Some r /\
      ((recursion && (depth_limit <? 1) || entry_err s = false) ->
         e = ECancel r /\ nheads tr = 1 /\ steps t' = (steps t + 1) mod two64).
  Proof.
    intros Hd Hc Ha. rewrite run_app.
    destruct (cancel_ticks_only adv (start t s) Ha) as (tr0 & E & N1 & N2). rewrite E. clear E.
    set (F := fold_left _ adv).
    destruct (call_init_fields t) as (C1 & C2 & C3 & C4).
    unfold start, Model.push_star. cbn [resume_head length N.of_nat].
    change (N.pos (Pos.of_succ_nat 0)) with 1.
    destruct (recursion && (depth_limit <? 1) || entry_err s) eqn:Ee.
    - cbn [deliver with_thread]. cbn [run Model.run tick_step Model.tick_step].
      destruct (fold_cancel_keeps adv (call_init t) r ltac:(congruence)) as (K1 & _).
      do 4 eexists. split; [reflexivity|]. rewrite app_nil_r. split; [exact N1|]. split; [exact K1|].
      intros X. discriminate X.
    - cbn [with_thread th stk st perr]. cbn [run Model.run tick_step Model.tick_step].
      unfold Model.mstep. cbn [th stk st perr].
      destruct (fold_cancel_keeps adv (call_init t) r ltac:(congruence)) as (K1 & K2 & K3 & K4 & K5).
      fold F in K1, K2, K3, K4, K5.
      destruct (loop_head (F (call_init t))) as [t' cr] eqn:Hl.
      destruct (loop_head_fields _ _ _ Hl) as (Hst & Hmx & _ & Hon & Hcr).
      assert (Hdf : default_thread (F (call_init t))) by (unfold default_thread; rewrite K4, C3; exact Hd).
      destruct (loop_head_default _ _ _ Hdf Hl) as (_ & Hkeep & _ & _).
      rewrite (Hkeep r K1). cbn [deliver].
      do 4 eexists. split; [reflexivity|].
      destruct (head_events_counts (F (call_init t))) as [Hh0 Hd0].
      rewrite app_nil_r, !ndisp_app, !nheads_app, !ndisp_cons, !nheads_cons, N1, N2, Hh0, Hd0, ndisp_nil, nheads_nil.
      cbn [is_dispatch is_head]. rewrite Hst, K2, C1. rewrite <- Hcr. rewrite (Hkeep r K1). repeat split; auto.
  Qed.

  (* first_reason_wins over a whole life of one thread *)
  Lemma life_cancel_state h : forall t t' obs ops,
    default_thread t -> cancel t = first_reason ops ->
    life t h = (t', obs) ->
    default_thread t' /\
    cancel t' = first_reason (ops ++ ops_of_trace (life_trace obs)) /\
    exits_ok ops (life_trace obs) = true.
  Proof.
    induction h as [|e h IH]; intros t t' obs ops Hd Hc Hl; cbn in Hl.
    - injection Hl as <- <-. cbn. rewrite app_nil_r. auto.
    - destruct e as [r| |n| |s sched].
      + destruct (life (do_cancel t r) h) as [t2 o] eqn:E. injection Hl as <- <-.
        assert (Hd1 : default_thread (do_cancel t r))
          by (unfold default_thread; rewrite (proj2 (proj2 (proj2 (do_cancel_fields t r)))); exact Hd).
        destruct (IH _ _ _ (ops ++ [CCancel r]) Hd1 (do_cancel_spec _ _ _ Hc) E) as (A & B & C).
        cbn. rewrite <- app_assoc in B. auto.
      + destruct (life (do_uncancel t) h) as [t2 o] eqn:E. injection Hl as <- <-.
        destruct (IH (do_uncancel t) _ _ (ops ++ [CUncancel]) Hd (do_uncancel_spec t ops) E) as (A & B & C).
        cbn. rewrite <- app_assoc in B. auto.
      + destruct (life (set_max_execution_steps t n) h) as [t2 o] eqn:E. injection Hl as <- <-.
        destruct (IH (set_max_execution_steps t n) _ _ ops Hd Hc E) as (A & B & C). cbn. auto.
      + destruct (life t h) as [t2 o] eqn:E. injection Hl as <- <-.
        destruct (IH t _ _ ops Hd Hc E) as (A & B & C). cbn. auto.
      + destruct (run (start t s) sched) as [st1 tr] eqn:Er.
        destruct (call_init_fields t) as (C1 & C2 & C3 & C4).
        assert (Hd0 : default_thread (sthread (start t s))).
        { unfold start, sthread, Proofs.sthread. rewrite push_star_thread. unfold default_thread. rewrite C3. exact Hd. }
        assert (Hc0 : cancel (sthread (start t s)) = first_reason ops).
        { unfold start, sthread, Proofs.sthread. rewrite push_star_thread, C2. exact Hc. }
        destruct (run_cancel_state _ _ _ _ _ Hd0 Hc0 Er) as (A & B & C).
        destruct st1 as [c|t1 x r].
        * injection Hl as <- <-. cbn. rewrite app_nil_r. auto.
        * destruct (life t1 h) as [t2 o] eqn:E. injection Hl as <- <-.
          destruct (IH _ _ _ _ A B E) as (A2 & B2 & C2').
          cbn. rewrite ops_of_trace_app, exits_ok_app, app_assoc, C, C2'. auto.
  Qed.
End M.
