(* C20 -- freeze soundness for histories without copy / message-aliasing
   operations: the storage of distinct variables stays separated, so nothing a
   frozen variable reads back can change. *)
From Coq Require Import ZArith Bool List Lia.
From SV Require Import Common.GoInt C20.Kinds C20.Store C20.Spec C20.ProofsKinds C20.ProofsWf C20.ProofsFreeze.
Import ListNotations.
Open Scope Z_scope.

(* operations that never make two wrappers with different flags reach one object *)
Definition simple (o : op) : bool :=
  match o with
  | Copy _ _ | SetSub _ _ | AppendRM _ _ | AssignRM _ _ | SetMM _ _ _ | AssignMM _ _
  | AssignRMList _ _ | AssignMMDict _ _ _ => false
  | _ => true
  end.

Definition flat (m : msgobj) : Prop := f_sub m = None /\ f_rm m = None /\ f_mm m = None.

Record sep (st : state) : Prop := {
  sep_wf : wf st;
  sep_flat : forall l m, nth_error (heap st) l = Some (OMsg m) -> flat m;
  sep_vars : forall i k wi wk, var st i = Some wi -> var st k = Some wk -> i <> k ->
             w_loc wi <> w_loc wk /\ w_flag wi <> w_flag wk;
  sep_ri : forall l1 l2 m1 m2 p, nth_error (heap st) l1 = Some (OMsg m1) -> nth_error (heap st) l2 = Some (OMsg m2) ->
           f_ri m1 = Some p -> f_ri m2 = Some p -> l1 = l2;
  sep_mi : forall l1 l2 m1 m2 p, nth_error (heap st) l1 = Some (OMsg m1) -> nth_error (heap st) l2 = Some (OMsg m2) ->
           f_mi m1 = Some p -> f_mi m2 = Some p -> l1 = l2
}.

(* what variable i reads back, for flat messages: the message cell and its two containers *)
Definition cells (st : state) (i : nat) : option (msgobj * list Z * list (list Z * Z)) :=
  match var st i with
  | Some w => match nth_error (heap st) (w_loc w) with
              | Some (OMsg m) =>
                  Some (m, match f_ri m with Some p => ilist_at st p | None => [] end,
                           match f_mi m with Some p => imap_at st p | None => [] end)
              | _ => None
              end
  | None => None
  end.

Lemma dump_flat st i f : (forall l m, nth_error (heap st) l = Some (OMsg m) -> flat m) ->
  dump_var (S f) st i =
  match cells st i with
  | Some (m, ri, mi) => Some (D (f_v m) (f_s m) None ri [] mi [])
  | None => None
  end.
Proof.
  intro Fl. unfold dump_var, cells. destruct (var st i) as [w|]; [|reflexivity].
  cbn [dump_msg]. unfold msg_at, obj_at.
  destruct (nth_error (heap st) (w_loc w)) as [[m| | | |]|] eqn:N; try reflexivity.
  destruct (Fl _ _ N) as [A [B C]]. rewrite A, B, C. reflexivity.
Qed.

(* ---------- heap lookups after the elementary updates ---------- *)
Lemma heap_set_obj st p o l : nth_error (heap (set_obj st p o)) l =
  if Nat.eqb p l then (if Nat.ltb p (length (heap st)) then Some o else None) else nth_error (heap st) l.
Proof. unfold set_obj. cbn [heap]. apply nth_error_upd. Qed.

Lemma ilist_set_obj_other st p o q : p <> q -> ilist_at (set_obj st p o) q = ilist_at st q.
Proof. intro H. unfold ilist_at, obj_at. rewrite heap_set_obj. apply Nat.eqb_neq in H. rewrite H. reflexivity. Qed.
Lemma imap_set_obj_other st p o q : p <> q -> imap_at (set_obj st p o) q = imap_at st q.
Proof. intro H. unfold imap_at, obj_at. rewrite heap_set_obj. apply Nat.eqb_neq in H. rewrite H. reflexivity. Qed.

Lemma tag_neq h p q t1 t2 : has_tag h p t1 -> has_tag h q t2 -> t1 <> t2 -> p <> q.
Proof. intros [o1 [N1 T1]] [o2 [N2 T2]] D E. subst q. rewrite N1 in N2. inversion N2; subst. congruence. Qed.

(* the cells of variable i are untouched by an update of a cell that is neither its
   message nor one of its containers *)
Lemma cells_set_obj st p o i w m :
  var st i = Some w -> nth_error (heap st) (w_loc w) = Some (OMsg m) ->
  p <> w_loc w -> f_ri m <> Some p -> f_mi m <> Some p ->
  cells (set_obj st p o) i = cells st i.
Proof.
  intros V N P R M. unfold cells. change (var (set_obj st p o) i) with (var st i). rewrite V.
  rewrite heap_set_obj. apply Nat.eqb_neq in P. rewrite P, N.
  f_equal. f_equal; [f_equal|].
  - destruct (f_ri m) as [q|]; [|reflexivity]. apply ilist_set_obj_other. congruence.
  - destruct (f_mi m) as [q|]; [|reflexivity]. apply imap_set_obj_other. congruence.
Qed.

Lemma cells_alloc st o i : wf st -> cells (fst (alloc st o)) i = cells st i.
Proof.
  intros W. unfold cells, alloc. cbn [fst]. change (var {| heap := heap st ++ [o]; flags := flags st; vars := vars st |} i) with (var st i).
  destruct (var st i) as [w|] eqn:V; [|reflexivity]. cbn [heap].
  destruct (proj2 W i w V) as [[x [Nx Tx]] _].
  rewrite (nth_app_old _ o _ _ Nx), Nx. destruct x as [m| | | |]; try reflexivity.
  destruct (proj1 W _ _ Nx) as [A [B [C [D [F G]]]]].
  f_equal. f_equal; [f_equal|].
  - destruct (f_ri m) as [q|]; [|reflexivity]. destruct C as [y [Ny Ty]].
    unfold ilist_at, obj_at. cbn [heap]. rewrite (nth_app_old _ o _ _ Ny), Ny. reflexivity.
  - destruct (f_mi m) as [q|]; [|reflexivity]. destruct F as [y [Ny Ty]].
    unfold imap_at, obj_at. cbn [heap]. rewrite (nth_app_old _ o _ _ Ny), Ny. reflexivity.
Qed.

Lemma cells_same_heap st st' i : heap st' = heap st -> var st' i = var st i -> cells st' i = cells st i.
Proof. intros H V. unfold cells, ilist_at, imap_at, obj_at. rewrite H, V. reflexivity. Qed.

(* ---------- separation is preserved by the elementary updates ---------- *)
Lemma sep_set_list st p o' : sep st -> has_tag (heap st) p (tag o') -> tag o' <> 0%nat -> obj_ok (heap st) o' ->
  sep (set_obj st p o').
Proof.
  intros S T NZ HO.
  assert (M : forall l m, nth_error (heap (set_obj st p o')) l = Some (OMsg m) -> nth_error (heap st) l = Some (OMsg m)).
  { intros l m N. rewrite heap_set_obj in N. destruct (Nat.eqb p l); [|exact N].
    destruct (Nat.ltb p (length (heap st))); [|discriminate]. inversion N; subst. simpl in NZ. congruence. }
  constructor.
  - apply wf_set_obj_same; [apply S|exact T|exact HO].
  - intros l m N. eapply sep_flat; [exact S|apply M, N].
  - intros i k wi wk Vi Vk D. eapply (sep_vars st S); eassumption.
  - intros l1 l2 m1 m2 q N1 N2. eapply (sep_ri st S); apply M; assumption.
  - intros l1 l2 m1 m2 q N1 N2. eapply (sep_mi st S); apply M; assumption.
Qed.

Lemma sep_put_msg st w m m' : sep st -> nth_error (heap st) (w_loc w) = Some (OMsg m) ->
  obj_ok (heap st) (OMsg m') -> flat m' ->
  (forall l2 m2 p, l2 <> w_loc w -> nth_error (heap st) l2 = Some (OMsg m2) -> f_ri m' = Some p -> f_ri m2 <> Some p) ->
  (forall l2 m2 p, l2 <> w_loc w -> nth_error (heap st) l2 = Some (OMsg m2) -> f_mi m' = Some p -> f_mi m2 <> Some p) ->
  sep (put_msg st w m').
Proof.
  intros S N HO Fl Ri Mi.
  assert (L : (w_loc w < length (heap st))%nat) by (apply nth_error_Some; congruence).
  apply Nat.ltb_lt in L.
  assert (M : forall l x, nth_error (heap (put_msg st w m')) l = Some (OMsg x) ->
              (l = w_loc w /\ x = m') \/ (l <> w_loc w /\ nth_error (heap st) l = Some (OMsg x))).
  { intros l x Nx. unfold put_msg in Nx. rewrite heap_set_obj in Nx.
    destruct (Nat.eqb_spec (w_loc w) l) as [E|E].
    - rewrite L in Nx. inversion Nx; subst. left. split; reflexivity.
    - right. split; [congruence|exact Nx]. }
  constructor.
  - eapply wf_put_msg; [apply S|exact N|exact HO].
  - intros l x Nx. destruct (M l x Nx) as [[_ E]|[_ O]]; [subst; exact Fl|eapply sep_flat; eassumption].
  - intros i k wi wk Vi Vk D. eapply (sep_vars st S); eassumption.
  - intros l1 l2 m1 m2 q N1 N2 R1 R2.
    destruct (M l1 m1 N1) as [[E1 X1]|[D1 O1]]; destruct (M l2 m2 N2) as [[E2 X2]|[D2 O2]]; subst.
    + reflexivity.
    + exfalso. eapply Ri; eassumption.
    + exfalso. eapply Ri; eassumption.
    + eapply (sep_ri st S); eassumption.
  - intros l1 l2 m1 m2 q N1 N2 R1 R2.
    destruct (M l1 m1 N1) as [[E1 X1]|[D1 O1]]; destruct (M l2 m2 N2) as [[E2 X2]|[D2 O2]]; subst.
    + reflexivity.
    + exfalso. eapply Mi; eassumption.
    + exfalso. eapply Mi; eassumption.
    + eapply (sep_mi st S); eassumption.
Qed.

Lemma heap_alloc_msg st o l m : tag o <> 0%nat -> nth_error (heap (fst (alloc st o))) l = Some (OMsg m) ->
  nth_error (heap st) l = Some (OMsg m).
Proof.
  intros NZ N. unfold alloc in N. cbn [fst heap] in N.
  destruct (Nat.ltb_spec l (length (heap st))) as [L|L].
  - rewrite nth_error_app1 in N by exact L. exact N.
  - rewrite nth_error_app2 in N by exact L. destruct (l - length (heap st))%nat as [|k]; simpl in N.
    + inversion N; subst. simpl in NZ. congruence.
    + destruct k; discriminate.
Qed.

Lemma sep_alloc_nonmsg st o : sep st -> tag o <> 0%nat -> obj_ok (heap st ++ [o]) o -> sep (fst (alloc st o)).
Proof.
  intros S NZ HO. destruct (wf_alloc st o (sep_wf st S) HO) as [W1 [T1 [E1 [F1 V1]]]].
  constructor.
  - exact W1.
  - intros l m N. eapply sep_flat; [exact S|eapply heap_alloc_msg; eassumption].
  - intros i k wi wk Vi Vk D. unfold var in Vi, Vk. rewrite V1 in Vi, Vk. eapply (sep_vars st S); eassumption.
  - intros l1 l2 m1 m2 q N1 N2. eapply (sep_ri st S); eapply heap_alloc_msg; eassumption.
  - intros l1 l2 m1 m2 q N1 N2. eapply (sep_mi st S); eapply heap_alloc_msg; eassumption.
Qed.

Lemma sep_set_flag st f b : sep st -> sep (set_flag st f b).
Proof.
  intro S. constructor.
  - apply wf_set_flag, S.
  - apply (sep_flat st S).
  - apply (sep_vars st S).
  - apply (sep_ri st S).
  - apply (sep_mi st S).
Qed.

Lemma flat_empty : flat empty_msg.
Proof. repeat split. Qed.

(* a fresh message bound to variable k *)
Lemma bind_new_facts st k b : sep st ->
  let st' := snd (bind_new st k empty_msg b) in
  sep st' /\
  (forall i, i <> k -> var st' i = var st i) /\
  (forall i, i <> k -> cells st' i = cells st i) /\
  (forall f, (f < length (flags st))%nat -> flag st' f = flag st f).
Proof.
  intros S. cbv zeta. unfold bind_new. destruct (Nat.ltb k (length (vars st))) eqn:L.
  2:{ cbn [snd]. split; [exact S|]. split; [reflexivity|]. split; reflexivity. }
  cbn [alloc alloc_flag snd]. set (l := length (heap st)). set (f := length (flags st)).
  set (st1 := {| heap := heap st ++ [OMsg empty_msg]; flags := flags st; vars := vars st |}).
  set (st2 := {| heap := heap st1; flags := flags st1 ++ [b]; vars := vars st1 |}).
  assert (W : wf st) by apply S.
  assert (HOe : obj_ok (heap st ++ [OMsg empty_msg]) (OMsg empty_msg)) by (simpl; repeat split; reflexivity).
  destruct (wf_alloc st (OMsg empty_msg) W HOe) as [W1 [T1 [E1 _]]]. cbn [alloc fst snd] in W1, T1, E1. fold st1 in W1, T1, E1.
  destruct (wf_alloc_flag st1 b W1) as [W2 [L2 _]]. cbn [alloc_flag fst snd] in W2, L2. fold st2 in W2, L2.
  assert (Msg : forall p m, nth_error (heap st2) p = Some (OMsg m) ->
                (p = l /\ m = empty_msg) \/ ((p < l)%nat /\ nth_error (heap st) p = Some (OMsg m))).
  { intros p m N. cbn [st2 st1 heap] in N. destruct (Nat.ltb_spec p (length (heap st))) as [Lt|Ge].
    - right. split; [exact Lt|]. rewrite nth_error_app1 in N by exact Lt. exact N.
    - left. rewrite nth_error_app2 in N by exact Ge. destruct (p - length (heap st))%nat as [|q] eqn:Q; simpl in N.
      + inversion N. split; [unfold l; lia|reflexivity].
      + destruct q; discriminate. }
  assert (Vo : forall i, i <> k -> var (set_var st2 k {| w_loc := l; w_flag := f |}) i = var st i).
  { intros i D. rewrite var_set_var. apply Nat.eqb_neq in D. rewrite Nat.eqb_sym, D. reflexivity. }
  split; [|split; [exact Vo|split]].
  - constructor.
    + apply wf_set_var; [exact W2|exact T1|exact L2].
    + intros p m N. destruct (Msg p m N) as [[_ E]|[_ O]]; [subst; apply flat_empty|eapply sep_flat; eassumption].
    + intros i j wi wj Vi Vj D. rewrite var_set_var in Vi, Vj. cbn [st2 st1 vars] in Vi, Vj.
      destruct (Nat.eqb_spec k i) as [Ei|Ei]; destruct (Nat.eqb_spec k j) as [Ej|Ej]; try congruence.
      * rewrite L in Vi. inversion Vi; subst wi. cbn [w_loc w_flag].
        destruct (proj2 W j wj Vj) as [[x [Nx _]] Fx].
        assert (Lx : (w_loc wj < length (heap st))%nat) by (apply nth_error_Some; congruence).
        unfold l, f. lia.
      * rewrite L in Vj. inversion Vj; subst wj. cbn [w_loc w_flag].
        destruct (proj2 W i wi Vi) as [[x [Nx _]] Fx].
        assert (Lx : (w_loc wi < length (heap st))%nat) by (apply nth_error_Some; congruence).
        unfold l, f. lia.
      * eapply (sep_vars st S); eassumption.
    + intros l1 l2 m1 m2 p N1 N2 R1 R2.
      destruct (Msg l1 m1 N1) as [[E1' X1]|[_ O1]]; destruct (Msg l2 m2 N2) as [[E2' X2]|[_ O2]]; subst; try discriminate; try lia.
      eapply (sep_ri st S); eassumption.
    + intros l1 l2 m1 m2 p N1 N2 R1 R2.
      destruct (Msg l1 m1 N1) as [[E1' X1]|[_ O1]]; destruct (Msg l2 m2 N2) as [[E2' X2]|[_ O2]]; subst; try discriminate; try lia.
      eapply (sep_mi st S); eassumption.
  - intros i D. transitivity (cells st1 i).
    + apply cells_same_heap; [reflexivity|]. rewrite Vo by exact D. reflexivity.
    + apply (cells_alloc st (OMsg empty_msg) i W).
  - intros g G. unfold flag. cbn [set_var st2 st1 flags]. rewrite app_nth1 by exact G. reflexivity.
Qed.

(* ---------- the frame property, one operation at a time ---------- *)
Lemma with_msg_P (P : state -> Prop) st i k : P st ->
  (forall w m, var st i = Some w -> nth_error (heap st) (w_loc w) = Some (OMsg m) -> P (snd (k w m))) ->
  P (snd (with_msg st i k)).
Proof.
  intros W H. unfold with_msg. destruct (var st i) as [w|] eqn:V; [|exact W].
  destruct (msg_at st (w_loc w)) as [m|] eqn:M; [|exact W].
  apply H; [reflexivity|apply msg_at_nth, M].
Qed.

Lemma with_mutable_msg_P (P : state -> Prop) st i k : P st ->
  (forall w m, var st i = Some w -> nth_error (heap st) (w_loc w) = Some (OMsg m) -> P (snd (k w m))) ->
  P (snd (with_mutable_msg st i k)).
Proof.
  intros W H. unfold with_mutable_msg. apply with_msg_P; [exact W|].
  intros w m V N. destruct (flag st (w_flag w)); [exact W|]. apply H; assumption.
Qed.

Lemma scalar_result_P {A} (P : state -> Prop) st (c : outcome A) k : P st -> (forall a, c = Stored a -> P (k a)) -> P (snd (scalar_result st c k)).
Proof. intros W H. unfold scalar_result. destruct c; [apply H; reflexivity|exact W|exact W]. Qed.

Lemma nth_upd_true (l : list bool) : forall f g, nth g l true = true -> nth g (upd f true l) true = true.
Proof.
  induction l as [|x l IH]; intros [|f] [|g] H; simpl in *; try reflexivity; try exact H.
  apply IH, H.
Qed.

Lemma flag_upd_true st f g : flag st g = true -> flag (set_flag st f true) g = true.
Proof. unfold flag, set_flag. cbn [flags]. apply nth_upd_true. Qed.

Section Frame.
  Variable tr : bool.          (* is a frozen variable being tracked? *)
  Variable i : nat.
  Variable wi : wrapper.
  Variable c0 : option (msgobj * list Z * list (list Z * Z)).

  (* x_i is still the frozen wrapper wi and reads back c0 *)
  Definition Tracked (st : state) : Prop :=
    var st i = Some wi /\ flag st (w_flag wi) = true /\ cells st i = c0.
  (* separation holds and, when tracking, x_i is unchanged *)
  Definition Inv (st : state) : Prop := sep st /\ (tr = true -> Tracked st).

  Lemma tracked_msg st : sep st -> Tracked st -> exists mi, nth_error (heap st) (w_loc wi) = Some (OMsg mi).
  Proof.
    intros S [V _]. destruct (proj2 (sep_wf st S) i wi V) as [[x [N T]] _].
    destruct x; try discriminate. eexists; exact N.
  Qed.

  (* update of another variable's message cell, keeping its containers *)
  Lemma inv_put_msg st k wk mk m' : Inv st -> (tr = true -> k <> i) -> var st k = Some wk ->
    nth_error (heap st) (w_loc wk) = Some (OMsg mk) ->
    obj_ok (heap st) (OMsg m') -> flat m' -> f_ri m' = f_ri mk -> f_mi m' = f_mi mk ->
    Inv (put_msg st wk m').
  Proof.
    intros [S T] D Vk Nk HO Fl Ri Mi.
    assert (W : wf st) by apply S.
    split.
    - eapply sep_put_msg; try eassumption.
      + intros l2 m2 p D2 N2 R. rewrite Ri in R. intro R2. apply D2. eapply (sep_ri st S); eassumption.
      + intros l2 m2 p D2 N2 R. rewrite Mi in R. intro R2. apply D2. eapply (sep_mi st S); eassumption.
    - intro Tr. destruct (T Tr) as [V [F C]]. specialize (D Tr).
      destruct (tracked_msg st S (T Tr)) as [mi Ni].
      destruct (sep_vars st S k i wk wi Vk V D) as [Dl _].
      split; [exact V|split; [exact F|]].
      rewrite <- C. unfold put_msg. eapply cells_set_obj; try eassumption.
      + destruct (proj1 W _ _ Ni) as [_ [_ [R _]]]. intro E. rewrite E in R.
        eapply (tag_neq _ _ _ _ _ R); [exists (OMsg mk); split; [exact Nk|reflexivity]|discriminate|reflexivity].
      + destruct (proj1 W _ _ Ni) as [_ [_ [_ [_ [R _]]]]]. intro E. rewrite E in R.
        eapply (tag_neq _ _ _ _ _ R); [exists (OMsg mk); split; [exact Nk|reflexivity]|discriminate|reflexivity].
  Qed.

  (* update of a container of another variable *)
  Lemma inv_set_container st k wk mk p o' : Inv st -> (tr = true -> k <> i) -> var st k = Some wk ->
    nth_error (heap st) (w_loc wk) = Some (OMsg mk) ->
    ((f_ri mk = Some p /\ tag o' = 1%nat) \/ (f_mi mk = Some p /\ tag o' = 3%nat)) ->
    obj_ok (heap st) o' -> Inv (set_obj st p o').
  Proof.
    intros [S T] D Vk Nk Own HO.
    assert (W : wf st) by apply S.
    destruct (proj1 W _ _ Nk) as [_ [_ [Rk [_ [Mk _]]]]].
    assert (Tp : has_tag (heap st) p (tag o')).
    { destruct Own as [[E Tg]|[E Tg]]; rewrite Tg; [rewrite E in Rk; exact Rk|rewrite E in Mk; exact Mk]. }
    assert (NZ : tag o' <> 0%nat) by (destruct Own as [[_ Tg]|[_ Tg]]; rewrite Tg; discriminate).
    split.
    - apply sep_set_list; assumption.
    - intro Tr. destruct (T Tr) as [V [F C]]. specialize (D Tr).
      destruct (tracked_msg st S (T Tr)) as [mi Ni].
      destruct (sep_vars st S k i wk wi Vk V D) as [Dl _].
      destruct (proj1 W _ _ Ni) as [_ [_ [Ri [_ [Mi _]]]]].
      split; [exact V|split; [exact F|]].
      rewrite <- C. eapply cells_set_obj; try eassumption.
      + eapply (tag_neq _ _ _ _ _ Tp); [exists (OMsg mi); split; [exact Ni|reflexivity]|exact NZ].
      + intro E. destruct Own as [[Ek Tg]|[Ek Tg]].
        * apply Dl. eapply (sep_ri st S); eassumption.
        * rewrite E in Ri. rewrite Tg in Tp. eapply (tag_neq _ _ _ _ _ Ri Tp); [discriminate|reflexivity].
      + intro E. destruct Own as [[Ek Tg]|[Ek Tg]].
        * rewrite E in Mi. rewrite Tg in Tp. eapply (tag_neq _ _ _ _ _ Mi Tp); [discriminate|reflexivity].
        * apply Dl. eapply (sep_mi st S); eassumption.
  Qed.

  (* a fresh container installed in another variable's message *)
  Lemma inv_fresh_container st k wk mk o (isri : bool) : Inv st -> (tr = true -> k <> i) -> var st k = Some wk ->
    nth_error (heap st) (w_loc wk) = Some (OMsg mk) ->
    tag o = (if isri then 1 else 3)%nat -> obj_ok (heap st) o ->
    let st1 := fst (alloc st o) in
    let p := snd (alloc st o) in
    let m' := if isri then set_ri mk p else set_mi mk p in
    Inv (put_msg st1 wk m') /\ var (put_msg st1 wk m') k = Some wk /\
    nth_error (heap (put_msg st1 wk m')) (w_loc wk) = Some (OMsg m') /\
    has_tag (heap (put_msg st1 wk m')) p (tag o).
  Proof.
    intros [S T] D Vk Nk Tg HO. cbv zeta.
    assert (W : wf st) by apply S.
    assert (NZ : tag o <> 0%nat) by (rewrite Tg; destruct isri; discriminate).
    assert (HO1 : obj_ok (heap st ++ [o]) o) by (eapply obj_ok_ext; [apply ext_app|exact HO]).
    pose proof (sep_alloc_nonmsg st o S NZ HO1) as S1.
    destruct (wf_alloc st o W HO1) as [W1 [T1 [E1 [F1 V1]]]].
    set (st1 := fst (alloc st o)) in *. set (p := snd (alloc st o)) in *.
    assert (P : p = length (heap st)) by reflexivity.
    assert (Nk1 : nth_error (heap st1) (w_loc wk) = Some (OMsg mk)) by (apply nth_app_old, Nk).
    assert (Vk1 : var st1 k = Some wk) by (unfold var; rewrite V1; exact Vk).
    assert (Fresh : forall t, ref_ok (heap st) t (Some p) -> False).
    { intros t [x [Nx _]]. assert (Lx : (p < length (heap st))%nat) by (apply nth_error_Some; congruence). lia. }
    set (m' := if isri then set_ri mk p else set_mi mk p).
    assert (HOm : obj_ok (heap st1) (OMsg m')).
    { unfold m'. destruct isri; [apply ok_set_ri|apply ok_set_mi];
        try (eapply obj_ok_ext; [exact E1|]; apply (proj1 W _ _ Nk)); rewrite <- Tg; exact T1. }
    assert (Flm : flat m').
    { pose proof (sep_flat st S _ _ Nk) as [X [Y Z]]. unfold m'. destruct isri; repeat split; assumption. }
    assert (I1 : Inv (put_msg st1 wk m')).
    { split.
      - eapply sep_put_msg; try eassumption.
        + intros l2 m2 q D2 N2 R R2. unfold m' in R. destruct isri.
          * simpl in R. inversion R; subst q.
            pose proof (heap_alloc_msg st o l2 m2 NZ N2) as N2o.
            destruct (proj1 W _ _ N2o) as [_ [_ [X _]]]. rewrite R2 in X. eapply Fresh; eassumption.
          * simpl in R. apply D2. eapply (sep_ri st1 S1); eassumption.
        + intros l2 m2 q D2 N2 R R2. unfold m' in R. destruct isri.
          * simpl in R. apply D2. eapply (sep_mi st1 S1); eassumption.
          * simpl in R. inversion R; subst q.
            pose proof (heap_alloc_msg st o l2 m2 NZ N2) as N2o.
            destruct (proj1 W _ _ N2o) as [_ [_ [_ [_ [X _]]]]]. rewrite R2 in X. eapply Fresh; eassumption.
      - intro Tr. destruct (T Tr) as [V [F C]]. specialize (D Tr).
        destruct (sep_vars st S k i wk wi Vk V D) as [Dl _].
        destruct (tracked_msg st S (T Tr)) as [mi Ni].
        assert (Ni1 : nth_error (heap st1) (w_loc wi) = Some (OMsg mi)) by (apply nth_app_old, Ni).
        assert (Vi1 : var st1 i = Some wi) by (unfold var; rewrite V1; exact V).
        assert (Fi1 : flag st1 (w_flag wi) = true) by (unfold flag; rewrite F1; exact F).
        assert (Ci1 : cells st1 i = c0) by (rewrite <- C; apply cells_alloc, W).
        split; [exact Vi1|split; [exact Fi1|]].
        rewrite <- Ci1. unfold put_msg. eapply cells_set_obj; try eassumption.
        + destruct (proj1 W1 _ _ Ni1) as [_ [_ [R _]]]. intro E. rewrite E in R.
          eapply (tag_neq _ _ _ _ _ R); [exists (OMsg mk); split; [exact Nk1|reflexivity]|discriminate|reflexivity].
        + destruct (proj1 W1 _ _ Ni1) as [_ [_ [_ [_ [R _]]]]]. intro E. rewrite E in R.
          eapply (tag_neq _ _ _ _ _ R); [exists (OMsg mk); split; [exact Nk1|reflexivity]|discriminate|reflexivity]. }
    split; [exact I1|]. split; [exact Vk1|]. split.
    - unfold put_msg. rewrite heap_set_obj, Nat.eqb_refl.
      assert (L : (w_loc wk < length (heap st1))%nat) by (apply nth_error_Some; congruence).
      apply Nat.ltb_lt in L. rewrite L. reflexivity.
    - unfold put_msg, set_obj. cbn [heap]. eapply ext_upd; [exact Nk1|reflexivity|exact T1].
  Qed.

  Lemma inv_bind_new st k b : Inv st -> (tr = true -> k <> i) -> Inv (snd (bind_new st k empty_msg b)).
  Proof.
    intros [S T] D. destruct (bind_new_facts st k b S) as [S' [Vo [Co Fo]]]. split; [exact S'|].
    intro Tr. destruct (T Tr) as [V [F C]]. specialize (D Tr).
    assert (Di : i <> k) by congruence.
    split; [rewrite (Vo i Di); exact V|split].
    - rewrite Fo; [exact F|]. apply (proj2 (sep_wf st S) i wi V).
    - rewrite (Co i Di). exact C.
  Qed.

  Lemma inv_set_flag st f : Inv st -> Inv (set_flag st f true).
  Proof.
    intros [S T]. split; [apply sep_set_flag, S|].
    intro Tr. destruct (T Tr) as [V [F C]]. split; [exact V|split; [apply flag_upd_true, F|]].
    rewrite <- C. apply cells_same_heap; reflexivity.
  Qed.
End Frame.

Section Step.
  Variable tr : bool.
  Variable i : nat.
  Variable wi : wrapper.
  Variable c0 : option (msgobj * list Z * list (list Z * Z)).
  Notation Inv := (Inv tr i wi c0).

  Lemma target_case k : (tr = true /\ k = i) \/ (tr = true -> k <> i).
  Proof. destruct tr; [destruct (Nat.eq_dec k i); [left; split; [reflexivity|assumption]|right; intros _; assumption]|right; discriminate]. Qed.

  Lemma frozen_case st o : Inv st -> tr = true -> target o = Some i -> Inv (snd (step st o)).
  Proof.
    intros I Tr T. destruct (proj2 I Tr) as [V [F C]].
    rewrite (proj1 (frozen_blocks_lemma st o i wi T V F)). exact I.
  Qed.

  Lemma rebinds_neq k o : binds o = Some k -> (tr = true -> rebinds i o = false) -> (tr = true -> k <> i).
  Proof. intros B R Tr. specialize (R Tr). unfold rebinds in R. rewrite B in R. apply Nat.eqb_neq, R. Qed.

  Lemma step_inv st o : Inv st -> simple o = true -> (tr = true -> rebinds i o = false) -> Inv (snd (step st o)).
  Proof.
    intros I Sm Rb. pose proof I as [S T]. assert (W : wf st) by apply S.
    destruct o; try discriminate Sm; cbn [step].
    - (* New *) apply inv_bind_new; [exact I|]. apply (rebinds_neq i0 (New i0) eq_refl Rb).
    - (* GetSub *) apply with_msg_P; [exact I|]. intros w m V N.
      destruct (sep_flat st S _ _ N) as [Fs _]. rewrite Fs.
      apply inv_bind_new; [exact I|]. apply (rebinds_neq i0 (GetSub i0 j) eq_refl Rb).
    - (* GetRM *) apply with_msg_P; [exact I|]. intros w m V N.
      destruct (sep_flat st S _ _ N) as [_ [Fr _]]. unfold view_rm. rewrite Fr. exact I.
    - (* GetMM *) apply with_msg_P; [exact I|]. intros w m V N.
      destruct (sep_flat st S _ _ N) as [_ [_ Fm]]. unfold view_mm. rewrite Fm. exact I.
    - (* SetV *) destruct (target_case i0) as [[Tr E]|D]; [subst i0; exact (frozen_case st (SetV i val) I Tr eq_refl)|].
      apply with_mutable_msg_P; [exact I|]. intros w m V N.
      pose proof (msg_ok st w m W N) as HO. pose proof (sep_flat st S _ _ N) as Fl.
      destruct val; try (apply scalar_result_P; [exact I|]; intros zz Czz;
                         eapply inv_put_msg; try eassumption; try reflexivity;
                         apply ok_set_v; [exact HO|eapply conv_int_range, Czz]).
      cbn [snd]. eapply inv_put_msg; try eassumption; try reflexivity. apply ok_set_v; [exact HO|reflexivity].
    - (* SetS *) destruct (target_case i0) as [[Tr E]|D]; [subst i0; exact (frozen_case st (SetS i val) I Tr eq_refl)|].
      apply with_mutable_msg_P; [exact I|]. intros w m V N.
      pose proof (msg_ok st w m W N) as HO. pose proof (sep_flat st S _ _ N) as Fl.
      destruct val; try (apply scalar_result_P; [exact I|]; intros zz Czz;
                         eapply inv_put_msg; try eassumption; try reflexivity; apply ok_set_s, HO).
      cbn [snd]. eapply inv_put_msg; try eassumption; try reflexivity; try (apply ok_set_s, HO).
    - (* ClearSub *) destruct (target_case i0) as [[Tr E]|D]; [subst i0; exact (frozen_case st (ClearSub i) I Tr eq_refl)|].
      apply with_mutable_msg_P; [exact I|]. intros w m V N. cbn [snd].
      pose proof (sep_flat st S _ _ N) as [F1 [F2 F3]].
      eapply inv_put_msg; try eassumption; try reflexivity.
      + apply ok_set_sub; [eapply msg_ok; eassumption|exact Logic.I].
      + repeat split; assumption.
    - (* AppendRI *) destruct (target_case i0) as [[Tr E]|D]; [subst i0; exact (frozen_case st (AppendRI i val) I Tr eq_refl)|].
      apply with_msg_P; [exact I|]. intros w m V N.
      destruct (view_ri st m) as [ll|] eqn:E; [|exact I]. apply (live_list_some st) in E.
      destruct (flag st (w_flag w)); [exact I|].
      apply scalar_result_P; [exact I|]. intros z Cz.
      eapply inv_set_container; try eassumption; [left; split; [exact E|reflexivity]|].
      simpl. apply Forall_app. split; [apply ilist_ok, W|constructor; [eapply conv_int_range, Cz|constructor]].
    - (* SetRI *) destruct (target_case i0) as [[Tr E]|D]; [subst i0; exact (frozen_case st (SetRI i k val) I Tr eq_refl)|].
      apply with_msg_P; [exact I|]. intros w m V N.
      destruct (view_ri st m) as [ll|] eqn:E; [|exact I]. apply (live_list_some st) in E.
      destruct (negb (Nat.ltb k (length (ilist_at st ll)))); [exact I|].
      destruct (flag st (w_flag w)); [exact I|].
      apply scalar_result_P; [exact I|]. intros z Cz.
      eapply inv_set_container; try eassumption; [left; split; [exact E|reflexivity]|].
      simpl. apply Forall_upd; [apply ilist_ok, W|eapply conv_int_range, Cz].
    - (* AssignRI *) destruct (target_case i0) as [[Tr E]|D]; [subst i0; exact (frozen_case st (AssignRI i j) I Tr eq_refl)|].
      apply with_msg_P; [exact I|]. intros wj mj Vj Nj.
      apply with_mutable_msg_P; [exact I|]. intros w m V N.
      set (elems := match view_ri st mj with Some ll => ilist_at st ll | None => [] end).
      assert (He : Forall i64 elems) by (unfold elems; destruct (view_ri st mj); [apply ilist_ok, W|constructor]).
      unfold mutable_field. destruct (f_ri m) as [p|] eqn:R.
      + cbn [snd]. eapply inv_set_container; try eassumption; try exact He; try (left; split; [exact R|reflexivity]).
      + destruct (inv_fresh_container tr i wi c0 st i0 w m (OIList []) true I D V N eq_refl) as [I1 [V1 [N1 T1]]]; [constructor|].
        cbv zeta in I1, V1, N1, T1. unfold alloc in *. cbn [fst snd] in *.
        eapply inv_set_container; try eassumption; try exact He; try (left; split; [reflexivity|reflexivity]).
    - (* AssignRIList *) destruct (target_case i0) as [[Tr E]|D]; [subst i0; exact (frozen_case st (AssignRIList i vals) I Tr eq_refl)|].
      apply with_mutable_msg_P; [exact I|]. intros w m V N.
      destruct (conv_ints vals) as [zs| |] eqn:Cz; try exact I.
      pose proof (conv_ints_range _ _ Cz) as He.
      unfold mutable_field. destruct (f_ri m) as [p|] eqn:R.
      + cbn [snd]. eapply inv_set_container; try eassumption; try exact He; try (left; split; [exact R|reflexivity]).
      + destruct (inv_fresh_container tr i wi c0 st i0 w m (OIList []) true I D V N eq_refl) as [I1 [V1 [N1 T1]]]; [constructor|].
        cbv zeta in I1, V1, N1, T1. unfold alloc in *. cbn [fst snd] in *.
        eapply inv_set_container; try eassumption; try exact He; try (left; split; [reflexivity|reflexivity]).
    - (* SetMI *) destruct (target_case i0) as [[Tr E]|D]; [subst i0; exact (frozen_case st (SetMI i key val) I Tr eq_refl)|].
      apply with_msg_P; [exact I|]. intros w m V N.
      destruct (view_mi st m) as [ml|] eqn:E; [|exact I]. apply (live_list_some st) in E.
      destruct (flag st (w_flag w)); [exact I|].
      apply scalar_result_P; [exact I|]. intros z Cz.
      eapply inv_set_container; try eassumption; [right; split; [exact E|reflexivity]|].
      simpl. apply Forall_smap_put; [apply imap_ok, W|eapply conv_int_range, Cz].
    - (* AssignMI *) destruct (target_case i0) as [[Tr E]|D]; [subst i0; exact (frozen_case st (AssignMI i j) I Tr eq_refl)|].
      apply with_msg_P; [exact I|]. intros wj mj Vj Nj.
      apply with_mutable_msg_P; [exact I|]. intros w m V N.
      set (entries := match view_mi st mj with Some ml => imap_at st ml | None => [] end).
      assert (He : Forall (fun e : list Z * Z => i64 (snd e)) entries) by (unfold entries; destruct (view_mi st mj); [apply imap_ok, W|constructor]).
      destruct (inv_fresh_container tr i wi c0 st i0 w m (OIMap entries) false I D V N eq_refl He) as [I1 _].
      cbv zeta in I1. unfold alloc in *. cbn [fst snd] in *. exact I1.
    - (* AssignMIDict *) destruct (target_case i0) as [[Tr E]|D]; [subst i0; exact (frozen_case st (AssignMIDict i key val) I Tr eq_refl)|].
      apply with_mutable_msg_P; [exact I|]. intros w m V N.
      destruct (inv_fresh_container tr i wi c0 st i0 w m (OIMap []) false I D V N eq_refl) as [I1 [V1 [N1 T1]]]; [constructor|].
      cbv zeta in I1, V1, N1, T1. unfold alloc in *. cbn [fst snd] in *.
      destruct (conv_int val) as [z| |] eqn:Cz; try exact I1. cbn [snd].
      eapply inv_set_container; try eassumption; [right; split; [reflexivity|reflexivity]|].
      simpl. constructor; [eapply conv_int_range, Cz|constructor].
    - (* Freeze *) destruct (var st i0); [apply inv_set_flag, I|exact I].
  Qed.

  Lemma run_inv : forall ops st, Inv st -> forallb simple ops = true ->
    (tr = true -> forallb (fun o => negb (rebinds i o)) ops = true) -> Inv (snd (run st ops)).
  Proof.
    induction ops as [|o r IH]; intros st I Sm Rb; [exact I|].
    cbn [forallb] in Sm. apply andb_true_iff in Sm. destruct Sm as [So Sr].
    assert (Ro : tr = true -> rebinds i o = false).
    { intro Tr. specialize (Rb Tr). cbn [forallb] in Rb. apply andb_true_iff in Rb. apply negb_true_iff, Rb. }
    assert (Rr : tr = true -> forallb (fun o => negb (rebinds i o)) r = true).
    { intro Tr. specialize (Rb Tr). cbn [forallb] in Rb. apply andb_true_iff in Rb. apply Rb. }
    cbn [run]. pose proof (step_inv st o I So Ro) as I1. destruct (step st o) as [res st1]. cbn [snd] in I1.
    pose proof (IH st1 I1 Sr Rr) as I2. destruct (run st1 r) as [rs st2]. exact I2.
  Qed.
End Step.

Lemma mutable_field_vars st w m cur fresh store : vars (fst (mutable_field st w m cur fresh store)) = vars st.
Proof. unfold mutable_field. destruct cur; reflexivity. Qed.

Lemma sep_init n : sep (init n).
Proof.
  assert (V : forall i w, var (init n) i = Some w -> False).
  { intros i w H. unfold var, init in H. cbn [vars] in H.
    destruct (nth_error (repeat None n) i) as [[x|]|] eqn:E; try discriminate.
    apply nth_error_In, repeat_spec in E. discriminate. }
  constructor.
  - apply init_wf.
  - intros l m N. destruct l; discriminate.
  - intros i k wi wk Vi. exfalso. eapply V, Vi.
  - intros l1 l2 m1 m2 p N. destruct l1; discriminate.
  - intros l1 l2 m1 m2 p N. destruct l1; discriminate.
Qed.

Lemma run_app st a b : run st (a ++ b) = (fst (run st a) ++ fst (run (snd (run st a)) b), snd (run (snd (run st a)) b)).
Proof.
  revert st. induction a as [|o a IH]; intro st; cbn [app run fst snd].
  - destruct (run st b); reflexivity.
  - destruct (step st o) as [r st1]. rewrite IH. destruct (run st1 a) as [ra sa]. cbn [fst snd].
    destruct (run sa b); reflexivity.
Qed.

(* freeze soundness for histories without copy / aliasing operations: once x_i is
   frozen, nothing that does not rebind the variable changes what x_i reads back *)
Lemma freeze_sound_partial_lemma n ops1 i ops2 f :
  forallb simple (ops1 ++ Freeze i :: ops2) = true ->
  forallb (fun o => negb (rebinds i o)) ops2 = true ->
  let st1 := snd (run (init n) (ops1 ++ [Freeze i])) in
  dump_var (S f) (snd (run st1 ops2)) i = dump_var (S f) st1 i.
Proof.
  intros Sm Rb st1.
  rewrite forallb_app in Sm. apply andb_true_iff in Sm. destruct Sm as [S1 S2].
  cbn [forallb] in S2. apply andb_true_iff in S2. destruct S2 as [_ S2].
  (* separation after the prefix (nothing tracked) *)
  assert (I1 : Inv false i {| w_loc := 0; w_flag := 0 |} None st1).
  { unfold st1. apply run_inv.
    - split; [apply sep_init|discriminate].
    - rewrite forallb_app. rewrite S1. reflexivity.
    - discriminate. }
  destruct I1 as [Sep _].
  destruct (var st1 i) as [wi|] eqn:V.
  - (* the Freeze has set the flag of x_i *)
    assert (F : flag st1 (w_flag wi) = true).
    { unfold st1 in *. rewrite run_app in *. cbn [snd run step] in *.
      set (st0 := snd (run (init n) ops1)) in *.
      destruct (var st0 i) as [w0|] eqn:V0; cbn [snd] in *.
      - change (var (set_flag st0 (w_flag w0) true) i) with (var st0 i) in V. rewrite V0 in V. inversion V; subst w0.
        unfold flag, set_flag. cbn [flags].
        assert (W0 : wf st0).
        { unfold st0. apply run_wf, init_wf. }
        destruct (proj2 W0 i wi V0) as [_ L].
        erewrite nth_error_nth; [reflexivity|]. apply nth_error_upd_eq, L.
      - rewrite V0 in V. discriminate. }
    assert (I2 : Inv true i wi (cells st1 i) (snd (run st1 ops2))).
    { apply run_inv; [split; [exact Sep|intros _; repeat split; assumption]|exact S2|intros _; exact Rb]. }
    destruct I2 as [Sep2 T2]. destruct (T2 eq_refl) as [V2 [F2 C2]].
    rewrite (dump_flat _ i f (sep_flat _ Sep2)), (dump_flat _ i f (sep_flat _ Sep)), C2. reflexivity.
  - (* x_i was unset: it stays unset (no operation of ops2 binds it) *)
    assert (U : forall ops st, var st i = None -> forallb (fun o => negb (rebinds i o)) ops = true -> var (snd (run st ops)) i = None).
    { clear. induction ops as [|o r IH]; intros st V Rb; [exact V|].
      cbn [forallb] in Rb. apply andb_true_iff in Rb. destruct Rb as [Ro Rr]. apply negb_true_iff in Ro.
      cbn [run]. destruct (step st o) as [res st'] eqn:St.
      assert (V' : var st' i = None).
      { assert (B : forall k m b, k <> i -> var (snd (bind_new st k m b)) i = None).
        { intros k m b D. unfold bind_new. destruct (Nat.ltb k (length (vars st))); [|exact V].
          cbn [alloc alloc_flag snd]. rewrite var_set_var. apply Nat.eqb_neq in D. rewrite D. exact V. }
        assert (B2 : forall k l fl, k <> i ->
                  var (snd (if Nat.ltb k (length (vars st)) then (ROk, set_var st k {| w_loc := l; w_flag := fl |}) else (RUnset, st))) i = None).
        { intros k l fl D. destruct (Nat.ltb k (length (vars st))); [|exact V]. cbn [snd]. rewrite var_set_var.
          apply Nat.eqb_neq in D. rewrite D. exact V. }
        assert (Hs : snd (step st o) = st').
        { rewrite St. reflexivity. }
        rewrite <- Hs. clear St Hs.
        destruct o; cbn [step]; unfold rebinds in Ro; cbn [binds] in Ro;
          try (apply Nat.eqb_neq in Ro);
          repeat first
            [ exact V
            | apply B; assumption
            | apply B2; assumption
            | apply (with_msg_P (fun s => var s i = None)); [exact V|intros ? ? ? ?]
            | apply (with_mutable_msg_P (fun s => var s i = None)); [exact V|intros ? ? ? ?]
            | apply (scalar_result_P (fun s => var s i = None)); [exact V|intros ? ?]
            | match goal with
              | |- context [mutable_field ?a ?b ?c ?d ?e ?f] =>
                  let H := fresh "MV" in
                  pose proof (mutable_field_vars a b c d e f) as H;
                  destruct (mutable_field a b c d e f); cbn [fst] in H
              end
            | progress (unfold alloc; cbv beta iota zeta)
            | match goal with |- context [match ?x with _ => _ end] => destruct x end ];
          try (cbn [snd]; unfold var, set_obj; cbn [vars];
               match goal with MV : vars _ = vars st |- _ => rewrite MV end; exact V). }
      pose proof (IH st' V' Rr) as R. destruct (run st' r). exact R. }
    unfold dump_var. rewrite (U ops2 st1 V Rb), V. reflexivity.
Qed.
