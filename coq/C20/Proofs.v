(* C20 -- lemmas. *)
From Coq Require Import ZArith Bool List Lia.
From SV Require Import Common.GoInt C20.Model C20.Spec.
Import ListNotations.
Open Scope Z_scope.
