(* C20 -- lemmas are in ProofsKinds.v (scalar kinds), ProofsWf.v (typed invariant),
   ProofsFreeze.v (frozen flags, refutation witnesses), ProofsSep.v (freeze
   soundness without sharing); this file re-exports them. *)
From SV Require Export C20.ProofsKinds C20.ProofsWf C20.ProofsFreeze C20.ProofsSep.
