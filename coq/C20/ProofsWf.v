(* C20 -- the typed / shape invariant of the message heap is preserved by every
   operation (hence by every history). *)
From Coq Require Import ZArith Bool List Lia.
From SV Require Import Common.GoInt C20.Kinds C20.Store C20.Spec C20.ProofsKinds.
Import ListNotations.
Open Scope Z_scope.

Definition tag (o : obj) : nat :=
  match o with OMsg _ => 0 | OIList _ => 1 | OMList _ => 2 | OIMap _ => 3 | OMMap _ => 4 end%nat.
Definition has_tag (h : list obj) (l t : nat) : Prop := exists o, nth_error h l = Some o /\ tag o = t.
Definition ref_ok (h : list obj) (t : nat) (r : option nat) : Prop :=
  match r with None => True | Some l => has_tag h l t end.
Definition i64 (z : Z) : Prop := in_int64 z = true.

(* an object holds only values of its declared kind: int64 scalars in range, and
   references to objects of the right sort *)
Definition obj_ok (h : list obj) (o : obj) : Prop :=
  match o with
  | OMsg m => i64 (f_v m) /\ ref_ok h 0 (f_sub m) /\ ref_ok h 1 (f_ri m) /\ ref_ok h 2 (f_rm m) /\
              ref_ok h 3 (f_mi m) /\ ref_ok h 4 (f_mm m)
  | OIList l => Forall i64 l
  | OMList l => Forall (fun p => has_tag h p 0) l
  | OIMap kv => Forall (fun e => i64 (snd e)) kv
  | OMMap kv => Forall (fun e => has_tag h (snd e) 0) kv
  end.

Definition heap_ok (h : list obj) : Prop := forall l o, nth_error h l = Some o -> obj_ok h o.

Definition wf (st : state) : Prop :=
  heap_ok (heap st) /\
  (forall i w, var st i = Some w -> has_tag (heap st) (w_loc w) 0 /\ (w_flag w < length (flags st))%nat).

(* ---------- lists ---------- *)
Lemma nth_error_upd_eq {A} (l : list A) : forall i x, (i < length l)%nat -> nth_error (upd i x l) i = Some x.
Proof. induction l as [|y l IH]; intros [|i] x H; simpl in *; try lia; [reflexivity|]. apply IH. lia. Qed.

Lemma nth_error_upd_neq {A} (l : list A) : forall i j x, i <> j -> nth_error (upd i x l) j = nth_error l j.
Proof.
  induction l as [|y l IH]; intros [|i] [|j] x H; simpl; try reflexivity; try congruence.
  apply IH. congruence.
Qed.

Lemma upd_length {A} (l : list A) : forall i x, length (upd i x l) = length l.
Proof. induction l as [|y l IH]; intros [|i] x; simpl; try reflexivity. rewrite IH. reflexivity. Qed.

Lemma nth_error_upd {A} (l : list A) i j x :
  nth_error (upd i x l) j = if Nat.eqb i j then (if Nat.ltb i (length l) then Some x else None) else nth_error l j.
Proof.
  destruct (Nat.eqb_spec i j) as [E|E].
  - subst. destruct (Nat.ltb_spec j (length l)) as [L|L].
    + apply nth_error_upd_eq, L.
    + apply nth_error_None. rewrite upd_length. exact L.
  - apply nth_error_upd_neq, E.
Qed.

(* ---------- heap extension ---------- *)
Definition ext (h h' : list obj) : Prop := forall l t, has_tag h l t -> has_tag h' l t.

Lemma ext_refl h : ext h h.
Proof. intros l t H. exact H. Qed.

Lemma ext_trans h1 h2 h3 : ext h1 h2 -> ext h2 h3 -> ext h1 h3.
Proof. intros A B l t H. apply B, A, H. Qed.

Lemma ext_app h o : ext h (h ++ [o]).
Proof.
  intros l t [x [N T]]. exists x. split; [|exact T].
  rewrite nth_error_app1; [exact N|]. apply nth_error_Some. congruence.
Qed.

Lemma ext_upd h l o o' : nth_error h l = Some o -> tag o' = tag o -> ext h (upd l o' h).
Proof.
  intros N T p t [x [Nx Tx]]. unfold has_tag. rewrite (nth_error_upd h l p o').
  destruct (Nat.eqb_spec l p) as [E|E].
  - subst p. assert (L : (l < length h)%nat) by (apply nth_error_Some; congruence).
    apply Nat.ltb_lt in L. rewrite L. exists o'. split; [reflexivity|]. rewrite N in Nx. inversion Nx; subst. congruence.
  - exists x. split; assumption.
Qed.

Lemma ref_ok_ext h h' t r : ext h h' -> ref_ok h t r -> ref_ok h' t r.
Proof. intros E H. destruct r; [apply E, H|exact I]. Qed.

Lemma obj_ok_ext h h' o : ext h h' -> obj_ok h o -> obj_ok h' o.
Proof.
  intros E H. destruct o as [m|l|l|kv|kv]; simpl in *.
  - destruct H as [A [B [C [D [F G]]]]]. repeat split; try assumption; eapply ref_ok_ext; eassumption.
  - exact H.
  - eapply Forall_impl; [|exact H]. intros p Hp. apply E, Hp.
  - exact H.
  - eapply Forall_impl; [|exact H]. intros p Hp. apply E, Hp.
Qed.

Lemma heap_ok_app h o : heap_ok h -> obj_ok (h ++ [o]) o -> heap_ok (h ++ [o]).
Proof.
  intros H HO l x N.
  destruct (Nat.ltb_spec l (length h)) as [L|L].
  - rewrite nth_error_app1 in N by exact L. eapply obj_ok_ext; [apply ext_app|]. eapply H, N.
  - rewrite nth_error_app2 in N by exact L.
    destruct (l - length h)%nat as [|k]; simpl in N; [inversion N; subst; exact HO|].
    destruct k; discriminate.
Qed.

Lemma heap_ok_upd h l o o' : heap_ok h -> nth_error h l = Some o -> tag o' = tag o ->
  obj_ok (upd l o' h) o' -> heap_ok (upd l o' h).
Proof.
  intros H N T HO p x Np. rewrite nth_error_upd in Np.
  destruct (Nat.eqb_spec l p) as [E|E].
  - destruct (Nat.ltb l (length h)); try discriminate. inversion Np; subst. exact HO.
  - eapply obj_ok_ext; [eapply ext_upd; eassumption|]. eapply H, Np.
Qed.

(* ---------- variables ---------- *)
Lemma var_set_var st i w k :
  var (set_var st i w) k = if Nat.eqb i k then (if Nat.ltb i (length (vars st)) then Some w else None) else var st k.
Proof.
  unfold var, set_var. cbn [vars]. rewrite nth_error_upd.
  destruct (Nat.eqb i k); [|reflexivity]. destruct (Nat.ltb i (length (vars st))); reflexivity.
Qed.

Lemma wf_vars_only st st' : heap st' = heap st -> length (flags st') = length (flags st) ->
  vars st' = vars st -> wf st -> wf st'.
Proof.
  intros Hh Hf Hv [A B]. split.
  - rewrite Hh. exact A.
  - intros i w V. unfold var in V. rewrite Hv in V. rewrite Hh, Hf. apply (B i w). exact V.
Qed.

Lemma wf_set_flag st f b : wf st -> wf (set_flag st f b).
Proof. apply wf_vars_only; try reflexivity. simpl. apply upd_length. Qed.

Lemma wf_set_var st i w : wf st -> has_tag (heap st) (w_loc w) 0 -> (w_flag w < length (flags st))%nat -> wf (set_var st i w).
Proof.
  intros [A B] T F. split; [exact A|].
  intros k w' V. rewrite var_set_var in V. cbn [set_var heap flags].
  destruct (Nat.eqb i k).
  - destruct (Nat.ltb i (length (vars st))); inversion V; subst. split; assumption.
  - apply (B k w' V).
Qed.

Lemma wf_heap_change st h' : wf st -> ext (heap st) h' -> heap_ok h' ->
  wf {| heap := h'; flags := flags st; vars := vars st |}.
Proof.
  intros [A B] E H. split; [exact H|].
  intros i w V. destruct (B i w V) as [T F]. split; [apply E, T|exact F].
Qed.

Lemma wf_set_obj st l o o' : wf st -> nth_error (heap st) l = Some o -> tag o' = tag o ->
  obj_ok (upd l o' (heap st)) o' -> wf (set_obj st l o').
Proof.
  intros W N T HO. unfold set_obj. apply wf_heap_change; [exact W|eapply ext_upd; eassumption|].
  eapply heap_ok_upd; try eassumption. apply W.
Qed.

Lemma wf_alloc st o : wf st -> obj_ok (heap st ++ [o]) o ->
  wf (fst (alloc st o)) /\ has_tag (heap (fst (alloc st o))) (snd (alloc st o)) (tag o) /\
  ext (heap st) (heap (fst (alloc st o))) /\ flags (fst (alloc st o)) = flags st /\ vars (fst (alloc st o)) = vars st.
Proof.
  intros W HO. unfold alloc. cbn [fst snd heap flags vars].
  split; [split|split; [|split; [|split; reflexivity]]].
  - apply heap_ok_app; [apply W|exact HO].
  - intros i w V. destruct W as [A B]. destruct (B i w V) as [T F]. split; [apply ext_app, T|exact F].
  - exists o. split; [|reflexivity]. rewrite nth_error_app2 by lia. rewrite Nat.sub_diag. reflexivity.
  - apply ext_app.
Qed.

Lemma wf_alloc_flag st b : wf st ->
  wf (fst (alloc_flag st b)) /\ (snd (alloc_flag st b) < length (flags (fst (alloc_flag st b))))%nat /\
  heap (fst (alloc_flag st b)) = heap st /\ vars (fst (alloc_flag st b)) = vars st.
Proof.
  intros [A B]. unfold alloc_flag. cbn [fst snd heap flags vars].
  split; [split|split; [|split; reflexivity]].
  - exact A.
  - intros i w V. destruct (B i w V) as [T F]. split; [exact T|]. cbn [flags]. rewrite app_length. simpl. lia.
  - rewrite app_length. simpl. lia.
Qed.

(* ---------- reading the heap ---------- *)
Lemma msg_at_nth st l m : msg_at st l = Some m <-> nth_error (heap st) l = Some (OMsg m).
Proof.
  unfold msg_at, obj_at. split; intro H.
  - destruct (nth_error (heap st) l) as [[x| | | |]|]; try discriminate. inversion H. reflexivity.
  - rewrite H. reflexivity.
Qed.

Lemma ilist_ok st l : heap_ok (heap st) -> Forall i64 (ilist_at st l).
Proof.
  intro H. unfold ilist_at, obj_at. destruct (nth_error (heap st) l) as [[x|x|x|x|x]|] eqn:N; try constructor.
  apply (H l _ N).
Qed.
Lemma mlist_ok st l : heap_ok (heap st) -> Forall (fun p => has_tag (heap st) p 0) (mlist_at st l).
Proof.
  intro H. unfold mlist_at, obj_at. destruct (nth_error (heap st) l) as [[x|x|x|x|x]|] eqn:N; try constructor.
  apply (H l _ N).
Qed.
Lemma imap_ok st l : heap_ok (heap st) -> Forall (fun e : list Z * Z => i64 (snd e)) (imap_at st l).
Proof.
  intro H. unfold imap_at, obj_at. destruct (nth_error (heap st) l) as [[x|x|x|x|x]|] eqn:N; try constructor.
  apply (H l _ N).
Qed.
Lemma mmap_ok st l : heap_ok (heap st) -> Forall (fun e : list Z * nat => has_tag (heap st) (snd e) 0) (mmap_at st l).
Proof.
  intro H. unfold mmap_at, obj_at. destruct (nth_error (heap st) l) as [[x|x|x|x|x]|] eqn:N; try constructor.
  apply (H l _ N).
Qed.

Lemma Forall_upd {A} (P : A -> Prop) (l : list A) : forall k x, Forall P l -> P x -> Forall P (upd k x l).
Proof.
  induction l as [|y l IH]; intros [|k] x H Px; simpl; try constructor; inversion H; subst; try assumption.
  apply IH; assumption.
Qed.

Lemma Forall_smap_put {A} (P : list Z * A -> Prop) k v (m : list (list Z * A)) :
  Forall P m -> P (k, v) -> Forall P (smap_put k v m).
Proof.
  induction m as [|[k' v'] m IH]; intros H Pk; simpl; [constructor; [exact Pk|constructor]|].
  inversion H; subst.
  destruct (bytes_eqb k k'); [constructor; assumption|].
  destruct (lex_ltb k k'); [constructor; assumption|].
  constructor; [assumption|]. apply IH; assumption.
Qed.

Lemma live_list_some st o len l : live_list st o len = Some l -> o = Some l.
Proof. unfold live_list. destruct o as [x|]; [|discriminate]. destruct (Nat.eqb (len x) 0); [discriminate|]. exact (fun H => H). Qed.

Lemma conv_int_range v z : conv_int v = Stored z -> i64 z.
Proof.
  unfold conv_int, conv, to_proto. destruct v; try discriminate.
  unfold i64. destruct (in_int64 z0) eqn:R; [|discriminate]. intro H. inversion H. subst. exact R.
Qed.

Lemma conv_ints_range vs : forall zs, conv_ints vs = Stored zs -> Forall i64 zs.
Proof.
  induction vs as [|v r IH]; intros zs H; simpl in H.
  - inversion H. constructor.
  - destruct (conv_int v) as [z| |] eqn:C; try discriminate.
    destruct (conv_ints r) as [zs'| |]; try discriminate. inversion H; subst.
    constructor; [eapply conv_int_range, C|apply IH; reflexivity].
Qed.

(* ---------- state updates ---------- *)
Lemma wf_set_obj_same st l o' : wf st -> has_tag (heap st) l (tag o') -> obj_ok (heap st) o' -> wf (set_obj st l o').
Proof.
  intros W [o [N T]] HO. eapply wf_set_obj; try eassumption; [congruence|].
  eapply obj_ok_ext; [|exact HO]. eapply ext_upd; [exact N|congruence].
Qed.

Lemma wf_put_msg st w m m' : wf st -> nth_error (heap st) (w_loc w) = Some (OMsg m) ->
  obj_ok (heap st) (OMsg m') -> wf (put_msg st w m').
Proof.
  intros W N HO. unfold put_msg. apply wf_set_obj_same; [exact W| |exact HO].
  exists (OMsg m). split; [exact N|reflexivity].
Qed.

Lemma wf_bind_new st i m b : wf st -> obj_ok (heap st) (OMsg m) -> wf (snd (bind_new st i m b)).
Proof.
  intros W HO. unfold bind_new. destruct (Nat.ltb i (length (vars st))); [|exact W].
  destruct (alloc st (OMsg m)) as [st1 l] eqn:A.
  destruct (alloc_flag st1 b) as [st2 f] eqn:F. cbn [snd].
  destruct (wf_alloc st (OMsg m) W) as [W1 [T1 [E1 _]]].
  { eapply obj_ok_ext; [apply ext_app|exact HO]. }
  rewrite A in *. cbn [fst snd] in *.
  destruct (wf_alloc_flag st1 b W1) as [W2 [L2 [H2 _]]]. rewrite F in *. cbn [fst snd] in *.
  apply wf_set_var; [exact W2|rewrite H2; exact T1|exact L2].
Qed.

Lemma with_msg_wf st i k : wf st ->
  (forall w m, var st i = Some w -> nth_error (heap st) (w_loc w) = Some (OMsg m) -> wf (snd (k w m))) ->
  wf (snd (with_msg st i k)).
Proof.
  intros W H. unfold with_msg. destruct (var st i) as [w|] eqn:V; [|exact W].
  destruct (msg_at st (w_loc w)) as [m|] eqn:M; [|exact W].
  apply H; [reflexivity|apply msg_at_nth, M].
Qed.

Lemma with_mutable_msg_wf st i k : wf st ->
  (forall w m, var st i = Some w -> nth_error (heap st) (w_loc w) = Some (OMsg m) -> wf (snd (k w m))) ->
  wf (snd (with_mutable_msg st i k)).
Proof.
  intros W H. unfold with_mutable_msg. apply with_msg_wf; [exact W|].
  intros w m V N. destruct (flag st (w_flag w)); [exact W|]. apply H; assumption.
Qed.

Lemma scalar_result_wf {A} st (c : outcome A) k : wf st -> (forall a, c = Stored a -> wf (k a)) -> wf (snd (scalar_result st c k)).
Proof. intros W H. unfold scalar_result. destruct c; [apply H; reflexivity|exact W|exact W]. Qed.

Lemma msg_ok st w m : wf st -> nth_error (heap st) (w_loc w) = Some (OMsg m) -> obj_ok (heap st) (OMsg m).
Proof. intros W N. apply (proj1 W _ _ N). Qed.

(* msg.Mutable(field): afterwards the field refers to an object of the right sort *)
Lemma mutable_field_wf st w m cur fresh store t :
  wf st -> nth_error (heap st) (w_loc w) = Some (OMsg m) ->
  ref_ok (heap st) t cur -> tag fresh = t -> (forall h, obj_ok h fresh) ->
  (forall h l, obj_ok h (OMsg m) -> has_tag h l t -> obj_ok h (OMsg (store m l))) ->
  wf (fst (mutable_field st w m cur fresh store)) /\
  has_tag (heap (fst (mutable_field st w m cur fresh store))) (snd (mutable_field st w m cur fresh store)) t /\
  ext (heap st) (heap (fst (mutable_field st w m cur fresh store))).
Proof.
  intros W N R T F S. unfold mutable_field. destruct cur as [l|].
  - cbn [fst snd]. split; [exact W|]. split; [exact R|apply ext_refl].
  - destruct (alloc st fresh) as [st1 l] eqn:A. cbn [fst snd].
    destruct (wf_alloc st fresh W (F _)) as [W1 [T1 [E1 _]]]. rewrite A in *. cbn [fst snd] in *.
    assert (N1 : nth_error (heap st1) (w_loc w) = Some (OMsg m)).
    { unfold alloc in A. inversion A. cbn [heap]. rewrite nth_error_app1; [exact N|]. apply nth_error_Some. congruence. }
    assert (W2 : wf (put_msg st1 w (store m l))).
    { eapply wf_put_msg; [exact W1|exact N1|]. apply S; [|rewrite <- T; exact T1].
      eapply obj_ok_ext; [exact E1|]. eapply msg_ok; eassumption. }
    assert (E2 : ext (heap st1) (heap (put_msg st1 w (store m l)))).
    { unfold put_msg, set_obj. cbn [heap]. eapply ext_upd; [exact N1|reflexivity]. }
    split; [exact W2|]. split; [apply E2; rewrite <- T; exact T1|]. eapply ext_trans; eassumption.
Qed.

(* ---------- field updates of a message object ---------- *)
Lemma ok_set_v h m z : obj_ok h (OMsg m) -> i64 z -> obj_ok h (OMsg (set_v m z)).
Proof. intros [A [B [C [D [F G]]]]] Z. simpl. repeat split; assumption. Qed.
Lemma ok_set_s h m s : obj_ok h (OMsg m) -> obj_ok h (OMsg (set_s m s)).
Proof. intros [A [B [C [D [F G]]]]]. simpl. repeat split; assumption. Qed.
Lemma ok_set_sub h m o : obj_ok h (OMsg m) -> ref_ok h 0 o -> obj_ok h (OMsg (set_sub m o)).
Proof. intros [A [B [C [D [F G]]]]] R. simpl. repeat split; assumption. Qed.
Lemma ok_set_ri h m l : obj_ok h (OMsg m) -> has_tag h l 1 -> obj_ok h (OMsg (set_ri m l)).
Proof. intros [A [B [C [D [F G]]]]] R. simpl. repeat split; assumption. Qed.
Lemma ok_set_rm h m l : obj_ok h (OMsg m) -> has_tag h l 2 -> obj_ok h (OMsg (set_rm m l)).
Proof. intros [A [B [C [D [F G]]]]] R. simpl. repeat split; assumption. Qed.
Lemma ok_set_mi h m l : obj_ok h (OMsg m) -> has_tag h l 3 -> obj_ok h (OMsg (set_mi m l)).
Proof. intros [A [B [C [D [F G]]]]] R. simpl. repeat split; assumption. Qed.
Lemma ok_set_mm h m l : obj_ok h (OMsg m) -> has_tag h l 4 -> obj_ok h (OMsg (set_mm m l)).
Proof. intros [A [B [C [D [F G]]]]] R. simpl. repeat split; assumption. Qed.

Lemma ref_ok_live st h t o len : ref_ok h t o -> ref_ok h t (live_list st o len).
Proof.
  intro R. destruct (live_list st o len) as [l|] eqn:E; [|exact I].
  apply live_list_some in E. subst. exact R.
Qed.

Lemma view_tag st h t o len l : ref_ok h t o -> live_list st o len = Some l -> has_tag h l t.
Proof. intros R E. apply live_list_some in E. subst. exact R. Qed.

Lemma smap_get_Forall {A} (P : list Z * A -> Prop) k (m : list (list Z * A)) v :
  Forall P m -> smap_get k m = Some v -> exists k', P (k', v).
Proof.
  induction m as [|[k' v'] m IH]; intros H G; simpl in G; [discriminate|].
  inversion H; subst. destruct (bytes_eqb k k'); [inversion G; subst; exists k'; assumption|].
  apply IH; assumption.
Qed.

Lemma nth_app_old (h : list obj) o l x : nth_error h l = Some x -> nth_error (h ++ [o]) l = Some x.
Proof. intro N. rewrite nth_error_app1; [exact N|]. apply nth_error_Some. congruence. Qed.

Lemma bind_var_wf st i l f : wf st -> has_tag (heap st) l 0 -> (f < length (flags st))%nat ->
  wf (snd (if Nat.ltb i (length (vars st)) then (ROk, set_var st i {| w_loc := l; w_flag := f |}) else (RUnset, st))).
Proof.
  intros W T F. destruct (Nat.ltb i (length (vars st))); [|exact W]. cbn [snd]. apply wf_set_var; assumption.
Qed.

(* every operation preserves the invariant *)
Lemma step_wf st o : wf st -> wf (snd (step st o)).
Proof.
  intro W. destruct o; cbn [step].
  - (* New *) apply wf_bind_new; [exact W|]. simpl. repeat split; reflexivity.
  - (* Copy *) apply with_msg_wf; [exact W|]. intros w m V N.
    apply wf_bind_new; [exact W|]. destruct (msg_ok st w m W N) as [A [B [C [D [F G]]]]].
    simpl. repeat split; try assumption; apply ref_ok_live; assumption.
  - (* GetSub *) apply with_msg_wf; [exact W|]. intros w m V N.
    destruct (msg_ok st w m W N) as [A [B [C [D [F G]]]]].
    destruct (f_sub m) as [l|] eqn:S.
    + apply bind_var_wf; [exact W|exact B|apply (proj2 W j w V)].
    + apply wf_bind_new; [exact W|]. simpl. repeat split; reflexivity.
  - (* GetRM *) apply with_msg_wf; [exact W|]. intros w m V N.
    destruct (view_rm st m) as [ll|] eqn:E; [|exact W].
    destruct (nth_error (mlist_at st ll) k) as [l|] eqn:K; [|exact W].
    apply bind_var_wf; [exact W| |apply (proj2 W j w V)].
    pose proof (mlist_ok st ll (proj1 W)) as Fa. rewrite Forall_forall in Fa. apply Fa. eapply nth_error_In, K.
  - (* GetMM *) apply with_msg_wf; [exact W|]. intros w m V N.
    destruct (view_mm st m) as [ml|] eqn:E; [|exact W].
    destruct (smap_get key (mmap_at st ml)) as [l|] eqn:K; [|exact W].
    apply bind_var_wf; [exact W| |apply (proj2 W j w V)].
    destruct (smap_get_Forall _ key _ l (mmap_ok st ml (proj1 W)) K) as [k' P]. exact P.
  - (* SetV *) apply with_mutable_msg_wf; [exact W|]. intros w m V N.
    pose proof (msg_ok st w m W N) as HO.
    destruct val; try (apply scalar_result_wf; [exact W|]; intros zz Czz; eapply wf_put_msg; [exact W|exact N|];
                       apply ok_set_v; [exact HO|eapply conv_int_range, Czz]).
    cbn [snd]. eapply wf_put_msg; [exact W|exact N|]. apply ok_set_v; [exact HO|reflexivity].
  - (* SetS *) apply with_mutable_msg_wf; [exact W|]. intros w m V N.
    pose proof (msg_ok st w m W N) as HO.
    destruct val; try (apply scalar_result_wf; [exact W|]; intros zz Czz; eapply wf_put_msg; [exact W|exact N|]; apply ok_set_s, HO).
    cbn [snd]. eapply wf_put_msg; [exact W|exact N|]. apply ok_set_s, HO.
  - (* SetSub *) destruct (var st j) as [wj|] eqn:Vj; [|exact W].
    apply with_mutable_msg_wf; [exact W|]. intros w m V N. cbn [snd].
    eapply wf_put_msg; [exact W|exact N|]. apply ok_set_sub; [eapply msg_ok; eassumption|]. apply (proj2 W j wj Vj).
  - (* ClearSub *) apply with_mutable_msg_wf; [exact W|]. intros w m V N. cbn [snd].
    eapply wf_put_msg; [exact W|exact N|]. apply ok_set_sub; [eapply msg_ok; eassumption|exact I].
  - (* AppendRI *) apply with_msg_wf; [exact W|]. intros w m V N.
    destruct (msg_ok st w m W N) as [A [B [C [D [F G]]]]].
    destruct (view_ri st m) as [ll|] eqn:E; [|exact W].
    destruct (flag st (w_flag w)); [exact W|].
    apply scalar_result_wf; [exact W|]. intros z Cz.
    apply wf_set_obj_same; [exact W|eapply view_tag; [exact C|exact E]|].
    simpl. apply Forall_app. split; [apply ilist_ok, W|constructor; [eapply conv_int_range, Cz|constructor]].
  - (* SetRI *) apply with_msg_wf; [exact W|]. intros w m V N.
    destruct (msg_ok st w m W N) as [A [B [C [D [F G]]]]].
    destruct (view_ri st m) as [ll|] eqn:E; [|exact W].
    destruct (negb (Nat.ltb k (length (ilist_at st ll)))); [exact W|].
    destruct (flag st (w_flag w)); [exact W|].
    apply scalar_result_wf; [exact W|]. intros z Cz.
    apply wf_set_obj_same; [exact W|eapply view_tag; [exact C|exact E]|].
    simpl. apply Forall_upd; [apply ilist_ok, W|eapply conv_int_range, Cz].
  - (* AssignRI *) apply with_msg_wf; [exact W|]. intros wj mj Vj Nj.
    apply with_mutable_msg_wf; [exact W|]. intros w m V N.
    destruct (msg_ok st w m W N) as [A [B [C [D [F G]]]]].
    destruct (mutable_field_wf st w m (f_ri m) (OIList []) set_ri 1 W N C eq_refl) as [W1 [T1 E1]].
    { intro h. constructor. }
    { intros h l HO T. apply ok_set_ri; assumption. }
    destruct (mutable_field st w m (f_ri m) (OIList []) set_ri) as [st1 ll]. cbn [fst snd] in *.
    apply wf_set_obj_same; [exact W1|exact T1|].
    simpl. destruct (view_ri st mj); [apply ilist_ok, W|constructor].
  - (* AssignRIList *) apply with_mutable_msg_wf; [exact W|]. intros w m V N.
    destruct (msg_ok st w m W N) as [A [B [C [D [F G]]]]].
    destruct (conv_ints vals) as [zs| |] eqn:Cz; try exact W.
    destruct (mutable_field_wf st w m (f_ri m) (OIList []) set_ri 1 W N C eq_refl) as [W1 [T1 E1]].
    { intro h. constructor. }
    { intros h l HO T. apply ok_set_ri; assumption. }
    destruct (mutable_field st w m (f_ri m) (OIList []) set_ri) as [st1 ll]. cbn [fst snd] in *.
    apply wf_set_obj_same; [exact W1|exact T1|]. simpl. eapply conv_ints_range, Cz.
  - (* AppendRM *) destruct (var st j) as [wj|] eqn:Vj; [|exact W].
    apply with_msg_wf; [exact W|]. intros w m V N.
    destruct (msg_ok st w m W N) as [A [B [C [D [F G]]]]].
    destruct (view_rm st m) as [ll|] eqn:E; [|exact W].
    destruct (flag st (w_flag w)); [exact W|]. cbn [snd].
    apply wf_set_obj_same; [exact W|eapply view_tag; [exact D|exact E]|].
    simpl. apply Forall_app. split; [apply mlist_ok, W|constructor; [apply (proj2 W j wj Vj)|constructor]].
  - (* AssignRM *) apply with_msg_wf; [exact W|]. intros wj mj Vj Nj.
    apply with_mutable_msg_wf; [exact W|]. intros w m V N.
    destruct (msg_ok st w m W N) as [A [B [C [D [F G]]]]].
    destruct (mutable_field_wf st w m (f_rm m) (OMList []) set_rm 2 W N D eq_refl) as [W1 [T1 E1]].
    { intro h. constructor. }
    { intros h l HO T. apply ok_set_rm; assumption. }
    destruct (mutable_field st w m (f_rm m) (OMList []) set_rm) as [st1 ll]. cbn [fst snd] in *.
    apply wf_set_obj_same; [exact W1|exact T1|].
    simpl. destruct (view_rm st mj); [|constructor].
    eapply Forall_impl; [|apply mlist_ok, W]. intros p Hp. apply E1, Hp.
  - (* SetMI *) apply with_msg_wf; [exact W|]. intros w m V N.
    destruct (msg_ok st w m W N) as [A [B [C [D [F G]]]]].
    destruct (view_mi st m) as [ml|] eqn:E; [|exact W].
    destruct (flag st (w_flag w)); [exact W|].
    apply scalar_result_wf; [exact W|]. intros z Cz.
    apply wf_set_obj_same; [exact W|eapply view_tag; [exact F|exact E]|].
    simpl. apply Forall_smap_put; [apply imap_ok, W|eapply conv_int_range, Cz].
  - (* SetMM *) destruct (var st j) as [wj|] eqn:Vj; [|exact W].
    apply with_msg_wf; [exact W|]. intros w m V N.
    destruct (msg_ok st w m W N) as [A [B [C [D [F G]]]]].
    destruct (view_mm st m) as [ml|] eqn:E; [|exact W].
    destruct (flag st (w_flag w)); [exact W|]. cbn [snd].
    apply wf_set_obj_same; [exact W|eapply view_tag; [exact G|exact E]|].
    simpl. apply Forall_smap_put; [apply mmap_ok, W|apply (proj2 W j wj Vj)].
  - (* AssignMM *) apply with_msg_wf; [exact W|]. intros wj mj Vj Nj.
    apply with_mutable_msg_wf; [exact W|]. intros w m V N.
    set (entries := match view_mm st mj with Some ml => mmap_at st ml | None => [] end).
    destruct (wf_alloc st (OMMap entries) W) as [W1 [T1 [E1 _]]].
    { simpl. unfold entries. destruct (view_mm st mj); [|constructor].
      eapply Forall_impl; [|apply mmap_ok, W]. intros p Hp. apply ext_app, Hp. }
    destruct (alloc st (OMMap entries)) as [st1 ml] eqn:Al. cbn [fst snd] in *.
    eapply wf_put_msg; [exact W1| |].
    { unfold alloc in Al. inversion Al. cbn [heap]. apply nth_app_old, N. }
    apply ok_set_mm; [|exact T1]. eapply obj_ok_ext; [exact E1|]. eapply msg_ok; eassumption.
  - (* AssignMI *) apply with_msg_wf; [exact W|]. intros wj mj Vj Nj.
    apply with_mutable_msg_wf; [exact W|]. intros w m V N.
    set (entries := match view_mi st mj with Some ml => imap_at st ml | None => [] end).
    destruct (wf_alloc st (OIMap entries) W) as [W1 [T1 [E1 _]]].
    { simpl. unfold entries. destruct (view_mi st mj); [apply imap_ok, W|constructor]. }
    destruct (alloc st (OIMap entries)) as [st1 ml] eqn:Al. cbn [fst snd] in *.
    eapply wf_put_msg; [exact W1| |].
    { unfold alloc in Al. inversion Al. cbn [heap]. apply nth_app_old, N. }
    apply ok_set_mi; [|exact T1]. eapply obj_ok_ext; [exact E1|]. eapply msg_ok; eassumption.
  - (* AssignRMList *) destruct (var st j) as [wj|] eqn:Vj; [|exact W].
    apply with_mutable_msg_wf; [exact W|]. intros w m V N.
    destruct (msg_ok st w m W N) as [A [B [C [D [F G]]]]].
    destruct (mutable_field_wf st w m (f_rm m) (OMList []) set_rm 2 W N D eq_refl) as [W1 [T1 E1]].
    { intro h. constructor. }
    { intros h l HO T. apply ok_set_rm; assumption. }
    destruct (mutable_field st w m (f_rm m) (OMList []) set_rm) as [st1 ll]. cbn [fst snd] in *.
    apply wf_set_obj_same; [exact W1|exact T1|].
    simpl. constructor; [apply E1, (proj2 W j wj Vj)|constructor].
  - (* AssignMIDict *) apply with_mutable_msg_wf; [exact W|]. intros w m V N.
    destruct (wf_alloc st (OIMap []) W) as [W1 [T1 [E1 _]]]; [constructor|].
    destruct (alloc st (OIMap [])) as [st1 ml] eqn:Al. cbn [fst snd] in *.
    assert (W2 : wf (put_msg st1 w (set_mi m ml))).
    { eapply wf_put_msg; [exact W1| |].
      { unfold alloc in Al. inversion Al. cbn [heap]. apply nth_app_old, N. }
      apply ok_set_mi; [|exact T1]. eapply obj_ok_ext; [exact E1|]. eapply msg_ok; eassumption. }
    destruct (conv_int val) as [z| |] eqn:Cz; try exact W2. cbn [snd].
    apply wf_set_obj_same; [exact W2| |].
    { unfold put_msg, set_obj. cbn [heap]. destruct T1 as [o [No To]].
      destruct W1 as [HW1 VW1].
      assert (Nm : nth_error (heap st1) (w_loc w) = Some (OMsg m)).
      { unfold alloc in Al. inversion Al. cbn [heap]. apply nth_app_old, N. }
      apply (ext_upd _ _ _ (OMsg (set_mi m ml)) Nm eq_refl). exists o. split; assumption. }
    simpl. constructor; [eapply conv_int_range, Cz|constructor].
  - (* AssignMMDict *) destruct (var st j) as [wj|] eqn:Vj; [|exact W].
    apply with_mutable_msg_wf; [exact W|]. intros w m V N.
    destruct (wf_alloc st (OMMap [(key, w_loc wj)]) W) as [W1 [T1 [E1 _]]].
    { simpl. constructor; [apply ext_app, (proj2 W j wj Vj)|constructor]. }
    destruct (alloc st (OMMap [(key, w_loc wj)])) as [st1 ml] eqn:Al. cbn [fst snd] in *.
    eapply wf_put_msg; [exact W1| |].
    { unfold alloc in Al. inversion Al. cbn [heap]. apply nth_app_old, N. }
    apply ok_set_mm; [|exact T1]. eapply obj_ok_ext; [exact E1|]. eapply msg_ok; eassumption.
  - (* Freeze *) destruct (var st i); [apply wf_set_flag, W|exact W].
Qed.

Lemma run_wf : forall ops st, wf st -> wf (snd (run st ops)).
Proof.
  induction ops as [|o r IH]; intros st W; [exact W|].
  cbn [run]. pose proof (step_wf st o W) as W1. destruct (step st o) as [res st1]. cbn [snd] in W1.
  pose proof (IH st1 W1) as W2. destruct (run st1 r) as [rs st2]. exact W2.
Qed.

Lemma init_wf n : wf (init n).
Proof.
  split.
  - intros l o N. destruct l; discriminate.
  - intros i w V. unfold var, init in V. cbn [vars] in V.
    destruct (nth_error (repeat None n) i) as [[x|]|] eqn:E; try discriminate.
    apply nth_error_In, repeat_spec in E. discriminate.
Qed.
