(* C20 -- the behaviour of lib/proto before the two repairs (frozen copies of the old
   definitions; documentation, not a model of /repo):
     e8c03a7  toProto, StringKind: a bytes value was converted with ValueOfBytes,
              which Message.Set / List.Append / Map.Set reject with a panic;
     b85c552  setField, list branch: the destination list was truncated BEFORE the
              source was read, so msg.x = msg.x (or any source sharing the list
              object) emptied the field, and a failing element left a truncated prefix. *)
From Coq Require Import ZArith Bool List.
From SV Require Import Common.GoInt C20.Kinds C20.Store.
Import ListNotations.
Open Scope Z_scope.

Definition to_proto_old (k : kind) (v : sval) : outcome pval :=
  match k, v with
  | KString, SBytes _ => HostPanic
  | _, _ => to_proto (fun _ => 0) (fun _ => 0) k v
  end.

Theorem bytes_to_string_panicked_refuted :
  exists v, to_proto_old KString v = HostPanic /\ to_proto (fun _ => 0) (fun _ => 0) KString v = Stored (PStr [97; 98; 99]).
Proof. exists (SBytes [97; 98; 99]). vm_compute. split; reflexivity. Qed.

(* x_i.ri = x_j.ri, old order: Mutable + Truncate(0), then iterate the source *)
Definition assign_ri_old (st : state) (i j : nat) : result * state :=
  with_msg st j (fun _ mj =>
    with_mutable_msg st i (fun w m =>
      let (st1, ll) := mutable_field st w m (f_ri m) (OIList []) set_ri in
      let st2 := set_obj st1 ll (OIList []) in
      (* the source view is read after the truncation *)
      let elems := match msg_at st2 (match var st2 j with Some wj => w_loc wj | None => 0%nat end) with
                   | Some mj' => match view_ri st2 mj' with Some l => ilist_at st2 l | None => [] end
                   | None => []
                   end in
      (ROk, set_obj st2 ll (OIList elems)))).

Definition prefix : list op := [New 0; AssignRIList 0 [SInt 1; SInt 2; SInt 3]].

Theorem self_assignment_emptied_refuted :
  let st := snd (run (init 4) prefix) in
  dump_var 10 st 0 = Some (D 0 [] None [1; 2; 3] [] [] []) /\
  dump_var 10 (snd (assign_ri_old st 0 0)) 0 = Some (D 0 [] None [] [] [] []) /\
  dump_var 10 (snd (step st (AssignRI 0 0))) 0 = Some (D 0 [] None [1; 2; 3] [] [] []).
Proof. vm_compute. repeat split. Qed.

(* 98fccf0  setField with an EXTENSION field: only the singular branch resolved the
   extension's type descriptor; the repeated branch (msg.Mutable) and the clear branch
   (msg.Clear) passed the raw descriptor and protoreflect panicked.  Extensions are outside
   Kinds.v / Store.v (they behave like ordinary fields once the descriptor is resolved); the
   defect is recorded here and exercised by the `ext-op:*`, `ext-lossless` and `frozen-path:*`
   probes of harness/cmd/c20. *)
