(* C20 -- scalar kinds: executable model of lib/proto/proto.go toProto (the
   integer / bool / string / bytes / float / enum branches, enumValueOf) and
   toStarlark1 (the read-back conversion), and of the positions a scalar can be
   stored in (singular field, repeated element, map key, map value, constructor
   keyword).  No proofs here.

   Go integer conversions are written out with the wrap functions of
   Common/GoInt.v:  uint64(uint32(u)) == u  is  wrapu32 u =? u,
   int64(int32(i)) == i  is  wrap32 i =? i.
   int -> float64 (Int.Float) and float64 -> float32 are hardware / math/big
   conversions: Section parameters (oracles). *)
From Coq Require Import ZArith Bool List.
From SV Require Import Common.GoInt.
Import ListNotations.
Open Scope Z_scope.

Inductive kind :=
| KBool | KInt32 | KSint32 | KSfixed32 | KInt64 | KSint64 | KSfixed64
| KUint32 | KFixed32 | KUint64 | KFixed64 | KFloat | KDouble | KString | KBytes | KEnum.

(* Starlark values offered to a field.  Floats by their binary64 bits.  Enum values:
   SEnum e n is the EnumValueDescriptor number n of enum type e (0 = the field's
   enum E, anything else = another enum). *)
Inductive sval :=
| SNone | SBool (b : bool) | SInt (z : Z) | SFloat (bits : Z)
| SStr (s : list Z) | SBytes (s : list Z) | SEnum (e : nat) (n : Z) | SOther.

(* protoreflect.Value as stored *)
Inductive pval :=
| PBool (b : bool) | PI32 (z : Z) | PI64 (z : Z) | PU32 (z : Z) | PU64 (z : Z)
| PF32 (bits : Z) | PF64 (bits : Z) | PStr (s : list Z) | PBytes (s : list Z) | PEnum (n : Z).

Inductive outcome (A : Type) := Stored (a : A) | Rejected | HostPanic.
Arguments Stored {A} a.
Arguments Rejected {A}.
Arguments HostPanic {A}.

(* the enum E of the schema, declared with gaps, out of numeric order and with a
   negative number: A = 0, B = 2, C = 5, D = 1, G = 3, N = -2 *)
Definition enum_numbers : list Z := [0; 2; 5; 1; 3; -2].
Definition enum_names : list (list Z * Z) := [([65], 0); ([66], 2); ([67], 5); ([68], 1); ([71], 3); ([78], -2)].
Definition enum_has (n : Z) : bool := existsb (Z.eqb n) enum_numbers.

Fixpoint bytes_eqb (a b : list Z) : bool :=
  match a, b with
  | [], [] => true
  | x :: a', y :: b' => (x =? y) && bytes_eqb a' b'
  | _, _ => false
  end.

Definition enum_by_name (s : list Z) : option Z :=
  match find (fun p => bytes_eqb s (fst p)) enum_names with Some (_, n) => Some n | None => None end.

(* where a scalar is stored, and what is read back from the whole field *)
Inductive position :=
| PSingular | PCtor | PAppend | PSetIndex (i : nat) | PAssign (others : list sval)
| PMapValue (key : sval) | PMapAssign (key : sval) | PMapKey (kk : kind) (v : sval).
Inductive content := CL (l : list sval) | CM (m : list (sval * sval)).
Inductive sout := SOk | SErr | SPanic.

Section Conv.
  Variable i2f : Z -> Z.   (* Int.Float: nearest binary64 (bits) of an integer *)
  Variable f32 : Z -> Z.   (* float64 -> float32 -> float64 (bits) *)

  (* enumValueOf *)
  Definition enum_value_of (v : sval) : outcome Z :=
    match v with
    | SInt i => if in_int32 i then (if enum_has i then Stored i else Rejected) else Rejected   (* AsInt32, ByNumber *)
    | SStr s => match enum_by_name s with Some n => Stored n | None => Rejected end
    | SEnum e n => if Nat.eqb e 0 then Stored n else Rejected
    | _ => Rejected
    end.

  (* toProto on the repaired tree (bytes offered to a string field are converted
     with ValueOfString) *)
  Definition to_proto (k : kind) (v : sval) : outcome pval :=
    match k with
    | KBool => match v with SBool b => Stored (PBool b) | _ => Rejected end
    | KUint32 | KFixed32 =>
        match v with
        | SInt i => if in_uint64 i then (if wrapu32 i =? i then Stored (PU32 (wrapu32 i)) else Rejected) else Rejected
        | _ => Rejected
        end
    | KInt32 | KSint32 | KSfixed32 =>
        match v with
        | SInt i => if in_int64 i then (if wrap32 i =? i then Stored (PI32 (wrap32 i)) else Rejected) else Rejected
        | _ => Rejected
        end
    | KUint64 | KFixed64 =>
        match v with SInt i => if in_uint64 i then Stored (PU64 i) else Rejected | _ => Rejected end
    | KInt64 | KSint64 | KSfixed64 =>
        match v with SInt i => if in_int64 i then Stored (PI64 i) else Rejected | _ => Rejected end
    | KString =>
        match v with SStr s => Stored (PStr s) | SBytes b => Stored (PStr b) | _ => Rejected end
    | KBytes =>
        match v with SStr s => Stored (PBytes s) | SBytes b => Stored (PBytes b) | _ => Rejected end
    | KDouble =>
        match v with SFloat f => Stored (PF64 f) | SInt i => Stored (PF64 (i2f i)) | _ => Rejected end
    | KFloat =>
        match v with SFloat f => Stored (PF32 (f32 f)) | SInt i => Stored (PF32 (f32 (i2f i))) | _ => Rejected end
    | KEnum =>
        match enum_value_of v with Stored n => Stored (PEnum n) | Rejected => Rejected | HostPanic => HostPanic end
    end.

  (* toStarlark1 *)
  Definition to_starlark (p : pval) : sval :=
    match p with
    | PBool b => SBool b
    | PU32 z | PU64 z => SInt z          (* MakeUint64 *)
    | PI32 z | PI64 z => SInt z          (* MakeInt64 *)
    | PStr s => SStr s
    | PBytes s => SBytes s
    | PF32 b | PF64 b => SFloat b
    | PEnum n => SEnum 0 n
    end.

  (* proto3 default of a kind, as read back through defaultValue *)
  Definition default_of (k : kind) : sval :=
    match k with
    | KBool => SBool false
    | KFloat | KDouble => SFloat 0
    | KString => SStr []
    | KBytes => SBytes []
    | KEnum => SEnum 0 0
    | _ => SInt 0
    end.

  (* ---- positions.  Field content as read back: a list of values (singular: one
     value; repeated: the elements; map: key, value alternating pairs kept as
     (key, value) lists sorted by key).  Each function returns the new content or
     Rejected (content unchanged unless stated) / HostPanic. ---- *)

  (* m.f = val  and  T(f = val): None clears the field *)
  Definition set_singular (k : kind) (val : sval) : outcome (list sval) :=
    match val with
    | SNone => Stored [default_of k]
    | _ => match to_proto k val with
           | Stored p => Stored [to_starlark p]
           | Rejected => Rejected
           | HostPanic => HostPanic
           end
    end.

  (* m.r.append(val) *)
  Definition rep_append (k : kind) (cur : list sval) (val : sval) : outcome (list sval) :=
    match to_proto k val with
    | Stored p => Stored (cur ++ [to_starlark p])
    | Rejected => Rejected
    | HostPanic => HostPanic
    end.

  Fixpoint set_nth (i : nat) (x : sval) (l : list sval) : list sval :=
    match l, i with
    | [], _ => []
    | _ :: r, O => x :: r
    | y :: r, S i' => y :: set_nth i' x r
    end.

  (* m.r[i] = val  (index already validated by the interpreter's setIndex) *)
  Definition rep_setindex (k : kind) (cur : list sval) (i : nat) (val : sval) : outcome (list sval) :=
    match to_proto k val with
    | Stored p => Stored (set_nth i (to_starlark p) cur)
    | Rejected => Rejected
    | HostPanic => HostPanic
    end.

  (* m.r = [v ...]: every element is converted first (repaired setField); a None
     whole-value would clear, an element None is rejected by toProto *)
  Fixpoint convert_all (k : kind) (vals : list sval) : outcome (list sval) :=
    match vals with
    | [] => Stored []
    | v :: r =>
        match to_proto k v with
        | Stored p => match convert_all k r with
                      | Stored ps => Stored (to_starlark p :: ps)
                      | Rejected => Rejected
                      | HostPanic => HostPanic
                      end
        | Rejected => Rejected
        | HostPanic => HostPanic
        end
    end.
  Definition rep_assign (k : kind) (vals : list sval) : outcome (list sval) := convert_all k vals.

  (* ---- maps: content as (key, value) pairs in the order MapField.Items gives
     (sorted by key with starlark.Compare) ---- *)
  Fixpoint lex_ltb (a b : list Z) : bool :=
    match a, b with
    | [], [] => false
    | [], _ :: _ => true
    | _ :: _, [] => false
    | x :: a', y :: b' => if x <? y then true else if y <? x then false else lex_ltb a' b'
    end.
  Definition key_ltb (a b : sval) : bool :=
    match a, b with
    | SInt x, SInt y => x <? y
    | SBool x, SBool y => negb x && y
    | SStr x, SStr y => lex_ltb x y
    | _, _ => false
    end.
  Definition key_eqb (a b : sval) : bool :=
    match a, b with
    | SInt x, SInt y => x =? y
    | SBool x, SBool y => Bool.eqb x y
    | SStr x, SStr y => bytes_eqb x y
    | _, _ => false
    end.
  Fixpoint map_put (k v : sval) (m : list (sval * sval)) : list (sval * sval) :=
    match m with
    | [] => [(k, v)]
    | (k', v') :: r =>
        if key_eqb k k' then (k, v) :: r
        else if key_ltb k k' then (k, v) :: m
        else (k', v') :: map_put k v r
    end.

  (* m.mp[key] = val  (MapField.SetKey: key converted first, then the value) *)
  Definition map_set (kk vk : kind) (cur : list (sval * sval)) (key val : sval) : outcome (list (sval * sval)) :=
    match to_proto kk key with
    | Stored pk =>
        match to_proto vk val with
        | Stored pv => Stored (map_put (to_starlark pk) (to_starlark pv) cur)
        | Rejected => Rejected
        | HostPanic => HostPanic
        end
    | Rejected => Rejected
    | HostPanic => HostPanic
    end.

  (* m.mp = {k: v ...}  (setField: the field is cleared first, entries are then
     converted and stored one by one; a failure leaves what was stored so far).
     Result: (outcome, content afterwards). *)
  Fixpoint map_assign_loop (kk vk : kind) (acc : list (sval * sval)) (kvs : list (sval * sval)) : outcome unit * list (sval * sval) :=
    match kvs with
    | [] => (Stored tt, acc)
    | (k, v) :: r =>
        match map_set kk vk acc k v with
        | Stored acc' => map_assign_loop kk vk acc' r
        | Rejected => (Rejected, acc)
        | HostPanic => (HostPanic, acc)
        end
    end.
  Definition map_assign (kk vk : kind) (kvs : list (sval * sval)) : outcome unit * list (sval * sval) :=
    map_assign_loop kk vk [] kvs.

  (* one store attempt at a position: (outcome, field content afterwards).
     k is the kind of the value position (for the map positions: of the map's
     values; the key kind is string except for PMapKey, which carries it). *)
  Definition lift (before : content) (mk : list sval -> content) (o : outcome (list sval)) : sout * content :=
    match o with Stored l => (SOk, mk l) | Rejected => (SErr, before) | HostPanic => (SPanic, before) end.
  Definition liftm (before : content) (o : outcome (list (sval * sval))) : sout * content :=
    match o with Stored m => (SOk, CM m) | Rejected => (SErr, before) | HostPanic => (SPanic, before) end.
  Definition store_at (k : kind) (pos : position) (before : content) (val : sval) : sout * content :=
    match pos, before with
    | PSingular, _ | PCtor, _ => lift before CL (set_singular k val)
    | PAppend, CL l => lift before CL (rep_append k l val)
    | PSetIndex i, CL l => lift before CL (rep_setindex k l i val)
    | PAssign others, _ => lift before CL (rep_assign k (others ++ [val]))
    | PMapValue key, CM m => liftm before (map_set KString k m key val)
    | PMapAssign key, _ =>
        match map_assign KString k [(key, val)] with
        | (Stored _, c) => (SOk, CM c)
        | (Rejected, c) => (SErr, CM c)
        | (HostPanic, c) => (SPanic, CM c)
        end
    | PMapKey kk v, CM m => liftm before (map_set kk k m val v)
    | _, _ => (SErr, before)
    end.
End Conv.
