(* C20 -- specification (oracle), stated on observables only and independently of
   Kinds.to_proto / Store.step:
   (1) scalars: which Starlark values a field kind accepts, by RANGE, and the value
       that must then read back; every other value must be rejected with the field
       unchanged; never a host panic;
   (2) histories: the postcondition of every operation on what is read back from
       the target ("stores exactly the given value"), failure leaves everything
       unchanged, and what is reachable from a frozen message never changes. *)
From Coq Require Import ZArith Bool List.
From SV Require Import Common.GoInt C20.Kinds C20.Store.
Import ListNotations.
Open Scope Z_scope.

(* ---------------------------------------------------------------- scalars *)
Definition int_range (k : kind) : option (Z * Z) :=
  match k with
  | KInt32 | KSint32 | KSfixed32 => Some (-2147483648, 2147483647)
  | KInt64 | KSint64 | KSfixed64 => Some (-9223372036854775808, 9223372036854775807)
  | KUint32 | KFixed32 => Some (0, 4294967295)
  | KUint64 | KFixed64 => Some (0, 18446744073709551615)
  | _ => None
  end.

Section Denote.
  Variable i2f : Z -> Z.
  Variable f32 : Z -> Z.

  (* the value that reads back when v is stored into a field of kind k; None: v is
     not a value of the kind (wrong type or out of range) and must be rejected *)
  Definition denote (k : kind) (v : sval) : option sval :=
    match int_range k with
    | Some (lo, hi) => match v with SInt z => if (lo <=? z) && (z <=? hi) then Some (SInt z) else None | _ => None end
    | None =>
        match k, v with
        | KBool, SBool b => Some (SBool b)
        | KString, SStr s => Some (SStr s)
        | KString, SBytes s => Some (SStr s)
        | KBytes, SStr s => Some (SBytes s)
        | KBytes, SBytes s => Some (SBytes s)
        | KDouble, SFloat f => Some (SFloat f)
        | KDouble, SInt z => Some (SFloat (i2f z))
        | KFloat, SFloat f => Some (SFloat (f32 f))
        | KFloat, SInt z => Some (SFloat (f32 (i2f z)))
        | KEnum, SEnum O n => Some (SEnum 0 n)
        | KEnum, SInt z => if (z =? 0) || (z =? 2) || (z =? 5) || (z =? 1) || (z =? 3) || (z =? -2) then Some (SEnum 0 z) else None
        | KEnum, SStr s =>
            if bytes_eqb s [65] then Some (SEnum 0 0)          (* "A" *)
            else if bytes_eqb s [66] then Some (SEnum 0 2)     (* "B" *)
            else if bytes_eqb s [67] then Some (SEnum 0 5)     (* "C" *)
            else if bytes_eqb s [68] then Some (SEnum 0 1)     (* "D" *)
            else if bytes_eqb s [71] then Some (SEnum 0 3)     (* "G" *)
            else if bytes_eqb s [78] then Some (SEnum 0 (-2))  (* "N" *)
            else None
        | _, _ => None
        end
    end.

  Fixpoint denote_all (k : kind) (vs : list sval) : option (list sval) :=
    match vs with
    | [] => Some []
    | v :: r => match denote k v, denote_all k r with Some x, Some xs => Some (x :: xs) | _, _ => None end
    end.

  Definition sval_eqb (a b : sval) : bool :=
    match a, b with
    | SNone, SNone => true
    | SBool x, SBool y => Bool.eqb x y
    | SInt x, SInt y => x =? y
    | SFloat x, SFloat y => x =? y
    | SStr x, SStr y => bytes_eqb x y
    | SBytes x, SBytes y => bytes_eqb x y
    | SEnum e n, SEnum f m => Nat.eqb e f && (n =? m)
    | SOther, SOther => true
    | _, _ => false
    end.
  Fixpoint svals_eqb (a b : list sval) : bool :=
    match a, b with
    | [], [] => true
    | x :: a', y :: b' => sval_eqb x y && svals_eqb a' b'
    | _, _ => false
    end.
  Fixpoint pairs_eqb (a b : list (sval * sval)) : bool :=
    match a, b with
    | [], [] => true
    | (k, v) :: a', (k', v') :: b' => sval_eqb k k' && sval_eqb v v' && pairs_eqb a' b'
    | _, _ => false
    end.
  Definition content_eqb (a b : content) : bool :=
    match a, b with CL x, CL y => svals_eqb x y | CM x, CM y => pairs_eqb x y | _, _ => false end.

  (* the content the field must have after a successful store; None: must be rejected.
     k is the kind of the value position (of the map's values for the map positions). *)
  Definition expected (k : kind) (pos : position) (before : content) (val : sval) : option content :=
    match pos, before with
    | PSingular, _ | PCtor, _ =>
        match val with
        | SNone => Some (CL [default_of k])
        | _ => option_map (fun x => CL [x]) (denote k val)
        end
    | PAppend, CL l => option_map (fun x => CL (l ++ [x])) (denote k val)
    | PSetIndex i, CL l => option_map (fun x => CL (set_nth i x l)) (denote k val)
    | PAssign others, _ => option_map CL (denote_all k (others ++ [val]))
    | PMapValue key, CM m =>
        match denote KString key, denote k val with Some kx, Some x => Some (CM (map_put kx x m)) | _, _ => None end
    | PMapAssign key, _ =>
        match denote KString key, denote k val with Some kx, Some x => Some (CM [(kx, x)]) | _, _ => None end
    | PMapKey kk v, CM m =>
        match denote kk val, denote k v with Some kx, Some x => Some (CM (map_put kx x m)) | _, _ => None end
    | _, _ => None
    end.

  (* what a rejected store may leave behind: the field unchanged; a failed whole-map
     assignment has already cleared the field (documented behaviour of setField) *)
  Definition after_rejection_ok (pos : position) (before after : content) : bool :=
    match pos with
    | PMapAssign _ => content_eqb after (CM [])
    | _ => content_eqb after before
    end.

  (* one observed attempt.  rt: the content read from unmarshal(marshal(m)) in binary
     and text form (None: marshalling was refused, acceptable only for a string that
     is not valid UTF-8 - flagged by the checker as utf8_bad) *)
  Definition spec_scalar_ok (k : kind) (pos : position) (val : sval) (out : sout)
             (before after : content) (rt_bin rt_text : option content) (utf8_bad : bool) : bool :=
    match out with
    | SPanic => false
    | SOk =>
        match expected k pos before val with
        | Some e =>
            content_eqb after e &&
            match rt_bin with Some c => content_eqb c after | None => utf8_bad end &&
            match rt_text with Some c => content_eqb c after | None => utf8_bad end
        | None => false
        end
    | SErr =>
        match expected k pos before val with
        | Some _ => false
        | None => after_rejection_ok pos before after
        end
    end.
End Denote.

(* ---------------------------------------------------------------- histories *)
Fixpoint dump_eqb (a b : dump) : bool :=
  match a, b with
  | D v s sub ri rm mi mm, D v' s' sub' ri' rm' mi' mm' =>
      (v =? v') && bytes_eqb s s' &&
      match sub, sub' with Some x, Some y => dump_eqb x y | None, None => true | _, _ => false end &&
      (fix zs (a b : list Z) : bool :=
         match a, b with [], [] => true | x :: a', y :: b' => (x =? y) && zs a' b' | _, _ => false end) ri ri' &&
      (fix ds (a b : list dump) : bool :=
         match a, b with [], [] => true | x :: a', y :: b' => dump_eqb x y && ds a' b' | _, _ => false end) rm rm' &&
      (fix kz (a b : list (list Z * Z)) : bool :=
         match a, b with [], [] => true | (k, x) :: a', (k', y) :: b' => bytes_eqb k k' && (x =? y) && kz a' b' | _, _ => false end) mi mi' &&
      (fix kd (a b : list (list Z * dump)) : bool :=
         match a, b with [], [] => true | (k, x) :: a', (k', y) :: b' => bytes_eqb k k' && dump_eqb x y && kd a' b' | _, _ => false end) mm mm'
  end.

Definition odump_eqb (a b : option dump) : bool :=
  match a, b with Some x, Some y => dump_eqb x y | None, None => true | _, _ => false end.

Definition obs := list (option dump).          (* what is read back from each variable *)
Definition ob (o : obs) (i : nat) : option dump := nth i o None.
Fixpoint obs_eqb (a b : obs) : bool :=
  match a, b with
  | [], [] => true
  | x :: a', y :: b' => odump_eqb x y && obs_eqb a' b'
  | _, _ => false
  end.

Definition d_empty : dump := D 0 [] None [] [] [] [].

(* the int64 / string a Starlark value denotes *)
Definition den_int (v : sval) : option Z :=
  match v with SInt z => if (-9223372036854775808 <=? z) && (z <=? 9223372036854775807) then Some z else None | _ => None end.
Definition den_str (v : sval) : option (list Z) :=
  match v with SStr s => Some s | SBytes s => Some s | _ => None end.
Fixpoint den_ints (vs : list sval) : option (list Z) :=
  match vs with [] => Some [] | v :: r => match den_int v, den_ints r with Some z, Some zs => Some (z :: zs) | _, _ => None end end.

(* postcondition of a successful operation, in terms of what was read back before:
   a binder reads back the whole value it was bound to; a mutator reads back the
   assigned value IN THE FIELD IT ASSIGNS ("stores exactly the given value") - the
   other fields are not constrained here, they may be views of shared storage *)
Definition only_v (v : Z) : dump := D v [] None [] [] [] [].
Definition only_s (s : list Z) : dump := D 0 s None [] [] [] [].
Definition only_sub (o : option dump) : dump := D 0 [] o [] [] [] [].
Definition only_ri (l : list Z) : dump := D 0 [] None l [] [] [].
Definition only_rm (l : list dump) : dump := D 0 [] None [] l [] [].
Definition only_mi (m : list (list Z * Z)) : dump := D 0 [] None [] [] m [].
Definition only_mm (m : list (list Z * dump)) : dump := D 0 [] None [] [] [] m.
Definition d_v (d : dump) := match d with D v _ _ _ _ _ _ => v end.
Definition d_s (d : dump) := match d with D _ s _ _ _ _ _ => s end.
Definition d_sub (d : dump) := match d with D _ _ o _ _ _ _ => o end.
Definition d_ri (d : dump) := match d with D _ _ _ l _ _ _ => l end.
Definition d_rm (d : dump) := match d with D _ _ _ _ l _ _ => l end.
Definition d_mi (d : dump) := match d with D _ _ _ _ _ m _ => m end.
Definition d_mm (d : dump) := match d with D _ _ _ _ _ _ m => m end.

Definition post (o : op) (before after : obs) : bool :=
  let same := odump_eqb in
  (* target before / after, and the source where there is one *)
  let tgt i (k : dump -> dump -> bool) := match ob before i, ob after i with Some b, Some a => k b a | _, _ => false end in
  let tgt2 i j (k : dump -> dump -> dump -> bool) :=
    match ob before i, ob before j, ob after i with Some b, Some src, Some a => k b src a | _, _, _ => false end in
  match o with
  | New i => same (ob after i) (Some d_empty)
  | Copy i j => same (ob after i) (ob before j)
  | GetSub i j =>
      match ob before j with
      | Some (D _ _ (Some d) _ _ _ _) => same (ob after i) (Some d)
      | Some (D _ _ None _ _ _ _) => same (ob after i) (Some d_empty)
      | None => false
      end
  | GetRM i j k =>
      match ob before j with Some d => (match nth_error (d_rm d) k with Some e => same (ob after i) (Some e) | None => false end) | None => false end
  | GetMM i j key =>
      match ob before j with Some d => (match smap_get key (d_mm d) with Some e => same (ob after i) (Some e) | None => false end) | None => false end
  | SetV i val =>
      match (match val with SNone => Some 0 | _ => den_int val end) with
      | Some z => tgt i (fun _ a => d_v a =? z)
      | None => false
      end
  | SetS i val =>
      match (match val with SNone => Some [] | _ => den_str val end) with
      | Some s => tgt i (fun _ a => bytes_eqb (d_s a) s)
      | None => false
      end
  | SetSub i j => tgt2 i j (fun _ src a => dump_eqb (only_sub (d_sub a)) (only_sub (Some src)))
  | ClearSub i => tgt i (fun _ a => match d_sub a with None => true | Some _ => false end)
  | AppendRI i val =>
      match den_int val with Some z => tgt i (fun b a => dump_eqb (only_ri (d_ri a)) (only_ri (d_ri b ++ [z]))) | None => false end
  | SetRI i k val =>
      match den_int val with
      | Some z => tgt i (fun b a => Nat.ltb k (length (d_ri b)) && dump_eqb (only_ri (d_ri a)) (only_ri (upd k z (d_ri b))))
      | None => false
      end
  | AssignRI i j => tgt2 i j (fun _ src a => dump_eqb (only_ri (d_ri a)) (only_ri (d_ri src)))
  | AssignRIList i vals =>
      match den_ints vals with Some zs => tgt i (fun _ a => dump_eqb (only_ri (d_ri a)) (only_ri zs)) | None => false end
  | AppendRM i j => tgt2 i j (fun b src a => dump_eqb (only_rm (d_rm a)) (only_rm (d_rm b ++ [src])))
  | AssignRM i j => tgt2 i j (fun _ src a => dump_eqb (only_rm (d_rm a)) (only_rm (d_rm src)))
  | SetMI i key val =>
      match den_int val with Some z => tgt i (fun b a => dump_eqb (only_mi (d_mi a)) (only_mi (smap_put key z (d_mi b)))) | None => false end
  | SetMM i key j => tgt2 i j (fun b src a => dump_eqb (only_mm (d_mm a)) (only_mm (smap_put key src (d_mm b))))
  | AssignMM i j => tgt2 i j (fun _ src a => dump_eqb (only_mm (d_mm a)) (only_mm (d_mm src)))
  | AssignMI i j => tgt2 i j (fun _ src a => dump_eqb (only_mi (d_mi a)) (only_mi (d_mi src)))
  | AssignRMList i j => tgt2 i j (fun _ src a => dump_eqb (only_rm (d_rm a)) (only_rm [src]))
  | AssignMIDict i key val =>
      match den_int val with Some z => tgt i (fun _ a => dump_eqb (only_mi (d_mi a)) (only_mi [(key, z)])) | None => false end
  | AssignMMDict i key j => tgt2 i j (fun _ src a => dump_eqb (only_mm (d_mm a)) (only_mm [(key, src)]))
  | Freeze _ => obs_eqb before after
  end.

(* the variable an operation (re)binds, if any *)
Definition binds (o : op) : option nat :=
  match o with New i | Copy i _ | GetSub i _ | GetRM i _ _ | GetMM i _ _ => Some i | _ => None end.

(* one step: never a host panic; failure changes nothing; success meets the
   postcondition; every variable that was frozen still reads back the same *)
(* 0: fine; 1: host panic; 2: a failed operation changed something; 3: the
   postcondition of a successful operation does not hold; 4: a frozen message changed *)
Definition spec_step_code (frozen : list nat) (before : obs) (o : op) (r : result) (after : obs) : nat :=
  match r with
  | RPanic => 1
  | RErr | RUnset => if obs_eqb before after then 0 else 2
  | ROk =>
      if negb (forallb (fun i => odump_eqb (ob before i) (ob after i))
                       (match binds o with Some b => filter (fun i => negb (Nat.eqb i b)) frozen | None => frozen end)) then 4
      else if negb (post o before after) then 3
      else 0
  end%nat.
Definition spec_step (frozen : list nat) (before : obs) (o : op) (r : result) (after : obs) : bool :=
  Nat.eqb (spec_step_code frozen before o r after) 0.

Definition frozen_after (frozen : list nat) (o : op) (r : result) : list nat :=
  match r, o with
  | ROk, Freeze i => i :: frozen
  | ROk, _ => match binds o with Some b => filter (fun i => negb (Nat.eqb i b)) frozen | None => frozen end
  | _, _ => frozen
  end.

Fixpoint spec_history (frozen : list nat) (before : obs) (steps : list (op * result * obs)) : bool :=
  match steps with
  | [] => true
  | (o, r, after) :: rest => spec_step frozen before o r after && spec_history (frozen_after frozen o r) after rest
  end.

(* first offending step and its code *)
Fixpoint spec_history_bad (frozen : list nat) (before : obs) (steps : list (op * result * obs)) (t : nat) : option (nat * nat) :=
  match steps with
  | [] => None
  | (o, r, after) :: rest =>
      match spec_step_code frozen before o r after with
      | O => spec_history_bad (frozen_after frozen o r) after rest (S t)
      | c => Some (t, c)
      end
  end.
