(* C20 -- the executable model: scalar kinds (Kinds.v) and the message heap (Store.v). *)
From SV Require Export C20.Kinds C20.Store.
