(* C20 -- freezing: mutators test the shared flag; wrappers derived from a frozen
   message are frozen; refutation witnesses for shallow copies and aliasing. *)
From Coq Require Import ZArith Bool List Lia.
From SV Require Import Common.GoInt C20.Kinds C20.Store C20.Spec C20.ProofsKinds C20.ProofsWf.
Import ListNotations.
Open Scope Z_scope.

(* the variable through which an operation mutates *)
Definition target (o : op) : option nat :=
  match o with
  | SetV i _ | SetS i _ | SetSub i _ | ClearSub i | AppendRI i _ | SetRI i _ _ | AssignRI i _
  | AssignRIList i _ | AppendRM i _ | AssignRM i _ | SetMI i _ _ | SetMM i _ _ | AssignMM i _
  | AssignMI i _ | AssignRMList i _ | AssignMIDict i _ _ | AssignMMDict i _ _ => Some i
  | _ => None
  end.

(* Message.SetField, RepeatedField.checkMutable, MapField.checkMutable: every
   mutator through a wrapper whose flag is set fails and changes nothing *)
Definition unchanged (st : state) (r : result * state) : Prop := snd r = st /\ fst r <> ROk.

Lemma wmm_frozen st i w k : var st i = Some w -> flag st (w_flag w) = true ->
  unchanged st (with_mutable_msg st i k).
Proof.
  intros V F. unfold with_mutable_msg, with_msg. rewrite V.
  destruct (msg_at st (w_loc w)); [rewrite F|]; split; try reflexivity; discriminate.
Qed.

Lemma wm_same st i k : (forall w m, var st i = Some w -> unchanged st (k w m)) -> unchanged st (with_msg st i k).
Proof.
  intro H. unfold with_msg. destruct (var st i) as [w|] eqn:V; [|split; [reflexivity|discriminate]].
  destruct (msg_at st (w_loc w)); [apply H; reflexivity|split; [reflexivity|discriminate]].
Qed.

Lemma unchanged_err st : unchanged st (RErr, st).
Proof. split; [reflexivity|discriminate]. Qed.
Lemma unchanged_unset st : unchanged st (RUnset, st).
Proof. split; [reflexivity|discriminate]. Qed.

Lemma frozen_blocks_lemma st o i w :
  target o = Some i -> var st i = Some w -> flag st (w_flag w) = true ->
  snd (step st o) = st /\ fst (step st o) <> ROk.
Proof.
  intros T V F. change (unchanged st (step st o)).
  destruct o; simpl in T; try discriminate; inversion T; subst; cbn [step].
  - apply (wmm_frozen st i w _ V F).
  - apply (wmm_frozen st i w _ V F).
  - destruct (var st j); [apply (wmm_frozen st i w _ V F)|apply unchanged_unset].
  - apply (wmm_frozen st i w _ V F).
  - apply wm_same. intros w' m V'. rewrite V in V'. inversion V'; subst w'.
    destruct (view_ri st m); [rewrite F|]; apply unchanged_err.
  - apply wm_same. intros w' m V'. rewrite V in V'. inversion V'; subst w'.
    destruct (view_ri st m); [|apply unchanged_err].
    destruct (negb (Nat.ltb k (length (ilist_at st n)))); [|rewrite F]; apply unchanged_err.
  - apply wm_same. intros wj mj Vj. apply (wmm_frozen st i w _ V F).
  - apply (wmm_frozen st i w _ V F).
  - destruct (var st j); [|apply unchanged_unset].
    apply wm_same. intros w' m V'. rewrite V in V'. inversion V'; subst w'.
    destruct (view_rm st m); [rewrite F|]; apply unchanged_err.
  - apply wm_same. intros wj mj Vj. apply (wmm_frozen st i w _ V F).
  - apply wm_same. intros w' m V'. rewrite V in V'. inversion V'; subst w'.
    destruct (view_mi st m); [rewrite F|]; apply unchanged_err.
  - destruct (var st j); [|apply unchanged_unset].
    apply wm_same. intros w' m V'. rewrite V in V'. inversion V'; subst w'.
    destruct (view_mm st m); [rewrite F|]; apply unchanged_err.
  - apply wm_same. intros wj mj Vj. apply (wmm_frozen st i w _ V F).
  - apply wm_same. intros wj mj Vj. apply (wmm_frozen st i w _ V F).
  - destruct (var st j); [apply (wmm_frozen st i w _ V F)|apply unchanged_unset].
  - apply (wmm_frozen st i w _ V F).
  - destruct (var st j); [apply (wmm_frozen st i w _ V F)|apply unchanged_unset].
Qed.

Lemma flag_set_var st i w f : flag (set_var st i w) f = flag st f.
Proof. reflexivity. Qed.

Lemma var_bound st i w : var st i = Some w -> (i < length (vars st))%nat.
Proof. unfold var. intro H. apply nth_error_Some. destruct (nth_error (vars st) i); discriminate || congruence. Qed.

(* a wrapper obtained from a frozen message by field / index / key access is frozen:
   it shares the parent's flag, or is the detached frozen default *)
Lemma derived_frozen_lemma st g i j wj st' :
  (g = GetSub i j \/ (exists k, g = GetRM i j k) \/ (exists key, g = GetMM i j key)) ->
  var st j = Some wj -> flag st (w_flag wj) = true ->
  step st g = (ROk, st') ->
  exists wi, var st' i = Some wi /\ flag st' (w_flag wi) = true.
Proof.
  intros G V F S.
  assert (B : forall l, (if Nat.ltb i (length (vars st)) then (ROk, set_var st i {| w_loc := l; w_flag := w_flag wj |}) else (RUnset, st)) = (ROk, st') ->
              exists wi, var st' i = Some wi /\ flag st' (w_flag wi) = true).
  { intros l H. destruct (Nat.ltb i (length (vars st))) eqn:L; [|discriminate]. inversion H; subst.
    exists {| w_loc := l; w_flag := w_flag wj |}. split; [|exact F].
    rewrite var_set_var, Nat.eqb_refl, L. reflexivity. }
  destruct G as [G|[[k G]|[key G]]]; subst g; cbn [step] in S; unfold with_msg in S; rewrite V in S;
    destruct (msg_at st (w_loc wj)) as [m|]; try discriminate.
  - destruct (f_sub m) as [l|]; [apply (B l S)|].
    unfold bind_new in S. destruct (Nat.ltb i (length (vars st))) eqn:L; [|discriminate].
    cbn [alloc alloc_flag] in S. inversion S; subst. clear S.
    eexists. split.
    + rewrite var_set_var, Nat.eqb_refl. cbn [vars]. rewrite L. reflexivity.
    + cbn [w_flag]. unfold flag. cbn [set_var flags]. rewrite app_nth2 by lia. rewrite Nat.sub_diag. reflexivity.
  - destruct (view_rm st m); [|discriminate]. destruct (nth_error (mlist_at st n) k) as [l|]; [apply (B l S)|discriminate].
  - destruct (view_mm st m); [|discriminate]. destruct (smap_get key (mmap_at st n)) as [l|]; [apply (B l S)|discriminate].
Qed.

(* ---------- freeze soundness is refuted by the model of the unchanged code ---------- *)
Definition rebinds (i : nat) (o : op) : bool := match binds o with Some b => Nat.eqb b i | None => false end.

(* c = Node(m) shares m's sub-message under a fresh flag *)
Definition copy_prefix : list op := [New 0; New 1; SetV 1 (SInt 1); SetSub 0 1; Copy 2 0; Freeze 0].
Definition copy_suffix : list op := [GetSub 3 2; SetV 3 (SInt 2)].

Lemma freeze_copy_witness :
  let st1 := snd (run (init 4) copy_prefix) in
  let r := run st1 copy_suffix in
  forallb (fun o => negb (rebinds 0 o)) copy_suffix = true /\
  fst r = [ROk; ROk] /\
  dump_var 60 st1 0 = Some (D 0 [] (Some (D 1 [] None [] [] [] [])) [] [] [] []) /\
  dump_var 60 (snd r) 0 = Some (D 0 [] (Some (D 2 [] None [] [] [] [])) [] [] [] []).
Proof. vm_compute. repeat split. Qed.

(* a shared repeated field: c.ri.append mutates the frozen m.ri *)
Definition copy_list_prefix : list op := [New 0; AssignRIList 0 [SInt 1]; Copy 1 0; Freeze 0].
Definition copy_list_suffix : list op := [AppendRI 1 (SInt 2)].
Lemma freeze_copy_list_witness :
  let st1 := snd (run (init 4) copy_list_prefix) in
  let r := run st1 copy_list_suffix in
  fst r = [ROk] /\
  dump_var 60 st1 0 = Some (D 0 [] None [1] [] [] []) /\
  dump_var 60 (snd r) 0 = Some (D 0 [] None [1; 2] [] [] []).
Proof. vm_compute. repeat split. Qed.

(* o.sub = m.sub aliases m's sub-message under o's flag *)
Definition alias_prefix : list op := [New 0; New 1; SetV 1 (SInt 1); SetSub 0 1; New 2; GetSub 3 0; SetSub 2 3; Freeze 0].
Definition alias_suffix : list op := [GetSub 3 2; SetV 3 (SInt 2)].
Lemma freeze_alias_witness :
  let st1 := snd (run (init 4) alias_prefix) in
  let r := run st1 alias_suffix in
  forallb (fun o => negb (rebinds 0 o)) alias_suffix = true /\
  fst r = [ROk; ROk] /\
  dump_var 60 st1 0 = Some (D 0 [] (Some (D 1 [] None [] [] [] [])) [] [] [] []) /\
  dump_var 60 (snd r) 0 = Some (D 0 [] (Some (D 2 [] None [] [] [] [])) [] [] [] []).
Proof. vm_compute. repeat split. Qed.

(* m.sub = o leaves o mutable after m is frozen *)
Definition alias2_prefix : list op := [New 0; New 1; SetSub 0 1; Freeze 0].
Definition alias2_suffix : list op := [SetV 1 (SInt 2)].
Lemma freeze_alias2_witness :
  let st1 := snd (run (init 4) alias2_prefix) in
  let r := run st1 alias2_suffix in
  fst r = [ROk] /\
  dump_var 60 st1 0 = Some (D 0 [] (Some (D 0 [] None [] [] [] [])) [] [] [] []) /\
  dump_var 60 (snd r) 0 = Some (D 0 [] (Some (D 2 [] None [] [] [] [])) [] [] [] []).
Proof. vm_compute. repeat split. Qed.
