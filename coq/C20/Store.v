(* C20 -- heap model of lib/proto messages for the schema
     message Node { int64 v; string s; Node sub; repeated int64 ri;
                    repeated Node rm; map<string,int64> mi; map<string,Node> mm; }
   following proto.go (Message / RepeatedField / MapField wrappers sharing a
   `*bool` frozen flag, MessageDescriptor.CallInternal, setField, toProto's
   MessageKind alias, getField / defaultValue) over dynamicpb storage (known-field
   table; Set aliases message, list and map values; Mutable creates the list / map
   on first use; Has(list) = non-empty).  No proofs here.

   Storage objects (messages, lists, maps) live in a heap and are referred to by
   location, because the implementation aliases them: `Node(m)` copies the field
   table (sharing sub-message, list and map objects) under a fresh flag,
   `x.sub = y` stores y's message object itself.  A wrapper is a location plus the
   location of its flag in a separate flag heap - exactly the `*bool` sharing. *)
From Coq Require Import ZArith Bool List.
From SV Require Import Common.GoInt C20.Kinds.
Import ListNotations.
Open Scope Z_scope.

Record msgobj := {
  f_v : Z; f_s : list Z;
  f_sub : option nat;       (* known[sub]: a message object *)
  f_ri : option nat;        (* known[ri]: an int-list object (may be empty) *)
  f_rm : option nat;        (* known[rm]: a message-list object *)
  f_mi : option nat;        (* known[mi]: a string->int map object *)
  f_mm : option nat         (* known[mm]: a string->message map object *)
}.

Inductive obj :=
| OMsg (m : msgobj)
| OIList (l : list Z)
| OMList (l : list nat)
| OIMap (kv : list (list Z * Z))
| OMMap (kv : list (list Z * nat)).

Record wrapper := { w_loc : nat; w_flag : nat }.

Record state := { heap : list obj; flags : list bool; vars : list (option wrapper) }.

Definition empty_msg : msgobj :=
  {| f_v := 0; f_s := []; f_sub := None; f_ri := None; f_rm := None; f_mi := None; f_mm := None |}.

Definition init (nvars : nat) : state := {| heap := []; flags := []; vars := repeat None nvars |}.

(* ---- list helpers ---- *)
Fixpoint upd {A} (i : nat) (x : A) (l : list A) : list A :=
  match l, i with
  | [], _ => []
  | _ :: r, O => x :: r
  | y :: r, S i' => y :: upd i' x r
  end.

Definition var (st : state) (i : nat) : option wrapper :=
  match nth_error (vars st) i with Some (Some w) => Some w | _ => None end.
Definition flag (st : state) (f : nat) : bool := nth f (flags st) true.
Definition obj_at (st : state) (l : nat) : option obj := nth_error (heap st) l.
Definition msg_at (st : state) (l : nat) : option msgobj :=
  match obj_at st l with Some (OMsg m) => Some m | _ => None end.
Definition ilist_at (st : state) (l : nat) : list Z :=
  match obj_at st l with Some (OIList x) => x | _ => [] end.
Definition mlist_at (st : state) (l : nat) : list nat :=
  match obj_at st l with Some (OMList x) => x | _ => [] end.
Definition imap_at (st : state) (l : nat) : list (list Z * Z) :=
  match obj_at st l with Some (OIMap x) => x | _ => [] end.
Definition mmap_at (st : state) (l : nat) : list (list Z * nat) :=
  match obj_at st l with Some (OMMap x) => x | _ => [] end.

Definition set_obj (st : state) (l : nat) (o : obj) : state :=
  {| heap := upd l o (heap st); flags := flags st; vars := vars st |}.
Definition alloc (st : state) (o : obj) : state * nat :=
  ({| heap := heap st ++ [o]; flags := flags st; vars := vars st |}, length (heap st)).
Definition alloc_flag (st : state) (b : bool) : state * nat :=
  ({| heap := heap st; flags := flags st ++ [b]; vars := vars st |}, length (flags st)).
Definition set_var (st : state) (i : nat) (w : wrapper) : state :=
  {| heap := heap st; flags := flags st; vars := upd i (Some w) (vars st) |}.
Definition set_flag (st : state) (f : nat) (b : bool) : state :=
  {| heap := heap st; flags := upd f b (flags st); vars := vars st |}.

(* sorted string-keyed maps (MapField.Items order) *)
Fixpoint smap_put {A} (k : list Z) (v : A) (m : list (list Z * A)) : list (list Z * A) :=
  match m with
  | [] => [(k, v)]
  | (k', v') :: r =>
      if bytes_eqb k k' then (k, v) :: r
      else if lex_ltb k k' then (k, v) :: m
      else (k', v') :: smap_put k v r
  end.
Fixpoint smap_get {A} (k : list Z) (m : list (list Z * A)) : option A :=
  match m with
  | [] => None
  | (k', v) :: r => if bytes_eqb k k' then Some v else smap_get k r
  end.

(* ---- scalar conversions of this schema (int64 and string kinds; the float
   oracles of Kinds are not reached) ---- *)
Definition conv (k : kind) (v : sval) : outcome pval := to_proto (fun _ => 0) (fun _ => 0) k v.
Definition conv_int (v : sval) : outcome Z :=
  match conv KInt64 v with Stored (PI64 z) => Stored z | Stored _ => Rejected | Rejected => Rejected | HostPanic => HostPanic end.
Definition conv_str (v : sval) : outcome (list Z) :=
  match conv KString v with Stored (PStr s) => Stored s | Stored _ => Rejected | Rejected => Rejected | HostPanic => HostPanic end.
Fixpoint conv_ints (vs : list sval) : outcome (list Z) :=
  match vs with
  | [] => Stored []
  | v :: r => match conv_int v with
              | Stored z => match conv_ints r with Stored zs => Stored (z :: zs) | e => e end
              | Rejected => Rejected
              | HostPanic => HostPanic
              end
  end.

(* ---- operations of a history ---- *)
Inductive op :=
| New (i : nat)                               (* x_i = Node() *)
| Copy (i j : nat)                            (* x_i = Node(x_j) *)
| GetSub (i j : nat)                          (* x_i = x_j.sub *)
| GetRM (i j k : nat)                         (* x_i = x_j.rm[k] *)
| GetMM (i j : nat) (key : list Z)            (* x_i = x_j.mm[key] *)
| SetV (i : nat) (val : sval)                 (* x_i.v = val *)
| SetS (i : nat) (val : sval)                 (* x_i.s = val *)
| SetSub (i j : nat)                          (* x_i.sub = x_j *)
| ClearSub (i : nat)                          (* x_i.sub = None *)
| AppendRI (i : nat) (val : sval)             (* x_i.ri.append(val) *)
| SetRI (i k : nat) (val : sval)              (* x_i.ri[k] = val *)
| AssignRI (i j : nat)                        (* x_i.ri = x_j.ri *)
| AssignRIList (i : nat) (vals : list sval)   (* x_i.ri = [vals] *)
| AppendRM (i j : nat)                        (* x_i.rm.append(x_j) *)
| AssignRM (i j : nat)                        (* x_i.rm = x_j.rm *)
| SetMI (i : nat) (key : list Z) (val : sval) (* x_i.mi[key] = val *)
| SetMM (i : nat) (key : list Z) (j : nat)    (* x_i.mm[key] = x_j *)
| AssignMM (i j : nat)                        (* x_i.mm = x_j.mm *)
| AssignMI (i j : nat)                        (* x_i.mi = x_j.mi *)
| AssignRMList (i j : nat)                    (* x_i.rm = [x_j] *)
| AssignMIDict (i : nat) (key : list Z) (val : sval)   (* x_i.mi = {key: val} *)
| AssignMMDict (i : nat) (key : list Z) (j : nat)      (* x_i.mm = {key: x_j} *)
| Freeze (i : nat).                           (* x_i.Freeze() *)

Inductive result := ROk | RErr | RPanic | RUnset.   (* RUnset: an operand variable is unset *)

(* the view `x.f` of a repeated / map field: getField = Has ? wrapper sharing
   x's flag : detached frozen empty default *)
Definition live_list (st : state) (o : option nat) (len : nat -> nat) : option nat :=
  match o with Some l => if Nat.eqb (len l) 0 then None else Some l | None => None end.
Definition view_ri (st : state) (m : msgobj) : option nat := live_list st (f_ri m) (fun l => length (ilist_at st l)).
Definition view_rm (st : state) (m : msgobj) : option nat := live_list st (f_rm m) (fun l => length (mlist_at st l)).
Definition view_mi (st : state) (m : msgobj) : option nat := live_list st (f_mi m) (fun l => length (imap_at st l)).
Definition view_mm (st : state) (m : msgobj) : option nat := live_list st (f_mm m) (fun l => length (mmap_at st l)).

Definition with_msg (st : state) (i : nat) (k : wrapper -> msgobj -> result * state) : result * state :=
  match var st i with
  | None => (RUnset, st)
  | Some w => match msg_at st (w_loc w) with
              | Some m => k w m
              | None => (RPanic, st)      (* dangling wrapper: cannot happen (see wf) *)
              end
  end.

(* mutators through a message wrapper test the shared flag first (Message.SetField) *)
Definition with_mutable_msg (st : state) (i : nat) (k : wrapper -> msgobj -> result * state) : result * state :=
  with_msg st i (fun w m => if flag st (w_flag w) then (RErr, st) else k w m).

Definition put_msg (st : state) (w : wrapper) (m : msgobj) : state := set_obj st (w_loc w) (OMsg m).

(* msg.Mutable(list field): the existing list object or a new one *)
Definition mutable_field (st : state) (w : wrapper) (m : msgobj) (cur : option nat) (fresh : obj)
           (store : msgobj -> nat -> msgobj) : state * nat :=
  match cur with
  | Some l => (st, l)
  | None => let (st1, l) := alloc st fresh in (put_msg st1 w (store m l), l)
  end.

Definition set_ri (m : msgobj) (l : nat) : msgobj :=
  {| f_v := f_v m; f_s := f_s m; f_sub := f_sub m; f_ri := Some l; f_rm := f_rm m; f_mi := f_mi m; f_mm := f_mm m |}.
Definition set_rm (m : msgobj) (l : nat) : msgobj :=
  {| f_v := f_v m; f_s := f_s m; f_sub := f_sub m; f_ri := f_ri m; f_rm := Some l; f_mi := f_mi m; f_mm := f_mm m |}.
Definition set_mi (m : msgobj) (l : nat) : msgobj :=
  {| f_v := f_v m; f_s := f_s m; f_sub := f_sub m; f_ri := f_ri m; f_rm := f_rm m; f_mi := Some l; f_mm := f_mm m |}.
Definition set_mm (m : msgobj) (l : nat) : msgobj :=
  {| f_v := f_v m; f_s := f_s m; f_sub := f_sub m; f_ri := f_ri m; f_rm := f_rm m; f_mi := f_mi m; f_mm := Some l |}.
Definition set_sub (m : msgobj) (o : option nat) : msgobj :=
  {| f_v := f_v m; f_s := f_s m; f_sub := o; f_ri := f_ri m; f_rm := f_rm m; f_mi := f_mi m; f_mm := f_mm m |}.
Definition set_v (m : msgobj) (z : Z) : msgobj :=
  {| f_v := z; f_s := f_s m; f_sub := f_sub m; f_ri := f_ri m; f_rm := f_rm m; f_mi := f_mi m; f_mm := f_mm m |}.
Definition set_s (m : msgobj) (s : list Z) : msgobj :=
  {| f_v := f_v m; f_s := s; f_sub := f_sub m; f_ri := f_ri m; f_rm := f_rm m; f_mi := f_mi m; f_mm := f_mm m |}.

Definition bind_new (st : state) (i : nat) (m : msgobj) (frozen : bool) : result * state :=
  if Nat.ltb i (length (vars st)) then
    let (st1, l) := alloc st (OMsg m) in
    let (st2, f) := alloc_flag st1 frozen in
    (ROk, set_var st2 i {| w_loc := l; w_flag := f |})
  else (RUnset, st).

Definition scalar_result {A} (st : state) (c : outcome A) (k : A -> state) : result * state :=
  match c with Stored a => (ROk, k a) | Rejected => (RErr, st) | HostPanic => (RPanic, st) end.

Definition step (st : state) (o : op) : result * state :=
  match o with
  | New i => bind_new st i empty_msg false
  | Copy i j =>
      (* MessageDescriptor.CallInternal: src.msg.Range(dest.msg.Set): the set fields,
         aliasing message / list / map values; fresh flag *)
      with_msg st j (fun _ m =>
        bind_new st i {| f_v := f_v m; f_s := f_s m; f_sub := f_sub m;
                         f_ri := view_ri st m; f_rm := view_rm st m; f_mi := view_mi st m; f_mm := view_mm st m |} false)
  | GetSub i j =>
      with_msg st j (fun w m =>
        match f_sub m with
        | Some l => if Nat.ltb i (length (vars st)) then (ROk, set_var st i {| w_loc := l; w_flag := w_flag w |}) else (RUnset, st)
        | None => bind_new st i empty_msg true        (* defaultValue: detached, frozen *)
        end)
  | GetRM i j k =>
      with_msg st j (fun w m =>
        match view_rm st m with
        | Some ll => match nth_error (mlist_at st ll) k with
                     | Some l => if Nat.ltb i (length (vars st)) then (ROk, set_var st i {| w_loc := l; w_flag := w_flag w |}) else (RUnset, st)
                     | None => (RErr, st)             (* index out of range *)
                     end
        | None => (RErr, st)
        end)
  | GetMM i j key =>
      with_msg st j (fun w m =>
        match view_mm st m with
        | Some ml => match smap_get key (mmap_at st ml) with
                     | Some l => if Nat.ltb i (length (vars st)) then (ROk, set_var st i {| w_loc := l; w_flag := w_flag w |}) else (RUnset, st)
                     | None => (RErr, st)             (* key not found *)
                     end
        | None => (RErr, st)
        end)
  | SetV i val =>
      with_mutable_msg st i (fun w m =>
        match val with
        | SNone => (ROk, put_msg st w (set_v m 0))
        | _ => scalar_result st (conv_int val) (fun z => put_msg st w (set_v m z))
        end)
  | SetS i val =>
      with_mutable_msg st i (fun w m =>
        match val with
        | SNone => (ROk, put_msg st w (set_s m []))
        | _ => scalar_result st (conv_str val) (fun s => put_msg st w (set_s m s))
        end)
  | SetSub i j =>
      match var st j with
      | None => (RUnset, st)
      | Some wj => with_mutable_msg st i (fun w m => (ROk, put_msg st w (set_sub m (Some (w_loc wj)))))   (* alias *)
      end
  | ClearSub i => with_mutable_msg st i (fun w m => (ROk, put_msg st w (set_sub m None)))
  | AppendRI i val =>
      with_msg st i (fun w m =>
        match view_ri st m with
        | None => (RErr, st)                          (* default value: frozen empty list *)
        | Some ll => if flag st (w_flag w) then (RErr, st)
                     else scalar_result st (conv_int val) (fun z => set_obj st ll (OIList (ilist_at st ll ++ [z])))
        end)
  | SetRI i k val =>
      with_msg st i (fun w m =>
        match view_ri st m with
        | None => (RErr, st)
        | Some ll => if negb (Nat.ltb k (length (ilist_at st ll))) then (RErr, st)
                     else if flag st (w_flag w) then (RErr, st)
                     else scalar_result st (conv_int val) (fun z => set_obj st ll (OIList (upd k z (ilist_at st ll))))
        end)
  | AssignRI i j =>
      (* repaired setField: the elements are read and converted first, then the
         destination list (msg.Mutable) is truncated and refilled *)
      with_msg st j (fun _ mj =>
        let elems := match view_ri st mj with Some ll => ilist_at st ll | None => [] end in
        with_mutable_msg st i (fun w m =>
          let (st1, ll) := mutable_field st w m (f_ri m) (OIList []) set_ri in
          (ROk, set_obj st1 ll (OIList elems))))
  | AssignRIList i vals =>
      with_mutable_msg st i (fun w m =>
        match conv_ints vals with
        | Stored zs => let (st1, ll) := mutable_field st w m (f_ri m) (OIList []) set_ri in (ROk, set_obj st1 ll (OIList zs))
        | Rejected => (RErr, st)
        | HostPanic => (RPanic, st)
        end)
  | AppendRM i j =>
      match var st j with
      | None => (RUnset, st)
      | Some wj =>
          with_msg st i (fun w m =>
            match view_rm st m with
            | None => (RErr, st)
            | Some ll => if flag st (w_flag w) then (RErr, st)
                         else (ROk, set_obj st ll (OMList (mlist_at st ll ++ [w_loc wj])))
            end)
      end
  | AssignRM i j =>
      with_msg st j (fun _ mj =>
        let elems := match view_rm st mj with Some ll => mlist_at st ll | None => [] end in
        with_mutable_msg st i (fun w m =>
          let (st1, ll) := mutable_field st w m (f_rm m) (OMList []) set_rm in
          (ROk, set_obj st1 ll (OMList elems))))
  | SetMI i key val =>
      with_msg st i (fun w m =>
        match view_mi st m with
        | None => (RErr, st)
        | Some ml => if flag st (w_flag w) then (RErr, st)
                     else scalar_result st (conv_int val) (fun z => set_obj st ml (OIMap (smap_put key z (imap_at st ml))))
        end)
  | SetMM i key j =>
      match var st j with
      | None => (RUnset, st)
      | Some wj =>
          with_msg st i (fun w m =>
            match view_mm st m with
            | None => (RErr, st)
            | Some ml => if flag st (w_flag w) then (RErr, st)
                         else (ROk, set_obj st ml (OMMap (smap_put key (w_loc wj) (mmap_at st ml))))
            end)
      end
  | AssignMM i j =>
      (* setField, map branch: msg.Clear then a NEW map object filled from the source *)
      with_msg st j (fun _ mj =>
        let entries := match view_mm st mj with Some ml => mmap_at st ml | None => [] end in
        with_mutable_msg st i (fun w m =>
          let (st1, ml) := alloc st (OMMap entries) in
          (ROk, put_msg st1 w (set_mm m ml))))
  | AssignMI i j =>
      with_msg st j (fun _ mj =>
        let entries := match view_mi st mj with Some ml => imap_at st ml | None => [] end in
        with_mutable_msg st i (fun w m =>
          let (st1, ml) := alloc st (OIMap entries) in
          (ROk, put_msg st1 w (set_mi m ml))))
  | AssignRMList i j =>
      match var st j with
      | None => (RUnset, st)
      | Some wj =>
          with_mutable_msg st i (fun w m =>
            let (st1, ll) := mutable_field st w m (f_rm m) (OMList []) set_rm in
            (ROk, set_obj st1 ll (OMList [w_loc wj])))
      end
  | AssignMIDict i key val =>
      (* the field is cleared and a new map installed before the entries are converted *)
      with_mutable_msg st i (fun w m =>
        let (st1, ml) := alloc st (OIMap []) in
        let st2 := put_msg st1 w (set_mi m ml) in
        match conv_int val with
        | Stored z => (ROk, set_obj st2 ml (OIMap [(key, z)]))
        | Rejected => (RErr, st2)
        | HostPanic => (RPanic, st2)
        end)
  | AssignMMDict i key j =>
      match var st j with
      | None => (RUnset, st)
      | Some wj =>
          with_mutable_msg st i (fun w m =>
            let (st1, ml) := alloc st (OMMap [(key, w_loc wj)]) in
            (ROk, put_msg st1 w (set_mm m ml)))
      end
  | Freeze i =>
      match var st i with
      | None => (RUnset, st)
      | Some w => (ROk, set_flag st (w_flag w) true)
      end
  end.

Fixpoint run (st : state) (ops : list op) : list result * state :=
  match ops with
  | [] => ([], st)
  | o :: r => let (res, st1) := step st o in let (rs, st2) := run st1 r in (res :: rs, st2)
  end.

(* ---- what a program can read back: the content reachable from a message ---- *)
Inductive dump :=
| D (v : Z) (s : list Z) (sub : option dump) (ri : list Z) (rm : list dump)
    (mi : list (list Z * Z)) (mm : list (list Z * dump)).

Fixpoint somes {A} (l : list (option A)) : option (list A) :=
  match l with
  | [] => Some []
  | None :: _ => None
  | Some x :: r => match somes r with Some r' => Some (x :: r') | None => None end
  end.

(* None: fuel exhausted (cyclic or very deep graph) or a dangling location *)
Fixpoint dump_msg (fuel : nat) (st : state) (l : nat) : option dump :=
  match fuel with
  | O => None
  | S fuel' =>
      match msg_at st l with
      | None => None
      | Some m =>
          let sub := match f_sub m with
                     | None => Some None
                     | Some p => match dump_msg fuel' st p with Some d => Some (Some d) | None => None end
                     end in
          let ri := match f_ri m with Some ll => ilist_at st ll | None => [] end in
          let rm := somes (map (dump_msg fuel' st) (match f_rm m with Some ll => mlist_at st ll | None => [] end)) in
          let mi := match f_mi m with Some ml => imap_at st ml | None => [] end in
          let mm := somes (map (fun kv => match dump_msg fuel' st (snd kv) with Some d => Some (fst kv, d) | None => None end)
                               (match f_mm m with Some ml => mmap_at st ml | None => [] end)) in
          match sub, rm, mm with
          | Some sub', Some rm', Some mm' => Some (D (f_v m) (f_s m) sub' ri rm' mi mm')
          | _, _, _ => None
          end
      end
  end.

Definition dump_var (fuel : nat) (st : state) (i : nat) : option dump :=
  match var st i with Some w => dump_msg fuel st (w_loc w) | None => None end.
