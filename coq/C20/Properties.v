(* C20 -- property theorems only.  Each is closed by `exact <lemma>` (or a two-line
   instantiation of a witness lemma). *)
From Coq Require Import ZArith Bool List.
From SV Require Import Common.GoInt C20.Model C20.Spec C20.Proofs.
Import ListNotations.
Open Scope Z_scope.

(* toProto followed by toStarlark1 is the range-based specification, for all 16 kinds
   and all Starlark values (i2f, f32: the int->float64 and float64->float32 oracles) *)
Theorem conversion_exact :
  forall i2f f32 k v,
    match to_proto i2f f32 k v with
    | Stored p => denote i2f f32 k v = Some (to_starlark p)
    | Rejected => denote i2f f32 k v = None
    | HostPanic => False
    end.
Proof. exact to_proto_denote. Qed.

(* every kind x position (singular, constructor keyword, repeated append / index /
   whole-list, map value / whole-map / key) x value: the stored value reads back as
   specified, or the store is rejected with the field unchanged (a rejected whole-map
   assignment has cleared the field); never a host panic *)
Theorem scalar_store_exact :
  forall i2f f32 k pos before val,
    match expected i2f f32 k pos before val with
    | Some e => store_at i2f f32 k pos before val = (SOk, e)
    | None => store_at i2f f32 k pos before val = (SErr, match pos with PMapAssign _ => CM [] | _ => before end)
    end.
Proof. exact store_at_exact. Qed.

(* no store attempt, of any value at any position of any kind, ends in a host panic
   (on the repaired tree; History.v keeps the bytes -> string panic of the old toProto) *)
Theorem no_host_panic :
  forall i2f f32 k pos before val, fst (store_at i2f f32 k pos before val) <> SPanic.
Proof. exact store_never_panics. Qed.

(* all signed and unsigned 32/64-bit integers: exact inside the range, rejected outside *)
Theorem integers_exact :
  forall i2f f32 k lo hi z, int_range k = Some (lo, hi) ->
    (lo <= z <= hi -> exists p, to_proto i2f f32 k (SInt z) = Stored p /\ to_starlark p = SInt z) /\
    (~ (lo <= z <= hi) -> to_proto i2f f32 k (SInt z) = Rejected).
Proof. exact integers_exact_lemma. Qed.

(* after ANY sequence of operations every int64 field / element / map value is in
   range and every reference (sub-message, list, map, list element, map value,
   variable) points to an object of the declared sort *)
Theorem typed_invariant :
  forall ops st, wf st -> wf (snd (run st ops)).
Proof. exact run_wf. Qed.

Theorem typed_invariant_from_start :
  forall n ops, wf (snd (run (init n) ops)).
Proof. intros n ops. exact (run_wf ops (init n) (init_wf n)). Qed.

(* every mutator through a wrapper whose (shared) flag is set fails and changes nothing *)
Theorem frozen_blocks_mutation :
  forall st o i w, target o = Some i -> var st i = Some w -> flag st (w_flag w) = true ->
    snd (step st o) = st /\ fst (step st o) <> ROk.
Proof. exact frozen_blocks_lemma. Qed.

(* a wrapper obtained from a frozen message by x.sub, x.rm[k], x.mm[key] is frozen
   (it shares the flag, or is the detached frozen default), hence blocks mutation too *)
Theorem derived_wrappers_frozen :
  forall st g i j wj st',
    (g = GetSub i j \/ (exists k, g = GetRM i j k) \/ (exists key, g = GetMM i j key)) ->
    var st j = Some wj -> flag st (w_flag wj) = true -> step st g = (ROk, st') ->
    exists wi, var st' i = Some wi /\ flag st' (w_flag wi) = true.
Proof. exact derived_frozen_lemma. Qed.

(* FULL statement of freeze soundness ("once frozen, no operation through any wrapper
   changes the content reachable from the message"):

     forall n ops1 i ops2 f, (no operation of ops2 re-binds x_i) ->
       let st1 := snd (run (init n) (ops1 ++ [Freeze i])) in
       dump_var (S f) (snd (run st1 ops2)) i = dump_var (S f) st1 i.

   The faithful model of the code FALSIFIES it; the witnesses below are replayed on the
   real implementation by bin/check C20 (known findings freeze:via-copy, freeze:via-alias). *)
Definition freeze_sound_statement : Prop :=
  forall n ops1 i ops2 f,
    forallb (fun o => negb (rebinds i o)) ops2 = true ->
    let st1 := snd (run (init n) (ops1 ++ [Freeze i])) in
    dump_var (S f) (snd (run st1 ops2)) i = dump_var (S f) st1 i.

(* c = Node(m) shares m's sub-message (and list / map objects) under a fresh flag *)
Theorem freeze_shallow_copy_refuted :
  exists ops1 i ops2,
    forallb (fun o => negb (rebinds i o)) ops2 = true /\
    existsb (fun o => match o with SetSub _ _ => true | _ => false end) ops2 = false /\
    let st1 := snd (run (init 4) (ops1 ++ [Freeze i])) in
    fst (run st1 ops2) = [ROk; ROk] /\
    dump_var 60 (snd (run st1 ops2)) i <> dump_var 60 st1 i.
Proof.
  exists [New 0; New 1; SetV 1 (SInt 1); SetSub 0 1; Copy 2 0], 0%nat, copy_suffix.
  vm_compute. repeat split; discriminate.
Qed.

(* o.sub = m.sub stores m's sub-message object itself, under o's flag (no copy involved) *)
Theorem freeze_alias_refuted :
  exists ops1 i ops2,
    forallb (fun o => negb (rebinds i o)) ops2 = true /\
    existsb (fun o => match o with Copy _ _ => true | _ => false end) (ops1 ++ ops2) = false /\
    let st1 := snd (run (init 4) (ops1 ++ [Freeze i])) in
    fst (run st1 ops2) = [ROk; ROk] /\
    dump_var 60 (snd (run st1 ops2)) i <> dump_var 60 st1 i.
Proof.
  exists [New 0; New 1; SetV 1 (SInt 1); SetSub 0 1; New 2; GetSub 3 0; SetSub 2 3], 0%nat, alias_suffix.
  vm_compute. repeat split; discriminate.
Qed.

Theorem freeze_sound_refuted : ~ freeze_sound_statement.
Proof.
  intro H. specialize (H 4%nat [New 0; New 1; SetV 1 (SInt 1); SetSub 0 1; Copy 2 0] 0%nat copy_suffix 59%nat eq_refl).
  vm_compute in H. discriminate.
Qed.

(* what does hold: for histories without copy and message-aliasing operations
   (boolean guard `simple` on every operation) freezing is sound *)
Theorem freeze_sound_partial :
  forall n ops1 i ops2 f,
    forallb simple (ops1 ++ Freeze i :: ops2) = true ->
    forallb (fun o => negb (rebinds i o)) ops2 = true ->
    let st1 := snd (run (init n) (ops1 ++ [Freeze i])) in
    dump_var (S f) (snd (run st1 ops2)) i = dump_var (S f) st1 i.
Proof. exact freeze_sound_partial_lemma. Qed.

(* ---- non-vacuity ---- *)
Definition zf (z : Z) : Z := 0.

Example scalar_premises_hold :
  expected zf zf KUint32 PAppend (CL [SInt 7]) (SInt 4294967295) = Some (CL [SInt 7; SInt 4294967295]) /\
  expected zf zf KUint32 PAppend (CL [SInt 7]) (SInt 4294967296) = None /\
  expected zf zf KInt64 (PMapKey KString (SInt 7)) (CM [(SStr [112], SInt 1)]) (SBytes [97]) = Some (CM [(SStr [97], SInt 7); (SStr [112], SInt 1)]) /\
  int_range KSint64 = Some (-9223372036854775808, 9223372036854775807) /\
  to_proto zf zf KString (SBytes [97; 98]) = Stored (PStr [97; 98]).
Proof. vm_compute. repeat split. Qed.

Definition ex_prefix : list op :=
  [New 0; New 1; AssignRIList 0 [SInt 1; SInt 2]; AssignMIDict 0 [97] (SInt 5); SetV 0 (SInt 9); AssignRI 1 0].
Definition ex_suffix : list op :=
  [SetV 0 (SInt 1); AppendRI 0 (SInt 3); AppendRI 1 (SInt 3); SetMI 0 [97] (SInt 6); AssignRI 0 1; GetSub 2 0; SetV 2 (SInt 4); SetV 1 (SInt 8)].

Example freeze_premises_hold :
  forallb simple (ex_prefix ++ Freeze 0 :: ex_suffix) = true /\
  forallb (fun o => negb (rebinds 0 o)) ex_suffix = true /\
  let st1 := snd (run (init 4) (ex_prefix ++ [Freeze 0])) in
  dump_var 5 st1 0 = Some (D 9 [] None [1; 2] [] [([97], 5)] []) /\
  fst (run st1 ex_suffix) = [RErr; RErr; ROk; RErr; RErr; ROk; RErr; ROk] /\
  dump_var 5 (snd (run st1 ex_suffix)) 1 = Some (D 8 [] None [1; 2; 3] [] [] []) /\
  var st1 0 <> None /\ flag st1 0 = true /\ target (SetV 0 (SInt 1)) = Some 0%nat.
Proof. vm_compute. repeat split; discriminate. Qed.
