(* C20 -- property theorems only. *)
From Coq Require Import ZArith Bool List.
From SV Require Import Common.GoInt C20.Model C20.Spec C20.Proofs.
Import ListNotations.
Open Scope Z_scope.

Theorem placeholder_wrap : forall z, in_uint32 z = true -> wrapu32 z = z.
Proof. exact wrapu32_id. Qed.
