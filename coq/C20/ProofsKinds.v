(* C20 -- scalar kinds: toProto / toStarlark1 store exactly the values the kind's
   range admits and reject everything else (never a host panic). *)
From Coq Require Import ZArith Bool List Lia.
From SV Require Import Common.GoInt C20.Kinds C20.Store C20.Spec.
Import ListNotations.
Open Scope Z_scope.

Lemma i32_check i :
  (if in_int64 i then (if wrap32 i =? i then true else false) else false) = ((-2147483648 <=? i) && (i <=? 2147483647)).
Proof.
  destruct (in_int32 i) eqn:R.
  - rewrite (wrap32_id i R), Z.eqb_refl.
    unfold in_int32, in_int64, min_int32, max_int32, min_int64, max_int64 in *.
    rewrite R. apply andb_true_iff in R. destruct R as [A B]. apply Z.leb_le in A. apply Z.leb_le in B.
    assert (E : ((-9223372036854775808 <=? i) && (i <=? 9223372036854775807)) = true) by (apply andb_true_iff; split; apply Z.leb_le; lia).
    rewrite E. reflexivity.
  - assert (N : (wrap32 i =? i) = false).
    { apply Z.eqb_neq. intro E. pose proof (wrap32_range i) as W. rewrite E in W. congruence. }
    rewrite N. unfold in_int32, min_int32, max_int32 in R. rewrite R. destruct (in_int64 i); reflexivity.
Qed.

Lemma u32_check i :
  (if in_uint64 i then (if wrapu32 i =? i then true else false) else false) = ((0 <=? i) && (i <=? 4294967295)).
Proof.
  destruct (in_uint32 i) eqn:R.
  - rewrite (wrapu32_id i R), Z.eqb_refl.
    unfold in_uint32, in_uint64, max_uint32, max_uint64 in *.
    rewrite R. apply andb_true_iff in R. destruct R as [A B]. apply Z.leb_le in A. apply Z.leb_le in B.
    assert (E : ((0 <=? i) && (i <=? 18446744073709551615)) = true) by (apply andb_true_iff; split; apply Z.leb_le; lia).
    rewrite E. reflexivity.
  - assert (N : (wrapu32 i =? i) = false).
    { apply Z.eqb_neq. intro E. pose proof (wrapu32_range i) as W. rewrite E in W. congruence. }
    rewrite N. unfold in_uint32, max_uint32 in R. rewrite R. destruct (in_uint64 i); reflexivity.
Qed.

Lemma enum_has_spec i : (if in_int32 i then enum_has i else false) = ((i =? 0) || (i =? 2) || (i =? 5) || (i =? 1) || (i =? 3) || (i =? -2)).
Proof.
  unfold enum_has, enum_numbers. cbn [existsb]. rewrite orb_false_r.
  destruct (Z.eqb_spec i 0) as [E|E]; [subst; reflexivity|].
  destruct (Z.eqb_spec i 2) as [E2|E2]; [subst; reflexivity|].
  destruct (Z.eqb_spec i 5) as [E5|E5]; [subst; reflexivity|].
  destruct (Z.eqb_spec i 1) as [E1|E1]; [subst; reflexivity|].
  destruct (Z.eqb_spec i 3) as [E3|E3]; [subst; reflexivity|].
  destruct (Z.eqb_spec i (-2)) as [E6|E6]; [subst; reflexivity|].
  simpl. destruct (in_int32 i); reflexivity.
Qed.

Section K.
  Variable i2f : Z -> Z.
  Variable f32 : Z -> Z.
  Notation to_proto := (to_proto i2f f32).
  Notation denote := (denote i2f f32).

  (* toProto followed by toStarlark1 is exactly the range-based specification *)
  Lemma to_proto_denote k v :
    match to_proto k v with
    | Stored p => denote k v = Some (to_starlark p)
    | Rejected => denote k v = None
    | HostPanic => False
    end.
  Proof.
    destruct k; destruct v as [|b|i|f|s|s|e n|]; try reflexivity;
      unfold Kinds.to_proto, Spec.denote; cbn [int_range].
    (* signed 32 *)
    1-3: pose proof (i32_check i) as C; destruct (in_int64 i); [destruct (Z.eqb_spec (wrap32 i) i) as [E|E]|]; rewrite <- C; try reflexivity; simpl; rewrite E; reflexivity.
    (* signed 64 *)
    1-3: unfold in_int64, min_int64, max_int64; destruct ((-9223372036854775808 <=? i) && (i <=? 9223372036854775807)); reflexivity.
    (* unsigned 32 *)
    1-2: pose proof (u32_check i) as C; destruct (in_uint64 i); [destruct (Z.eqb_spec (wrapu32 i) i) as [E|E]|]; rewrite <- C; try reflexivity; simpl; rewrite E; reflexivity.
    (* unsigned 64 *)
    1-2: unfold in_uint64, max_uint64; destruct ((0 <=? i) && (i <=? 18446744073709551615)); reflexivity.
    (* enum *)
    - cbn [enum_value_of]. pose proof (enum_has_spec i) as C.
      destruct (in_int32 i); [destruct (enum_has i)|]; rewrite <- C; reflexivity.
    - cbn [enum_value_of]. unfold enum_by_name, enum_names. cbn [find fst].
      destruct (bytes_eqb s [65]); [reflexivity|]. destruct (bytes_eqb s [66]); [reflexivity|].
      destruct (bytes_eqb s [67]); [reflexivity|]. destruct (bytes_eqb s [68]); [reflexivity|].
      destruct (bytes_eqb s [71]); [reflexivity|]. destruct (bytes_eqb s [78]); reflexivity.
    - cbn [enum_value_of]. destruct e; reflexivity.
  Qed.

  Lemma to_proto_never_panics k v : to_proto k v <> HostPanic.
  Proof. pose proof (to_proto_denote k v) as H. intro E. rewrite E in H. exact H. Qed.

  Lemma convert_all_denote k vs :
    match convert_all i2f f32 k vs with
    | Stored l => denote_all i2f f32 k vs = Some l
    | Rejected => denote_all i2f f32 k vs = None
    | HostPanic => False
    end.
  Proof.
    induction vs as [|v r IH]; [reflexivity|].
    cbn [convert_all denote_all]. pose proof (to_proto_denote k v) as H.
    destruct (to_proto k v) as [p| |]; [|rewrite H; reflexivity|exact H].
    rewrite H. destruct (convert_all i2f f32 k r) as [l| |]; [rewrite IH; reflexivity| |exact IH].
    rewrite IH. reflexivity.
  Qed.

  Lemma map_set_denote kk vk m key val :
    match map_set i2f f32 kk vk m key val with
    | Stored m' => exists kx x, denote kk key = Some kx /\ denote vk val = Some x /\ m' = map_put kx x m
    | Rejected => denote kk key = None \/ denote vk val = None
    | HostPanic => False
    end.
  Proof.
    unfold map_set. pose proof (to_proto_denote kk key) as Hk. pose proof (to_proto_denote vk val) as Hv.
    destruct (to_proto kk key) as [pk| |]; [|left; exact Hk|exact Hk].
    destruct (to_proto vk val) as [pv| |]; [|right; exact Hv|exact Hv].
    exists (to_starlark pk), (to_starlark pv). repeat split; assumption.
  Qed.

  (* every kind, every position, every value: the store reads back exactly what the
     range-based specification prescribes, or is rejected with the field unchanged
     (a rejected whole-map assignment has cleared the field); never a host panic *)
  Lemma store_at_exact k pos before val :
    match expected i2f f32 k pos before val with
    | Some e => store_at i2f f32 k pos before val = (SOk, e)
    | None => store_at i2f f32 k pos before val = (SErr, match pos with PMapAssign _ => CM [] | _ => before end)
    end.
  Proof.
    assert (S : forall val, match (match val with SNone => Some (CL [default_of k]) | _ => option_map (fun x => CL [x]) (denote k val) end) with
                            | Some e => lift before CL (set_singular i2f f32 k val) = (SOk, e)
                            | None => lift before CL (set_singular i2f f32 k val) = (SErr, before) end).
    { intro v. unfold set_singular. pose proof (to_proto_denote k v) as H.
      destruct v; try reflexivity; destruct (to_proto k _) as [p| |]; try rewrite H; try reflexivity; contradiction. }
    destruct pos as [| | |i|others|key|key|kk v]; cbn [expected store_at].
    - apply S.
    - apply S.
    - destruct before as [l|m]; [|reflexivity]. unfold rep_append. pose proof (to_proto_denote k val) as H.
      destruct (to_proto k val) as [p| |]; [rewrite H; reflexivity|rewrite H; reflexivity|contradiction].
    - destruct before as [l|m]; [|reflexivity]. unfold rep_setindex. pose proof (to_proto_denote k val) as H.
      destruct (to_proto k val) as [p| |]; [rewrite H; reflexivity|rewrite H; reflexivity|contradiction].
    - unfold rep_assign. pose proof (convert_all_denote k (others ++ [val])) as H.
      destruct (convert_all i2f f32 k (others ++ [val])) as [l| |]; [rewrite H; reflexivity|rewrite H; reflexivity|contradiction].
    - destruct before as [l|m]; [reflexivity|]. pose proof (map_set_denote KString k m key val) as H.
      destruct (map_set i2f f32 KString k m key val) as [m'| |].
      + destruct H as [kx [x [H1 [H2 H3]]]]. rewrite H1, H2, H3. reflexivity.
      + destruct H as [H|H]; rewrite H; [reflexivity|]. destruct (denote KString key); reflexivity.
      + contradiction.
    - unfold map_assign. cbn [map_assign_loop]. pose proof (map_set_denote KString k [] key val) as H.
      destruct (map_set i2f f32 KString k [] key val) as [m'| |].
      + destruct H as [kx [x [H1 [H2 H3]]]]. rewrite H1, H2, H3. reflexivity.
      + destruct H as [H|H]; rewrite H; [reflexivity|]. destruct (denote KString key); reflexivity.
      + contradiction.
    - destruct before as [l|m]; [reflexivity|]. pose proof (map_set_denote kk k m val v) as H.
      destruct (map_set i2f f32 kk k m val v) as [m'| |].
      + destruct H as [kx [x [H1 [H2 H3]]]]. rewrite H1, H2, H3. reflexivity.
      + destruct H as [H|H]; rewrite H; [reflexivity|]. destruct (denote kk val); reflexivity.
      + contradiction.
  Qed.

  Lemma store_never_panics k pos before val : fst (store_at i2f f32 k pos before val) <> SPanic.
  Proof.
    pose proof (store_at_exact k pos before val) as H.
    destruct (expected i2f f32 k pos before val); rewrite H; discriminate.
  Qed.

  (* all signed and unsigned 32/64-bit integers: stored exactly inside the range, rejected outside *)
  Lemma integers_exact_lemma k lo hi z : int_range k = Some (lo, hi) ->
    (lo <= z <= hi -> exists p, to_proto k (SInt z) = Stored p /\ to_starlark p = SInt z) /\
    (~ (lo <= z <= hi) -> to_proto k (SInt z) = Rejected).
  Proof.
    intro R. pose proof (to_proto_denote k (SInt z)) as H. unfold Spec.denote in H. rewrite R in H.
    split; intro Hz.
    - assert (E : ((lo <=? z) && (z <=? hi)) = true) by (apply andb_true_iff; split; apply Z.leb_le; lia).
      rewrite E in H. destruct (to_proto k (SInt z)) as [p| |]; [|discriminate|contradiction].
      exists p. split; [reflexivity|]. congruence.
    - assert (E : ((lo <=? z) && (z <=? hi)) = false).
      { apply andb_false_iff. destruct (Z.leb_spec lo z); [right; apply Z.leb_gt; lia|left; reflexivity]. }
      rewrite E in H. destruct (to_proto k (SInt z)) as [p| |]; [discriminate|reflexivity|contradiction].
  Qed.
End K.
