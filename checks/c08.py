"""C08 -- arguments bind to parameters exactly as specified (DESIGN.md section 8, C08)."""
import json
import os

from .lib import cbool, clist, cn, coq_mismatches, HarnessError
from .c08_c09_util import coq_eval_parts, coq_eval_sharded

LEVEL = "proof"
META = {
    "category": "proof",
    "text": "Coq theorems over a statement-by-statement model of the resolver's parameter layout, the compiler's defaults tuple (MANDATORY sentinels, NumParams adjustment for a bare *), the CALL* flattening and setArgs/findParam over list (option value): for ALL value types, ALL well-formed signatures of any size and ALL calls the model equals an independently written Python-3 binder (same bindings on success, failure on exactly the same calls with the same error class) and every parameter slot is written exactly once on success; for UnpackArgs/UnpackPositionalArgs with name/name?/name?? markers and typed targets: same error (class and parameter) as a per-parameter specification and the designated value in every target on success, no clobbering of the target of a wrongly typed argument (with the exact content of the other targets for positional failures), and -- when all argument types are acceptable -- the UnpackArgs specification coincides with the Python binder applied to def f(plain.., optional..=previous target). Tied to /repo on every run by executing the bounded product of the property's quantifier (280 signatures x call sites x * sequences x ** dicts; built-ins per parameter list x typed targets pre-filled with sentinels) on the real interpreter and comparing every case with Go re-implementations of the specifications, a sample with the Coq model and Spec (vm_compute) and with CPython 3.",
    "note": "Trusted: Coq kernel + vm_compute; the correspondence harness; the hand-written model is tied to the code only by differential execution; CPython 3.11 as an independent opinion on Spec.v (error class compared only where a single class applies: the priority among simultaneous errors is Starlark's own and differs from CPython's). Values are opaque (binding never inspects them). Evaluation order of argument and default expressions is out of scope. Unpack: the parsing of the ?/?? suffix, Unpacker implementations, the reflection path for user-defined Value targets and unsigned integer targets are not modelled (suffix parsing is exercised by the harness).",
    "technique": "Coq proof over executable model + exhaustive differential correspondence (vm_compute) + independent Go and CPython oracles",
}

HEADER = """From Coq Require Import String List Bool Arith NArith.
From SV Require Import C08.Types C08.Model C08.Spec.
Import ListNotations.
Open Scope string_scope.
Definition opt_eqb {A} (f : A -> A -> bool) (a b : option A) : bool :=
  match a, b with Some x, Some y => f x y | None, None => true | _, _ => false end.
Fixpoint list_eqb {A} (f : A -> A -> bool) (a b : list A) : bool :=
  match a, b with [] , [] => true | x :: r, y :: s => f x y && list_eqb f r s | _, _ => false end.
Definition kv_eqb (a b : string * N) : bool := String.eqb (fst a) (fst b) && N.eqb (snd a) (snd b).
Definition bound_eqb (a b : bound N) : bool :=
  match a, b with
  | BVal x, BVal y => N.eqb x y
  | BTuple x, BTuple y => list_eqb N.eqb x y
  | BDict x, BDict y => list_eqb kv_eqb x y
  | _, _ => false
  end.
Definition obs := result (list (option (bound N))).
Definition res_eqb (a b : obs) : bool :=
  match a, b with
  | Ok x, Ok y => list_eqb (opt_eqb bound_eqb) x y
  | Err e, Err f => err_eqb e f
  | _, _ => false
  end.
Definition case := (signature N * call N * obs)%type.
(* a monomorphic constructor keeps elaboration of the case list cheap *)
Definition C (req : list string) (opt : list (string * N)) (star : star_kind)
  (kwonly : list (string * option N)) (kwargs : option string)
  (pos : list N) (named : list (string * N)) (st : option (star_arg N))
  (ds : option (dstar_arg N)) (o : obs) : case :=
  (@Build_signature N req opt star kwonly kwargs, @Build_call N pos named st ds, o).
(* correspondence: layout + flatten + setArgs reproduce what the interpreter did *)
Definition model_ok (c : case) : bool :=
  let '(s, cl, o) := c in res_eqb (call_observe (layout s) cl) o.
(* oracle: the interpreter did what the specification says.  "accepts no
   arguments" is split by what was surplus, without consulting the model. *)
Definition coarse_obs (cl : call N) (o : obs) : obs :=
  match o with
  | Err EAcceptsNoArgs =>
      match positional_args cl with
      | Ok P => if Nat.ltb 0 (List.length P) then Err ETooManyPositional else Err EUnexpectedKeyword
      | Err _ => o
      end
  | _ => o
  end.
Definition spec_ok (c : case) : bool :=
  let '(s, cl, o) := c in res_eqb (spec_observe s cl) (coarse_obs cl o).
"""

ERR = {"toomany": "ETooManyPositional", "unexpected": "EUnexpectedKeyword", "multiple": "EMultipleValues",
       "missing": "EMissing", "star": "EStarNotIterable", "dstar": "EDstarNotMapping", "key": "EKeyNotString",
       "noargs": "EAcceptsNoArgs"}


def par_mismatches(ctx, name, header, terms, fns, shard=400, workers=10):
    """coq_mismatches over shards evaluated by parallel coqc processes
    (elaborating the case list dominates; the evaluation itself is instant)."""
    import concurrent.futures as cf
    bad = [[] for _ in fns]
    chunks = [(k, terms[k:k + shard]) for k in range(0, len(terms), shard)]
    with cf.ThreadPoolExecutor(max_workers=workers) as ex:
        futs = {ex.submit(coq_mismatches, ctx, "%s_%d" % (name, k), header, ch, fns, len(ch)): k for k, ch in chunks}
        for fu in cf.as_completed(futs):
            k = futs[fu]
            for j, idxs in enumerate(fu.result()):
                bad[j].extend(k + i for i in idxs)
    return [sorted(b) for b in bad]


def cstr(s):
    return '"%s"' % s


def coq_sig(s):
    star = {"none": "StarNone", "bare": "StarBare", "args": '(StarArgs "args")'}[s["star"]]
    return ("%s %s %s %s %s" % (
        clist([cstr(x) for x in s["req"]]),
        clist(["(%s, %s)" % (cstr(n), cn(d)) for n, d in s["opt"]]),
        star,
        clist(["(%s, %s)" % (cstr(n), "None" if d is None else "Some %s" % cn(d)) for n, d in s["kwonly"]]),
        '(Some "kw")' if s["kwargs"] else "None"))


def coq_call(c):
    if c["star"] is None:
        star = "None"
    elif c["star"].get("bad"):
        star = "(Some NotIterable)"
    else:
        star = "(Some (SeqOk %s))" % clist([cn(x) for x in c["star"]["seq"]])
    if c["dstar"] is None:
        ds = "None"
    elif c["dstar"].get("bad"):
        ds = "(Some NotMapping)"
    else:
        ds = "(Some (MapOk %s))" % clist(["(%s, %s)" % ("KStr " + cstr(k) if isstr else "KOther 1", cn(v))
                                        for k, isstr, v in c["dstar"]["items"]])
    return "%s %s %s %s" % (
        clist([cn(x) for x in c["pos"]]), clist(["(%s, %s)" % (cstr(k), cn(v)) for k, v in c["named"]]), star, ds)


def coq_obs(o):
    if "err" in o:
        e = ERR.get(o["err"])
        return None if e is None else "(Err %s)" % e
    items = []
    for b in o["ok"]:
        if "v" in b:
            items.append("Some (BVal %s)" % cn(b["v"]))
        elif "t" in b:
            items.append("Some (BTuple %s)" % clist([cn(x) for x in b["t"]]))
        else:
            items.append("Some (BDict %s)" % clist(["(%s, %s)" % (cstr(k), cn(v)) for k, v in b["d"]]))
    return "(Ok %s)" % clist(items)


PY_PRELUDE = r'''
import json, sys
def _enc(r):
    out = []
    for x in r:
        if isinstance(x, tuple): out.append({"t": list(x)})
        elif isinstance(x, dict): out.append({"d": [[k, v] for k, v in x.items()]})
        else: out.append({"v": x})
    return out
def _cls(m):
    if "positional argument" in m and "missing" not in m: return "toomany"
    if "unexpected keyword" in m: return "unexpected"
    if "multiple values" in m: return "multiple"
    if "missing" in m: return "missing"
    if "after * must be an iterable" in m: return "star"
    if "after ** must be a mapping" in m: return "dstar"
    if "keywords must be strings" in m: return "key"
    return "other:" + m
_out = []
def R(i, th):
    try:
        _out.append({"id": i, "ok": _enc(th())})
    except TypeError as e:
        _out.append({"id": i, "err": _cls(str(e))})
'''


def run_python(ctx, cases):
    """Execute def/call pairs with CPython 3 (one process); returns {index: outcome}."""
    bydef = {}
    for i, c in cases:
        bydef.setdefault(c["def"], []).append((i, c))
    lines = [PY_PRELUDE]
    for d, cs in bydef.items():
        lines.append(d)
        for i, c in cs:
            lines.append("R(%d, lambda: %s)" % (i, c["src"]))
    lines.append("json.dump(_out, sys.stdout)")
    path = os.path.join(ctx.build, "tmp", "c08_cpython.py")
    open(path, "w").write("\n".join(lines) + "\n")
    p = ctx.sh(["python3", path], timeout=600)
    if p.returncode != 0:
        raise HarnessError("python3 failed on the generated batch:\n" + p.stderr[-2000:])
    return {o["id"]: o for o in json.loads(p.stdout)}


def coarse(o, c):
    """Split setArgs' 'accepts no arguments' class by what was surplus."""
    if o.get("err") == "noargs":
        npos = len(c["call"]["pos"]) + (len(c["call"]["star"].get("seq", [])) if c["call"]["star"] else 0)
        return {"err": "toomany" if npos > 0 else "unexpected"}
    return o


def call_class(c):
    cl, s = c["call"], c["sig"]
    return "%s%s%s%s|%s%s%s" % ("p%d" % len(cl["pos"]), "N%d" % len(cl["named"]) if cl["named"] else "",
                                "S" if cl["star"] else "", "D" if cl["dstar"] else "",
                                s["star"], "K%d" % len(s["kwonly"]) if s["kwonly"] else "", "W" if s["kwargs"] else "")


def what(o):
    return "error class " + o["err"] if "err" in o else "bindings " + json.dumps(o["ok"])


def run_bind(ctx):
    hx = ctx.go_build("c08")
    quick = ctx.quick()
    cmd = [hx, "bind", "-workers", "6", "-seed", str(ctx.seed), "-frac", "0.004" if quick else "1",
           "-coq", "80" if quick else "2500", "-py", "1000" if quick else "30000"]
    rows = ctx.jsonl(cmd, timeout=1500)
    summary = [r for r in rows if r.get("kind") == "summary"][0]
    cases = [r for r in rows if r.get("kind") in ("case", "mismatch")]
    ctx.log("bind: %d cases executed on the interpreter (%d signatures), %d disagree with the Go binder; %d printed" % (
        summary["cases"], summary["signatures"], summary["mismatches"], len(cases)))
    # (1) implementation vs the independent Go binder, every case
    nfind = 0
    for c in cases:
        if c["kind"] == "mismatch":
            # one finding per (expected, observed) class and call/signature shape; at most 12 per run
            mode = {"late-module": "bind-late", "roundtrip": "bind-roundtrip"}.get(c.get("mode") or "", "bind")
            key = "%s:%s->%s:%s" % (mode, c["gospec"].get("err", "ok"), c["obs"].get("err", "ok").split(":")[0], call_class(c))
            if nfind < 12 and key not in [f.key for f in ctx.findings]:
                nfind += 1
                how = {"late-module": " [module-level call whose result is kept in a global list and read after the module finished]",
                       "roundtrip": " [after Program.Write -> CompiledProgram -> Init]"}.get(c.get("mode") or "",
                       " [result read after the calling function evaluated further calls and displays]")
                ctx.finding(key, "%s ; %s binds %s, the specification says %s%s (%d cases disagree in this run)" % (
                    c["def"], c["src"], what(c["obs"]), what(c["gospec"]), how, summary["mismatches"]), c)
    # (2) Coq model and Spec.v on the sample
    sample = [c for c in cases if c["coq"]]
    terms, refs = [], []
    for c in sample:
        o = coq_obs(c["obs"])
        if o is None:
            ctx.finding("bind:other-error:" + call_class(c), "%s ; %s fails with an error outside the binding classes: %s" % (c["def"], c["src"], c["obs"]), c)
            continue
        terms.append("(C %s %s %s)" % (coq_sig(c["sig"]), coq_call(c["call"]), o))
        refs.append(c)
    return ("B", HEADER, terms, ["model_ok", "spec_ok"]), lambda bad: bind_finish(ctx, summary, cases, sample, terms, refs, bad[0], bad[1])


def bind_finish(ctx, summary, cases, sample, terms, refs, bad_model, bad_spec):
    for i in bad_spec:
        c = refs[i]
        if c["kind"] == "mismatch":
            continue  # already reported with the same input
        # Spec.v and the Go binder disagree (the Go binder agreed with the implementation)
        ctx.broken("spec-copies:C08.Spec-vs-go-binder", "%s ; %s : Spec.v disagrees with the Go binder and the implementation (%s)" % (c["def"], c["src"], what(c["obs"])))
        break
    only_model = [i for i in bad_model if i not in set(bad_spec)]
    if only_model:
        c = refs[only_model[0]]
        ctx.broken("correspondence:C08.Model", "model and implementation differ on %d case(s) where the specification is met, e.g. %s ; %s -> %s" % (len(only_model), c["def"], c["src"], what(c["obs"])))
    # (3) CPython 3 as an independent opinion
    pyc = [(i, c) for i, c in enumerate(cases) if c["py"]]
    pyres = run_python(ctx, pyc)
    py_class_cmp = 0
    py_dis = 0
    for i, c in pyc:
        p = pyres.get(i)
        if p is None:
            raise HarnessError("python3 produced no result for case %d" % i)
        for side, name in ((coarse(c["obs"], c), "impl"), (c["gospec"], "spec")):
            same = ("err" in p) == ("err" in side) and (("err" in p) or p["ok"] == side["ok"])
            if same and "err" in p and len(c["classes"]) == 1:
                py_class_cmp += 1 if name == "impl" else 0
                same = p["err"] == side["err"]
            if not same:
                py_dis += 1
                if name == "impl":
                    key = "cpython:%s->%s:%s" % (p.get("err", "ok"), side.get("err", "ok").split(":")[0], call_class(c))
                    if len([f for f in ctx.findings if f.key.startswith("cpython:")]) >= 8:
                        continue
                    ctx.finding(key, "%s ; %s : CPython 3 gives %s, starlark-go gives %s" % (c["def"], c["src"], what(p), what(side)), c)
                elif c["kind"] != "mismatch":
                    ctx.broken("spec-vs-cpython:C08.Spec", "%s ; %s : CPython 3 gives %s, the specification gives %s" % (c["def"], c["src"], what(p), what(side)))
    ctx.log("bind: %d cases in Coq (model mismatches %d, spec mismatches %d); %d cases on CPython (%d with the class compared), %d disagreements" % (
        len(terms), len(bad_model), len(bad_spec), len(pyc), py_class_cmp, py_dis))
    return {
        "evaluations": summary["cases"],
        "distinct_nontrivial": summary["cases"] - summary["dist"].get("star", 0) - summary["dist"].get("dstar", 0) - summary["dist"].get("key", 0),
        "signatures": summary["signatures"], "roundtrip_cases": summary.get("roundtrip_cases"), "late_module_calls": summary.get("late_module_calls"),
        "rule": "all 280 signatures with <=3 positional (required/optional), optional * or *args, <=2 keyword-only (required/optional), optional **kwargs; call sites = 0..4 positional x every subset of the declared ordinary names plus one undeclared name as named arguments (both orders) x with/without *S x with/without **D; S = sequences of length 0-3 or a non-iterable; D = every subset of declared names, two undeclared names and the names of *args/**kwargs, a non-string key, a non-mapping. quick: a seeded 0.4% sample of the call sites (all S x D for a chosen site); thorough: the full product. Every case is executed on the real interpreter inside a call-site function that keeps evaluating multi-operand calls and displays after the call and only then returns the result (late observation), and compared with the Go binder; every case (thorough: one in eight) is executed again on the module after Program.Write -> CompiledProgram -> Init; per signature a module-level block keeps the results of 10 calls in a global list, interleaved with other evaluation, and compares them after the module finished; a sample (success cases weighted up) is evaluated against C08.Model and C08.Spec in Coq and executed by CPython 3. distinct_nontrivial = cases that reach setArgs (operand errors excluded).",
        "distribution": summary["dist"], "fraction": summary["frac"],
        "coq_cases": len(terms), "cpython_cases": len(pyc), "cpython_class_compared": py_class_cmp,
        "model_mismatches": len(bad_model), "spec_mismatches": len(bad_spec), "go_binder_mismatches": summary["mismatches"],
        "samples": [{"def": c["def"], "call": c["src"], "observed": c["obs"]} for c in (sample[:2] + [c for c in sample if "ok" in c["obs"]][:3])],
    }


# ------------------------------------------------------------------ UnpackArgs
UHEADER = """From Coq Require Import String List Bool Arith ZArith.
From SV Require Import C08.Model C08.Unpack.
Import ListNotations.
Open Scope string_scope.
Definition P (n : string) (m : marker) (k : tkind) : uparam := Build_uparam n m k.
Definition A (t : vtype) (n : nat) : arg := Build_arg t n.
Definition vtype_eqb (a b : vtype) : bool :=
  match a, b with
  | TNone, TNone | TBool, TBool | TFloat, TFloat | TString, TString | TList, TList
  | TDict, TDict | TTuple, TTuple | TFunc, TFunc => true
  | TInt x, TInt y => Z.eqb x y
  | _, _ => false
  end.
Definition arg_eqb (a b : arg) : bool := vtype_eqb (a_ty a) (a_ty b) && Nat.eqb (a_id a) (a_id b).
Definition tval_eqb (a b : tval) : bool :=
  match a, b with Prev x, Prev y => Nat.eqb x y | Stored x, Stored y => arg_eqb x y | _, _ => false end.
Definition uerr_eqb (a b : uerr) : bool :=
  match a, b with
  | UTooManyPositional, UTooManyPositional | UTooFewPositional, UTooFewPositional
  | UKwargsNotAllowed, UKwargsNotAllowed | UUnexpectedKeyword, UUnexpectedKeyword
  | UMultipleValues, UMultipleValues => true
  | UMissing i, UMissing j | UBadArg i, UBadArg j => Nat.eqb i j
  | _, _ => false
  end.
Definition opt_eqb {X} (f : X -> X -> bool) (a b : option X) : bool :=
  match a, b with Some x, Some y => f x y | None, None => true | _, _ => false end.
Fixpoint list_eqb {X} (f : X -> X -> bool) (a b : list X) : bool :=
  match a, b with [], [] => true | x :: r, y :: s => f x y && list_eqb f r s | _, _ => false end.
Inductive case :=
| U (ps : list uparam) (args : list arg) (kw : list (string * arg)) (T : list tval) (e : option uerr)
| PC (min : nat) (kinds : list tkind) (args : list arg) (nkw : nat) (T : list tval) (e : option uerr).
Definition prevs (n : nat) : list tval := map Prev (seq 0 n).
Definition kws (n : nat) : list (string * arg) := repeat ("k", A TNone 0) n.
(* correspondence: the model of UnpackArgs / UnpackPositionalArgs reproduces error and targets *)
Definition model_ok (c : case) : bool :=
  match c with
  | U ps args kw T e =>
      let r := unpack_args ps args kw (prevs (length ps)) in
      list_eqb tval_eqb (fst r) T && opt_eqb uerr_eqb (snd r) e
  | PC min kinds args nkw T e =>
      let r := unpack_positional min kinds args (kws nkw) (prevs (length kinds)) in
      list_eqb tval_eqb (fst r) T && opt_eqb uerr_eqb (snd r) e
  end.
(* oracle: same error as the per-parameter specification; on success every target
   holds what the specification designates; a rejected argument's target is untouched *)
Definition spec_ok (c : case) : bool :=
  match c with
  | U ps args kw T e =>
      let T0 := prevs (length ps) in
      opt_eqb uerr_eqb (spec_unpack_err ps args kw) e &&
      match e with
      | None => forallb (fun j => opt_eqb tval_eqb (nth_error T j) (want ps args kw T0 j)) (seq 0 (length ps))
      | Some (UBadArg i) => opt_eqb tval_eqb (nth_error T i) (nth_error T0 i)
      | Some UTooManyPositional => list_eqb tval_eqb T T0
      | _ => true
      end
  | PC min kinds args nkw T e =>
      let T0 := prevs (length kinds) in
      opt_eqb uerr_eqb (spec_positional_err min kinds args (kws nkw)) e &&
      match e with
      | None => forallb (fun j => opt_eqb tval_eqb (nth_error T j)
                                    (if Nat.ltb j (length args) then option_map Stored (nth_error args j) else nth_error T0 j))
                        (seq 0 (length kinds))
      | Some (UBadArg i) => opt_eqb tval_eqb (nth_error T i) (nth_error T0 i)
      | _ => list_eqb tval_eqb T T0
      end
  end.
"""
MARK = {"plain": "MPlain", "opt": "MOpt", "optnone": "MOptNone"}
KIND = {"value": "KValue", "string": "KString", "bool": "KBool", "int": "KInt", "int8": "KInt8", "int16": "KInt16", "int32": "KInt32",
        "int64": "KInt64", "uint": "KUint", "uint8": "KUint8", "uint16": "KUint16", "uint32": "KUint32", "uint64": "KUint64",
        "uintptr": "KUint64", "float": "KFloat", "list": "KList", "dict": "KDict", "callable": "KCallable", "iterable": "KIterable",
        "unpacker": "KUnpacker", "tuplev": "KTupleV", "intv": "KIntV"}
VT = {"none": "TNone", "bool": "TBool", "float": "TFloat", "string": "TString", "list": "TList", "dict": "TDict",
      "tuple": "TTuple", "func": "TFunc"}
UERR = {"toomany": "UTooManyPositional", "toofew": "UTooFewPositional", "kwargs": "UKwargsNotAllowed",
        "unexpected": "UUnexpectedKeyword", "multiple": "UMultipleValues"}


def coq_arg(a):
    t = "(TInt (%s)%%Z)" % a["z"] if a["t"] == "int" else VT.get(a["t"])
    return None if t is None else "(A %s %d)" % (t, a.get("id", 0))


def coq_uobs(o):
    ts = []
    for j, t in enumerate(o["targets"]):
        if t is None:
            ts.append("Prev %d" % j)
        else:
            a = coq_arg(t)
            if a is None:
                return None
            ts.append("Stored %s" % a)
    e = o["err"]
    if e == "":
        err = "None"
    elif e in UERR:
        err = "(Some %s)" % UERR[e]
    elif e == "missing":
        err = "(Some (UMissing %d))" % o["i"]
    elif e == "badarg":
        err = "(Some (UBadArg %d))" % o["i"]
    else:
        return None
    return "%s %s" % (clist(ts), err)


def ucase_src(c):
    if c["kind"] == "ucase":
        return "UnpackArgs(%s) called with args=%s kwargs=%s" % (
            ", ".join('"%s%s": %s' % (n, {"plain": "", "opt": "?", "optnone": "??"}[m], k) for n, m, k in c.get("ps") or []),
            json.dumps(c["args"]), json.dumps(c["kw"]))
    return "UnpackPositionalArgs(min=%d, vars=%s) called with args=%s and %d keyword argument(s)" % (
        c["min"], c.get("kinds") or [], json.dumps(c["args"]), c["nkw"])


def run_unpack(ctx):
    hx = ctx.go_build("c08")
    quick = ctx.quick()
    cmd = [hx, "unpack", "-seed", str(ctx.seed), "-frac", "0.008" if quick else "1", "-coq", "30" if quick else "1500"]
    rows = ctx.jsonl(cmd, timeout=1200)
    summary = [r for r in rows if r.get("kind") == "usummary"][0]
    cases = [r for r in rows if r.get("kind") in ("ucase", "pcase")]
    ctx.log("unpack: %d calls of built-ins (%d parameter lists), %d disagree with the Go specification; %d printed" % (
        summary["cases"], summary["lists"], summary["mismatches"], len(cases)))
    terms, refs = [], []
    for c in cases:
        fn = "UnpackArgs" if c["kind"] == "ucase" else "UnpackPositionalArgs"
        if c["mismatch"]:
            o, g = c["obs"], c["gospec"]
            clob = o["err"] == "badarg" and o["i"] < len(o["targets"]) and o["targets"][o["i"]] is not None
            key = "unpack:%s:%s->%s%s" % (fn, g["err"] or "ok", o["err"].split(":")[0] or "ok", ":clobbered" if clob else "")
            ctx.finding(key, "%s : observed error=%r i=%d targets=%s ; specification error=%r i=%d targets=%s" % (
                ucase_src(c), o["err"], o["i"], json.dumps(o["targets"]), g["err"], g["i"], json.dumps(g["targets"])), c)
        o = coq_uobs(c["obs"])
        args = [coq_arg(a) for a in c["args"]]
        if o is None or None in args:
            if not c["mismatch"]:
                ctx.finding("unpack:%s:other-error" % fn, "%s : unexpected outcome %s" % (ucase_src(c), c["obs"]), c)
            continue
        if c["kind"] == "ucase":
            ps = clist(['(P "%s" %s %s)' % (n, MARK[m], KIND[k]) for n, m, k in c.get("ps") or []])
            kw = clist(['("%s", %s)' % (k, coq_arg(a)) for k, a in c["kw"]])
            terms.append("(U %s %s %s %s)" % (ps, clist(args), kw, o))
        else:
            terms.append("(PC %d %s %s %d %s)" % (c["min"], clist([KIND[k] for k in c.get("kinds") or []]), clist(args), c["nkw"], o))
        refs.append(c)
    return ("U", UHEADER, terms, ["model_ok", "spec_ok"]), lambda bad: unpack_finish(ctx, summary, terms, refs, bad[0], bad[1])


def unpack_finish(ctx, summary, terms, refs, bad_model, bad_spec):
    for i in bad_spec:
        c = refs[i]
        if c["mismatch"]:
            continue
        ctx.broken("spec-copies:C08.Unpack-vs-go-spec", "%s : the Coq specification disagrees with the Go specification and the implementation (%s)" % (ucase_src(c), c["obs"]))
        break
    only_model = [i for i in bad_model if i not in set(bad_spec)]
    if only_model:
        c = refs[only_model[0]]
        ctx.broken("correspondence:C08.Unpack", "model and implementation differ on %d case(s) where the specification is met, e.g. %s -> %s" % (len(only_model), ucase_src(c), c["obs"]))
    ctx.log("unpack: %d cases in Coq (model mismatches %d, spec mismatches %d)" % (len(terms), len(bad_model), len(bad_spec)))
    return {
        "unpack_evaluations": summary["cases"], "unpack_parameter_lists": summary["lists"], "unpack_kinds": summary["kinds"],
        "unpack_distribution": summary["dist"], "unpack_fraction": summary["frac"], "unpack_coq_cases": len(terms),
        "unpack_model_mismatches": len(bad_model), "unpack_spec_mismatches": len(bad_spec),
        "unpack_go_spec_mismatches": summary["mismatches"],
        "unpack_rule": "all parameter lists of <=3 parameters x marker (name, name?, name??) x target kind (22 kinds = every case of the type switch in unpackArgNoEscape and AsInt: Value, string, bool, int/int8/16/32/64, uint/uint8/16/32/64/uintptr, float64, *List, *Dict, Callable, Iterable, an Unpacker implementation, and the reflection path with starlark.Tuple and starlark.Int variables; all kinds in every position: every list of <=2 parameters, and 3-parameter lists whose third parameter ranges over all kinds; every target pre-filled with a sentinel and read back after every call, failed or not; integer targets get their boundary values min-1, min, min+1, -1, 0, max-1, max, max+1, +-2^bits, 2^bits+1, +-2^70 half of the time; quick: a seeded 0.8% of the lists; thorough: all lists) x calls with 0..4 positional arguments, every subset of declared names plus an undeclared one as keywords (two orders), without and with a duplicated keyword (first, last and undeclared name), argument types drawn (seeded) from None/bool/small int/large int/negative int/2^70/float/string/list/dict/tuple/function, half of the time a type the parameter accepts; wide parameter lists of 62..130 parameters (around the 64-parameter threshold of UnpackArgs' bit set) x 0/2/5/all positional arguments x a named argument at low and high indices x a second one (none, undeclared, the same again, another index, or after naming every other parameter); UnpackPositionalArgs: all kind lists <=3 x min x 0..4 arguments x with/without keywords. Targets are pre-filled with sentinels and read back.",
        "unpack_samples": [ucase_src(c) + " -> " + json.dumps(c["obs"]) for c in refs[:3]],
    }


def run(ctx):
    ctx.proofs()
    pb, fb = run_bind(ctx)
    pu, fu = run_unpack(ctx)
    if ctx.quick():
        bad = coq_eval_parts(ctx, "c08_all", [pb, pu])
    else:
        bad = coq_eval_sharded(ctx, "c08", [pb, pu], shard={"B": 600, "U": 1000})
    cov = fb(bad["B"])
    cov.update(fu(bad["U"]))
    cov["evaluations"] += cov["unpack_evaluations"]
    cov["distinct_nontrivial"] += cov["unpack_evaluations"]
    return ctx.finish(LEVEL, cov, assumptions=[
        "values are opaque identifiers: binding never inspects a value; evaluation order of argument and default expressions is out of scope",
        "the error class is read from the error message by substring (too many positional / unexpected keyword / multiple values / missing / operand errors)",
        "CPython 3.11 is an independent opinion used to validate Spec.v; where several error classes apply the class is not compared (Starlark's priority differs from CPython's and doc/spec.md fixes none)",
    ])
