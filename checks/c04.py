"""C04 -- values reachable from a finished module are deeply immutable (DESIGN.md section 8, C04)."""
from .lib import cz, cbool, clist, coq_mismatches

LEVEL = "proof"
META = {
    "category": "proof",
    "text": "Coq theorems over an object-graph model (finite heaps of list/dict/set/struct/function/tuple/cell/bound-method objects with frozen flags and iterator counts): after the module epilogue (freeze of the globals, on success and on error) every flagged object reachable from the globals through elements, dict keys and values, struct fields, defaults, closure cells and receivers is frozen, for all heaps incl. cyclic and shared ones (freeze_closure); the epilogue terminates with a stack bounded by the number of objects (freeze_total; refuted for the pinned Function.Freeze, repaired by a fix: commit); every one of the 36 modelled mutators (list/dict/set methods, SETINDEX/SETDICT/INPLACE_ADD/INPLACE_PIPE, Go API) rejects a frozen object or is one of four written-out no-ops, so no sequence of operations and allocations changes a frozen object or the reachable subgraph (frozen_rejects, no_op_changes_frozen, module_values_immutable); unreachable objects keep flags and contents (freeze_frame). The hand-written model is tied to /repo on every run: generated graph descriptions are rendered as Starlark modules, executed (to success or to a planted failure, each graph in a child process), every mutator discovered from AttrNames plus the opcodes and the Go API is attempted on every object through four routes (attribute call, code of the module, closures over the object, stored bound methods), and outcome and contents are compared with the model and, independently, with Spec.v inside Coq.",
    "note": "Trusted: Coq kernel + vm_compute; the harness, its generator and the registry that identifies objects; keys and compared operands of the modelled mutators are integer atoms (payloads are arbitrary values). Exercised only, not proved: that no instruction writes predeclared/Universe (checked by snapshot on every run); that Starlark code cannot re-assign a cell of a finished function (no nonlocal). Hypothesis of freeze_closure: previously frozen values were frozen deeply (invariant re-established by every epilogue).",
    "technique": "Coq proof over executable heap model + differential correspondence (vm_compute) + Spec.v oracle + Go oracle on the graph description",
}
HEADER = ("From Coq Require Import ZArith Bool List.\nImport ListNotations.\n"
          "From SV Require Import C04.Heap C04.Model C04.Spec C04.Check.\n")

METHODS = ["append", "clear", "extend", "index", "insert", "pop", "remove", "get", "items", "keys", "popitem",
           "setdefault", "update", "values", "add", "discard", "union", "difference"]


def cval(v):
    return "(VAtom %s)" % cz(v[1]) if v[0] == 0 else "(VRef %d)" % v[1]


def cvals(vs):
    return clist([cval(v) for v in (vs or [])])


def render_graph(g):
    """The description as a Coq heap: objects 0..n-1 are the nodes, then one cell per captured variable."""
    d = g["desc"]
    nodes = d["nodes"]
    n = len(nodes)
    captured = sorted({c for nd in nodes for c in (nd.get("captures") or [])})
    cell_of = {c: n + i for i, c in enumerate(captured)}
    objs = []
    for nd in nodes:
        fr = cbool(bool(nd.get("prefrozen")))
        es = nd.get("elems") or []
        k = nd["kind"]
        if not nd["exists"]:
            objs.append("OOpaque")
        elif k in ("list", "hbox"):      # a host-defined mutable sequence behaves like a list: flag first, elements, append
            objs.append("OList %s 0 %s" % (fr, cvals(es)))
        elif k == "set":
            objs.append("OSet %s 0 %s" % (fr, cvals(es)))
        elif k == "dict":
            objs.append("ODict %s 0 %s" % (fr, clist(["(%s, %s)" % (cval(es[i]), cval(es[i + 1])) for i in range(0, len(es), 2)])))
        elif k in ("tuple", "tslice", "tcat"):
            objs.append("OTuple %s" % cvals(es))
        elif k in ("struct", "ssum"):
            objs.append("OStruct %s %s" % (fr, clist(["(%d, %s)" % (i, cval(v)) for i, v in enumerate(es)])))
        elif k == "func":
            objs.append("OFunc false %s %s 0" % (cvals(nd.get("defaults")), clist(["(VRef %d)" % cell_of[c] for c in nd.get("captures") or []])))
        elif k == "bound":
            objs.append("OBuiltin %d (Some (VRef %d))" % (METHODS.index(nd["method"]), nd.get("recv", 0)))
        else:
            raise ValueError(k)
    for c in captured:
        objs.append("OCell (Some (VRef %d))" % c if nodes[c]["exists"] else "OCell None")
    # globals defined when execution returned, from the description
    roots = []
    if d["fail_build"] < 0:
        for i, gid in enumerate(d.get("globals") or []):
            if d["fail_global"] >= 0 and i >= d["fail_global"]:
                break
            roots.append(gid)
    return "{| g_heap := %s; g_globals := %s |}" % (clist(objs), clist(["(VRef %d)" % r for r in roots])), roots, n


def cop(op):
    n = op["n"]
    v = cval(op["v"]) if op.get("v") is not None else None
    i = op.get("i")
    k = op.get("k")
    kvs = clist(["(%s, %s)" % (cz(x["k"]), cval(x["v"])) for x in (op.get("kvs") or [])])
    if n in ("LAppend", "GoLAppend"):
        return "(%s %s)" % (n, v)
    if n in ("LClear", "GoLClear", "DClear", "GoDClear", "SClear", "GoSClear", "DPopitem", "SPop"):
        return n
    if n in ("LExtend", "LInplaceAdd"):
        return "(%s %s)" % (n, cvals(op.get("vs")))
    if n in ("LInsert", "LSetIndex"):
        return "(%s %s %s)" % (n, cz(i), v)
    if n == "LPop":
        return "(LPop %s)" % ("None" if i is None else "(Some %s)" % cz(i))
    if n == "GoLSetIndex":
        return "(GoLSetIndex %d %s)" % (i, v)
    if n in ("LRemove", "SAdd", "SDiscard", "SRemove", "GoSInsert", "GoSDelete", "GoDDelete"):
        return "(%s %s)" % (n, cz(k))
    if n == "DPop":
        return "(DPop %s %s)" % (cz(k), "None" if op.get("d") is None else "(Some %s)" % cval(op["d"]))
    if n == "DSetdefault":
        return "(DSetdefault %s %s)" % (cz(k), cval(op["d"]))
    if n in ("DUpdate", "DInplacePipe"):
        return "(%s %s)" % (n, kvs)
    if n in ("DSetKey", "GoDSetKey"):
        return "(%s %s %s)" % (n, cz(k), v)
    if n == "SUpdate":
        return "(SUpdate %s)" % clist([clist([cz(x) for x in ks]) for ks in (op.get("kss") or [])])
    if n == "XSetField":
        return "(XSetField 0 %s)" % v
    raise ValueError(n)


def cprobe(p):
    after = "None" if p.get("after") is None else "(Some %s)" % cvals(p["after"])
    return "{| p_node := %d; p_op := %s; p_err := %s; p_after := %s |}" % (p["node"], cop(p["op"]), cbool(p["err"]), after)


def finding_key(viol, kind, opn):
    if viol in ("accepted", "changed", "other-object-changed"):
        return "frozen-value-mutable:%s.%s" % (kind, opn)
    return "%s:%s.%s" % (viol, kind, opn)


def run(ctx):
    ctx.proofs()
    ok, log = ctx.coq_make(["C04/Check.vo"])          # the correspondence definitions are not under Properties.v
    if not ok:
        ctx.broken("coq-build:C04/Check.vo", log[-2000:])
    hx = ctx.go_build("c04")
    ngraphs = 180 if ctx.quick() else 4000
    ncoq = 36 if ctx.quick() else 400          # graphs whose every probe is also evaluated inside Coq
    recs = ctx.jsonl([hx, "-seed", str(ctx.seed), "-n", str(ngraphs)], timeout=840)
    graphs = [r for r in recs if r["kind"] == "graph"]
    nnested = len([r for r in recs if r["kind"] in ("nested", "multi")])
    ctx.log("harness: %d graphs, %d probes, %d child failures" % (
        len(graphs), sum(len(g["probes"] or []) for g in graphs), len(recs) - len(graphs) - nnested))
    dist = {}

    def count(k):
        dist[k] = dist.get(k, 0) + 1

    # ---- a module that finishes while the owner of a captured variable is still running
    nested = [r for r in recs if r["kind"] == "nested"]
    multi = [r for r in recs if r["kind"] == "multi"]
    recs = [r for r in recs if r["kind"] not in ("nested", "multi")]
    for r in multi:
        count("multi:" + r["name"].split(":")[0])
        if r.get("err"):
            ctx.broken("harness:C04 multi-module", "%s: %s" % (r["name"], r["err"]))
        elif r.get("call_accepted") or r.get("go_mutable"):
            ctx.finding("captured-value-not-frozen:%s" % ":".join(r["name"].split(":")[:2]),
                        "%s: the value captured by the closure kept in the last module's global accepted a mutation (through the closure: %s, through the Go API: %s); it is now %s" % (r["name"], r.get("call_accepted"), r.get("go_mutable"), r.get("seen")),
                        {"modules": r["srcs"], "how": "harness/internal/graphs/multi.go variant %s; predeclared freeze(v) calls v.Freeze(), run_b(f) executes b.star with predeclared f, user.star gets make from lib.star's globals" % r["name"]})
    if not multi:
        ctx.broken("harness:C04 multi-module", "the multi-module scenarios did not run")
    for r in nested:
        count("nested:%s:%s" % ("rebind" if r["rebind"] else "no-rebind", "kept-by-owner" if r["keep_in_a"] else "not-kept"))
        if r.get("err_a"):
            ctx.broken("harness:C04 nested", "variant %d failed: %s" % (r["variant"], r["err_a"]))
        elif r["mutable"]:
            ctx.finding("closure-variable-rebound-after-freeze:%s" % ("kept-by-owner-module" if r["keep_in_a"] else "not-kept"),
                        "module B (run by a built-in while function outer of module A is active) binds outer's inner function to a global and finishes; outer then re-assigns the captured variable; the %s now held by the frozen closure is reachable from B's global and accepted a mutation: %s" % (r["value"], r["seen"]),
                        {"module_a": r["src_a"], "module_b": r["src_b"], "how": "predeclared run_b(f) executes module_b with predeclared f (harness/cmd/c04 runNested variant %d); afterwards call B's g() and Append/SetKey on the result" % r["variant"], "observed": r["seen"]})
    if nested:
        bad = coq_mismatches(ctx, "c04_nested", HEADER, ["(%s, %s, %s)" % (cbool(r["rebind"]), cbool(r["keep_in_a"]), cbool(r["mutable"])) for r in nested if not r.get("err_a")], "nested_ok")
        if bad:
            ctx.broken("correspondence:C04.Model nested", "the model (freeze_globals; SCellSet; freeze_globals) predicts otherwise for nested variants %s" % bad)
    else:
        ctx.broken("harness:C04 nested", "the nested-module scenarios did not run")
    # ---- children that died: the epilogue (or anything else) brought the process down
    for r in recs:
        if r["kind"] != "graph":
            first = (r.get("stderr") or "").strip().splitlines()
            msg = " / ".join(x for x in first[:3])
            what = "stack overflow" if "stack overflow" in (r.get("stderr") or "") else r["kind"]
            ctx.finding("crash:%s" % what.replace(" ", "-"),
                        "executing the generated module #%d killed the process (%s): %s" % (r["i"], r.get("exit"), msg),
                        {"graph": r["i"], "module": r.get("src"), "how": "starlark.ExecFileOptions on this source with predeclared reg/pick/boom/struct (harness/cmd/c04)", "stderr": r.get("stderr")})
    # ---- Go-side oracle over all graphs
    nontrivial = 0
    for g in graphs:
        d = g["desc"]
        kinds = {nd["id"]: nd["kind"] for nd in d["nodes"]}
        count("module:" + ("failed-in-build" if d["fail_build"] >= 0 else "failed-at-toplevel" if d["fail_global"] >= 0 else "ok"))
        if any(nd.get("host") for nd in d["nodes"]):
            count("graph:with-host-values")
        if any(nd.get("prefrozen") for nd in d["nodes"]):
            count("graph:with-prefrozen-host-values")
        if any(nd["kind"] == "func" and nd["id"] in (nd.get("captures") or []) for nd in d["nodes"]):
            count("graph:function-captures-itself")
        for x in g.get("gaps") or []:
            if x.startswith("method "):
                ctx.broken("tie-gap:C04 " + x, "a method discovered through AttrNames() has no counterpart in C04.Model (graph #%d)" % g["i"])
            else:
                ctx.broken("harness:C04 generator", "graph #%d: %s" % (g["i"], x))
        if not g["env_ok"]:
            ctx.finding("environment-changed", "executing module #%d changed predeclared or Universe: %s" % (g["i"], g.get("env_note")),
                        {"graph": g["i"], "module": g["src"]})
        if g.get("storm"):
            ctx.finding("frozen-value-mutable:sequence", "module #%d: after applying every operation in sequence to the objects that must be immutable, %s" % (g["i"], g["storm"]),
                        {"graph": g["i"], "module": g["src"], "what": g["storm"]})
        for al in g.get("alias") or []:
            ctx.finding("derived-value-aliases-%s-original:%s:%s" % ("frozen" if al["frozen"] else "mutable", al["kind"], al["how"]),
                        "module #%d: %s node %d (%s) changed from %s to %s when the value computed from it by `%s` was mutated (%s)" % (
                            g["i"], al["kind"], al["node"], "must be immutable" if al["frozen"] else "mutable", al["before"], al["after"], al["how"], al["mut"]),
                        {"graph": g["i"], "module": g["src"], "node": al["node"], "derive": al["how"], "mutate_derived": al["mut"], "before": al["before"], "after": al["after"]})
        for x in g.get("read_viol") or []:
            ctx.finding("read-changes-state", "module #%d: %s" % (g["i"], x), {"graph": g["i"], "module": g["src"]})
        if set(g.get("walk") or []) != set(g.get("reach") or []):
            ctx.broken("correspondence:C04 edges", "graph #%d: objects reachable through the Go API %s differ from the description's %s" % (g["i"], g.get("walk"), g.get("reach")))
        reach = set(g.get("reach") or [])
        for p in g["probes"] or []:
            k = kinds[p["node"]]
            count("probe:%s:%s:%s" % (k, "reachable" if p["node"] in reach else "unreachable", p["via"].rstrip("0123456789.")[:5]))
            if p["node"] in reach and k in ("list", "dict", "set", "hbox"):
                nontrivial += 1
            if p.get("viol"):
                ctx.finding(finding_key(p["viol"], k, p["op"]["n"]),
                            "module #%d: %s on %s node %d via %s: %s (error=%s, contents after=%s, other objects changed=%s)" % (
                                g["i"], p["op"], k, p["node"], p["via"], p["viol"], p["err"], p.get("after"), p.get("others")),
                            {"graph": g["i"], "module": g["src"], "node": p["node"], "node_kind": k, "op": p["op"], "via": p["via"],
                             "reachable_from_globals": p["node"] in reach, "observed": {"err": p["err"], "msg": p.get("msg"), "after": p.get("after")}})
    # ---- Coq: model and specification on a sample of whole graphs
    sample = graphs[:ncoq]
    bad_model_total, bad_spec_total, ncases = 0, 0, 0
    chunk = 100
    for s in range(0, len(sample), chunk):
        part = sample[s:s + chunk]
        gterms, cases, refs = [], [], []
        for gi, g in enumerate(part):
            t, roots, n = render_graph(g)
            if sorted(set(roots)) != sorted(set(g.get("roots") or [])):
                ctx.broken("harness:C04 roots", "graph #%d: globals defined %s, described %s" % (g["i"], g.get("roots"), roots))
            gterms.append(t)
            cases.append("(inr (%d, %d, %s))" % (gi, n, clist([str(x) for x in (g.get("walk") or [])])))
            refs.append((g, None))
            for p in g["probes"] or []:
                cases.append("(inl (%d, %s))" % (gi, cprobe(p)))
                refs.append((g, p))
        header = HEADER + "Definition graphs : list graph := [\n" + ";\n".join(gterms) + "].\n" + """
Definition fheaps := Eval vm_compute in map frozen_heap graphs.
Definition rsets := Eval vm_compute in map (fun g => reach_dec (g_heap g) (g_globals g)) graphs.
Definition g_ok (c : nat * nat * list nat) : bool :=
  match c with (gi, n, walk) =>
    match nth gi fheaps None with Some _ => true | None => false end && walk_ok (nth gi rsets None) n walk
  end.
Definition m_ok (c : (nat * probe) + (nat * nat * list nat)) : bool :=
  match c with inl c => model_ok (nth (fst c) fheaps None) (snd c) | inr g => g_ok g end.
Definition s_ok (c : (nat * probe) + (nat * nat * list nat)) : bool :=
  match c with
  | inl c => spec_ok_with (nth (fst c) rsets None) (g_heap (nth (fst c) graphs dummy_graph)) (snd c)
  | inr _ => true
  end.
"""
        bad_model, bad_spec = coq_mismatches(ctx, "c04_cases_%d" % s, header, cases, ["m_ok", "s_ok"], shard=100000, timeout=800)
        ncases += len(cases) - len(part)
        bad_g = [i for i in bad_model if refs[i][1] is None]
        bad_model = [i for i in bad_model if refs[i][1] is not None]
        for i in bad_g:
            g = refs[i][0]
            ctx.broken("correspondence:C04.Model graph", "graph #%d: the model's epilogue does not terminate on it, or Spec.reach_dec disagrees with the Go API walk %s" % (g["i"], g.get("walk")))
        for i in bad_spec:
            g, p = refs[i]
            k = g["desc"]["nodes"][p["node"]]["kind"]
            ctx.finding(finding_key(p.get("viol") or "spec", k, p["op"]["n"]),
                        "module #%d: %s on %s node %d via %s violates Spec.spec_ok (error=%s, after=%s)" % (g["i"], p["op"], k, p["node"], p["via"], p["err"], p.get("after")),
                        {"graph": g["i"], "module": g["src"], "node": p["node"], "op": p["op"], "via": p["via"], "observed": {"err": p["err"], "after": p.get("after")}})
            if not p.get("viol"):
                ctx.broken("oracle-disagreement:C04", "Spec.v rejects but the Go oracle accepts: graph #%d probe %s" % (g["i"], p))
        sb = set(bad_spec)
        for i, (g, p) in enumerate(refs):
            if p is not None and p.get("viol") and p["viol"] != "panic" and i not in sb:
                ctx.broken("oracle-disagreement:C04", "the Go oracle rejects but Spec.v accepts: graph #%d probe %s" % (g["i"], p))
        only_model = [i for i in bad_model if i not in sb]
        if only_model:
            g, p = refs[only_model[0]]
            ctx.broken("correspondence:C04.Model", "model and implementation differ on %d probe(s) where the specification is met, e.g. graph #%d %s" % (len(only_model), g["i"], p))
        bad_model_total += len(bad_model)
        bad_spec_total += len(bad_spec)
    ctx.log("coq: %d probes of %d graphs evaluated against model and spec: %d model mismatches, %d spec violations" % (ncases, len(sample), bad_model_total, bad_spec_total))
    nprobes = sum(len(g["probes"] or []) for g in graphs)
    cov = {
        "evaluations": nprobes, "distinct_nontrivial": nontrivial,
        "rule": "seeded graph descriptions (2-12 objects: host lists/dicts/sets passed through predeclared, some frozen beforehand; lists, dicts with object keys, sets, tuples, structs, functions with defaults and captured variables incl. themselves and later ones, bound methods; links that create cycles and sharing; 0-3 globals; 30%% planted failures at top level or inside the builder) x every existing object x 2-19 operations per kind (boundary indices, present/absent keys, empty/non-empty arguments) x a route (attribute call, module code, closure, stored bound method, Go API), each on a fresh instance; distinct_nontrivial = attempts on list/dict/set objects reachable from the globals; all probes go through the Go oracle, the probes of the first %d graphs also through C04.Model and C04.Spec inside Coq" % len(sample),
        "samples": [{"module": g["src"], "roots": g.get("roots"), "probe": (g["probes"] or [None])[0]} for g in graphs[:2]],
        "distribution": dist, "coq_cases": ncases, "model_mismatches": bad_model_total, "spec_mismatches": bad_spec_total,
        "graphs": len(graphs), "child_failures": len(recs) - len(graphs), "nested_scenarios": nnested,
        "sequence_ops": sum(g.get("storm_ops", 0) for g in graphs),
        "derived_value_mutations": sum(g.get("derived", 0) for g in graphs),
    }
    return ctx.finish(LEVEL, cov, assumptions=[
        "objects are identified through a host-side registry (reg(id, v)); atoms are small integers; keys and compared operands of probes are integer atoms",
        "freeze_closure assumes values frozen before the module ran were frozen deeply (closed_frozen); it is re-established by the epilogue",
        "freeze_total assumes objects without a frozen flag (tuple, cell, builtin) are not cyclic among themselves, which holds by construction order in the implementation",
        "predeclared/Universe immutability and the absence of cell re-assignment after module end are exercised (snapshots on every run), not proved",
    ])
