"""C01 -- execution agrees with the reference semantics (DESIGN.md section 8, C01).

Ties (all on every run, against the current working tree of the repository):
  (c) real pipeline (resolve -> compile -> VM)      vs  coq/C01/Ref.v   (reference evaluator on the syntax tree)
  (a) real compiler's bytecode                       vs  coq/C01/Compile.v (lock-step CFG walk, layout-insensitive)
  (b) real VM on the real bytecode                   vs  coq/C01/VM.v on the same bytecode (observables + ExecutionSteps)
  (d) coq/C01/Compile.v + VM.v end to end            vs  real pipeline
"""
import json
import os
import re

from .lib import HarnessError

LEVEL = "proof"
META = {
    "category": "proof",
    "text": "Coq compiler-correctness theorem by simulation (unbounded: all programs of an explicit boolean fragment, all fuel): the model code generator (Compile.v: slot assignment + code generation mirroring resolve.go / compile.go construct by construct, with the real opcodes, operands and source positions) followed by the model stack machine (VM.v: small-step model of interp.go with frames, iterator stack, cells) observes exactly what a reference big-step evaluator over NAMES written from doc/spec.md (Ref.v) observes: effect trace with rendered argument values, final heap and globals, outcome and position of the failing operation. Fragment (in_fragment2, ProofsCompFrag.v; theorem codegen_correct_partial2, a superset of the first fragment in_fragment of codegen_correct_partial): all expressions except lambda -- including list and dict comprehensions with any number of for / if clauses, every kind of target, nested in each other, inside functions and at module level, their variables in block-local slots of the enclosing frame as the resolver assigns them -- under the guard that every use of a comprehension variable is dominated by the for clause binding it (a boolean on the syntax); all statements except load; defs with every kind of parameter, not nested and without captured variables (milestone 2). Closures (milestone 3, theorem codegen_correct_partial3 for the generator extended in CompileClos.v: cells for captured locals, free variables, MAKEFUNC with the combined defaults + freevars tuple, FREE / FREECELL / LOCALCELL / SETLOCALCELL as compile.go emits them and VM.v / interp.go execute them): the same equation for in_fragment3 (FragClos.v, a boolean; it contains in_fragment2: fragment3_contains_fragment2) = the fragment above plus lambda expressions and defs nested in defs / lambdas to any depth, capturing any number of parameters and locals of the enclosing functions, read and mutated through the closure, reassigned by the owner before or after the closure is made, passed on through intermediate functions -- under the guards: no shadowing of a captured name, lambda not inside a comprehension, free variables mentioned in the order the resolver numbers them, and the run-time condition that no function value with forged captured cells is entered (decided by the guarded machine VMClos.run_chk, which is the machine on every run in which its guard does not fire: guard_is_transparent; no primitive builds such a value, but the primitives are opaque in the proofs). The FULL statement is refuted for the code as it is (codegen_correct_refuted: a comprehension re-evaluated in one activation sees stale variables -- exactly the shape the guard excludes: a clause reads a variable bound by a later clause), replayed on the real pipeline and recorded as known finding. The models are tied to /repo on every run: (a) lock-step control-flow comparison of the real compiler's bytecode (hook dump) with Compile.v's, insensitive to block layout; (b) VM.v executing the REAL bytecode against the real machine (trace, globals, outcome, failing position, ExecutionSteps); (c) Ref.v against the real pipeline on a hand-written corpus of the classic miscompilation patterns plus grammar-generated programs over the whole language x 16 option combinations; (d) Compile.v + VM.v end to end against the real pipeline.",
    "note": "Trusted: Coq kernel + vm_compute; Ref.v is my reading of spec.md (comprehension variables are fresh per evaluation of the comprehension, closures capture cells); the built-in library (operators, built-in functions, argument binding) is an oracle shared by both sides of the theorem and modelled for execution in Values.v -- its own semantics are C10-C13; the theorem holds for any behaviour of those primitives; positions identify operations, messages are not compared; coverage of the generator is printed in the evidence. Outside the proved fragments (comprehensions reading a variable before the clause that binds it, shadowed captured names, captured comprehension variables, lambda inside comprehensions, load) the claim rests on ties (a)-(d) only; ties (a) and (d) still use Compile.v (no closures), CompileClos.v is exercised by the Examples of Properties.v.",
    "technique": "Coq simulation proof (compiler correctness) + refutation witness by vm_compute + translation-validation style CFG comparison + differential execution",
}

HEADER = ("From Coq Require Import ZArith String List Bool.\n"
          "From SV Require Import C01.Syntax C01.Values C01.Ref C01.VM C01.Compile C01.Tie.\n"
          "Import ListNotations.\nOpen Scope string_scope.\nOpen Scope list_scope.\nOpen Scope nat_scope.\n")

BINOPS = {"+": "Add", "-": "Sub", "*": "Mul", "/": "Div", "//": "FloorDiv", "%": "Mod", "&": "BitAnd", "|": "BitOr",
          "^": "BitXor", "<<": "Shl", ">>": "Shr", "<": "Lt", ">": "Gt", ">=": "Ge", "<=": "Le", "==": "Eq", "!=": "Ne",
          "in": "In", "not in": "NotIn"}
UNOPS = {"-": "UNeg", "+": "UPos", "not": "UNot", "~": "UTilde"}


class Unsupported(Exception):
    pass


def cstr(s):
    if not all(32 <= ord(ch) <= 126 for ch in s):
        raise Unsupported("non-ascii-string")
    return '"' + s.replace('"', '""') + '"'


def cpos(p):
    if not p:
        return "(P 0 0)"
    return "(P %d %d)" % (p[0], p[1])


def clist(xs):
    return "[" + "; ".join(xs) + "]"


class Conv:
    """AST JSON (harness/cmd/c01) -> Coq term of type Syntax.program."""

    def __init__(self):
        self.nfun = 0
        self.funpos = {}   # fid -> [line, col] of the def / lambda token

    def expr(self, e):
        k = e["k"]
        if k == "Ident":
            return "(EName %s %s)" % (cstr(e["name"]), cpos(e["pos"]))
        if k == "Literal":
            if e["tok"] == "INT":
                return "(EInt (%s)%%Z)" % int(e["val"])
            if e["tok"] == "STRING":
                try:
                    return "(EStr %s)" % cstr(e["val"])
                except Unsupported:
                    return '(EUnsup "string-literal")'
            return '(EUnsup "%s-literal")' % e["tok"].lower()
        if k == "ParenExpr":
            return "(EParen %s)" % self.expr(e["x"])
        if k == "UnaryExpr":
            if e["op"] not in UNOPS:
                return '(EUnsup "unary-%s")' % e["op"]
            return "(EUnary %s %s %s)" % (UNOPS[e["op"]], cpos(e["oppos"]), self.expr(e["x"]))
        if k == "BinaryExpr":
            if e["op"] == "and":
                return "(EAnd %s %s)" % (self.expr(e["x"]), self.expr(e["y"]))
            if e["op"] == "or":
                return "(EOr %s %s)" % (self.expr(e["x"]), self.expr(e["y"]))
            if e["op"] not in BINOPS:
                return '(EUnsup "binary")'
            return "(EBinary %s %s %s %s)" % (BINOPS[e["op"]], cpos(e["oppos"]), self.expr(e["x"]), self.expr(e["y"]))
        if k == "CondExpr":
            return "(ECond %s %s %s)" % (self.expr(e["cond"]), self.expr(e["true"]), self.expr(e["false"]))
        if k == "TupleExpr":
            return "(ETuple %s)" % clist([self.expr(x) for x in e["list"]])
        if k == "ListExpr":
            return "(EList %s)" % clist([self.expr(x) for x in e["list"]])
        if k == "DictExpr":
            return "(EDict %s)" % clist(["(%s, %s, %s)" % (self.expr(x["key"]), self.expr(x["value"]), cpos(x["colon"])) for x in e["list"]])
        if k == "IndexExpr":
            return "(EIndex %s %s %s)" % (self.expr(e["x"]), self.expr(e["y"]), cpos(e["lbrack"]))
        if k == "SliceExpr":
            o = lambda x: "(Some %s)" % self.expr(x) if x else "None"
            x = self.expr(e["x"])
            return "(ESlice %s %s %s %s %s)" % (x, o(e.get("lo")), o(e.get("hi")), o(e.get("step")), cpos(e["lbrack"]))
        if k == "DotExpr":
            return "(EDot %s %s %s)" % (self.expr(e["x"]), cstr(e["name"]), cpos(e["dot"]))
        if k == "CallExpr":
            args = []
            for a in e["args"]:
                if a["k"] == "BinaryExpr" and a["op"] == "=":
                    args.append("(ANamed %s %s)" % (cstr(a["x"]["name"]), self.expr(a["y"])))
                elif a["k"] == "UnaryExpr" and a["op"] == "*":
                    args.append("(AStar %s)" % self.expr(a["x"]))
                elif a["k"] == "UnaryExpr" and a["op"] == "**":
                    args.append("(AStarStar %s)" % self.expr(a["x"]))
                else:
                    args.append("(APos %s)" % self.expr(a))
            return "(ECall %s %s %s)" % (self.expr(e["fn"]), clist(args), cpos(e["lparen"]))
        if k == "LambdaExpr":
            fid = self.nfun
            self.nfun += 1
            self.funpos[fid] = e["lambda"]
            ps = self.params(e["params"])
            return "(ELambda %d %s %s %s)" % (fid, ps, self.expr(e["body"]), cpos(e["lambda"]))
        if k == "Comprehension":
            b = e["body"]
            if e["curly"]:
                body, bodyv, cp = self.expr(b["key"]), self.expr(b["value"]), cpos(b["colon"])
            else:
                body, bodyv, cp = self.expr(b), "(EInt 0%Z)", "(P 0 0)"
            cls = []
            for c in e["clauses"]:
                if c["k"] == "ForClause":
                    cls.append("(CFor %s %s %s)" % (self.target(c["vars"]), self.expr(c["x"]), cpos(c["for"])))
                else:
                    cls.append("(CIf %s)" % self.expr(c["cond"]))
            return "(EComp %s %s %s %s %s [])" % ("true" if e["curly"] else "false", body, bodyv, cp, clist(cls))
        return '(EUnsup "%s")' % k

    def params(self, ps):
        out = []
        for q in ps:
            if q["k"] == "Ident":
                out.append("(PPlain %s)" % cstr(q["name"]))
            elif q["k"] == "BinaryExpr" and q["op"] == "=":
                out.append("(PDefault %s %s)" % (cstr(q["x"]["name"]), self.expr(q["y"])))
            elif q["k"] == "UnaryExpr" and q["op"] == "*":
                out.append("(PStar %s)" % ("(Some %s)" % cstr(q["x"]["name"]) if q.get("x") else "None"))
            elif q["k"] == "UnaryExpr" and q["op"] == "**":
                out.append("(PStarStar %s)" % cstr(q["x"]["name"]))
            else:
                raise Unsupported("param")
        return clist(out)

    def target(self, t):
        k = t["k"]
        if k == "ParenExpr":
            return self.target(t["x"])
        if k == "Ident":
            return "(TName %s %s)" % (cstr(t["name"]), cpos(t["pos"]))
        if k == "IndexExpr":
            return "(TIndex %s %s %s)" % (self.expr(t["x"]), self.expr(t["y"]), cpos(t["lbrack"]))
        if k == "DotExpr":
            return "(TDot %s %s %s)" % (self.expr(t["x"]), cstr(t["name"]), cpos(t["dot"]))
        if k in ("TupleExpr", "ListExpr"):
            return "(TSeq %s)" % clist([self.target(x) for x in t["list"]])
        raise Unsupported("target-" + k)

    def stmts(self, ss):
        return clist([self.stmt(s) for s in ss])

    def stmt(self, s):
        k = s["k"]
        if k == "ExprStmt":
            return "(SExpr %s)" % self.expr(s["x"])
        if k == "BranchStmt":
            return {"break": "SBreak", "continue": "SContinue", "pass": "SPass"}[s["tok"]]
        if k == "IfStmt":
            return "(SIf %s %s %s)" % (self.expr(s["cond"]), self.stmts(s["true"]), self.stmts(s["false"] or []))
        if k == "AssignStmt":
            # the compiler evaluates the right-hand side first; ids are given in source (preorder) order
            if s["op"] == "=":
                rhs = self.expr(s["rhs"])
                return "(SAssign %s %s %s)" % (self.target(s["lhs"]), rhs, cpos(s["oppos"]))
            op = s["op"][:-1]
            rhs = self.expr(s["rhs"])
            return "(SAug %s %s %s %s)" % (BINOPS[op], self.target(s["lhs"]), rhs, cpos(s["oppos"]))
        if k == "DefStmt":
            fid = self.nfun
            self.nfun += 1
            self.funpos[fid] = s["def"]
            ps = self.params(s["params"])
            return "(SDef %d %s %s %s %s)" % (fid, cstr(s["name"]["name"]), ps, self.stmts(s["body"]), cpos(s["def"]))
        if k == "ForStmt":
            return "(SFor %s %s %s %s)" % (self.target(s["vars"]), self.expr(s["x"]), self.stmts(s["body"]), cpos(s["for"]))
        if k == "WhileStmt":
            return "(SWhile %s %s)" % (self.expr(s["cond"]), self.stmts(s["body"]))
        if k == "ReturnStmt":
            return "(SReturn %s)" % ("(Some %s)" % self.expr(s["result"]) if s.get("result") else "None")
        if k == "LoadStmt":
            names = ["(%s, %s)" % (cstr(t["name"]), cstr(f["name"])) for t, f in zip(s["to"], s["from"])]
            return "(SLoad %s %s %s)" % (cstr(s["module"]), clist(names), cpos(s["load"]))
        return '(SUnsup "%s")' % k

    def program(self, ast, opts):
        body = self.stmts(ast)
        o = "{| o_set := %s; o_while := %s; o_recursion := %s; o_toplevel := %s |}" % tuple(
            "true" if opts.get(x) else "false" for x in ("set", "while", "recursion", "toplevel"))
        return "{| p_opts := %s; p_body := %s |}" % (o, body)


# ---------------------------------------------------------------- real bytecode -> Coq
POS_OPS = {"iterpush": "ITERPUSH", "setindex": "SETINDEX", "index": "INDEX", "setdict": "SETDICT",
           "setdictuniq": "SETDICTUNIQ", "inplace_add": "INPLACE_ADD", "inplace_pipe": "INPLACE_PIPE", "slice": "SLICE"}
PLAIN_OPS = {"nop": "NOP", "dup": "DUP", "dup2": "DUP2", "pop": "POP", "exch": "EXCH", "not": "NOT", "none": "NONE",
             "true": "TRUE", "false": "FALSE", "mandatory": "MANDATORY", "iterpop": "ITERPOP", "return": "RETURN",
             "append": "APPEND", "makedict": "MAKEDICT"}
BIN_OPS = {"lt": "Lt", "gt": "Gt", "ge": "Ge", "le": "Le", "eql": "Eq", "neq": "Ne", "plus": "Add", "minus": "Sub",
           "star": "Mul", "slash": "Div", "slashslash": "FloorDiv", "percent": "Mod", "amp": "BitAnd", "pipe": "BitOr",
           "circumflex": "BitXor", "ltlt": "Shl", "gtgt": "Shr", "in": "In"}
UN_OPS = {"uplus": "UPos", "uminus": "UNeg", "tilde": "UTilde"}
CALL_OPS = {"call": 0, "call_var": 1, "call_kw": 2, "call_var_kw": 3}


def real_code(fn, prog, fidx2fid):
    """Decoded instructions of one real Funcode -> Coq list insn (jump targets as instruction indexes)."""
    code = fn["code"]
    idx = {ins["pc"]: i for i, ins in enumerate(code)}
    out = []
    for ins in code:
        op, arg, p = ins["op"].strip(), ins["arg"], cpos(ins["pos"])
        if op in PLAIN_OPS:
            t = PLAIN_OPS[op]
        elif op in POS_OPS:
            t = "(%s %s)" % (POS_OPS[op], p)
        elif op in BIN_OPS:
            t = "(BINARY %s %s)" % (BIN_OPS[op], p)
        elif op in UN_OPS:
            t = "(UNARY %s %s)" % (UN_OPS[op], p)
        elif op in ("jmp", "cjmp", "iterjmp"):
            if arg not in idx:
                raise Unsupported("jump-into-operand")
            t = "(%s %d)" % (op.upper(), idx[arg])
        elif op == "constant":
            c = prog["constants"][arg]
            if c["t"] in ("int", "bigint"):
                t = "(CONSTANT (VInt (%s)%%Z))" % int(c["v"])
            elif c["t"] == "string":
                try:
                    t = "(CONSTANT (VStr %s))" % cstr(c["v"])
                except Unsupported:
                    t = '(UNSUPPORTED "string-literal")'
            else:
                t = '(UNSUPPORTED "%s-literal")' % c["t"]
        elif op in ("maketuple", "makelist", "setlocal", "setglobal", "free", "setlocalcell"):
            t = "(%s %d)" % (op.upper(), arg)
        elif op == "makefunc":
            t = "(MAKEFUNC %d)" % fidx2fid[arg]
        elif op in ("local", "global", "freecell", "localcell", "unpack", "load"):
            t = "(%s %d %s)" % (op.upper(), arg, p)
        elif op in ("predeclared", "universal"):
            t = "(%s %s)" % (op.upper(), cstr(prog["names"][arg]))
        elif op in ("attr", "setfield"):
            t = "(%s %s %s)" % (op.upper(), cstr(prog["names"][arg]), p)
        elif op in CALL_OPS:
            t = "(CALL %d %d %d %s)" % (CALL_OPS[op], arg >> 8, arg & 0xff, p)
        else:
            t = '(UNSUPPORTED "opcode-%s")' % op
        out.append(t)
    return clist(out)


def real_funcode(fn, prog, fidx2fid):
    nk = fn["numkwonly"]
    np_ = fn["numparams"] - (1 if fn["varargs"] else 0) - (1 if fn["kwargs"] else 0)   # NumParams counts *args / **kwargs too
    names = fn["locals"]
    params = ["(PPlain %s)" % cstr(x) for x in names[:np_ - nk]]
    nxt = np_
    if fn["varargs"]:
        params.append("(PStar (Some %s))" % cstr(names[nxt]))
        nxt += 1
    elif nk:
        params.append("(PStar None)")
    params += ["(PPlain %s)" % cstr(x) for x in names[np_ - nk:np_]]
    if fn["kwargs"]:
        params.append("(PStarStar %s)" % cstr(names[nxt]))
    return ("{| fc_name := %s; fc_code := %s; fc_nlocals := %d; fc_params := %s; fc_cells := %s; fc_free := %s |}"
            % (cstr(fn["name"]), real_code(fn, prog, fidx2fid), len(names), clist(params),
               clist(["%d" % c for c in fn["cells"]]), clist([cstr(x) for x in fn["freevars"]])))


def expectation(run):
    tr = clist(["(%s, %s)" % (clist([cstr(a) for a in ev["args"]]),
                               clist(["(%s, %s)" % (cstr(k), cstr(v)) for k, v in ev["kwargs"]])) for ev in run["trace"]])
    if run["outcome"] == "timeout":
        x = "XTimeout"
    elif run["outcome"] == "ok":
        x = "(XOk %s)" % clist(["(%s, %s)" % (cstr(k), cstr(v)) for k, v in sorted(run["globals"])])
    else:
        st = run.get("errstack") or []
        inner = run.get("errpos") or [0, 0]
        caller = [0, 0]
        valid = [f for f in st if f[0] > 0]
        if len(valid) >= 2:
            caller = valid[-2][:2]
        x = "(XErr %s %s)" % (cpos(inner), cpos(caller))
    return tr, x


def calls_term(calls):
    """Host entries (starlark.Call after initialisation) as a Coq list of (name, argument values)."""
    out = []
    for cl in calls or []:
        args = []
        for a in cl["args"]:
            if a["t"] == "int":
                args.append("(VInt (%s)%%Z)" % int(a["v"]))
            elif a["t"] == "str":
                args.append("(VStr %s)" % cstr(a["v"]))
            elif a["t"] == "bool":
                args.append("(VBool %s)" % ("true" if a["v"] == "true" else "false"))
            else:
                args.append("VNone")
        out.append("(%s, %s)" % (cstr(cl["fn"]), clist(args)))
    return clist(out)


SELFCHECK = {"corpus:augmented-add-on-a-list-takes-any-iterable"}


def build_case(c):
    """-> dict with the Coq definitions for one harness object, or None with a reason."""
    cv = Conv()
    prog_t = cv.program(c["ast"], c["opts"])
    tr, x = expectation(c["run"])
    d = {"prog": prog_t, "trace": tr, "expect": x, "steps": c["run"]["steps"], "calls": calls_term(c.get("calls"))}
    rp = c.get("prog")
    if rp:
        pos2fid = {tuple(v): k for k, v in cv.funpos.items()}
        fidx2fid = {}
        for i, fn in enumerate(rp["functions"]):
            fidx2fid[i] = pos2fid.get(tuple(fn["pos"]), 100000 + i)
        d["names"] = clist(["(%d, %s)" % (fidx2fid[i], cstr(fn["name"])) for i, fn in enumerate(rp["functions"])])
        d["top"] = "{| rf_id := 0; rf_code := %s; rf_locals := %s |}" % (
            real_funcode(rp["toplevel"], rp, fidx2fid), clist([cstr(x_) for x_ in rp["toplevel"]["locals"]]))
        d["funs"] = clist(["{| rf_id := %d; rf_code := %s; rf_locals := %s |}" % (
            fidx2fid[i], real_funcode(fn, rp, fidx2fid), clist([cstr(x_) for x_ in fn["locals"]])) for i, fn in enumerate(rp["functions"])])
        d["globals"] = clist([cstr(g) for g in rp["globals"]])
        d["recursion"] = "true" if rp["recursion"] else "false"
    return d


def coq_eval(ctx, name, cases, want, timeout=1500):
    """cases: list of dicts from build_case.  Evaluate the requested checks in Coq; returns list of dict check->string."""
    text = HEADER
    names = []
    for i, d in enumerate(cases):
        text += "Definition p%d : program := %s.\n" % (i, d["prog"])
        text += "Definition t%d : list event := %s.\nDefinition x%d : expect := %s.\n" % (i, d["trace"], i, d["expect"])
        text += "Definition hc%d : list hcall := %s.\n" % (i, d.get("calls", "[]"))
        row = []
        if "ref" in want:
            row.append("ref_check_calls p%d hc%d t%d x%d" % (i, i, i, i))
        if "compiled" in want:
            row.append("(if in_compile_scope p%d then compiled_check_calls p%d hc%d t%d x%d else \"skip\")" % (i, i, i, i, i))
        if "top" in d and ("code" in want or "vm" in want):
            text += "Definition top%d : realfun := %s.\nDefinition funs%d : list realfun := %s.\n" % (i, d["top"], i, d["funs"])
            text += "Definition g%d : list string := %s.\n" % (i, d["globals"])
            if "code" in want:
                row.append("(if in_compile_scope p%d then codegen_check p%d top%d funs%d g%d else \"skip\")" % (i, i, i, i, i))
            if "vm" in want:
                text += ("Definition cp%d : cprog := {| cp_top := rf_code top%d; cp_funs := map (fun r => (rf_id r, rf_code r)) funs%d; cp_recursion := %s |}.\n"
                         % (i, i, i, d["recursion"]))
                row.append("vm_check_calls cp%d (name_table %s) g%d hc%d t%d x%d %d" % (i, d["names"], i, i, i, i, d["steps"]))
        text += "Definition r%d := Eval vm_compute in %s.\n" % (i, clist(row))
        names.append("r%d" % i)
    text += "Definition ALL := Eval vm_compute in %s.\nPrint ALL.\n" % clist(names)
    out, rc = ctx.coq_run(name, text, timeout=timeout)
    if rc != 0:
        raise HarnessError("coq evaluation failed:\n" + out[-3000:])
    m = re.search(r"ALL\s*=\s*(.*?)\s*:\s*list \(list string\)", out, re.S)
    if not m:
        raise HarnessError("cannot parse coq output:\n" + out[-2000:])
    body = m.group(1)
    rows = re.findall(r"\[((?:\s*\"(?:[^\"]|\"\")*\"\s*;?)*)\]", body)
    res = []
    for r in rows:
        res.append(re.findall(r"\"((?:[^\"]|\"\")*)\"", r))
    return res


def comp_reevaluated(ast):
    """Is there a comprehension lexically inside a loop or another comprehension?"""
    def walk(n, inloop):
        if isinstance(n, list):
            return any(walk(x, inloop) for x in n)
        if not isinstance(n, dict):
            return False
        k = n.get("k")
        if k == "Comprehension":
            if inloop:
                return True
            return any(walk(v, True) for v in n.values())
        if k in ("ForStmt", "WhileStmt"):
            return walk(n.get("x"), inloop) or walk(n.get("cond"), inloop) or walk(n.get("body"), True)
        if k in ("DefStmt", "LambdaExpr"):
            return walk(n.get("params"), inloop) or walk(n.get("body"), False)
        return any(walk(v, inloop) for v in n.values())
    return walk(ast, False)


def classify(c):
    """Which comparisons apply to one harness object."""
    if c.get("static_error") or c.get("ast") is None:
        return "static-error"
    r = c.get("run")
    if not r:
        return "static-error"
    if r["outcome"] == "panic":
        return "panic"
    if r["outcome"] == "timeout":
        return "timeout"
    return "run"


def shard_eval(ctx, tag, items, want, per=40, workers=8):
    """items: list of (case, builtdict).  Returns list of result rows aligned with items."""
    import concurrent.futures as cf
    chunks = [items[i:i + per] for i in range(0, len(items), per)]
    results = [None] * len(chunks)

    def work(k):
        return coq_eval(ctx, "%s_%d" % (tag, k), [d for _, d in chunks[k]], want)

    with cf.ThreadPoolExecutor(max_workers=workers) as ex:
        futs = {ex.submit(work, k): k for k in range(len(chunks))}
        for fu in cf.as_completed(futs):
            results[futs[fu]] = fu.result()
    out = []
    for k, ch in enumerate(chunks):
        if len(results[k]) != len(ch):
            raise HarnessError("coq returned %d rows for %d cases" % (len(results[k]), len(ch)))
        out.extend(results[k])
    return out


def run(ctx):
    ctx.proofs()
    hx = ctx.go_build("c01")
    n = 110 if ctx.quick() else 1500
    if getattr(ctx, "replay_path", None):
        # re-run the program(s) recorded in a replay file instead of generating
        rp = json.load(open(ctx.replay_path))
        rr = rp.get("replay", rp)
        line = json.dumps({"id": 1, "src": rr["src"], "opts": rr["opts"], "features": rr.get("features") or [],
                           "fragment": False, "calls": rr.get("calls") or []}) + "\n"
        corpus = ctx.jsonl([hx, "run"], timeout=300, input=line)
        cases = corpus
    else:
        corpus = ctx.jsonl([hx, "run"], timeout=300, input=corpus_lines())
        cases = corpus + ctx.jsonl([hx, "gen", "-seed", str(ctx.seed), "-n", str(n), "-frag", "50"], timeout=600)
    ctx.log("harness produced %d programs (%d from the hand-written corpus / replay)" % (len(cases), len(corpus)))
    dist = {"static-error": 0, "panic": 0, "timeout": 0, "run": 0, "untranslatable": 0, "too-large": 0}
    feats = {}
    items = []
    slow = []      # the real run exceeded its step limit (200000): does the reference terminate?
    for c in cases:
        k = classify(c)
        dist[k] += 1
        for f in c.get("features") or []:
            feats[f] = feats.get(f, 0) + 1
        if k == "static-error" and any(f.startswith("corpus:") for f in (c.get("features") or [])):
            ctx.broken("corpus", "a hand-written corpus program is statically rejected: %s: %s" % (c["features"][0], c.get("static_error")))
        if c.get("run") and c["run"].get("leaked"):
            corp = [f[7:] for f in (c.get("features") or []) if f.startswith("corpus:")]
            ctx.finding("iterator-left-open:" + (corp[0] if corp else "generated"),
                        "after the run ended (%s) %d container(s) reachable from the globals are still locked by an iterator: a later use by the host fails spuriously"
                        % (c["run"]["outcome"], c["run"]["leaked"]),
                        {"src": c["src"], "opts": c["opts"], "calls": c.get("calls") or [],
                         "real": {k_: v for k_, v in c["run"].items() if k_ != "trace"}, "features": c.get("features")})
        feats_c = c.get("features") or []
        if c.get("run") and ("selfcheck" in feats_c or (feats_c and feats_c[0] in SELFCHECK)):
            # programs that state a law of the specification about themselves (x += y on a list is
            # x.extend(y): doc/spec.md, Augmented assignments): usable where Values.v has no model of a
            # method (string.codepoints, bytes.elems ...).  They must finish, every "selfcheck" says True.
            r_ = c["run"]
            said = [t["args"] for t in r_["trace"] if t["args"] and t["args"][0] == '"selfcheck"']
            begun = sum(1 for t in r_["trace"] if t["args"] and t["args"][0] == '"selfcheck-begin"')
            incorpus = bool(feats_c) and feats_c[0] in SELFCHECK
            # generated programs contain other statements that may fail legitimately: there the run must
            # not fail between a "selfcheck-begin" and its "selfcheck" (the arguments cannot fail)
            if any(a != "True" for t in said for a in t[1:]) or (r_["outcome"] == "error" and (incorpus or begun > len(said))):
                corp = [f[7:] for f in feats_c if f.startswith("corpus:")]
                ctx.finding(("corpus:" + corp[0]) if corp else "selfcheck:" + "+".join(f for f in feats_c if f in ("inplace-add-iterable",)),
                            "a program checking a law of the specification on itself fails: outcome %s %s, selfcheck events %s"
                            % (r_["outcome"], r_.get("errmsg"), said),
                            {"src": c["src"], "opts": c["opts"], "calls": c.get("calls") or [],
                             "real": {k_: v for k_, v in r_.items() if k_ != "trace"}, "features": feats_c})
        if k == "panic":
            ctx.finding("panic", "host panic while executing a generated program: %s" % c["run"].get("errmsg"), {"src": c["src"], "opts": c["opts"]})
        if k == "timeout":
            try:
                slow.append((c, build_case(c)))
            except Unsupported:
                dist["untranslatable"] += 1
            continue
        if k != "run":
            continue
        try:
            d = build_case(c)
        except Unsupported as ex:
            dist["untranslatable"] += 1
            continue
        if sum(len(v) for v in d.values() if isinstance(v, str)) > 250000:
            # Coq's parser cannot take terms of this size; counted, never compared silently
            dist["too-large"] = dist.get("too-large", 0) + 1
            continue
        items.append((c, d))
    want = ["ref", "compiled", "code", "vm"]
    rows = shard_eval(ctx, "c01", items, want, per=(20 if ctx.quick() else 40), workers=(8 if ctx.quick() else 10))
    tally = {w: {} for w in want}
    bad = {w: [] for w in want}
    for (c, d), row in zip(items, rows):
        for w, r in zip(want, row):
            key = r.split(":")[0] if r.startswith("unsup") else r
            if r.startswith("code:") or r.startswith("locals-layout"):
                key = "mismatch:" + r.split("@")[0]
            tally[w][key] = tally[w].get(key, 0) + 1
            if not (r == "ok" or r == "skip" or r == "oof" or r.startswith("unsup")):
                bad[w].append((c, r))
    # Real runs that hit the step limit: a finding when the reference evaluator terminates AND the
    # model machine running the real bytecode does not terminate within twice the limit either (so the
    # real code really diverges, it is not just long).  Evaluated one by one, each guarded by a timeout:
    # such programs can be expensive for any evaluator.
    slow_tally = {}
    # hand-written programs first, then the shortest: the cheapest to decide (matters on a loaded machine)
    slow.sort(key=lambda cd: (not any(f.startswith("corpus:") for f in (cd[0].get("features") or [])), len(cd[0]["src"])))
    for c, d in slow[:3]:
        try:
            row = coq_eval(ctx, "c01_slow", [d], ["ref", "vm"], timeout=300)[0]
        except HarnessError:
            row = ["undecided", "undecided"]
        verdict = "undecided"
        if row[0].startswith("mismatch") and row[-1] == "ok":
            verdict = "real-diverges"
            corp = [f[7:] for f in (c.get("features") or []) if f.startswith("corpus:")]
            ctx.finding(("corpus:" + corp[0]) if corp else "pipeline-vs-reference:real-exceeds-step-limit",
                        "the real pipeline exceeds the step limit (and so does the model machine on the real bytecode) on a program the reference evaluator runs to completion",
                        {"src": c["src"], "opts": c["opts"], "real": {k_: v for k_, v in c["run"].items() if k_ != "trace"}, "features": c.get("features")})
        elif row[0] in ("oof",) or row[0].startswith("unsup"):
            verdict = "reference-does-not-terminate-either"
        slow_tally[verdict] = slow_tally.get(verdict, 0) + 1
    tally["step-limit"] = slow_tally
    ctx.log("tally", json.dumps(tally))
    unsup_tags = {}
    for (c, d), row in zip(items, rows):
        if row[0].startswith("unsup:"):
            unsup_tags[row[0][6:]] = unsup_tags.get(row[0][6:], 0) + 1
    # (c) the real pipeline disagrees with the reference semantics: a failing program
    rowof = {id(c): row for (c, d), row in zip(items, rows)}
    for c, r in bad["ref"]:
        corp = [f[7:] for f in (c.get("features") or []) if f.startswith("corpus:")]
        if corp:
            key = "corpus:" + corp[0]
        elif comp_reevaluated(c["ast"]) and rowof[id(c)][1] == "ok":
            # the model of the pipeline (Compile.v + VM.v) reproduces the real behaviour, the reference
            # evaluator does not, and a comprehension can be evaluated twice in one activation: the
            # divergence proved in Properties.codegen_correct_refuted
            key = "generated:comprehension-reevaluated"
        else:
            key = "pipeline-vs-reference:" + r
        ctx.finding(key, "real pipeline and reference evaluator disagree (%s)" % r,
                    {"src": c["src"], "opts": c["opts"], "calls": c.get("calls") or [], "real": c["run"], "features": c.get("features")})
    refbad = set(id(c) for c, _ in bad["ref"])
    for w, name in (("code", "C01.Compile (bytecode of the real compiler vs model code generator)"),
                    ("vm", "C01.VM (model machine on the real bytecode vs real machine)"),
                    ("compiled", "C01.Compile+VM (model pipeline vs real pipeline)")):
        only = [(c, r) for c, r in bad[w] if id(c) not in refbad]
        if only:
            c, r = only[0]
            ctx.broken("correspondence:" + name, "%d program(s) differ where the reference semantics is met, e.g. %s on\n%s" % (len(only), r, c["src"]))
    coqchk = None
    if not ctx.quick() and not getattr(ctx, "replay_path", None):
        # independent re-check of the compiled proofs by the standalone checker
        pr = ctx.sh(["coqchk", "-silent", "-o", "-Q", ".", "SV", "SV.C01.Properties"], cwd=ctx.coqdir, timeout=900)
        out = pr.stdout + pr.stderr
        coqchk = "ok" if pr.returncode == 0 and "Axioms: <none>" in out else "rc=%s %s" % (pr.returncode, out[-1500:])
        if coqchk != "ok":
            ctx.broken("coqchk:C01/Properties.vo", coqchk)
    nontrivial = sum(1 for (c, d), row in zip(items, rows) if row[0] == "ok")
    cov = {
        "evaluations": len(cases), "distinct_nontrivial": nontrivial,
        "rule": "grammar-based generator (depth <= 6), 16 option combinations, 50% restricted to the proved fragment; each runnable program is compared four ways; 'distinct_nontrivial' counts programs on which the real pipeline and the reference evaluator were both run to completion and agree",
        "distribution": {"classes": dist, "features": feats, "checks": tally, "reference_unsupported": unsup_tags},
        "samples": [{"src": c["src"], "opts": c["opts"], "results": row} for (c, d), row in list(zip(items, rows))[:3]],
        "coqchk": coqchk,
    }
    return ctx.finish(LEVEL, cov, assumptions=[
        "Ref.v is a reading of doc/spec.md; comprehension variables are fresh per evaluation of the comprehension, closures capture cells",
        "programs on which Ref.v leaves its modelled library (float division, string formatting, a few built-ins / methods) are counted under reference_unsupported, never compared silently",
        "built-in functions and operators on values are a shared oracle (Values.v), compared with the real ones only through ties (b) and (c)",
        "source positions identify operations; error messages are not compared",
    ])


# ---------------------------------------------------------------- hand-written corpus (always run first)
ALLON = {"set": True, "while": True, "recursion": True, "toplevel": True}
ALLOFF = {"set": False, "while": False, "recursion": False, "toplevel": False}
CORPUS = [
    ("call-argument-order", ALLOFF, """
def f(a, b, *args, c=0, **kwargs):
    return (a, b, c, args, kwargs)
x = f(trace(1), trace(2), c=trace(3), *[trace(4)], **{"z": trace(5)})
trace(x)
y = f(trace("p"), b=trace("q"), c=trace("r"))
trace(y)
trace(f(*[trace(1), trace(2)], **{"k": trace(3)}))
"""),
    ("augmented-index-evaluated-once", ALLOFF, """
def g():
    x = [1, 2, 3]
    def i():
        trace("i")
        return 1
    x[i()] += 10
    x[trace(0)] *= 3
    x[trace(2)] -= trace(1)
    return x
trace(g())
d = {"a": [1]}
def h():
    d[trace("a")] += [2]
    d[trace("a")][trace(0)] += 5
    return d
trace(h())
"""),
    ("or-and-yield-operand", ALLOFF, """
trace(0 or "x", 1 or "x", [] or (), [0] or 2, None or 0)
trace(0 and "x", 1 and "x", [] and 1, [0] and 2, "s" and None)
def t(v):
    trace("eval", v)
    return v
trace(t(0) or t(2) or t(3), t(1) and t(0) and t(5))
trace(t(0) and t(1), t(3) or t(4))
trace((t(1) or t(2)) if (t(0) and t(9)) else (t([]) or t("z")))
trace(not t(0), not t([1]) or t(7))
"""),
    ("comprehension-variables-are-block-local", ALLOFF, """
x = 1
y = [x for x in [2, 3]]
trace(x, y)
def f(x):
    z = [x * 2 for x in [x, x + 1]]
    w = {x: y for x, y in [(1, 2)] for y in [y, 5]}
    trace(x, z, w)
    k = 7
    q = [k for k in range(3) if k != 1]
    return (x, k, q)
trace(f(10))
def g():
    i = "outer"
    r = [[i for i in range(j)] for j in range(3)]
    return (i, r)
trace(g())
trace([a + b for a in ["a", "b"] for b in [a, "c"]])
"""),
    ("closures-capture-variables", ALLOFF, """
def mk():
    x = 1
    def get():
        return x
    x = 2
    fs = []
    for i in [10, 20]:
        fs.append(lambda: i + x)
    x = 3
    return (get, fs)
g, fs = mk()
trace(g(), [f() for f in fs])
def counter():
    n = [0]
    def inc():
        n[0] += 1
        return n[0]
    return inc
c = counter()
trace(c(), c(), c())
def late():
    def inner():
        return v
    v = "assigned later"
    return inner()
trace(late())
def shadow(len):
    f = lambda: len
    len = 5
    return f()
trace(shadow(1), len([1, 2]))
trace([f() for f in [lambda: z for z in [1, 2, 3]]])
"""),
    ("break-continue-return-in-nested-loops", ALLON, """
def f():
    out = []
    for i in range(4):
        for j in range(4):
            if j == 1:
                continue
            if j == 3:
                break
            out.append((i, j))
        if i == 2:
            continue
        out.append(i)
        if i == 3:
            return out
    return "fell off"
trace(f())
def w():
    n = 0
    r = []
    while n < 5:
        n += 1
        k = 0
        while True:
            k += 1
            if k < n:
                continue
            break
        if n == 2:
            continue
        r.append((n, k))
        if n == 4:
            break
    return r
trace(w())
for a in [1, 2, 3]:
    if a == 2:
        continue
    for b in [5, 6]:
        if b == 6:
            break
        trace(a, b)
"""),
    ("exits-after-an-inner-loop-refer-to-the-outer-loop", ALLON, """
def for_while():
    out = []
    for i in range(4):
        n = i
        while n > 0:
            n -= 1
            if n == 1:
                continue
        out.append(i)
        if len(out) == 2:
            break
        else:
            trace("fw", i)
    return out
def for_for():
    out = []
    for i in range(4):
        for j in range(3):
            if j == 1:
                break
        if i == 1:
            continue
        out.append((i, j))
        if i == 2:
            return out
    return "end"
def while_while():
    out = []
    i = 0
    while i < 4:
        i += 1
        j = 0
        while j < i:
            j += 1
            if j == 2:
                break
        if i == 2:
            continue
        else:
            out.append((i, j))
        if i == 3:
            break
    return out
def while_for():
    out = []
    i = 0
    while i < 3:
        i += 1
        for j in [1, 2]:
            if j == i:
                continue
            out.append(j)
        if i == 1:
            continue
        out.append("i%d" % 0 if False else i)
        if i == 2:
            return out
    return out
trace(for_while(), for_for(), while_while(), while_for())
k = [3]
while k[0] > 0:
    k[0] -= 1
    for q in [1, 2]:
        if q == 2:
            break
    if k[0] == 1:
        continue
    trace("top", k[0], q)
"""),
    ("iterated-list-plus-empty", ALLOFF, """
def it(c, op, e):
    n = 0
    for k in c:
        trace("in", op, n)
        if op == 0:
            c += e
        elif op == 1:
            c.extend(e)
        elif op == 2:
            c[0] = c[0]
        elif op == 3:
            c |= e
        elif op == 4:
            c["k"] = c["k"]
        elif op == 5:
            c.append(e)
        n += 1
    return (n, c)
def comp(c, e):
    def m(cc):
        cc |= e
        return len(cc)
    return [m(c) for k in c]
def fine():
    ok = []
    ok += []
    ok.extend(())
    d = {"k": 1}
    d |= {}
    d |= {"j": 2}
    for k in [1]:
        d |= {"i": k}
        ok += [k]
    return (ok, d, d | {"k": 3, "m": 4}, {} | {})
trace(fine())
trace(it([], 0, [1]), it({}, 3, {"z": 1}))
trace(it([1, 2], 0, []))
"""),
    ("iterated-list-extend-empty", ALLOFF, """
def it(c, op, e):
    n = 0
    for k in c:
        trace("in", op, n)
        if op == 0:
            c += e
        elif op == 1:
            c.extend(e)
        elif op == 2:
            c[0] = c[0]
        elif op == 3:
            c |= e
        elif op == 4:
            c["k"] = c["k"]
        elif op == 5:
            c.append(e)
        n += 1
    return (n, c)
def comp(c, e):
    def m(cc):
        cc |= e
        return len(cc)
    return [m(c) for k in c]
def fine():
    ok = []
    ok += []
    ok.extend(())
    d = {"k": 1}
    d |= {}
    d |= {"j": 2}
    for k in [1]:
        d |= {"i": k}
        ok += [k]
    return (ok, d, d | {"k": 3, "m": 4}, {} | {})
trace(fine())
trace(it([], 0, [1]), it({}, 3, {"z": 1}))
trace(it([1, 2], 1, ()))
"""),
    ("iterated-list-store-same", ALLOFF, """
def it(c, op, e):
    n = 0
    for k in c:
        trace("in", op, n)
        if op == 0:
            c += e
        elif op == 1:
            c.extend(e)
        elif op == 2:
            c[0] = c[0]
        elif op == 3:
            c |= e
        elif op == 4:
            c["k"] = c["k"]
        elif op == 5:
            c.append(e)
        n += 1
    return (n, c)
def comp(c, e):
    def m(cc):
        cc |= e
        return len(cc)
    return [m(c) for k in c]
def fine():
    ok = []
    ok += []
    ok.extend(())
    d = {"k": 1}
    d |= {}
    d |= {"j": 2}
    for k in [1]:
        d |= {"i": k}
        ok += [k]
    return (ok, d, d | {"k": 3, "m": 4}, {} | {})
trace(fine())
trace(it([], 0, [1]), it({}, 3, {"z": 1}))
trace(it([1, 2], 2, None))
"""),
    ("iterated-dict-pipe-empty", ALLOFF, """
def it(c, op, e):
    n = 0
    for k in c:
        trace("in", op, n)
        if op == 0:
            c += e
        elif op == 1:
            c.extend(e)
        elif op == 2:
            c[0] = c[0]
        elif op == 3:
            c |= e
        elif op == 4:
            c["k"] = c["k"]
        elif op == 5:
            c.append(e)
        n += 1
    return (n, c)
def comp(c, e):
    def m(cc):
        cc |= e
        return len(cc)
    return [m(c) for k in c]
def fine():
    ok = []
    ok += []
    ok.extend(())
    d = {"k": 1}
    d |= {}
    d |= {"j": 2}
    for k in [1]:
        d |= {"i": k}
        ok += [k]
    return (ok, d, d | {"k": 3, "m": 4}, {} | {})
trace(fine())
trace(it([], 0, [1]), it({}, 3, {"z": 1}))
trace(it({"k": 1}, 3, {}))
"""),
    ("iterated-dict-pipe-nonempty", ALLOFF, """
def it(c, op, e):
    n = 0
    for k in c:
        trace("in", op, n)
        if op == 0:
            c += e
        elif op == 1:
            c.extend(e)
        elif op == 2:
            c[0] = c[0]
        elif op == 3:
            c |= e
        elif op == 4:
            c["k"] = c["k"]
        elif op == 5:
            c.append(e)
        n += 1
    return (n, c)
def comp(c, e):
    def m(cc):
        cc |= e
        return len(cc)
    return [m(c) for k in c]
def fine():
    ok = []
    ok += []
    ok.extend(())
    d = {"k": 1}
    d |= {}
    d |= {"j": 2}
    for k in [1]:
        d |= {"i": k}
        ok += [k]
    return (ok, d, d | {"k": 3, "m": 4}, {} | {})
trace(fine())
trace(it([], 0, [1]), it({}, 3, {"z": 1}))
trace(it({"k": 1}, 3, {"z": 2}))
"""),
    ("iterated-dict-store-same", ALLOFF, """
def it(c, op, e):
    n = 0
    for k in c:
        trace("in", op, n)
        if op == 0:
            c += e
        elif op == 1:
            c.extend(e)
        elif op == 2:
            c[0] = c[0]
        elif op == 3:
            c |= e
        elif op == 4:
            c["k"] = c["k"]
        elif op == 5:
            c.append(e)
        n += 1
    return (n, c)
def comp(c, e):
    def m(cc):
        cc |= e
        return len(cc)
    return [m(c) for k in c]
def fine():
    ok = []
    ok += []
    ok.extend(())
    d = {"k": 1}
    d |= {}
    d |= {"j": 2}
    for k in [1]:
        d |= {"i": k}
        ok += [k]
    return (ok, d, d | {"k": 3, "m": 4}, {} | {})
trace(fine())
trace(it([], 0, [1]), it({}, 3, {"z": 1}))
trace(it({"k": 1}, 4, None))
"""),
    ("iterated-dict-pipe-empty-in-comprehension", ALLOFF, """
def it(c, op, e):
    n = 0
    for k in c:
        trace("in", op, n)
        if op == 0:
            c += e
        elif op == 1:
            c.extend(e)
        elif op == 2:
            c[0] = c[0]
        elif op == 3:
            c |= e
        elif op == 4:
            c["k"] = c["k"]
        elif op == 5:
            c.append(e)
        n += 1
    return (n, c)
def comp(c, e):
    def m(cc):
        cc |= e
        return len(cc)
    return [m(c) for k in c]
def fine():
    ok = []
    ok += []
    ok.extend(())
    d = {"k": 1}
    d |= {}
    d |= {"j": 2}
    for k in [1]:
        d |= {"i": k}
        ok += [k]
    return (ok, d, d | {"k": 3, "m": 4}, {} | {})
trace(fine())
trace(it([], 0, [1]), it({}, 3, {"z": 1}))
trace(comp({"k": 1}, {}))
"""),
    ("frozen-list-plus-empty", ALLOFF, """
load("m.star", "fl", "fd")
trace(fl, fd, len(fl), fd["k"], fl + [3], fd | {"z": 1}, [x for x in fl], 1 in fl, "k" in fd)
def f(c, e):
    c += e
    return c
trace(f(fl, []))
"""),
    ("frozen-list-extend-empty", ALLOFF, """
load("m.star", "fl", "fd")
trace(fl, fd, len(fl), fd["k"], fl + [3], fd | {"z": 1}, [x for x in fl], 1 in fl, "k" in fd)
def f(c, e):
    c.extend(e)
    return c
trace(f(fl, []))
"""),
    ("frozen-list-store-same", ALLOFF, """
load("m.star", "fl", "fd")
trace(fl, fd, len(fl), fd["k"], fl + [3], fd | {"z": 1}, [x for x in fl], 1 in fl, "k" in fd)
def f(c, e):
    c[0] = c[0]
    return c
trace(f(fl, None))
"""),
    ("frozen-dict-pipe-empty", ALLOFF, """
load("m.star", "fl", "fd")
trace(fl, fd, len(fl), fd["k"], fl + [3], fd | {"z": 1}, [x for x in fl], 1 in fl, "k" in fd)
def f(c, e):
    c |= e
    return c
trace(f(fd, {}))
"""),
    ("frozen-dict-pipe-nonempty", ALLOFF, """
load("m.star", "fl", "fd")
trace(fl, fd, len(fl), fd["k"], fl + [3], fd | {"z": 1}, [x for x in fl], 1 in fl, "k" in fd)
def f(c, e):
    c |= e
    return c
trace(f(fd, {"z": 1}))
"""),
    ("frozen-dict-store-same", ALLOFF, """
load("m.star", "fl", "fd")
trace(fl, fd, len(fl), fd["k"], fl + [3], fd | {"z": 1}, [x for x in fl], 1 in fl, "k" in fd)
def f(c, e):
    c["k"] = c["k"]
    return c
trace(f(fd, None))
"""),
    ("frozen-list-append", ALLOFF, """
load("m.star", "fl", "fd")
trace(fl, fd, len(fl), fd["k"], fl + [3], fd | {"z": 1}, [x for x in fl], 1 in fl, "k" in fd)
def f(c, e):
    c.append(e)
    return c
trace(f(fl, 0))
"""),
    ("iterators-released-after-loops", ALLOFF, """
def f(l):
    for x in l:
        if x == 2:
            break
    l.append(9)
    for x in l:
        for y in l:
            pass
    l.append(10)
    return l
trace(f([1, 2, 3]))
def g(l):
    for x in l:
        if x == 2:
            return x
    return None
m = [1, 2, 3]
trace(g(m))
m.append(4)
trace(m)
def h(l):
    for x in l:
        l.append(x)
    return l
trace("before")
trace(h([1]))
"""),
    ("non-commutative-operators-with-constant-operands", ALLOFF, """
def f(x, s, l):
    trace(10 - x, x - 10, 7 // x, x // 7, 7 % x, x % 7, 2 < x, x < 2, 1 << x, x << 1, 100 >> x)
    trace("a" + s, s + "a", "a" + "b" + s, s + "a" + "b", "a" + s + "b" + "c")
    trace([1] + l, l + [1], [1] + [2] + l, l + [1] + [2], (1,) + (2,) + tuple(l))
    trace(3 - 2 - x, 3 - (2 - x), 2 * 3 + x, "x" * 2 + s, 2 in l, x in [1, 2, 3], "a" in s, s in "abc")
    trace(5 >= x, 5 <= x, 5 == x, 5 != x, 5 > x)
f(3, "z", [2])
"""),
    ("scoping-of-globals-predeclared-universal", ALLOFF, """
def f():
    return len([1, 2, 3])
trace(f())
def g():
    trace = 5
    return trace
trace(g())
def h():
    if False:
        y = 1
    return y
def k():
    return later
trace(type(len), type(trace))
later = "defined"
trace(k())
trace(h())
"""),
    ("use-before-definition-at-top-level", ALLOFF, """
trace(1)
trace(len([1]))
x = len
trace(x("ab"))
len = 3
"""),
    ("defaults-evaluated-at-definition", ALLOFF, """
def mk(n):
    def f(a, b=trace(n), c=[]):
        c.append(a)
        return (a, b, c)
    return f
f1 = mk(1)
f2 = mk(2)
trace(f1(0), f1(1), f2(5), f1(2, c=[9]))
def kw(a, *, b, c=trace("dc")):
    return (a, b, c)
trace(kw(1, b=2), kw(1, c=3, b=4))
trace(kw(1))
"""),
    ("unpacking-and-sequence-targets", ALLOFF, """
def f():
    a, (b, c) = 1, [2, 3]
    [d, e] = (a + b, c)
    l = [0, 0]
    l[0], l[1] = e, d
    for i, (j, k) in [(1, (2, 3)), (4, (5, 6))]:
        trace(i, j, k)
    x, y = 1, 2
    x, y = y, x
    return (a, b, c, d, e, l, x, y)
trace(f())
def g():
    a, b = [1, 2, 3]
trace(g())
"""),
    ("recursion-check-and-recursion", {"set": False, "while": False, "recursion": True, "toplevel": False}, """
def fact(n):
    if n <= 1:
        return 1
    return n * fact(n - 1)
trace(fact(10), fact(25))
def even(n):
    return True if n == 0 else odd(n - 1)
def odd(n):
    return False if n == 0 else even(n - 1)
trace(even(10), odd(7))
"""),
    ("recursion-rejected-without-option", ALLOFF, """
def fact(n):
    if n <= 1:
        return 1
    return n * fact(n - 1)
trace(fact(1))
trace(fact(3))
"""),
    ("host-calls-recursion-check-from-the-outermost-frame", ALLOFF, """
def fact(n):
    trace("fact", n)
    if n <= 1:
        return 1
    return n * fact(n - 1)
def ping(n):
    trace("ping", n)
    return pong(n - 1) if n > 0 else "done"
def pong(n):
    trace("pong", n)
    return ping(n - 1) if n > 0 else "done"
trace(fact(1), ping(1))
""", [("fact", [("int", "1")]), ("ping", [("int", "1")]), ("fact", [("int", "3")])]),
    ("host-calls-mutual-recursion-from-the-outermost-frame", ALLOFF, """
def ping(n):
    trace("ping", n)
    return pong(n - 1) if n > 0 else "done"
def pong(n):
    trace("pong", n)
    return ping(n - 1) if n > 0 else "done"
""", [("pong", [("int", "0")]), ("ping", [("int", "4")])]),
    ("host-calls-with-recursion-allowed-and-frozen-globals", {"set": False, "while": False, "recursion": True, "toplevel": False}, """
log = [0]
def fact(n):
    return 1 if n <= 1 else n * fact(n - 1)
def peek(k):
    return (log, len(log), log[0] + k, [x for x in log])
def poke(k):
    trace("poke", k)
    log.append(k)
    return log
trace(poke(1))
""", [("fact", [("int", "6")]), ("peek", [("int", "2")]), ("poke", [("int", "3")])]),
    ("none-true-false-are-ordinary-identifiers", ALLOFF, """
def f(None, True):
    trace(None, True)
    False = [None, True]
    for None in [3, 4]:
        True = True + None
    g = lambda: (None, True, False)
    return (None, True, False, [None for None in (7, 8)], {True: False for True in [1]}, g())
trace(f(1, 2), None, True, False)
def outer(True):
    def inner():
        return True
    return inner()
trace(outer("captured"))
""", [("f", [("int", "5"), ("int", "6")])]),
    ("global-named-like-a-universal-constant", ALLOFF, """
def r():
    return (True, None)
True = "t"
None = 0
trace(True, None, r(), not None, True if None else False)
"""),
    ("keyword-only-parameter-filled-positionally", ALLOFF, """
def h(a, *, c):
    trace("in h", a, c)
    return (a, c)
trace(h(1, c=2), h(c=1, a=2))
trace(h(1, 2))
"""),
    ("keyword-only-parameter-with-default-filled-positionally", ALLOFF, """
def h(a, b=0, *, c=9, d):
    trace("in h", a, b, c, d)
    return (a, b, c, d)
k = lambda x, *, y: (x, y)
trace(h(1, d=4), h(1, 2, d=4), k(1, y=2))
trace(h(1, 2, 3, 4))
""", ),
    ("keyword-only-lambda-filled-positionally-from-the-host", ALLOFF, """
def h(a, *, c):
    trace("in h", a, c)
    return (a, c)
""", [("h", [("int", "1"), ("int", "2")])]),
    ("unpack-too-many-values-releases-its-iterator", ALLOFF, """
x = [1, 2, 3]
d = {"a": 1, "b": 2, "c": 3}
def f():
    for p, q in [d]:
        pass
def g():
    a, b = x
trace(len(x))
g()
"""),
    ("unpack-too-many-values-in-for-target-releases-its-iterator", ALLON, """
x = [[1, 2, 3]]
y = {"a": 1, "b": 2, "c": 3}
for a, b in [y]:
    trace(a, b)
"""),
    ("big-integer-literal-and-string-of-its-digits-are-distinct-constants", ALLOFF, """
s = "deadbeefcafebabe1234"
n = 0xdeadbeefcafebabe1234
def f():
    a = 1051570404360395033547316
    b = "1051570404360395033547316"
    c = "deadbeefcafebabe1234"
    return [a, b, c, 0xDEADBEEFCAFEBABE1234, a == n, c == s, "7", 7, "True", True]
trace(s, n, f(), n + 1, s + "!")
def g():
    return ["ffffffffffffffffffff", 0xffffffffffffffffffff, "ffffffffffffffffffff"]
trace(g(), -0xffffffffffffffffffff)
""", [("f", []), ("g", [])]),
    ("augmented-add-on-a-list-takes-any-iterable", ALLOFF, """
def name_target(y):
    x = [0]
    alias = x
    x += y
    return (x, alias)
def index_target(y):
    x = [[0], 1]
    x[0] += y
    return x
trace("selfcheck", name_target("ab".elems()) == ([0, "a", "b"], [0, "a", "b"]), name_target((1, 2)) == ([0, 1, 2], [0, 1, 2]))
trace("selfcheck", name_target({"k": 1}) == ([0, "k"], [0, "k"]), name_target(range(2)) == ([0, 0, 1], [0, 0, 1]))
trace("selfcheck", name_target("ab".codepoints()) == ([0, "a", "b"], [0, "a", "b"]))
trace("selfcheck", index_target("ab".codepoint_ords()) == [[0, 97, 98], 1])
trace("selfcheck", name_target(b"ab".elems()) == ([0, 97, 98], [0, 97, 98]))
trace("selfcheck", name_target(enumerate(["p"])) == ([0, (0, "p")], [0, (0, "p")]), name_target(zip([1], [2])) == ([0, (1, 2)], [0, (1, 2)]))
"""),
    ("load-binds-file-locals", ALLOFF, """
load("m.star", "a", bb="b")
def f():
    return (a, bb)
trace(a, bb, f())
c = a + 1
trace(c)
"""),
    ("comprehension-variable-stale-on-reevaluation", ALLOFF, """
def f():
    r = []
    for i in range(2):
        r.append([y for x in [1] for y in ([z] if i else [0]) for z in [5]])
    return r
trace(f())
"""),
    ("comprehension-closure-cell-shared-across-evaluations", ALLOFF, """
def f():
    r = []
    for i in range(2):
        r.append([lambda: x for x in [i]])
    return [g[0]() for g in r]
trace(f())
"""),
    ("augmented-assignment-in-place", ALLOFF, """
def f():
    l = [1]
    m = l
    m += [2]
    t = (1,)
    u = t
    u += (2,)
    n = [0]
    k = n
    k = k + [1]
    return (l, m, t, u, n, k)
trace(f())
x = [[1], [2]]
def g():
    x[0] += [5]
    y = x[1]
    y += x[0]
    return (x, y)
trace(g())
"""),
    ("evaluation-order-of-displays-index-and-assignment", ALLOFF, """
def t(v):
    trace("e", v)
    return v
def f():
    l = [0, 0, 0]
    l[t(1)] = t(2)
    d = {t("a"): t(1), t("b"): t(2)}
    x = (t(1), [t(2), t(3)], {t(4): t(5)})
    y = t([1, 2, 3, 4])[t(1):t(3)]
    z = t(l)[t(0)]
    a, b = t(1), t(2)
    c = t(1) if t(0) else t(2)
    e = t(1) < t(2)
    g = t(3) not in t([3])
    h = -t(1) + t(2) * t(3)
    return (l, d, x, y, z, a, b, c, e, g, h)
trace(f())
"""),
    ("loop-variables-and-iteration", ALLON, """
def f():
    out = []
    for i in [1, 2, 3]:
        pass
    out.append(i)
    for k in {"a": 1, "b": 2}:
        out.append(k)
    for i, (a, b) in [(0, (1, 2)), (1, (3, 4))]:
        out.append(i + a + b)
    for c in (1, 2):
        for c in [c * 10]:
            out.append(c)
        out.append(c)
    n = 0
    for x in range(5):
        if x % 2:
            continue
        n += x
    out.append(n)
    return out
trace(f())
for g in [1, 2]:
    h = g * 2
trace(g, h)
def m():
    d = {"a": 1}
    for k in d:
        d["b"] = 2
    return d
trace(m())
"""),
    ("closures-three-levels-and-defaults-in-loops", ALLOFF, """
def outer(a):
    def middle(b):
        def inner(c):
            return (a, b, c)
        return inner
    return middle
trace(outer(1)(2)(3))
def mk():
    fs = [lambda y=i: y for i in range(3)]
    gs = []
    for j in range(3):
        def g(k=j):
            return k + j
        gs.append(g)
    return [f() for f in fs] + [g() for g in gs]
trace(mk())
def acc():
    total = [0]
    def add(n):
        total[0] += n
        return total[0]
    return add
a = acc()
trace(a(1), a(2), a(3))
def rec():
    def fact(n):
        return 1 if n <= 1 else n * helper(n - 1)
    def helper(n):
        return n
    return fact(4)
trace(rec())
"""),
    ("varargs-kwargs-binding", ALLOFF, """
def f(a, b=2, *args, c, d=4, **kw):
    return (a, b, args, c, d, kw)
trace(f(1, c=3))
trace(f(1, 2, 3, 4, c=5, e=6))
trace(f(*[1, 2, 3], **{"c": 4, "z": 5}))
trace(f(1, d=0, c=9, b=8))
def g(*a, **k):
    return (a, k)
trace(g(), g(1), g(x=1), g(1, 2, x=3, y=4))
trace(f(1))
"""),
    ("string-list-operations-with-constants", ALLOFF, """
def f(s, l):
    trace("ab" * 2, 2 * "ab", [1] * 2, (1, 2) * 2, s * 0, l * -1)
    trace("abc"[1], "abc"[-1], l[-1], l[0:2], "abcdef"[::2], "abcdef"[::-1], l[::-1])
    trace("a" < "b", [1, 2] < [1, 3], (1,) < (1, 0), "b" in "abc", 2 in l, "x" not in "abc")
    trace(len(s), len(l), type(s), type(l), bool(s), bool([]), str(12), str(None))
    trace(sorted([3, 1, 2]), sorted(["b", "a"]), list((1, 2)), tuple([1, 2]), list(range(3)), range(2, 8, 3))
f("xy", [1, 2, 3])
trace(7 // 2, -7 // 2, 7 % -2, -7 % 2, 1 << 10, -8 >> 1, 5 & 3, 5 | 3, 5 ^ 3, ~5)
trace(10000000000000000000000 * 10000000000000000000000, -(1 << 70) // 3)
"""),
    ("miscellaneous-operators-and-dict-comprehension-keys", ALLOFF, """
def f(x):
    a = 5
    a |= 2
    a &= 6
    a ^= 1
    a <<= 2
    a >>= 1
    a %= 5
    a //= 2
    a -= 10
    a *= -3
    trace(+x, -(-x), ~x, not x, not not x, a)
    trace({k % 2: k for k in range(4)}, [k for k in range(6) if k % 2 if k % 3], {k: [j for j in range(k)] for k in range(3)})
    trace(x if x else -x, (x or 0) and (0 or x), None or False, [] and 1, x == 3, x != 3, (x, 1) == (3, 1), [x] == [3], {"a": x} == {"a": 3})
    d = {}
    d[(1, 2)] = "t"
    d[x] = d.get(x, 0) + 1
    trace(d, (1, 2) in d, len(d))
    return a
trace(f(3))
trace(f(0))
def g():
    return {[1]: 2}
trace(g())
"""),
    ("sibling-comprehensions-do-not-share-variables", ALLOFF, """
def f():
    fs = [lambda: x for x in [1, 2]]
    ys = [x for x in [10, 20]]
    zs = {x: 0 for x in [7]}
    return ([g() for g in fs], ys, zs)
trace(f())
gs = [lambda: y for y in [3]]
hs = [y for y in [4]]
trace([g() for g in gs], hs)
"""),
    ("dict-displays-and-comprehensions", ALLOFF, """
def f():
    d = {trace("k1"): trace(1), trace("k2"): trace(2)}
    e = {k: v * 2 for k, v in d.items() if v > 1}
    d["k3"] = 3
    d[trace("k1")] += 10
    trace(d, e, "k1" in d, "zz" in d, d.get("zz", 0), [k for k in d])
    return {1: 2, 1: 3}
trace(f())
"""),
]


def corpus_lines():
    out = []
    for i, entry in enumerate(CORPUS):
        name, opts, src = entry[:3]
        calls = [{"fn": f, "args": [{"t": t, "v": v} for t, v in args]} for f, args in (entry[3] if len(entry) > 3 else [])]
        out.append(json.dumps({"id": 100000 + i, "src": src.lstrip("\n"), "opts": opts, "features": ["corpus:" + name],
                               "fragment": False, "calls": calls}))
    return "\n".join(out) + "\n"
