"""C05 -- frozen values and compiled programs are safe to share between threads (DESIGN.md section 8, C05)."""
from .lib import cz, cbool, clist, coq_mismatches
from . import c04

LEVEL = "other"
META = {
    "category": "other",
    "text": "Proof of the guard logic plus race-detector exploration. Coq: a footprint machine over the C04 object-graph model gives every operation threads perform on shared values (len, index, membership, Iterate/Next/Done, compare, hash, print, call of a frozen function, store-and-freeze-again, every mutator, Program.Init, Funcode.Position) its result and its read/write footprint over locations (object, field), with the guards the code has (Iterate and Done write itercount iff not frozen, Freeze writes the flag iff not yet frozen, checkMutable writes nothing, the line table is written only under sync.Once). Theorems: on a heap whose flagged objects are all frozen every operation has an empty write footprint (frozen_ops_write_nothing); for all thread counts and all schedules no two steps of different threads conflict (race_free_schedules); every thread's transcript in any interleaving equals its transcript alone (solo_equivalence); the Once cell only ever holds the decoding of its table (once_cell). Runtime: the harness is built with `go build -race`; a generated module freezes its values, then N in {2,8,32} goroutines with their own Threads run op scripts over the same values (incl. for loops, comprehensions, sorted, rejected mutators, shared closures, re-freezing), call failing shared functions on never-decoded line tables at the same moment, and Init one shared *Program at the same moment; any race-detector report, any transcript that differs from the solo run and any accepted mutation is a finding; transcripts of a sample are also compared with the model inside Coq.",
    "note": "The Go memory model, sync.Once, atomic operations and the race detector are trusted runtime components: the theorems are about the model's guards, not about Go's happens-before. The race detector only sees the schedules that occur. Values of lib/time and lib/proto are not covered. Comparison/hash/print/call results are compared between solo and concurrent runs in Go only (the Coq model gives them shallow results).",
    "technique": "Coq proof over a footprint model (induction on schedules) + go build -race exploration in child processes + differential correspondence (vm_compute)",
}
HEADER = ("From Coq Require Import ZArith Bool List.\nImport ListNotations.\n"
          "From SV Require Import C04.Heap C04.Model C04.Check C05.Footprint C05.Spec C05.Model C05.Check.\n")


def cres(r):
    k = r[0]
    if k == "nat":
        return "(RNat %d)" % r[1]
    if k == "val":
        if r[1] == 0:
            return "(RVal (VAtom %s))" % cz(r[2])
        if r[1] == 1:
            return "(RVal (VRef %d))" % r[2]
        return None
    if k == "bool":
        return "(RBool %s)" % cbool(r[1])
    if k == "unit":
        return "RUnit"
    if k == "stop":
        return "RStop"
    if k == "err":
        return "RErr"
    return None


def expand(op, results):
    """One harness op and its observed results -> [(coq op, coq result)] or None when outside the Coq repertoire."""
    n, node = op["n"], op["node"]
    if n == "len":
        return [("(OLen %d)" % node, cres(results[0]))]
    if n == "index":
        return [("(OIndex %d %d)" % (node, op.get("i", 0)), cres(results[0]))]
    if n == "contains":
        return [("(OContains %d %s)" % (node, cz(op.get("a", 0))), cres(results[0]))]
    if n == "store":
        return [("(OStoreFreeze %d)" % node, cres(results[0]))]
    if n == "mutate":
        return [("(OMutate %d %s)" % (node, c04.cop(op["m"])), cres(results[0]))]
    if n in ("iter", "iter2", "elements"):
        out, prev = [], None
        for r in results:
            k = r[0]
            if k == "unit":
                out.append(("OIterDone" if prev == "stop" else "(OIterBegin %d)" % node, "RUnit"))
            elif k in ("val", "stop"):
                out.append(("OIterNext", cres(r)))
            else:
                return None
            prev = k
        return out
    return None


def run(ctx):
    ctx.proofs()
    ok, log = ctx.coq_make(["C05/Check.vo"])          # the correspondence definitions are not under Properties.v
    if not ok:
        ctx.broken("coq-build:C05/Check.vo", log[-2000:])
    ctx.log("proofs audited")
    hx = ctx.go_build("c05", race=True)
    ctx.log("race build ready")
    recs = ctx.jsonl([hx, "-seed", str(ctx.seed), "-tier", ctx.tier], timeout=870)
    rounds = [r for r in recs if r["kind"] == "round"]
    children = [r for r in recs if r["kind"] == "child"]
    dist = {}
    nops = 0
    for r in rounds:
        key = "%s:N=%d" % (r["scenario"], r["n"])
        dist[key] = dist.get(key, 0) + 1
        nops += r.get("ops", 0)
        for k, v in (r.get("dist") or {}).items():
            dist["op:" + k] = dist.get("op:" + k, 0) + v
        if r.get("diff", "").startswith("generator:"):
            ctx.broken("harness:C05 generator", r["diff"])
        elif not r["same"]:
            ctx.finding("transcript-differs:%s" % r["scenario"],
                        "scenario %s with %d threads, round %d: a thread observed something else than when running alone: %s" % (r["scenario"], r["n"], r["round"], r.get("diff")),
                        {"scenario": r["scenario"], "threads": r["n"], "seed": r["seed"], "round": r["round"], "module": r.get("src"), "difference": r.get("diff"),
                         "how": "harness/cmd/c05 built with -race: c05-race child -scenario %s -seed %d -n %d -rounds %d" % (r["scenario"], r["seed"], r["n"], r["round"] + 1)})
        if r.get("changed"):
            ctx.finding("frozen-shared-value-changed:%s" % (r["changed"].split(": ")[1].split(" node")[0] if ": " in r["changed"] else r["scenario"]),
                        "scenario values with %d threads, round %d: a shared frozen value is not what it was before the threads ran -- %s" % (r["n"], r["round"], r["changed"]),
                        {"scenario": "values", "threads": r["n"], "seed": r["seed"], "round": r["round"], "module": r.get("src"), "what": r["changed"],
                         "how": "c05-race child -scenario values -seed %d -n %d -rounds %d" % (r["seed"], r["n"], r["round"] + 1)})
        for a in r.get("accepted") or []:
            ctx.finding("frozen-value-mutated:%s" % (a if a.startswith("mscript") else ":".join(a.split(":")[:3]) if a.startswith("factory") else a.split('"n":"')[2].split('"')[0] if a.count('"n":"') > 1 else "op"),
                        "a mutator applied to a frozen shared value returned no error: %s" % a,
                        {"scenario": r["scenario"], "threads": r["n"], "seed": r["seed"], "round": r["round"], "module": r.get("src"), "op": a})
    for c in children:
        if c.get("races"):
            for site in c.get("sites") or ["?"]:
                ctx.finding("race:" + site,
                            "the race detector reported %d data race(s) in scenario %s with %d threads: %s" % (c["races"], c["scenario"], c["n"], site),
                            {"replay_cmd": c["replay"], "build": "cd /verif/harness && go build -race -tags verif -o c05-race ./cmd/c05", "scenario": c["scenario"],
                             "threads": c["n"], "seed": c["seed"], "rounds": c["rounds"], "report": c.get("report")})
        elif c.get("exit") not in (0, None) or c.get("timeout"):
            ctx.finding("crash:%s" % c["scenario"], "scenario %s with %d threads died: %s %s" % (c["scenario"], c["n"], c.get("exit"), (c.get("stderr") or "")[:300]),
                        {"replay_cmd": c["replay"], "stderr": c.get("stderr")})
    ctx.log("harness: %d rounds in %d child processes, %d operations, races reported: %d" % (len(rounds), len(children), nops, sum(c.get("races", 0) for c in children)))

    # ---- Coq: the model's transcripts and footprints on the rounds that carry their description
    full = [r for r in rounds if r.get("desc") and r.get("scripts") and r["same"]]
    limit = 6 if ctx.quick() else 500
    full = full[:limit]
    gterms, cases, refs = [], [], []
    skipped = 0
    for gi, r in enumerate(full):
        t, _, _ = c04.render_graph({"desc": r["desc"]})
        gterms.append(t)
        per_thread = []
        for tid, (script, solo) in enumerate(zip(r["scripts"], r["solo"])):
            ops = []
            for op, res in zip(script or [], solo or []):
                e = expand(op, res)
                if e is None or any(x[1] is None for x in e):
                    skipped += 1
                    continue
                ops.extend(e)
            per_thread.append(ops)
        # round-robin interleaving
        sched, pos = [], [0] * len(per_thread)
        while any(pos[t] < len(per_thread[t]) for t in range(len(per_thread))):
            for t in range(len(per_thread)):
                if pos[t] < len(per_thread[t]):
                    sched.append("(%d, %s)" % (t, per_thread[t][pos[t]][0]))
                    pos[t] += 1
        expected = clist([clist([x[1] for x in ops]) for ops in per_thread])
        cases.append("(%d, %s, %s)" % (gi, clist(sched), expected))
        refs.append(r)
    nev = sum(c.count("(O") + c.count("OIterNext") + c.count("OIterDone") for c in cases)
    # ---- deterministic write footprints (hooks) against the model and against "frozen objects are never written"
    fps = [r for r in recs if r["kind"] == "fp"]
    FIELD = ["FFrozen", "FIter", "FElems"]
    fp_steps = sum(r["steps"] for r in fps)
    fp_writes = 0
    for r in fps:
        for nid in r.get("not_frozen") or []:
            kind = r["desc"]["nodes"][nid]["kind"]
            ctx.finding("shared-value-not-frozen:%s" % kind,
                        "footprints round %d: %s node %d is reachable from the finished module's globals, yet its frozen flag is not set: threads sharing the module share a mutable value" % (r["round"], kind, nid),
                        {"module": r["src"], "seed": r["seed"], "round": r["round"], "node": nid, "how": "c05 child -scenario footprints -seed %d -rounds %d (flag read through starlark.VerifFrozen)" % (r["seed"], r["round"] + 1)})
        for dv in r.get("derived") or []:
            kind = r["desc"]["nodes"][dv["node"]]["kind"]
            fz = any(w["frozen"] for w in dv["writes"])
            ctx.finding("derived-value-writes-%s-original:%s:%s" % ("frozen" if fz else "mutable", kind, dv["how"]),
                        "footprints round %d: computing `%s` from %s node %d%s wrote to the original: %s" % (
                            r["round"], dv["how"], kind, dv["node"], (" and then " + dv["mut"] + " on the result") if dv.get("mut") else "", dv["writes"]),
                        {"module": r["src"], "seed": r["seed"], "round": r["round"], "node": dv["node"], "derive": dv["how"], "mutate_derived": dv.get("mut"), "writes": dv["writes"]})
        if r.get("position"):
            ctx.finding("line-table:" + r["position"].split(": ", 1)[-1], "footprints round %d: %s" % (r["round"], r["position"]), {"module": r["src"], "seed": r["seed"], "round": r["round"]})
        for q in r["seqs"] or []:
            for st in q["steps"]:
                for w in st["writes"]:
                    fp_writes += 1
                    if w["frozen"]:
                        kind = r["desc"]["nodes"][w["node"]]["kind"]
                        ctx.finding("frozen-object-written:%s:%s:%s" % (st["op"], kind, FIELD[w["field"]]),
                                    "operation %s wrote the %s of %s node %d although its frozen flag was set (round %d)" % (st["op"], FIELD[w["field"]], kind, w["node"], r["round"]),
                                    {"module": r["src"], "seed": r["seed"], "round": r["round"], "sequence": q["steps"],
                                     "how": "c05 child -scenario footprints -seed %d -rounds %d (state read through starlark.VerifFrozen / VerifIterCount)" % (r["seed"], r["round"] + 1)})
    fplimit = 6 if ctx.quick() else 300

    def fop(st):
        o, n = st["op"], st["node"]
        if o == "len":
            return "(OLen %d)" % n
        if o == "contains":
            return "(OContains %d %s)" % (n, cz(st.get("a", 0)))
        if o == "index":
            return "(OIndex %d %d)" % (n, st.get("i", 0))
        if o in ("begin", "ebegin"):
            return "(OIterBegin %d)" % n
        if o == "next":
            return "OIterNext"
        if o in ("done", "edone"):
            return "OIterDone"
        if o == "compare":
            return "(OCompare %d %d)" % (n, st.get("b", 0))
        if o == "hash":
            return "(OHash %d)" % n
        if o == "print":
            return "(OPrint %d)" % n
        if o == "call":
            return "(OCall %d)" % n
        if o == "store":
            return "(OStoreFreeze %d)" % n
        if o == "mutate":
            return "(OMutate %d %s)" % (n, c04.cop(st["m"]))
        raise ValueError(o)

    fgterms, fcases, frefs = [], [], []
    for gi, r in enumerate(fps[:fplimit]):
        t, _, _ = c04.render_graph({"desc": r["desc"]})
        fgterms.append(t)
        for q in r["seqs"] or []:
            ops = clist([fop(st) for st in q["steps"]])
            obs = clist([clist(["(LObj %d %s)" % (w["node"], FIELD[w["field"]]) for w in st["writes"]]) for st in q["steps"]])
            fcases.append("(%d, (%s, %s))" % (gi, ops, obs))
            frefs.append((r, q))
    if not fps:
        ctx.broken("harness:C05 footprints", "the footprints scenario did not run")
    # Coq runs over chunks of graphs; both kinds of cases in each: inl = interleaved scripts, inr = write footprints
    bad_model, bad_fp, bad_w = [], [], []
    units = []   # (graph term, [(kind, global index, case text with %d for the graph index)])
    for i, c in enumerate(cases):
        gi, rest = c[1:].split(",", 1)
        units.append((gterms[int(gi)], [("s", i, "(inl (%d," + rest.replace("%", "%%") + " : case)")]))
    per_graph = {}
    for i, c in enumerate(fcases):
        gi, rest = c[1:].split(",", 1)
        per_graph.setdefault(int(gi), []).append(("w", i, "(inr (%d," + rest.replace("%", "%%") + " : case)"))
    for gi in sorted(per_graph):
        units.append((fgterms[gi], per_graph[gi]))
    CODE = """
Definition fheaps := Eval vm_compute in map frozen_heap graphs.
Definition worlds := Eval vm_compute in map world_of graphs.
Definition case := ((nat * list (nat * op) * list (list result)) + (nat * (list op * list (list location))))%type.
Definition m_ok (c : case) : bool :=
  match c with
  | inl (gi, sched, expected) => model_ok (nth gi worlds None) sched expected
  | inr (gi, (ops, obs)) => writes_ok (nth gi fheaps None) ops obs
  end.
Definition f_ok (c : case) : bool :=
  match c with
  | inl (gi, sched, _) => footprint_ok (nth gi worlds None) sched
  | inr _ => true
  end.
"""
    chunk, nchunk = [], 0

    def flush():
        nonlocal chunk, nchunk
        if not chunk:
            return
        texts, index = [], []
        for k, (gt, cs) in enumerate(chunk):
            for kind, gidx, txt in cs:
                texts.append(txt % k)
                index.append((kind, gidx))
        header = HEADER + "Definition graphs : list graph := [\n" + ";\n".join(g for g, _ in chunk) + "].\n" + CODE
        bm, bf = coq_mismatches(ctx, "c05_cases_%d" % nchunk, header, texts, ["m_ok", "f_ok"], shard=100000, timeout=800)
        for j in bm:
            (bad_model if index[j][0] == "s" else bad_w).append(index[j][1])
        for j in bf:
            if index[j][0] == "s":
                bad_fp.append(index[j][1])
        chunk, nchunk = [], nchunk + 1

    ncase = 0
    for u in units:
        chunk.append(u)
        ncase += len(u[1])
        if len(chunk) >= 60 or ncase >= 1500:
            flush()
            ncase = 0
    flush()
    for i in bad_fp:
        r = refs[i]
        ctx.broken("correspondence:C05.Model footprints", "the model predicts a write or a conflict for a script over frozen values (round %d, N=%d): theorem frozen_ops_write_nothing would be contradicted" % (r["round"], r["n"]))
    for i in bad_model:
        r = refs[i]
        ctx.broken("correspondence:C05.Model", "model transcripts differ from the implementation's for scenario values N=%d seed %d round %d (module: %s)" % (r["n"], r["seed"], r["round"], (r.get("src") or "")[-400:]))
    for i in bad_w[:3]:
        r, q = frefs[i]
        ctx.broken("correspondence:C05.Model write footprints", "round %d: the writes observed through the hooks differ from the model's for the sequence %s" % (r["round"], q["steps"]))
    ctx.log("footprints: %d steps in %d rounds, %d observed writes; %d sequences compared with the model in Coq, %d mismatches" % (fp_steps, len(fps), fp_writes, len(fcases), len(bad_w)))
    ctx.log("coq: %d rounds (%d model events) evaluated: %d transcript mismatches, %d footprint mismatches; %d ops outside the Coq repertoire" % (len(cases), nev, len(bad_model), len(bad_fp), skipped))
    cov = {
        "obligations": ctx.obligations, "discharged": ctx.discharged,
        "evaluations": nops, "distinct_nontrivial": sum(1 for r in rounds if r["n"] >= 2),
        "rule": "scenarios values/position/proginit x N in {2,8,32} (thorough also 3) goroutines x seeded rounds, every scenario/N in its own child process of the -race build; distinct_nontrivial = rounds with at least two threads operating on the same frozen values or the same Program; all transcripts compared with the solo run; the rounds that carry their graph description are also replayed through C05.Model inside Coq",
        "samples": [{"scenario": r["scenario"], "n": r["n"], "module": (r.get("src") or "")[:600], "script0": (r.get("scripts") or [[]])[0][:6]} for r in rounds[:2]],
        "distribution": dist, "children": [{k: v for k, v in c.items() if k != "report"} for c in children],
        "coq_rounds": len(cases), "coq_events": nev, "model_mismatches": len(bad_model), "footprint_mismatches": len(bad_fp),
        "races_reported": sum(c.get("races", 0) for c in children),
        "derived_value_operations": sum(r.get("nderived", 0) for r in fps), "footprint_steps": fp_steps, "footprint_observed_writes": fp_writes, "footprint_sequences_in_coq": len(fcases), "footprint_mismatches": len(bad_w),
    }
    return ctx.finish(LEVEL, cov, assumptions=[
        "Go memory model, sync.Once, sync/atomic and the race detector are trusted (runtime; not modelled)",
        "the race detector observes only the interleavings that occurred in this run",
        "shared values are those of the starlark and starlarkstruct packages; lib/time and lib/proto values are not covered",
    ])
