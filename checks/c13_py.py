"""CPython 3 as an independent opinion on C13 cases (run as a script by checks/c13.py).

usage: python3 c13_py.py cases.jsonl   -> one JSON line per case on which CPython
disagrees with the observed result: {"i": line index, "py": V}.

Values use the harness's V encoding.  Only the observable is compared: the
value, or "an error was raised".  Python-only behaviours that spec.md excludes
by construction are neutralised here (strings and bytes are not iterable in
Starlark; bool is not an int) -- everything else is compared as is and
classified by the caller.
"""
import json
import sys


def to_py(v):
    t = v["t"]
    if t == "none":
        return None
    if t == "bool":
        return bool(v.get("b", False))
    if t == "int":
        return int(v["i"])
    if t == "str":
        return bytes.fromhex(v.get("s", "")).decode("latin-1")
    if t == "bytes":
        return bytes.fromhex(v.get("s", ""))
    if t == "list":
        return [to_py(e) for e in v.get("l", [])]
    if t == "tuple":
        return tuple(to_py(e) for e in v.get("l", []))
    if t == "float":
        return 1.5
    if t == "range":
        return range(*v["r"])
    raise ValueError(t)


def from_py(x):
    if x is None:
        return {"t": "none"}
    if isinstance(x, bool):
        return {"t": "bool", "b": x} if x else {"t": "bool"}
    if isinstance(x, int):
        return {"t": "int", "i": str(x)}
    if isinstance(x, str):
        h = x.encode("latin-1").hex()
        return {"t": "str", "s": h} if h else {"t": "str"}
    if isinstance(x, bytes):
        h = x.hex()
        return {"t": "bytes", "s": h} if h else {"t": "bytes"}
    if isinstance(x, (list, range)):
        l = [from_py(e) for e in x]
        return {"t": "list", "l": l} if l else {"t": "list"}
    if isinstance(x, tuple):
        l = [from_py(e) for e in x]
        return {"t": "tuple", "l": l} if l else {"t": "tuple"}
    if isinstance(x, float):
        return {"t": "float"}
    raise ValueError(type(x))


class NotIterable(Exception):
    pass


def it(x):
    """Starlark iterables among our values: list, tuple, range (not str / bytes)."""
    if isinstance(x, (list, tuple, range)):
        return x
    raise NotIterable()


def norm(v):
    """Drop empty / false fields so that encodings compare structurally."""
    if v["t"] in ("err", "panic"):
        return {"t": "err"}
    out = {"t": v["t"]}
    if v.get("i"):
        out["i"] = v["i"]
    if v.get("b"):
        out["b"] = True
    if v.get("s"):
        out["s"] = v["s"]
    if v.get("l"):
        out["l"] = [norm(e) for e in v["l"]]
    return out


def strict_elems(xs):
    """Starlark orders values of one type only (bool is not int; None is unordered)."""
    xs = list(xs)
    if len(xs) > 1:
        for x in xs:
            if x is None:
                raise TypeError("NoneType is not ordered")
        kinds = set(("bool" if isinstance(x, bool) else type(x).__name__) for x in xs)
        if len(kinds) > 1:
            raise TypeError("mixed types")
    return xs


def strict_int(x):
    # Starlark: bool is not an int
    if isinstance(x, bool):
        raise TypeError("bool")
    return x


def evaluate(c):
    op = c["op"]
    args = [to_py(a) for a in c.get("args") or []]
    after = None
    if op == "slice":
        x = to_py(c["x"])
        r = x[slice(args[0], args[1], args[2])]
    elif op == "index":
        x = to_py(c["x"])
        r = x[args[0]]
        if isinstance(x, bytes):
            r = bytes([r])  # Starlark: b[i] is a 1-byte bytes
    elif op == "setindex":
        x = to_py(c["x"])
        after = x
        if not isinstance(x, list):
            raise TypeError("immutable")
        x[args[0]] = args[1]
        r = None
    elif op == "call":
        x = to_py(c["x"])
        name = c["name"]
        after = x if isinstance(x, list) else None
        if name == "join":
            if len(args) == 1:
                args = [it(args[0])]
        if name == "extend" and len(args) == 1:
            args = [it(args[0])]
        r = getattr(x, name)(*args)
    elif op == "builtin":
        name = c["name"]
        if name == "zip":
            r = list(zip(*[it(a) for a in args]))
        elif name == "reversed":
            (a,) = args
            r = list(reversed(it(a)))
        elif name == "enumerate":
            if len(args) not in (1, 2):
                raise TypeError("arity")
            r = [tuple(p) for p in enumerate(it(args[0]), *[strict_int(a) for a in args[1:]])]
        elif name == "any":
            (a,) = args
            r = any(it(a))
        elif name == "all":
            (a,) = args
            r = all(it(a))
        elif name == "sorted":
            (a,) = args
            r = sorted(strict_elems(it(a)))
        elif name in ("min", "max"):
            f = min if name == "min" else max
            if len(args) == 1:
                r = f(strict_elems(it(args[0])))
            else:
                r = f(*strict_elems(args))
        else:
            raise ValueError(name)
    elif op == "bin":
        x = to_py(c["x"])
        y = args[0]
        if c["name"] == "+":
            r = x + y
        elif c["name"] == "%":
            r = x % y
        else:
            for z in (x, y):
                if isinstance(z, bool) or isinstance(z, float):
                    raise TypeError("operand")
            # guard against allocating gigabytes: the contract caps repetition at 2^30 elements
            if isinstance(x, int) and not isinstance(y, int) and x > 0 and len(y) * x >= 1 << 30:
                raise MemoryError("excessive repeat")
            if isinstance(y, int) and not isinstance(x, int) and y > 0 and len(x) * y >= 1 << 30:
                raise MemoryError("excessive repeat")
            if isinstance(x, int) and isinstance(y, int):
                raise TypeError("int * int is not a sequence operation")
            r = x * y
    else:
        raise ValueError(op)
    return r, after


def main():
    path = sys.argv[1]
    out = sys.stdout
    n = 0
    with open(path) as f:
        for i, line in enumerate(f):
            c = json.loads(line)
            try:
                r, after = evaluate(c)
                got = norm(from_py(r))
                got_after = norm(from_py(after)) if after is not None else None
            except RecursionError:
                raise
            except Exception as ex:  # any Python exception = "the operation fails"
                got = {"t": "err"}
                got_after = None
            obs = norm(c["obs"])
            bad = got != obs
            if not bad and got_after is not None and c.get("after") is not None and got["t"] != "err":
                bad = norm(c["after"]) != got_after
            if bad:
                out.write(json.dumps({"i": i, "py": got, "pyafter": got_after}) + "\n")
            n += 1
    out.write(json.dumps({"done": n}) + "\n")


if __name__ == "__main__":
    main()
