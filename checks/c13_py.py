"""CPython 3 as an independent opinion on C13 cases (run as a script by checks/c13.py).

usage: python3 c13_py.py cases.jsonl   -> one JSON line per case on which CPython
disagrees with the observed result: {"i": line index, "py": V}.

Values use the harness's V encoding.  Only the observable is compared: the
value, or "an error was raised".  Python-only behaviours that spec.md excludes
by construction are neutralised here (strings and bytes are not iterable in
Starlark; bool is not an int) -- everything else is compared as is and
classified by the caller.
"""
import json
import sys


def to_py(v):
    t = v["t"]
    if t == "none":
        return None
    if t == "bool":
        return bool(v.get("b", False))
    if t == "int":
        return int(v["i"])
    if t == "str":
        return bytes.fromhex(v.get("s", "")).decode("latin-1")
    if t == "bytes":
        return bytes.fromhex(v.get("s", ""))
    if t == "list":
        return [to_py(e) for e in v.get("l", [])]
    if t == "tuple":
        return tuple(to_py(e) for e in v.get("l", []))
    if t == "float":
        return float(v["f"]) if v.get("f") else 1.5
    if t == "range":
        return range(*v["r"])
    if t == "dict":
        l = v.get("l", [])
        return {to_py(l[i]): to_py(l[i + 1]) for i in range(0, len(l) - 1, 2)}
    if t == "iter":
        # iterator views of a string / bytes: lists of 1-character strings or of ints
        b = bytes.fromhex(v.get("s", ""))
        if v["m"] in ("codepoints", "elems"):
            return [chr(c) for c in b]
        return list(b)
    raise ValueError(t)


def from_py(x):
    if x is None:
        return {"t": "none"}
    if isinstance(x, bool):
        return {"t": "bool", "b": x} if x else {"t": "bool"}
    if isinstance(x, int):
        return {"t": "int", "i": str(x)}
    if isinstance(x, str):
        h = x.encode("latin-1").hex()
        return {"t": "str", "s": h} if h else {"t": "str"}
    if isinstance(x, bytes):
        h = x.hex()
        return {"t": "bytes", "s": h} if h else {"t": "bytes"}
    if isinstance(x, (list, range)):
        l = [from_py(e) for e in x]
        return {"t": "list", "l": l} if l else {"t": "list"}
    if isinstance(x, tuple):
        l = [from_py(e) for e in x]
        return {"t": "tuple", "l": l} if l else {"t": "tuple"}
    if isinstance(x, float):
        return {"t": "float", "f": repr(x)}
    raise ValueError(type(x))


class NotIterable(Exception):
    pass


def it(x):
    """Starlark iterables among our values: list, tuple, range (not str / bytes)."""
    if isinstance(x, (list, tuple, range)):
        return x
    raise NotIterable()


def norm(v):
    """Drop empty / false fields so that encodings compare structurally."""
    if v["t"] in ("err", "panic"):
        return {"t": "err"}
    out = {"t": v["t"]}
    if v.get("i"):
        out["i"] = v["i"]
    if v.get("b"):
        out["b"] = True
    if v.get("s"):
        out["s"] = v["s"]
    if v.get("l"):
        out["l"] = [norm(e) for e in v["l"]]
    if v["t"] == "float":
        out["f"] = float(v["f"]) if v.get("f") else 1.5
    return out


def strict_elems(xs):
    """Starlark orders values of one type only (bool is not int; None is unordered)."""
    xs = list(xs)
    if len(xs) > 1:
        for x in xs:
            if x is None:
                raise TypeError("NoneType is not ordered")
        kinds = set(("bool" if isinstance(x, bool) else type(x).__name__) for x in xs)
        if len(kinds) > 1:
            raise TypeError("mixed types")
    return xs


def kind_of(x):
    """Ordering classes of Starlark values: int and float compare with each other, nothing else mixes."""
    if isinstance(x, bool):
        return "bool"
    if isinstance(x, (int, float)):
        return "number"
    return type(x).__name__


def check_ordered(a, b):
    """Raise unless a and b are ordered in Starlark (recursively, the way a lexicographic comparison meets elements)."""
    if a is None or b is None:
        raise TypeError("NoneType is not ordered")
    if kind_of(a) != kind_of(b):
        raise TypeError("mixed types")
    if isinstance(a, (list, tuple)):
        for x, y in zip(a, b):
            if not same_value(x, y):
                check_ordered(x, y)
                return


def same_value(x, y):
    if kind_of(x) != kind_of(y):
        return False
    if isinstance(x, (list, tuple)):
        return len(x) == len(y) and all(same_value(a, b) for a, b in zip(x, y))
    return x == y


class K:
    """Sort key wrapper: Starlark's ordering rules on top of Python's comparisons."""
    __slots__ = ("v",)

    def __init__(self, v):
        self.v = v

    def __lt__(self, o):
        check_ordered(self.v, o.v)
        return self.v < o.v

    def __gt__(self, o):
        check_ordered(self.v, o.v)
        return self.v > o.v


def k_first(x):
    if isinstance(x, bool) or isinstance(x, (int, float)) or x is None:
        raise TypeError("not indexable")
    if len(x) == 0:
        raise IndexError("index 0 out of range")
    return x[0:1] if isinstance(x, (str, bytes)) else x[0]


def k_mod3(x):
    if isinstance(x, bool) or not isinstance(x, int):
        raise TypeError("int % int only here")
    return x % 3


def k_neg(x):
    if isinstance(x, bool):
        raise TypeError("bool is not a number")
    return -x


def k_int(x):
    if not isinstance(x, (bool, int, float)):
        raise TypeError("int() of a non-number")
    return int(x)


KEYS = {"": lambda x: x, "ident": lambda x: x, "len": len, "zero": lambda x: 0, "mod3": k_mod3,
        "neg": k_neg, "first": k_first, "lower": lambda x: x.lower(), "int": k_int}


def strict_int(x):
    # Starlark: bool is not an int
    if isinstance(x, bool):
        raise TypeError("bool")
    return x


def evaluate(c):
    op = c["op"]
    args = [to_py(a) for a in c.get("args") or []]
    after = None
    if op == "slice":
        x = to_py(c["x"])
        r = x[slice(args[0], args[1], args[2])]
    elif op == "index":
        x = to_py(c["x"])
        r = x[args[0]]
        if isinstance(x, bytes):
            r = bytes([r])  # Starlark: b[i] is a 1-byte bytes
    elif op == "setindex":
        x = to_py(c["x"])
        after = x
        if not isinstance(x, list):
            raise TypeError("immutable")
        x[args[0]] = args[1]
        r = None
    elif op == "call":
        x = to_py(c["x"])
        name = c["name"]
        after = x if isinstance(x, list) else None
        if name == "join":
            if len(args) == 1:
                args = [it(args[0])]
        if name == "extend" and len(args) == 1:
            args = [it(args[0])]
        kw = c.get("kw") or []
        kwargs = {to_py(kw[i]): to_py(kw[i + 1]) for i in range(0, len(kw) - 1, 2)}
        r = getattr(x, name)(*args, **kwargs)
    elif op == "builtin":
        name = c["name"]
        if name == "zip":
            r = list(zip(*[it(a) for a in args]))
        elif name == "reversed":
            (a,) = args
            r = list(reversed(it(a)))
        elif name == "enumerate":
            if len(args) not in (1, 2):
                raise TypeError("arity")
            r = [tuple(p) for p in enumerate(it(args[0]), *[strict_int(a) for a in args[1:]])]
        elif name == "any":
            (a,) = args
            r = any(it(a))
        elif name == "all":
            (a,) = args
            r = all(it(a))
        elif name in ("list", "tuple"):
            if len(args) > 1:
                raise TypeError("arity")
            r = (list if name == "list" else tuple)(it(args[0]) if args else ())
        elif name == "sorted":
            (a,) = args
            r = sorted(strict_elems(it(a)))
        elif name in ("min", "max"):
            f = min if name == "min" else max
            if len(args) == 1:
                r = f(strict_elems(it(args[0])))
            else:
                r = f(*strict_elems(args))
        else:
            raise ValueError(name)
    elif op == "alias":
        x = to_py(c["x"])
        a = args[0]
        name, mut = c["name"], c["key"]
        if not isinstance(x, list):
            raise TypeError("alias: list operand expected")
        if name == "mul":
            r = x * strict_int(a)
        elif name == "rmul":
            r = strict_int(a) * x
        elif name == "add":
            r = x + a
        elif name == "radd":
            r = a + x
        elif name == "addself":
            r = x + x
        elif name == "slice":
            r = x[slice(a[0], a[1], a[2])]
        elif name == "list":
            r = list(x)
        elif name == "sorted":
            r = sorted(x)
        elif name == "reversed":
            r = list(reversed(x))
        else:
            raise ValueError(name)
        t = r if mut.endswith("result") else (a if mut.endswith("other") else x)
        if mut.startswith("set"):
            if len(t) > 0:
                t[len(t) - 1] = 99
        elif mut.startswith("popappend"):
            if len(t) > 0:
                t.pop()
            t.append(98)
        elif mut.startswith("append"):
            t.append(99)
        elif mut.startswith("clear"):
            t.clear()
        elif mut.startswith("insert"):
            t.insert(0, 97)
        r = (x, a, r)
    elif op == "sort":
        name = c["name"]
        kf = KEYS[c.get("key", "")]
        key = lambda v: K(kf(v))
        if name == "sorted":
            (a,) = args
            xs = list(it(a))
            if len(xs) == 2:
                check_ordered(kf(xs[0]), kf(xs[1]))
            r = sorted(xs, key=key, reverse=(c.get("rev") == "true"))
        else:
            if c.get("rev"):
                raise TypeError("min/max take no reverse")
            f = min if name == "min" else max
            if len(args) == 0:
                raise TypeError("no arguments")
            xs = list(it(args[0])) if len(args) == 1 else args
            if len(xs) == 1:
                kf(xs[0])
            r = f(xs, key=key)
    elif op == "bin":
        x = to_py(c["x"])
        y = args[0]
        if c["name"] == "+":
            r = x + y
        elif c["name"] == "%":
            r = x % y
        else:
            for z in (x, y):
                if isinstance(z, bool) or isinstance(z, float):
                    raise TypeError("operand")
            # guard against allocating gigabytes: the contract caps repetition at 2^30 elements
            if isinstance(x, int) and not isinstance(y, int) and x > 0 and len(y) * x >= 1 << 30:
                raise MemoryError("excessive repeat")
            if isinstance(y, int) and not isinstance(x, int) and y > 0 and len(x) * y >= 1 << 30:
                raise MemoryError("excessive repeat")
            if isinstance(x, int) and isinstance(y, int):
                raise TypeError("int * int is not a sequence operation")
            r = x * y
    else:
        raise ValueError(op)
    return r, after


def main():
    path = sys.argv[1]
    out = sys.stdout
    n = 0
    with open(path) as f:
        for i, line in enumerate(f):
            c = json.loads(line)
            try:
                r, after = evaluate(c)
                got = norm(from_py(r))
                got_after = norm(from_py(after)) if after is not None else None
            except RecursionError:
                raise
            except Exception as ex:  # any Python exception = "the operation fails"
                got = {"t": "err"}
                got_after = None
            obs = norm(c["obs"])
            bad = got != obs
            if not bad and got_after is not None and c.get("after") is not None and got["t"] != "err":
                bad = norm(c["after"]) != got_after
            if bad:
                out.write(json.dumps({"i": i, "py": got, "pyafter": got_after}) + "\n")
            n += 1
    out.write(json.dumps({"done": n}) + "\n")


if __name__ == "__main__":
    main()
