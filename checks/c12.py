"""C12 -- dict and set behave as insertion-ordered maps under every operation history
(DESIGN.md section 8, C12)."""
import concurrent.futures as cf
import json

from .lib import coq_mismatches, HarnessError

LEVEL = "proof"
META = {
    "category": "proof",
    "text": "Coq refinement proof: a pointer-level model of starlark/hashtable.go (chains of 8-slot buckets, overflow buckets, insert scanning the whole chain and reusing the last empty slot, the overloaded test and grow = rehash in list order, delete unlinking through prevLink / moving tailLink / zeroing the slot, clear, lookup, first, items, len; the insertion-order doubly linked list as next/prevLink/head/tailLink pointers in a store) refines an ordered association list for EVERY hash function (Section variable, hash 0 remapped as in the code) and every operation history (induction over the operation list), including the derived operations pop/popitem/setdefault/update/Dict.Union, Set union/intersection/difference/symmetric_difference and issubset/issuperset (hashtable.count) built from the table operations. The model is hand-written and tied to /repo on every run: the real Dict/Set are driven through the Go API and through Starlark methods/operators with keys whose Hash() the generator chooses; exhaustive histories over 5 keys of which 3 share a hash and long random histories under adversarial hash distributions are compared after every operation with a naive association list in Go, and a sample of histories is evaluated inside Coq (vm_compute) against Concrete.v (correspondence) and Spec.v (oracle).",
    "note": "Trusted: Coq kernel + vm_compute; the correspondence harness, its generators and its Go association list; the model abstracts Go's heap to a store indexed by (chain, slot index), uint32 len/hash wrap-around, Equal/Hash errors and the frozen/itercount guards (C04/C06) -- see coq/C12/Concrete.v header. Exhaustive enumeration to length 7 uses the core alphabet (insert/delete x 5 keys, popfirst, clear) through the Go API; the full alphabet with the derived operations goes to length 6 (dict, Go API) / 5 (set; Starlark route) because of the time limit.",
    "technique": "Coq refinement proof over an executable pointer-level model + exhaustive and random differential runs against an association list + vm_compute correspondence and Spec.v oracle",
}

HEADER = ("From Coq Require Import List NArith.\n"
          "From SV Require Import C12.Ops C12.Spec C12.Concrete C12.Check.\n"
          "Import ListNotations.\nOpen Scope N_scope.\n")


def pairs(l):
    return "[" + "; ".join("(%d, %d)" % (p[0], p[1]) for p in l) + "]"


def nums(l):
    return "[" + "; ".join("%d" % k for k in l) + "]"


def op_term(o):
    n = o["op"]
    k, v = o.get("k", 0), o.get("v", 0)
    if n == "insert":
        return "(OInsert %d %d)" % (k, v)
    if n == "lookup":
        return "(OLookup %d)" % k
    if n == "delete":
        return "(ODelete %d)" % k
    if n == "discard":
        return "(ODiscard %d)" % k
    if n == "clear":
        return "OClear"
    if n == "popfirst":
        return "OPopFirst"
    if n == "setdefault":
        return "(OSetDefault %d %d)" % (k, v)
    if n == "update":
        return "(OUpdate %s)" % pairs(o.get("l") or [])
    if n == "dictunion":
        return "(ODictUnion %s)" % pairs(o.get("l") or [])
    c = {"setunion": "OSetUnion", "setinter": "OSetInter", "setdiff": "OSetDiff", "setsymdiff": "OSetSymDiff",
         "issubset": "OIsSubset", "issuperset": "OIsSuperset"}[n]
    return "(%s %s)" % (c, nums(o.get("ks") or []))


def out_term(o):
    t = o["t"]
    if t == "none":
        return "ONone"
    if t == "val":
        return "(OVal (Some %d))" % o.get("v", 0) if o.get("found") else "(OVal None)"
    if t == "bool":
        return "(OBool true)" if o.get("found") else "(OBool false)"
    return "(OKV (Some (%d, %d)))" % (o.get("k", 0), o.get("v", 0)) if o.get("found") else "(OKV None)"


def case_term(h):
    obs = "[" + "; ".join("(%s, %d%%nat, %s)" % (out_term(x["out"]), x["len"], pairs(x["items"] or [])) for x in h["obs"]) + "]"
    init = "None" if h["init"] < 0 else "(Some %d%%nat)" % h["init"]
    return "(mkCase %s %s [%s] %s)" % (pairs(h["hashes"]), init, "; ".join(op_term(o) for o in h["ops"]), obs)


MOD = 2305843009213693951


def digest(h):
    """The digest Check.v computes (trace_digest) over the observations of one history."""
    acc = 7
    for x in h["obs"]:
        o = x["out"]
        t = o["t"]
        if t == "none":
            flat = [0]
        elif t == "val":
            flat = [2, o.get("v", 0)] if o.get("found") else [1]
        elif t == "bool":
            flat = [6] if o.get("found") else [5]
        else:
            flat = [4, o.get("k", 0), o.get("v", 0)] if o.get("found") else [3]
        items = x["items"] or []
        flat += [x["len"], len(items)]
        for p in items:
            flat += [p[0], p[1]]
        for v in flat:
            acc = (acc * 1000003 + v + 1) % MOD
    return acc


def dcase_term(h):
    init = "None" if h["init"] < 0 else "(Some %d%%nat)" % h["init"]
    used = set()
    for o in h["ops"]:
        used.add(o.get("k", 0))
        used.update(p[0] for p in (o.get("l") or []))
        used.update(o.get("ks") or [])
    hs = [p for p in h["hashes"] if p[0] in used]   # number literals are what costs time in Coq
    return "(mkD %s %s [%s] %d)" % (pairs(hs), init, "; ".join(op_term(o) for o in h["ops"]), digest(h))


def coq_eval(ctx, terms, shard=250):
    """Indices of the cases on which model_ok_d / spec_ok_d are false (one vm_compute per shard)."""
    import re

    def one(s):
        chunk = terms[s:s + shard]
        text = HEADER + "Definition cases := [\n" + ";\n".join(chunk) + "].\n"
        text += ("Fixpoint idx_false {A} (f : A -> bool) (i : nat) (l : list A) : list nat :=\n"
                 "  match l with [] => [] | x :: r => if f x then idx_false f (S i) r else i :: idx_false f (S i) r end.\n"
                 "Definition M := Eval vm_compute in (idx_false model_ok_d 0 cases, idx_false spec_ok_d 0 cases).\nPrint M.\n")
        out, rc = ctx.coq_run("c12_cases_%d" % (s // shard), text, timeout=800)
        if rc != 0:
            raise HarnessError("coq evaluation of cases failed:\n" + out[-3000:])
        m = re.search(r"M\s*=\s*\((.*?),\s*(\[[^\]]*\]|nil)\s*\)\s*:", out, re.S)
        if not m:
            raise HarnessError("cannot parse coq output:\n" + out[-2000:])
        return ([s + int(t) for t in re.findall(r"\d+", m.group(1))], [s + int(t) for t in re.findall(r"\d+", m.group(2))])

    bad_m, bad_s = [], []
    with cf.ThreadPoolExecutor(max_workers=4) as ex:
        for a, b in ex.map(one, range(0, len(terms), shard)):
            bad_m += a
            bad_s += b
    return bad_m, bad_s




def plan(ctx):
    """(name, argv-tail, timeout) for every harness invocation of this tier."""
    q = ctx.quick()
    seed = str(ctx.seed)
    jobs = []

    def exh(kind, route, hashes, alpha, L):
        jobs.append(("exh %s/%s/%s/%s/len%d" % (kind, route, hashes, alpha, L),
                     ["exhaustive", "-kind", kind, "-route", route, "-hashes", hashes, "-alpha", alpha, "-len", str(L)], 840))

    for kind in ("dict", "set"):
        if q:
            exh(kind, "go", "zero3", "full", 4)
            exh(kind, "star", "zero3", "full", 3)
            exh(kind, "go", "prefill", "core", 4)
            exh(kind, "star", "prefill", "core", 3)
        else:
            exh(kind, "go", "zero3", "core", 7)
            exh(kind, "go", "zero3", "full", 6 if kind == "dict" else 5)
            exh(kind, "star", "zero3", "core", 6)
            exh(kind, "star", "zero3", "full", 5)
            exh(kind, "go", "same5", "full", 5)
            exh(kind, "star", "same5", "full", 4)
            exh(kind, "go", "prefill", "core", 6)
            exh(kind, "go", "prefill", "full", 4)
            exh(kind, "star", "prefill", "core", 5)
    for kind in ("dict", "set"):
        for route in ("go", "star"):
            if q:
                n = "9" if kind == "set" else "3"   # 9 hash distributions; the set runs carry the subset / comparison queries
                jobs.append(("rand %s/%s" % (kind, route), ["random", "-kind", kind, "-route", route, "-n", n, "-ops", "1500", "-seed", seed], 300))
            else:
                jobs.append(("rand %s/%s" % (kind, route), ["random", "-kind", kind, "-route", route, "-n", "18", "-ops", "10000", "-seed", seed], 840))
    jobs.append(("bigsets", ["bigsets", "-n", "60" if q else "900", "-seed", seed], 600))
    jobs.append(("programs", ["programs", "-n", "200" if q else "4000", "-maxops", "30", "-seed", seed], 600))
    jobs.append(("sample", ["sample", "-n", "60" if q else "1200", "-maxops", "28" if q else "40", "-seed", seed], 300))
    return jobs


def replay(ctx, hx, path):
    """bin/check C12 --replay <file>: run one recorded history again on the current tree."""
    rec = json.load(open(path))
    h = rec.get("replay", rec)
    obj = {k: h[k] for k in ("tkind", "route", "hashes", "init", "ops")}
    p = ctx.sh([hx, "replay"], input=json.dumps(obj), timeout=120)
    for line in p.stdout.splitlines():
        if line.startswith("{"):
            l = json.loads(line)
            if l.get("kind") == "mismatch":
                ctx.finding("%s:%s" % (l["tkind"], l["class"]), "replayed history still differs from the association list at operation %s: got %s want %s %s" % (
                    l.get("at"), l.get("got"), l.get("want"), l.get("msg", "")), obj)
    if p.returncode != 0:
        ctx.broken("harness:replay", p.stderr[-600:])
    return ctx.finish(LEVEL, {"evaluations": len(obj["ops"]), "distinct_nontrivial": 1, "rule": "replay of one recorded history", "samples": [obj]})


def run(ctx):
    hx = ctx.go_build("c12")
    if getattr(ctx, "replay_path", None):
        ctx.proofs()
        return replay(ctx, hx, ctx.replay_path)
    # Check.v (decidable comparison used below) and History.v are not imported by Properties.v
    ok, log = ctx.coq_make(["C12/Check.vo", "C12/History.vo"])
    if not ok:
        ctx.broken("coq-build:C12/Check.vo", log[-2000:])
    jobs = plan(ctx)
    jobs.sort(key=lambda j: j[0] != "sample")  # the sample first: its Coq evaluation overlaps the rest
    results = {}

    def one(job):
        name, tail, to = job
        p = ctx.sh([hx] + tail, timeout=to)
        lines = []
        for line in p.stdout.splitlines():
            line = line.strip()
            if line.startswith("{"):
                try:
                    lines.append(json.loads(line))
                except ValueError:
                    pass
        return name, p.returncode, lines, p.stderr[-2000:]

    def eval_sample(fut):
        lines = fut.result()[2]
        hs = [l for l in lines if l.get("kind") == "hist"]
        good = [h for h in hs if not h.get("err")]
        terms = [dcase_term(h) for h in good]
        ctx.log("evaluating %d sample histories in Coq (model and specification)" % len(terms))
        return hs, good, coq_eval(ctx, terms)

    # the exhaustive runs use 16 workers each; run a few invocations side by side, evaluate the
    # sample in Coq and build + audit the Coq development meanwhile
    with cf.ThreadPoolExecutor(max_workers=3 if ctx.quick() else 2) as ex, cf.ThreadPoolExecutor(max_workers=1) as ex2:
        futs = [ex.submit(one, j) for j in jobs]
        fut_eval = ex2.submit(eval_sample, futs[0])
        ctx.proofs()
        for name, rc, lines, err in (f.result() for f in futs):
            results[name] = lines
            if rc != 0:
                # a crash / timeout of the harness on this tree is itself an observation
                ctx.broken("harness:" + name, "harness exited with %s: %s" % (rc, err[-600:]))
            ctx.log("%-34s %s" % (name, "; ".join(
                "%s histories, %s mismatches" % (l.get("histories"), l.get("mismatches")) for l in lines if l.get("kind") in ("exh", "rand", "prog", "big")) or "%d lines" % len(lines)))
        hs, good, (bad_model, bad_spec) = fut_eval.result()

    dist = {}
    evaluations = 0
    histories = 0
    cover = {"chain_gt1_bucket": 0, "grew": 0, "reused_vacated_slot": 0, "max_chain_buckets": 0, "max_live_keys": 0}
    samples = []
    for name, lines in results.items():
        for l in lines:
            k = l.get("kind")
            if k == "mismatch":
                key = "%s:%s" % (l["tkind"], l["class"])
                ops = l.get("ops") or []
                what = "%s via %s (%s): after %s the real %s gives out=%s len=%s items=%s, the association list gives out=%s len=%s items=%s %s" % (
                    l["tkind"], l["route"], l.get("mode"), json.dumps(ops[-1]) if ops else "?", l["tkind"],
                    l.get("got", {}).get("out"), l.get("got", {}).get("len"), l.get("got", {}).get("items"),
                    l.get("want", {}).get("out"), l.get("want", {}).get("len"), l.get("want", {}).get("items"), l.get("msg", ""))
                ctx.finding(key, what, {"how": "echo '<this object>' | build/<key>/bin/c12 replay", "tkind": l["tkind"], "route": l["route"],
                                        "hashes": l["hashes"], "init": l["init"], "ops": ops, "at": l.get("at"),
                                        "got": l.get("got"), "want": l.get("want"), "msg": l.get("msg"),
                                        "program": l.get("program"), "keys": l.get("keys")})
            elif k in ("exh", "rand", "prog", "big"):
                dist[name] = l.get("histories", 0)
                histories += l.get("histories", 0)
                evaluations += l.get("op_executions", 0)
                c = l.get("coverage", {})
                scale = c.get("sampled_every", 1)
                for f in ("chain_gt1_bucket", "grew", "reused_vacated_slot"):
                    cover[f] += c.get(f, 0) * scale
                for f in ("max_chain_buckets", "max_live_keys"):
                    cover[f] = max(cover[f], c.get(f, 0))
                if k in ("rand", "big"):
                    dist[name + " by hash distribution" if k == "rand" else name + " by kind/route"] = l.get("distribution")

    # ---- Coq-sized sample: model correspondence and Spec.v oracle
    for h in hs:
        if h.get("err"):
            ctx.finding("%s:panic" % h["tkind"], "host panic / inconsistency while running a history: %s" % h["err"], h)
    bad_spec_s = set(bad_spec)
    for i, h in enumerate(good):
        if (i in bad_spec_s) == bool(h.get("go_oracle_ok")):
            ctx.broken("oracle-crosscheck:C12", "Spec.v and the Go association list disagree about history %s" % json.dumps(h)[:1500])
            break
    for i in bad_spec:
        h = good[i]
        cls = h.get("class") or "%s:coq-spec" % h["ops"][0]["op"]
        at = h.get("at", 0)
        ctx.finding("%s:%s" % (h["tkind"], cls),
                    "%s via %s: operation %d (%s) leaves out/len/items %s, Spec.v (association list) says otherwise" % (
                        h["tkind"], h["route"], at, json.dumps(h["ops"][at]), json.dumps(h["obs"][at])),
                    {"tkind": h["tkind"], "route": h["route"], "hashes": h["hashes"], "init": h["init"], "ops": h["ops"][:at + 1], "obs": h["obs"][:at + 1]})
    only_model = [i for i in bad_model if i not in bad_spec_s]
    if only_model:
        h = good[only_model[0]]
        ctx.broken("correspondence:C12.Concrete", "model and implementation differ on %d sample histories where the specification is met, e.g. %s" % (len(only_model), json.dumps(h)[:1800]))
    nontrivial = 0
    for h in good:
        c = h.get("cov", {})
        if c.get("maxchain", 0) > 1:
            cover["chain_gt1_bucket"] += 1
        if c.get("grew"):
            cover["grew"] += 1
        if c.get("reused"):
            cover["reused_vacated_slot"] += 1
        cover["max_chain_buckets"] = max(cover["max_chain_buckets"], c.get("maxchain", 0))
        if len(h["ops"]) >= 5:
            nontrivial += 1
    dist["sample (Coq)"] = len(good)
    dist["sample by kind/route"] = {}
    for h in good:
        k = h["tkind"] + "/" + h["route"]
        dist["sample by kind/route"][k] = dist["sample by kind/route"].get(k, 0) + 1
    samples = [{"tkind": h["tkind"], "route": h["route"], "hashes": h["hashes"], "init": h["init"], "ops": h["ops"], "final": h["obs"][-1] if h["obs"] else None, "cov": h.get("cov")}
               for h in good[:2] + good[len(good) // 2: len(good) // 2 + 1]]
    cov = {
        "evaluations": evaluations + sum(len(h["ops"]) for h in good),
        "distinct_nontrivial": histories + nontrivial,
        "rule": "every operation history up to the stated length over 5 keys (3 sharing one hash; configurations zero3 = shared hash 0, same5 = all five equal, prefill = the 3 keys share the hash of 7 resident keys of which 2 were deleted) is enumerated, each distinct; alphabets: core = insert/delete x 5 keys, popfirst, clear; full = core + setdefault x 5, update, union (dict) / update, union, intersection, difference, symmetric_difference by method with duplicates and by operator (set); for sets issubset / issuperset / the six comparison operators are queried after the last operation as well; compared with a Go association list after the last operation of every history (all prefixes are histories too): output, len, item order, lookup of all 5 keys; stored VALUES include None (encoded 0) for about a third / quarter of the dict inserts, setdefaults and update / union operands in every generator, so every value-returning operation (get, d[k], `in`, pop with and without default, popitem, setdefault on present and absent keys) also meets keys that are present with the value None; NO ALIASING: a derived operation must return a fresh collection -- the operands of every derived operation in a history are remembered with their contents and re-read at every later comparison (they must never change while the result is mutated), and after the last operation of every 4th history (every 32nd in the enumerations of length >= 6) each derived operation is applied with an EMPTY and a small second operand (method and operator forms), the result compared with the association list, then result, left and right operand are mutated in turn while the other two must not move; big collections (bigsets): tables of 8..64 chains with ONE chain of 65..200 entries (hashes equal modulo 2^12, some fully equal) next to populated chains, filled in shuffled order with deletions, then issubset / issuperset by method and the six comparison operators and every derived operation against second big collections (reversed, superset, subset missing one element of the long / a neighbour chain, shuffle with duplicates, nearly disjoint), both routes, compared after every operation; random histories: hash distributions include a heavy chain next to populated chains and interleave subset / superset / comparison queries against big second collections, compared after every operation; programs: histories written as Starlark source over built-in key types (short / long strings, small / big ints, tuples, None, True) including keyword arguments of dict.update, executed by the interpreter, items compared after every statement; sample histories: every observation evaluated in Coq against Concrete.v and Spec.v. distinct_nontrivial = enumerated histories + random histories + sample histories with >= 5 operations",
        "samples": samples, "distribution": dist, "structure_coverage": cover,
        "histories": histories + len(good),
        "model_mismatches": len(bad_model), "spec_mismatches": len(bad_spec),
    }
    return ctx.finish(LEVEL, cov, assumptions=[
        "Go heap abstracted to a store indexed by (chain, 8*bucket+slot); fresh table after grow/clone is a fresh store; bucket0 inline array not distinguished",
        "len and hash are unbounded naturals (no uint32 wrap); overloaded's float64 comparison written as 2*elems >= 13*buckets",
        "Equal is a total boolean equality consistent with Hash; Hash never fails; frozen/itercount guards not modelled (C04/C06)",
        "the second operand of derived operations is the sequence its iterator yields",
    ])
