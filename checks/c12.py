"""C12 -- dict and set behave as insertion-ordered maps under every operation history
(DESIGN.md section 8, C12)."""
import concurrent.futures as cf
import json

from .lib import coq_mismatches, HarnessError

LEVEL = "proof"
META = {
    "category": "proof",
    "text": "Coq refinement proof: a pointer-level model of starlark/hashtable.go (chains of 8-slot buckets, overflow buckets, insert scanning the whole chain and reusing the last empty slot, the overloaded test and grow = rehash in list order, delete unlinking through prevLink / moving tailLink / zeroing the slot, clear, lookup, first, items, len; the insertion-order doubly linked list as next/prevLink/head/tailLink pointers in a store) refines an ordered association list for EVERY hash function (Section variable, hash 0 remapped as in the code) and every operation history (induction over the operation list), including the derived operations pop/popitem/setdefault/update/Dict.Union, Set union/intersection/difference/symmetric_difference and issubset/issuperset (hashtable.count) built from the table operations. The model is hand-written and tied to /repo on every run: the real Dict/Set are driven through the Go API and through Starlark methods/operators with keys whose Hash() the generator chooses; exhaustive histories over 5 keys of which 3 share a hash and long random histories under adversarial hash distributions are compared after every operation with a naive association list in Go, and a sample of histories is evaluated inside Coq (vm_compute) against Concrete.v (correspondence) and Spec.v (oracle). GUARDED LAYER (coq/C12/Guarded.v, GuardedSpec.v, ProofsGuarded.v): the same pointer-level table with hashtable.go's frozen flag and uint32 itercount (wrap explicit), every mutator behind checkMutable at the place the code has it (insert before the lazy init; delete; clear also when empty; popitem / pop and s.clear() with their look-before-call tests), iterate / Done touching itercount only when not frozen, freeze; theorems: a refused mutation returns a state EQUAL to the one given (whole store, for every state), an allowed one is the Concrete.v operation (inherits refinement_step), readers never write, iterate;Done restores itercount modulo 2^32, every history of guarded events agrees with the association list + the two flags (induction over the event list). Tie: `c12 guard` drives Dict / Set through the public Go API with Freeze / Iterate / Done events; every observation (output or class of refusal, Len, items) is evaluated in Coq against Guarded.v and GuardedSpec.v, and the bytes of the hashtable struct and its buckets (hook VerifHeader) must not change across a refused mutator, a reader, any event on a frozen table or a whole iteration.",
    "note": "Trusted: Coq kernel + vm_compute; the correspondence harness, its generators and its Go association list; the model abstracts Go's heap to a store indexed by (chain, slot index), uint32 len/hash wrap-around, Equal/Hash errors -- see coq/C12/Concrete.v header; the frozen/itercount guards are modelled in the guarded layer (Guarded.v) only, the Freeze() calls on keys and values are not (C04); refusals are compared by class, which the harness reads off the error text (frozen / during iteration / empty). Exhaustive enumeration to length 7 uses the core alphabet (insert/delete x 5 keys, popfirst, clear) through the Go API; the full alphabet with the derived operations goes to length 6 (dict, Go API) / 5 (set; Starlark route) because of the time limit.",
    "technique": "Coq refinement proof over an executable pointer-level model + exhaustive and random differential runs against an association list + vm_compute correspondence and Spec.v oracle",
}

HEADER = ("From Coq Require Import List NArith.\n"
          "From SV Require Import C12.Ops C12.Spec C12.Concrete C12.Check.\n"
          "Import ListNotations.\nOpen Scope N_scope.\n")


def pairs(l):
    return "[" + "; ".join("(%d, %d)" % (p[0], p[1]) for p in l) + "]"


def nums(l):
    return "[" + "; ".join("%d" % k for k in l) + "]"


def op_term(o):
    n = o["op"]
    k, v = o.get("k", 0), o.get("v", 0)
    if n == "insert":
        return "(OInsert %d %d)" % (k, v)
    if n == "lookup":
        return "(OLookup %d)" % k
    if n == "delete":
        return "(ODelete %d)" % k
    if n == "discard":
        return "(ODiscard %d)" % k
    if n == "clear":
        return "OClear"
    if n == "popfirst":
        return "OPopFirst"
    if n == "setdefault":
        return "(OSetDefault %d %d)" % (k, v)
    if n == "update":
        return "(OUpdate %s)" % pairs(o.get("l") or [])
    if n == "dictunion":
        return "(ODictUnion %s)" % pairs(o.get("l") or [])
    c = {"setunion": "OSetUnion", "setinter": "OSetInter", "setdiff": "OSetDiff", "setsymdiff": "OSetSymDiff",
         "issubset": "OIsSubset", "issuperset": "OIsSuperset"}[n]
    return "(%s %s)" % (c, nums(o.get("ks") or []))


def out_term(o):
    t = o["t"]
    if t == "none":
        return "ONone"
    if t == "val":
        return "(OVal (Some %d))" % o.get("v", 0) if o.get("found") else "(OVal None)"
    if t == "bool":
        return "(OBool true)" if o.get("found") else "(OBool false)"
    return "(OKV (Some (%d, %d)))" % (o.get("k", 0), o.get("v", 0)) if o.get("found") else "(OKV None)"


def case_term(h):
    obs = "[" + "; ".join("(%s, %d%%nat, %s)" % (out_term(x["out"]), x["len"], pairs(x["items"] or [])) for x in h["obs"]) + "]"
    init = "None" if h["init"] < 0 else "(Some %d%%nat)" % h["init"]
    return "(mkCase %s %s [%s] %s)" % (pairs(h["hashes"]), init, "; ".join(op_term(o) for o in h["ops"]), obs)


MOD = 2305843009213693951


def digest(h):
    """The digest Check.v computes (trace_digest) over the observations of one history."""
    acc = 7
    for x in h["obs"]:
        o = x["out"]
        t = o["t"]
        if t == "none":
            flat = [0]
        elif t == "val":
            flat = [2, o.get("v", 0)] if o.get("found") else [1]
        elif t == "bool":
            flat = [6] if o.get("found") else [5]
        else:
            flat = [4, o.get("k", 0), o.get("v", 0)] if o.get("found") else [3]
        items = x["items"] or []
        flat += [x["len"], len(items)]
        for p in items:
            flat += [p[0], p[1]]
        for v in flat:
            acc = (acc * 1000003 + v + 1) % MOD
    return acc


def dcase_term(h):
    init = "None" if h["init"] < 0 else "(Some %d%%nat)" % h["init"]
    used = set()
    for o in h["ops"]:
        used.add(o.get("k", 0))
        used.update(p[0] for p in (o.get("l") or []))
        used.update(o.get("ks") or [])
    hs = [p for p in h["hashes"] if p[0] in used]   # number literals are what costs time in Coq
    return "(mkD %s %s [%s] %d)" % (pairs(hs), init, "; ".join(op_term(o) for o in h["ops"]), digest(h))


# ---- the guarded layer (freeze / iterate / Done events): terms for GuardedCheck.v
GHEADER = ("From Coq Require Import List NArith.\n"
           "From SV Require Import C12.Ops C12.GuardedOps C12.GuardedCheck.\n"
           "Import ListNotations.\nOpen Scope N_scope.\n")


def gop_term(o):
    n = o["op"]
    k, v = o.get("k", 0), o.get("v", 0)
    if n == "insert":
        return "(GInsert %d %d)" % (k, v)
    if n == "delete":
        return "(GDelete %d)" % k
    if n == "lookup":
        return "(GLookup %d)" % k
    if n == "issubset":
        return "(GIsSubset %s)" % nums(o.get("ks") or [])
    return {"clear": "GClear", "setclear": "GSetClear", "popfirst": "GPopFirst", "items": "GItems", "len": "GLen",
            "iterbegin": "GIterBegin", "iterdone": "GIterDone", "iterate": "GIterate", "freeze": "GFreeze"}[n]


def gout_term(o):
    t = o["t"]
    if t == "err":
        return "(GErr %s)" % {"frozen": "Frozen", "iterating": "Iterating"}[o["e"]]
    if t == "items":
        return "(GItemsOut %s)" % pairs(o.get("l") or [])
    if t == "len":
        return "(GLenOut %d%%nat)" % o.get("n", 0)
    if t == "keys":
        return "(GKeysOut %s)" % nums(o.get("ks") or [])
    return "(GO %s)" % out_term(o)


def gcase_term(h):
    obs = "[" + "; ".join("(%s, %d%%nat, %s)" % (gout_term(x["out"]), x["len"], pairs(x["items"] or [])) for x in h["obs"]) + "]"
    init = "None" if h["init"] < 0 else "(Some %d%%nat)" % h["init"]
    used = set()
    for o in h["ops"]:
        used.add(o.get("k", 0))
        used.update(o.get("ks") or [])
    hs = [p for p in h["hashes"] if p[0] in used]
    return "(mkGC %s %s [%s] %s)" % (pairs(hs), init, "; ".join(gop_term(o) for o in h["ops"]), obs)


def guard_first_diff(ctx, terms):
    """Index of the first event of each case that differs from GuardedSpec.v (None: none does)."""
    import re
    text = GHEADER + "Definition D := Eval vm_compute in map guard_spec_first_diff [\n" + ";\n".join(terms) + "].\nPrint D.\n"
    out, rc = ctx.coq_run("c12_guard_diff", text, timeout=600)
    if rc != 0:
        raise HarnessError("coq evaluation of guard cases failed:\n" + out[-3000:])
    m = re.search(r"D\s*=\s*\[(.*?)\]\s*:", out, re.S)
    res = []
    for t in (m.group(1).split(";") if m else []):
        d = re.search(r"Some\s+(\d+)", t)
        res.append(int(d.group(1)) if d else None)
    return res


GUARD_READERS = ("lookup", "items", "len", "issubset")


def guard_writes(h):
    """Events that wrote to the table's memory although the guarded layer's theorems say the state
    returned equals the state given: a refused mutator (refused_leaves_table_untouched), a reader
    (reads_never_write), any event on a frozen table (both), a whole iterate .. Done loop
    (iterate_balanced).  Returns [(index, why)]."""
    bad, frozen = [], False
    for i, (o, x) in enumerate(zip(h["ops"], h["obs"])):
        if x.get("w"):
            if x["out"]["t"] == "err":
                bad.append((i, "refused (%s) but" % x["out"]["e"]))
            elif o["op"] in GUARD_READERS:
                bad.append((i, "a reader, but"))
            elif frozen:
                bad.append((i, "on a frozen table, but"))
            elif o["op"] == "iterate":
                bad.append((i, "a whole iterate .. Done loop, but"))
        if o["op"] == "freeze":
            frozen = True
    return bad


def guard_stats(hs):
    """What the sample of guarded histories exercised (measured on the observations)."""
    st = {"histories": len(hs), "events": 0, "refused_frozen": 0, "refused_iterating": 0,
          "refused_insert_of_existing_key": 0, "popfirst_empty_while_refusing": 0, "setclear_empty_while_refusing": 0,
          "clear_refused_on_empty_table": 0, "iterate_or_done_on_frozen": 0, "mutation_allowed_after_done": 0, "by_kind": {}, "by_hash_style": {}}
    for h in hs:
        st["by_kind"][h["tkind"]] = st["by_kind"].get(h["tkind"], 0) + 1
        st["by_hash_style"][h.get("style", "?")] = st["by_hash_style"].get(h.get("style", "?"), 0) + 1
        frozen, live, items, had_live = False, 0, [], False
        for o, x in zip(h["ops"], h["obs"]):
            st["events"] += 1
            out = x["out"]
            refusing = frozen or live > 0
            if out["t"] == "err":
                st["refused_frozen" if out["e"] == "frozen" else "refused_iterating"] += 1
                if o["op"] == "insert" and any(p[0] == o["k"] for p in items):
                    st["refused_insert_of_existing_key"] += 1
                if o["op"] == "clear" and not items:
                    st["clear_refused_on_empty_table"] += 1
            elif refusing and o["op"] == "popfirst":
                st["popfirst_empty_while_refusing"] += 1
            elif refusing and o["op"] == "setclear":
                st["setclear_empty_while_refusing"] += 1
            elif o["op"] in ("insert", "delete", "clear") and had_live and not refusing:
                st["mutation_allowed_after_done"] += 1
            if o["op"] == "freeze":
                frozen = True
            elif o["op"] in ("iterbegin", "iterdone", "iterate") and frozen:
                st["iterate_or_done_on_frozen"] += 1
            elif o["op"] == "iterbegin":
                live += 1
                had_live = True
            elif o["op"] == "iterdone":
                live -= 1
            items = x["items"] or []
    return st


def coq_eval(ctx, terms, shard=250):
    """Indices of the cases on which model_ok_d / spec_ok_d are false (one vm_compute per shard)."""
    import re

    def one(s):
        chunk = terms[s:s + shard]
        text = HEADER + "Definition cases := [\n" + ";\n".join(chunk) + "].\n"
        text += ("Fixpoint idx_false {A} (f : A -> bool) (i : nat) (l : list A) : list nat :=\n"
                 "  match l with [] => [] | x :: r => if f x then idx_false f (S i) r else i :: idx_false f (S i) r end.\n"
                 "Definition M := Eval vm_compute in (idx_false model_ok_d 0 cases, idx_false spec_ok_d 0 cases).\nPrint M.\n")
        out, rc = ctx.coq_run("c12_cases_%d" % (s // shard), text, timeout=800)
        if rc != 0:
            raise HarnessError("coq evaluation of cases failed:\n" + out[-3000:])
        m = re.search(r"M\s*=\s*\((.*?),\s*(\[[^\]]*\]|nil)\s*\)\s*:", out, re.S)
        if not m:
            raise HarnessError("cannot parse coq output:\n" + out[-2000:])
        return ([s + int(t) for t in re.findall(r"\d+", m.group(1))], [s + int(t) for t in re.findall(r"\d+", m.group(2))])

    bad_m, bad_s = [], []
    with cf.ThreadPoolExecutor(max_workers=4) as ex:
        for a, b in ex.map(one, range(0, len(terms), shard)):
            bad_m += a
            bad_s += b
    return bad_m, bad_s




def plan(ctx):
    """(name, argv-tail, timeout) for every harness invocation of this tier."""
    q = ctx.quick()
    seed = str(ctx.seed)
    jobs = []

    def exh(kind, route, hashes, alpha, L):
        jobs.append(("exh %s/%s/%s/%s/len%d" % (kind, route, hashes, alpha, L),
                     ["exhaustive", "-kind", kind, "-route", route, "-hashes", hashes, "-alpha", alpha, "-len", str(L)], 840))

    for kind in ("dict", "set"):
        if q:
            exh(kind, "go", "zero3", "full", 4)
            exh(kind, "star", "zero3", "full", 3)
            exh(kind, "go", "prefill", "core", 4)
            exh(kind, "star", "prefill", "core", 3)
        else:
            exh(kind, "go", "zero3", "core", 7)
            exh(kind, "go", "zero3", "full", 6 if kind == "dict" else 5)
            exh(kind, "star", "zero3", "core", 6)
            exh(kind, "star", "zero3", "full", 5)
            exh(kind, "go", "same5", "full", 5)
            exh(kind, "star", "same5", "full", 4)
            exh(kind, "go", "prefill", "core", 6)
            exh(kind, "go", "prefill", "full", 4)
            exh(kind, "star", "prefill", "core", 5)
    for kind in ("dict", "set"):
        for route in ("go", "star"):
            if q:
                n = "9" if kind == "set" else "3"   # 9 hash distributions; the set runs carry the subset / comparison queries
                jobs.append(("rand %s/%s" % (kind, route), ["random", "-kind", kind, "-route", route, "-n", n, "-ops", "1500", "-seed", seed], 300))
            else:
                jobs.append(("rand %s/%s" % (kind, route), ["random", "-kind", kind, "-route", route, "-n", "18", "-ops", "10000", "-seed", seed], 840))
    jobs.append(("bigsets", ["bigsets", "-n", "60" if q else "900", "-seed", seed], 600))
    jobs.append(("programs", ["programs", "-n", "200" if q else "4000", "-maxops", "30", "-seed", seed], 600))
    jobs.append(("sample", ["sample", "-n", "60" if q else "1200", "-maxops", "28" if q else "40", "-seed", seed], 300))
    jobs.append(("guard", ["guard", "-n", "150" if q else "2500", "-maxops", "20" if q else "30", "-seed", seed], 300))
    return jobs


def replay(ctx, hx, path):
    """bin/check C12 --replay <file>: run one recorded history again on the current tree."""
    rec = json.load(open(path))
    h = rec.get("replay", rec)
    obj = {k: h[k] for k in ("tkind", "route", "hashes", "init", "ops")}
    p = ctx.sh([hx, "replay"], input=json.dumps(obj), timeout=120)
    for line in p.stdout.splitlines():
        if line.startswith("{"):
            l = json.loads(line)
            if l.get("kind") == "mismatch":
                ctx.finding("%s:%s" % (l["tkind"], l["class"]), "replayed history still differs from the association list at operation %s: got %s want %s %s" % (
                    l.get("at"), l.get("got"), l.get("want"), l.get("msg", "")), obj)
    if p.returncode != 0:
        ctx.broken("harness:replay", p.stderr[-600:])
    return ctx.finish(LEVEL, {"evaluations": len(obj["ops"]), "distinct_nontrivial": 1, "rule": "replay of one recorded history", "samples": [obj]})


def run(ctx):
    hx = ctx.go_build("c12")
    if getattr(ctx, "replay_path", None):
        ctx.proofs()
        return replay(ctx, hx, ctx.replay_path)
    # Check.v (decidable comparison used below) and History.v are not imported by Properties.v
    ok, log = ctx.coq_make(["C12/Check.vo", "C12/History.vo", "C12/GuardedCheck.vo"])
    if not ok:
        ctx.broken("coq-build:C12/Check.vo", log[-2000:])
    jobs = plan(ctx)
    jobs.sort(key=lambda j: {"sample": 0, "guard": 1}.get(j[0], 2))  # the samples first: their Coq evaluation overlaps the rest
    results = {}

    def one(job):
        name, tail, to = job
        p = ctx.sh([hx] + tail, timeout=to)
        lines = []
        for line in p.stdout.splitlines():
            line = line.strip()
            if line.startswith("{"):
                try:
                    lines.append(json.loads(line))
                except ValueError:
                    pass
        return name, p.returncode, lines, p.stderr[-2000:]

    def eval_sample(fut):
        lines = fut.result()[2]
        hs = [l for l in lines if l.get("kind") == "hist"]
        good = [h for h in hs if not h.get("err")]
        terms = [dcase_term(h) for h in good]
        ctx.log("evaluating %d sample histories in Coq (model and specification)" % len(terms))
        return hs, good, coq_eval(ctx, terms)

    def eval_guard(fut):
        lines = fut.result()[2]
        ghs = [l for l in lines if l.get("kind") == "ghist"]
        ggood = [h for h in ghs if not h.get("err")]
        ctx.log("evaluating %d histories with freeze / iterate / Done events in Coq (Guarded.v and GuardedSpec.v)" % len(ggood))
        gterms = [gcase_term(h) for h in ggood]
        bm, bs = coq_mismatches(ctx, "c12_guard", GHEADER, gterms, ["guard_model_ok", "guard_spec_ok"], shard=500, timeout=800)
        diffs = guard_first_diff(ctx, [gterms[i] for i in bs]) if bs else []
        return ghs, ggood, bm, bs, diffs

    # the exhaustive runs use 16 workers each; run a few invocations side by side, evaluate the
    # sample in Coq and build + audit the Coq development meanwhile
    with cf.ThreadPoolExecutor(max_workers=3 if ctx.quick() else 2) as ex, cf.ThreadPoolExecutor(max_workers=2) as ex2:
        futs = [ex.submit(one, j) for j in jobs]
        fut_eval = ex2.submit(eval_sample, futs[0])
        fut_guard = ex2.submit(eval_guard, futs[1])
        ctx.proofs()
        for name, rc, lines, err in (f.result() for f in futs):
            results[name] = lines
            if rc != 0:
                # a crash / timeout of the harness on this tree is itself an observation
                ctx.broken("harness:" + name, "harness exited with %s: %s" % (rc, err[-600:]))
            ctx.log("%-34s %s" % (name, "; ".join(
                "%s histories, %s mismatches" % (l.get("histories"), l.get("mismatches")) for l in lines if l.get("kind") in ("exh", "rand", "prog", "big")) or "%d lines" % len(lines)))
        hs, good, (bad_model, bad_spec) = fut_eval.result()
        ghs, ggood, gbad_model, gbad_spec, gdiffs = fut_guard.result()

    dist = {}
    evaluations = 0
    histories = 0
    cover = {"chain_gt1_bucket": 0, "grew": 0, "reused_vacated_slot": 0, "max_chain_buckets": 0, "max_live_keys": 0}
    samples = []
    for name, lines in results.items():
        for l in lines:
            k = l.get("kind")
            if k == "mismatch":
                key = "%s:%s" % (l["tkind"], l["class"])
                ops = l.get("ops") or []
                what = "%s via %s (%s): after %s the real %s gives out=%s len=%s items=%s, the association list gives out=%s len=%s items=%s %s" % (
                    l["tkind"], l["route"], l.get("mode"), json.dumps(ops[-1]) if ops else "?", l["tkind"],
                    l.get("got", {}).get("out"), l.get("got", {}).get("len"), l.get("got", {}).get("items"),
                    l.get("want", {}).get("out"), l.get("want", {}).get("len"), l.get("want", {}).get("items"), l.get("msg", ""))
                ctx.finding(key, what, {"how": "echo '<this object>' | build/<key>/bin/c12 replay", "tkind": l["tkind"], "route": l["route"],
                                        "hashes": l["hashes"], "init": l["init"], "ops": ops, "at": l.get("at"),
                                        "got": l.get("got"), "want": l.get("want"), "msg": l.get("msg"),
                                        "program": l.get("program"), "keys": l.get("keys")})
            elif k in ("exh", "rand", "prog", "big"):
                dist[name] = l.get("histories", 0)
                histories += l.get("histories", 0)
                evaluations += l.get("op_executions", 0)
                c = l.get("coverage", {})
                scale = c.get("sampled_every", 1)
                for f in ("chain_gt1_bucket", "grew", "reused_vacated_slot"):
                    cover[f] += c.get(f, 0) * scale
                for f in ("max_chain_buckets", "max_live_keys"):
                    cover[f] = max(cover[f], c.get(f, 0))
                if k in ("rand", "big"):
                    dist[name + " by hash distribution" if k == "rand" else name + " by kind/route"] = l.get("distribution")

    # ---- Coq-sized sample: model correspondence and Spec.v oracle
    for h in hs:
        if h.get("err"):
            ctx.finding("%s:panic" % h["tkind"], "host panic / inconsistency while running a history: %s" % h["err"], h)
    bad_spec_s = set(bad_spec)
    for i, h in enumerate(good):
        if (i in bad_spec_s) == bool(h.get("go_oracle_ok")):
            ctx.broken("oracle-crosscheck:C12", "Spec.v and the Go association list disagree about history %s" % json.dumps(h)[:1500])
            break
    for i in bad_spec:
        h = good[i]
        cls = h.get("class") or "%s:coq-spec" % h["ops"][0]["op"]
        at = h.get("at", 0)
        ctx.finding("%s:%s" % (h["tkind"], cls),
                    "%s via %s: operation %d (%s) leaves out/len/items %s, Spec.v (association list) says otherwise" % (
                        h["tkind"], h["route"], at, json.dumps(h["ops"][at]), json.dumps(h["obs"][at])),
                    {"tkind": h["tkind"], "route": h["route"], "hashes": h["hashes"], "init": h["init"], "ops": h["ops"][:at + 1], "obs": h["obs"][:at + 1]})
    only_model = [i for i in bad_model if i not in bad_spec_s]
    if only_model:
        h = good[only_model[0]]
        ctx.broken("correspondence:C12.Concrete", "model and implementation differ on %d sample histories where the specification is met, e.g. %s" % (len(only_model), json.dumps(h)[:1800]))
    # ---- the guarded layer: freeze / iterate / Done events against Guarded.v and GuardedSpec.v
    for h in ghs:
        if h.get("err"):
            ctx.finding("%s:guard:panic" % h["tkind"], "host panic / unexpected error while running a history with freeze / iterate events: %s" % h["err"], h)
    for j, i in enumerate(gbad_spec):
        h = ggood[i]
        at = gdiffs[j] if j < len(gdiffs) and gdiffs[j] is not None else 0
        at = min(at, len(h["ops"]) - 1)
        before = h["obs"][at - 1] if at > 0 else {"len": 0, "items": []}
        ctx.finding("%s:guard:%s" % (h["tkind"], h["ops"][at]["op"]),
                    "%s through the Go API with freeze / iterate / Done events: event %d (%s) gives out/len/items %s (before it: len %s items %s); GuardedSpec.v (association list + frozen + itercount) says otherwise" % (
                        h["tkind"], at, json.dumps(h["ops"][at]), json.dumps(h["obs"][at]), before["len"], json.dumps(before["items"])),
                    {"how": "c12 guard events; re-run: bin/check C12 (seed %d, guard history id %s)" % (ctx.seed, h.get("id")),
                     "tkind": h["tkind"], "hashes": h["hashes"], "init": h["init"], "ops": h["ops"][:at + 1], "obs": h["obs"][:at + 1]})
    for h in ggood:
        for at, why in guard_writes(h)[:1]:
            ctx.finding("%s:guard-write:%s" % (h["tkind"], h["ops"][at]["op"]),
                        "%s through the Go API: event %d (%s, output %s) is %s the bytes of the hashtable struct / its buckets differ after it (the table was written)" % (
                            h["tkind"], at, json.dumps(h["ops"][at]), json.dumps(h["obs"][at]["out"]), why),
                        {"how": "c12 guard events; re-run: bin/check C12 (seed %d, guard history id %s)" % (ctx.seed, h.get("id")),
                         "tkind": h["tkind"], "hashes": h["hashes"], "init": h["init"], "ops": h["ops"][:at + 1], "obs": h["obs"][:at + 1]})
    gbad_spec_s = set(gbad_spec)
    gonly_model = [i for i in gbad_model if i not in gbad_spec_s]
    if gonly_model:
        h = ggood[gonly_model[0]]
        ctx.broken("correspondence:C12.Guarded", "guarded model and implementation differ on %d histories where the guarded specification is met, e.g. %s" % (len(gonly_model), json.dumps(h)[:1800]))
    gstats = guard_stats(ggood)
    dist["guard (Coq)"] = gstats

    nontrivial = 0
    for h in good:
        c = h.get("cov", {})
        if c.get("maxchain", 0) > 1:
            cover["chain_gt1_bucket"] += 1
        if c.get("grew"):
            cover["grew"] += 1
        if c.get("reused"):
            cover["reused_vacated_slot"] += 1
        cover["max_chain_buckets"] = max(cover["max_chain_buckets"], c.get("maxchain", 0))
        if len(h["ops"]) >= 5:
            nontrivial += 1
    dist["sample (Coq)"] = len(good)
    dist["sample by kind/route"] = {}
    for h in good:
        k = h["tkind"] + "/" + h["route"]
        dist["sample by kind/route"][k] = dist["sample by kind/route"].get(k, 0) + 1
    samples = [{"tkind": h["tkind"], "route": h["route"], "hashes": h["hashes"], "init": h["init"], "ops": h["ops"], "final": h["obs"][-1] if h["obs"] else None, "cov": h.get("cov")}
               for h in good[:2] + good[len(good) // 2: len(good) // 2 + 1]]
    cov = {
        "evaluations": evaluations + sum(len(h["ops"]) for h in good) + gstats["events"],
        "distinct_nontrivial": histories + nontrivial + sum(1 for h in ggood if any(x["out"]["t"] == "err" for x in h["obs"])),
        "rule": "every operation history up to the stated length over 5 keys (3 sharing one hash; configurations zero3 = shared hash 0, same5 = all five equal, prefill = the 3 keys share the hash of 7 resident keys of which 2 were deleted) is enumerated, each distinct; alphabets: core = insert/delete x 5 keys, popfirst, clear; full = core + setdefault x 5, update, union (dict) / update, union, intersection, difference, symmetric_difference by method with duplicates and by operator (set); for sets issubset / issuperset / the six comparison operators are queried after the last operation as well; compared with a Go association list after the last operation of every history (all prefixes are histories too): output, len, item order, lookup of all 5 keys; stored VALUES include None (encoded 0) for about a third / quarter of the dict inserts, setdefaults and update / union operands in every generator, so every value-returning operation (get, d[k], `in`, pop with and without default, popitem, setdefault on present and absent keys) also meets keys that are present with the value None; NO ALIASING: a derived operation must return a fresh collection -- the operands of every derived operation in a history are remembered with their contents and re-read at every later comparison (they must never change while the result is mutated), and after the last operation of every 4th history (every 32nd in the enumerations of length >= 6) each derived operation is applied with an EMPTY and a small second operand (method and operator forms), the result compared with the association list, then result, left and right operand are mutated in turn while the other two must not move; big collections (bigsets): tables of 8..64 chains with ONE chain of 65..200 entries (hashes equal modulo 2^12, some fully equal) next to populated chains, filled in shuffled order with deletions, then issubset / issuperset by method and the six comparison operators and every derived operation against second big collections (reversed, superset, subset missing one element of the long / a neighbour chain, shuffle with duplicates, nearly disjoint), both routes, compared after every operation; random histories: hash distributions include a heavy chain next to populated chains and interleave subset / superset / comparison queries against big second collections, compared after every operation; programs: histories written as Starlark source over built-in key types (short / long strings, small / big ints, tuples, None, True) including keyword arguments of dict.update, executed by the interpreter, items compared after every statement; sample histories: every observation evaluated in Coq against Concrete.v and Spec.v; guard histories: random histories over 3..12 keys (five hash styles, zero value or NewDict/NewSet(n)) of insert / delete / clear / s.clear() / popitem / pop / lookup / items / len / issubset interleaved with Iterate (held open), Done, whole iterations and Freeze (at a planned position in half of the histories, at position 0 in an eighth) through the public Go API; after every event the output or the class of the refusal (frozen / iterating), Len() and the items are evaluated in Coq against Guarded.v (pointer-level model with the frozen / itercount guards) and GuardedSpec.v (association list + the two flags); every event is bracketed by two copies of the bytes of the hashtable struct and all its buckets (hook VerifHeader) and no byte may differ after a refused mutator, a reader, any event on a frozen table, or a whole iterate .. Done loop (the cases in which the theorems say the returned state EQUALS the given one) -- what they exercised is counted under distribution[\"guard (Coq)\"]. distinct_nontrivial = enumerated histories + random histories + sample histories with >= 5 operations + guard histories with at least one refusal",
        "samples": samples, "distribution": dist, "structure_coverage": cover,
        "histories": histories + len(good),
        "model_mismatches": len(bad_model), "spec_mismatches": len(bad_spec),
        "guard_model_mismatches": len(gbad_model), "guard_spec_mismatches": len(gbad_spec),
    }
    return ctx.finish(LEVEL, cov, assumptions=[
        "Go heap abstracted to a store indexed by (chain, 8*bucket+slot); fresh table after grow/clone is a fresh store; bucket0 inline array not distinguished",
        "len and hash are unbounded naturals (no uint32 wrap); overloaded's float64 comparison written as 2*elems >= 13*buckets",
        "Equal is a total boolean equality consistent with Hash; Hash never fails; frozen/itercount guards modelled in the guarded layer (Guarded.v) only; freeze() of keys / values not modelled (C04)",
        "the second operand of derived operations is the sequence its iterator yields",
    ])
