"""C07 -- step limits and cancellation always stop execution (DESIGN.md section 8, C07)."""
import concurrent.futures as cf

from .lib import coq_mismatches


def coq_mismatches_par(ctx, name, header, cases, fns, shard, workers=4):
    """coq_mismatches over shards evaluated by several coqc processes at once."""
    chunks = [(i, cases[i:i + shard]) for i in range(0, len(cases), shard)]
    bad = [[] for _ in fns]

    def one(ic):
        i, chunk = ic
        return i, coq_mismatches(ctx, "%s_%d" % (name, i), header, chunk, fns, shard=shard, timeout=200 if ctx.quick() else 850)
    with cf.ThreadPoolExecutor(max_workers=workers) as ex:
        for i, res in ex.map(one, chunks):
            for k in range(len(fns)):
                bad[k].extend(i + j for j in res[k])
    return bad

LEVEL = "proof"
META = {
    "category": "proof",
    "text": "Coq theorems over an abstract machine whose program is an arbitrary (possibly non-terminating) step function on an opaque state with nested Starlark and host frames, the interpreter's loop head (Steps++, Steps >= maxSteps -> OnMaxSteps/Cancel, cancelReason test, dispatch) and Thread.Cancel (compare-and-swap) / Uncancel / the one-time maxSteps initialisation modelled as in the code, and an adversary that cancels/uncancels between any two micro-steps: with limit N >= 1 fewer than N instructions are ever dispatched over all nested calls and all schedules and a run that reaches its N-th loop head cannot succeed (ends with the cancellation error when host code propagates errors); once cancelled no instruction is dispatched beyond the single one whose cancellation test had already passed; the reason reported is the first Cancel since the last Uncancel over every history; an execution started while cancelled stops at its first loop head; step counts are independent of the limit and of the counter's start; every execution under a finite limit terminates if built-ins do. Dynamic extension (C07.ModelDyn: host code inside a built-in may call SetMaxExecutionSteps(n) -- a plain store, also for 0 -- and add to the exported Steps counter, uint64 wrap explicit; loop head unchanged): at every dispatch Steps < the limit most recently installed, for the default behaviour and for every cancelling OnMaxSteps hook; after SetMaxExecutionSteps(n) in a built-in at most max(0, n-1-Steps) further instructions are dispatched whatever frames are active, after a charge past the limit none; without the new actions the dynamic machine is the static one; termination when raises of the limit are bounded or finitely many. Tied to /repo on every run: real programs (terminating and not) are measured, run under every limit N, with Cancel/Uncancel scripts injected from inside each built-in call (same or another goroutine), scripted Cancel/Uncancel/re-execute lives and asynchronous cancellation; model and specification are evaluated in Coq on a sample of those runs and a Go oracle checks all of them. The limit is also installed / lowered from inside the k-th built-in call, steps are charged past the limit (default and hook), and threads are re-used with a limit below their count: the Go oracle checks all of these runs, a sample is evaluated against the dynamic Coq machine (model_ok) and an arithmetic specification (spec_ok, C07.SpecDyn).",
    "note": "Trusted: Coq kernel + vm_compute; the harness; sync/atomic as the oracle for Cancel's compare-and-swap; programs enter the model through their measured loop-head/built-in profile (flattened over nested calls), so opcode semantics below the loop head are abstract; the uint64 step counter is modelled with wrap-around and the theorems assume fewer than 2^64 loop heads; wall-clock promptness is not claimed.",
    "technique": "Coq proof over executable abstract machine (all programs, all schedules) + differential correspondence (vm_compute) + Spec.v oracle + Go oracle over every limit",
}
HEADER = """From Coq Require Import NArith Bool List.
From SV Require Import C07.Model C07.Spec C07.ModelDyn C07.SpecDyn.
Import ListNotations.
Open Scope N_scope.
Inductive case :=
| CRun (limit : N) (prog : list sinstr) (o : sobs)
| CAdv (limit : N) (prog : list sinstr) (pre : N) (ops : list sop) (o : sobs)
| CLife (limit : N) (fuel : N) (hook : option reason) (evs : list lev) (obs : list sobs)
| CDyn (hook : option reason) (l0 : N) (pr : profile) (k : nat) (a : dact) (o : sobs)
| CReuse (hook : option reason) (lim st0 : N) (pr : profile) (o : sobs).
Definition res_of (r : option err) : sres :=
  match r with None => ROk | Some (ECancel x) => RCancelled x | Some (EOther _) => RErr end.
Fixpoint size (p : list sinstr) : N :=
  match p with [] => 1 | SPlain n :: r => n + size r | SBuiltin ops :: r => 2 + N.of_nat (length ops) + size r
             | SFail :: r => 1 + size r | SLoop :: r => size r end.
Definition fuel_of (limit : N) (p : list sinstr) : nat :=
  N.to_nat (3 * (N.min (size p) (if limit =? 0 then size p else limit)) + 20).
Definition obs_of (st : status sstate) (tr : list event) : sobs :=
  match st with
  | Finished t _ r => mkObs (res_of r) (steps t) (N.of_nat (count_ev is_builtin tr))
  | Running c => mkObs RDiverge (steps (th c)) (N.of_nat (count_ev is_builtin tr))
  end.
Definition tick_of (o : sop) : tick := match o with SCancel r => TCancel r | SUncancel => TUncancel end.
Definition sched_of (fuel : nat) := repeat TRun fuel.
Definition to_hev (fuel : N) (e : lev) : hevent sstate :=
  match e with
  | LCancel r => HEvCancel r
  | LUncancel => HEvUncancel
  | LSetMax n => HEvSetMax n
  | LRead => HEvRead
  | LExec p => HEvExec (mkS p None) (sched_of (N.to_nat fuel))
  end.
Fixpoint hobs_list (l : list hobs) : list sobs :=
  match l with
  | [] => []
  | OExec r s tr :: rest => mkObs (res_of r) s (N.of_nat (count_ev is_builtin tr)) :: hobs_list rest
  | OOp _ :: rest => hobs_list rest
  | ORead n :: rest => mkObs RRead n 0 :: hobs_list rest
  | OStuck _ :: rest => mkObs RDiverge 0 0 :: hobs_list rest
  end.
Definition eff (limit : N) := if limit =? 0 then max_uint64 else limit.
(* ModelDyn: the limit changes / steps are charged while the program runs *)
Definition dfuel (pr : profile) : nat := N.to_nat (3 * p_t pr + 4 * N.of_nat (length (p_idx pr)) + 40).
Definition hook_of (hook : option reason) := match hook with Some r => Some (cancel_hook r) | None => None end.
Definition lr_of (hook : option reason) := match hook with Some r => r | None => too_many_steps end.
Definition dyn_ok (t0 : thread) (pr : profile) (plan : nat -> list dop) (o : sobs) : bool :=
  match dyn_run t0 (script_of pr plan) (dfuel pr) with
  | Some (r, s, n) => sobs_eqb (mkObs (res_of r) s n) o
  | None => false
  end.
Definition model_ok (c : case) : bool :=
  match c with
  | CRun limit p o =>
      let (st, tr) := s_exec (fuel_of limit p) (s_start (set_max_execution_steps new_thread limit) p) [] in
      sobs_eqb (obs_of st tr) o
  | CAdv limit p pre ops o =>
      let (st, tr) := s_run (s_start (set_max_execution_steps new_thread limit) p)
                            (sched_of (N.to_nat pre) ++ map tick_of ops ++ sched_of (fuel_of limit p)) in
      sobs_eqb (obs_of st tr) o
  | CLife limit fuel hook evs obs =>
      let t0 := set_max_execution_steps new_thread limit in
      let t0 := match hook with Some r => set_onmax t0 (Some (cancel_hook r)) | None => t0 end in
      let (t, l) := life sstate s_dispatch s_host true (fun _ => false) t0 (map (to_hev fuel) evs) in
      list_eqb sobs_eqb (hobs_list l) obs
  | CDyn hook l0 pr k a o =>
      dyn_ok (set_onmax (set_max_execution_steps new_thread l0) (hook_of hook)) pr (plan1 k [dop_of a]) o
  | CReuse hook lim st0 pr o =>
      dyn_ok (mkThread st0 lim None true (hook_of hook)) pr (fun _ => []) o
  end.
Definition spec_ok (c : case) : bool :=
  match c with
  | CRun limit p o =>
      match spec_exec too_many_steps (eff limit) p [] 0 0 with (r, s, n, _) => sobs_eqb (mkObs r s n) o end && budget_ok limit o
  | CAdv limit p pre ops o => true   (* rewritten by the check as a CRun with the ops inside the built-in *)
  | CLife limit _ hook evs obs =>
      list_eqb sobs_eqb (spec_life (match hook with Some r => r | None => too_many_steps end) limit false evs [] 0) obs
  | CDyn hook l0 pr k a o => sobs_matches (spec_dyn (lr_of hook) l0 pr k a) o
  | CReuse hook lim st0 pr o => sobs_matches (spec_reuse (lr_of hook) lim st0 pr) o
  end.
"""


def sop(o):
    return "SUncancel" if o["c"] == 0 else "(SCancel %d)" % o["c"]


def script(shape, plan):
    """The measured loop-head profile as a list sinstr (see C07/Model.v)."""
    items = []
    prev = 0
    for j, ix in enumerate(shape.get("idx") or [], 1):
        gap = ix - prev - 1
        if gap > 0:
            items.append("SPlain %d" % gap)
        ops = plan.get(j) or plan.get(str(j)) or []
        items.append("SBuiltin [%s]" % "; ".join(sop(o) for o in ops))
        prev = ix
    tail = shape["t"] - prev
    if shape["end"] == "ok":
        if tail - 1 > 0:
            items.append("SPlain %d" % (tail - 1))
    elif shape["end"] == "err":
        if tail - 1 > 0:
            items.append("SPlain %d" % (tail - 1))
        items.append("SFail")
    else:
        if tail > 0:
            items.append("SPlain %d" % tail)
        items.append("SLoop")
    return "[" + "; ".join(items) + "]"


def profile(shape):
    """The measured profile as a C07.ModelDyn.profile."""
    end = {"ok": "EOk", "err": "EErr"}.get(shape["end"], "EInf")
    return "(mkProf %d [%s] %s)" % (shape["t"], "; ".join(str(i) for i in shape.get("idx") or []), end)


def stride_sample(items, want):
    """About `want` items, evenly spread, always the same ones for the same list."""
    if len(items) <= want:
        return list(items)
    step = len(items) / float(want)
    return [items[int(i * step)] for i in range(want)]


def obs(o):
    r = {"ok": "ROk", "err": "RErr"}.get(o["res"]) or "(RCancelled %d)" % o["reason"]
    return "(mkObs %s %d %d)" % (r, o["steps"], o["nlog"])


def run(ctx):
    ctx.proofs()
    ctx.log("proofs audited")
    hx = ctx.go_build("c07")
    ctx.log("harness built")
    if ctx.quick():
        args = ["-gen", "16", "-cap", "250", "-coq", "400", "-life", "100", "-async", "30", "-depth", "2"]
    else:
        args = ["-gen", "150", "-cap", "1500", "-coq", "9000", "-life", "1500", "-async", "400", "-depth", "5"]
    lines = ctx.jsonl([hx, "-seed", str(ctx.seed)] + args, timeout=800)
    shapes, dist = {}, {}
    terms, refs = [], []
    nviol = 0
    for l in lines:
        k = l["kind"]
        if k == "shape":
            shapes[l["prog"]] = l["shape"]
            dist["programs:" + l["shape"]["end"]] = dist.get("programs:" + l["shape"]["end"], 0) + 1
            continue
        if k == "note":
            ctx.notes.append("%s: %s" % (l["prog"], l["note"]))
            continue
        dist[k] = dist.get(k, 0) + 1
        if l.get("viol"):
            nviol += 1
            prog = l.get("prog") or "life"
            what = l["viol"]
            if k == "sweep":
                key = "sweep:" + ("limit-exceeded" if "limit" in what else "result")
            elif k == "life":
                key = "life:" + ("watchdog" if "watchdog" in what else "started-while-cancelled" if "started while cancelled" in what else what.split(":")[0].split(" ")[0])
                if any(e["ev"] == "setmax" for e in l["life"]):
                    key += ":with-SetMaxExecutionSteps"
                if l.get("hook"):
                    key += ":with-OnMaxSteps-hook"
            elif k == "inj":
                key = "inject:" + ("other-goroutine" if l.get("other") else "in-builtin") + ":" + "".join("U" if o["c"] == 0 else "C" for o in l["ops"])
            else:
                key = k + ":" + what.split(":")[0].split(" ")[0]
            progs = {prog} | {e.get("prog") for e in (l.get("life") or []) if e.get("prog")}
            ctx.finding(key, "%s (%s, limit %s): %s" % (k, prog, l.get("n"), what),
                        {"line": l, "sources": {x["prog"]: x.get("src") for x in lines if x["kind"] == "shape" and x["prog"] in progs},
                         "how": "harness/cmd/c07: fresh starlark.Thread, SetMaxExecutionSteps(n) (0 = none), ExecFile of the source with the host built-in b() predeclared; 'ops' are performed from inside the k-th call of b() (c>0: Cancel(reason c), c=0: Uncancel)"})
        if not l.get("coq"):
            continue
        if k == "sweep":
            terms.append("(CRun %d %s %s)" % (l["n"], script(shapes[l["prog"]], {}), obs(l["obs"])))
            refs.append(l)
        elif k == "inj":
            sh = shapes[l["prog"]]
            plan = {l["k"]: l["ops"]}
            terms.append("(CRun %d %s %s)" % (l["n"], script(sh, plan), obs(l["obs"])))
            refs.append(l)
            if l.get("other"):
                # the same run with the operations performed by the adversary while the built-in is in flight
                pre = 2 * sh["idx"][l["k"] - 1] + (l["k"] - 1)
                terms.append("(CAdv %d %s %d [%s] %s)" % (l["n"], script(sh, {}), pre, "; ".join(sop(o) for o in l["ops"]), obs(l["obs"])))
                refs.append(l)
        elif k == "life":
            evs, ob = [], []
            maxlim, maxt = l["n"], 1
            for e in l["life"]:
                if e["ev"] == "cancel":
                    evs.append("LCancel %d" % e["c"])
                elif e["ev"] == "uncancel":
                    evs.append("LUncancel")
                elif e["ev"] == "setmax":
                    evs.append("LSetMax %d" % e.get("n", 0))
                    maxlim = max(maxlim, e.get("n", 0) if e.get("n", 0) < 10 ** 9 else 0)
                elif e["ev"] == "read":
                    evs.append("LRead")
                    ob.append("(mkObs RRead %d 0)" % e.get("n", 0))
                else:
                    evs.append("LExec %s" % script(e["shape"], e.get("plan") or {}))
                    ob.append(obs(e["obs"]))
                    maxt = max(maxt, e["shape"]["t"])
            fuel = 3 * (maxlim + maxt) + 60
            terms.append("(CLife %d %d %s [%s] [%s])" % (l["n"], fuel, "(Some 4)" if l.get("hook") else "None", "; ".join(evs), "; ".join(ob)))
            refs.append(l)
    # The limit changes / steps are charged WHILE the program runs (C07.ModelDyn, C07.SpecDyn): every such
    # observation is checked by the Go oracle above; a sample is evaluated against the dynamic Coq machine and
    # against the arithmetic specification.
    dyn_setmax, dyn_charge, dyn_reuse = [], [], []
    for l in lines:
        if l["kind"] == "setmax-in-builtin" and l.get("obs") and l["prog"] in shapes:
            sh = shapes[l["prog"]]
            start = l.get("start", 0)
            if sh["end"] == "inf" and not (l["n"] <= sh["t"] and 0 < start <= sh["t"]):
                dist["dyn:beyond-measured-prefix"] = dist.get("dyn:beyond-measured-prefix", 0) + 1
                continue
            dyn_setmax.append((l, "(CDyn None %d %s %d (ASetMax %d) %s)" % (start, profile(sh), l["k"], l["n"], obs(l["obs"]))))
        elif l["kind"] == "jump" and l.get("obs") and l["prog"] == "charge" and l.get("shape"):
            dyn_charge.append((l, "(CDyn %s %d %s 1 (ACharge %d) %s)" % ("(Some 4)" if l.get("hook") else "None", l["n"], profile(l["shape"]), l["k"], obs(l["obs"]))))
        elif l["kind"] == "jump" and l.get("obs") and l["prog"] in shapes and shapes[l["prog"]]["end"] != "inf":
            dyn_reuse.append((l, "(CReuse %s %d %d %s %s)" % ("(Some 4)" if l.get("hook") else "None", l["n"], l.get("start", 0), profile(shapes[l["prog"]]), obs(l["obs"]))))
    viol_first = lambda xs: [x for x in xs if x[0].get("viol")][:40]   # what the Go oracle flags is always shown to Coq too
    for name, xs, want in (("setmax-in-builtin", dyn_setmax, 300 if ctx.quick() else 4000), ("charge", dyn_charge, 10 ** 6), ("re-used-thread", dyn_reuse, 80 if ctx.quick() else 2000)):
        chosen = stride_sample(xs, want)
        chosen += [x for x in viol_first(xs) if x not in chosen]
        dist["dyn-coq:" + name] = len(chosen)
        for l, term in chosen:
            terms.append(term)
            refs.append(l)
    ctx.log("harness: %d lines, %d Go-oracle violations, %d cases for Coq" % (len(lines), nviol, len(terms)))
    bad_model, bad_spec = coq_mismatches_par(ctx, "c07_cases", HEADER, terms, ["model_ok", "spec_ok"], shard=2000 if ctx.quick() else 1500, workers=6)
    for i in bad_spec:
        l = refs[i]
        key = "spec:%s" % l["kind"]
        if l["kind"] == "jump":
            key += (":charge" if l.get("prog") == "charge" else ":re-used-thread") + (":with-OnMaxSteps-hook" if l.get("hook") else "")
        progs = {l.get("prog")} | {e.get("prog") for e in (l.get("life") or []) if e.get("prog")}
        ctx.finding(key, "%s (%s, limit %s): observed %s is not what the specification allows" % (l["kind"], l.get("prog"), l.get("n"), l.get("obs") or "life"),
                    {"line": l, "coq_term": terms[i], "sources": {x["prog"]: x.get("src") for x in lines if x["kind"] == "shape" and x["prog"] in progs}})
    only_model = [i for i in bad_model if i not in set(bad_spec)]
    if only_model:
        ctx.broken("correspondence:C07.Model", "model and implementation differ on %d case(s) where the specification is met, e.g. %s" % (len(only_model), terms[only_model[0]][:600]))
    cov = {
        "evaluations": sum(v for k, v in dist.items() if not k.startswith("programs")),
        "distinct_nontrivial": len(set(terms)),
        "rule": "programs (fixed pool incl. while True / unbounded recursion / huge ranges / sorted(key=) callbacks + seeded random structured programs) x EVERY limit N from 1 to T+2 (T measured; cap for non-terminating) checked by the Go oracle (no built-in entered at a step >= N, result = cancelled('too many steps') iff T >= N, ExecutionSteps = T otherwise, log prefix of the unlimited run); Cancel/Uncancel scripts injected from inside every built-in call k (<=12) on the interpreter goroutine and on another goroutine x 5 limits; scripted lives; asynchronous Cancel; distinct = distinct Coq terms (limit, measured profile, observation) evaluated against C07.Model and C07.Spec; setmax-in-builtin (programs x built-in call k <= 6 x new limit = Steps + {1,2,5,30} x {no limit, generous limit} before the run), charge (Steps += {1,7,1000} under limits {5,6,9,40}, default / hook) and re-used threads (limit in {1, st/2, st-1, st} below the count st, default / hook): Go oracle on all, Coq (C07.ModelDyn machine + C07.SpecDyn arithmetic specification) on an evenly spread sample of ~300/all/~80 in quick and up to 4000/all/2000 in thorough (dyn-coq:* in the distribution)",
        "samples": refs[:2] + refs[len(refs) // 2: len(refs) // 2 + 2] + refs[-1:],
        "distribution": dist, "go_oracle_violations": nviol,
        "model_mismatches": len(bad_model), "spec_mismatches": len(bad_spec),
    }
    return ctx.finish(LEVEL, cov, assumptions=[
        "a real program enters the Coq model through its measured profile (number of loop heads, position of host built-in calls, how it ends); the opcode semantics below the loop head are abstract (arbitrary step function) in the theorems",
        "fewer than 2^64 loop heads are visited in a thread's life (the counter is a uint64; the model wraps it, the theorems assume no wrap)",
        "built-ins terminate (hypothesis of terminates_under_budget); host code that receives a cancellation error propagates it (hypothesis of the error-class part of budget_respected)",
        "sync/atomic CompareAndSwap/Load/Store are linearizable (Cancel/Uncancel from other goroutines are modelled as atomic ticks between micro-steps)",
        "SetMaxExecutionSteps and Steps are used by host code on the interpreter's goroutine only (they are not documented as safe from other goroutines; the adversary of the model only Cancels / Uncancels); the counting parts of the dynamic theorems assume loop heads + charges stay below 2^64 (the at-every-dispatch invariant does not)",
        "terminates_under_dynamic_budget: built-ins terminate (measure decreased by every host step incl. SetMaxExecutionSteps / charges) and raises of the limit are bounded by some B or paid from a finite credit (raises_limited)",
    ])
