"""C03 -- execution is deterministic (DESIGN.md section 8, C03)."""
import json
import re

from .lib import coq_mismatches, cz

LEVEL = "other"
META = {
    "category": "other",
    "text": "Proof for the modelled sources of nondeterminism + exploration of the rest. "
            "Coq (coq/C03): a machine in which every source of nondeterminism of the Go implementation is an explicit parameter -- the string-hash function (the per-process maphash seed used for strings of 12 bytes or more), "
            "the order in which Go enumerates a map (an oracle returning any permutation) and object addresses -- over an insertion-ordered bucketed hash table (buckets chosen by the hash, growth by re-bucketing, iteration along the insertion list), "
            "attribute listings built from Go maps (collect, then sort), struct construction, the user-visible hash() (Java string hash / FNV-1a written out with int32/uint32 wrap), print and a step counter. "
            "Theorems, for all operation histories: exec_deterministic (any two environments give equal transcripts: outputs, iteration orders, listings, hash values, step counts), exec_equals_spec (the common value is that of a specification machine with no environment), "
            "order_independent_of_hash, listing_independent_of_map_order (Permutation l1 l2 -> sort l1 = sort l2 for the lexicographic order on byte strings, proved total/antisymmetric/transitive), user_hash_seedless, "
            "real_table_order_independent_of_hash (+ _any_start, real_table_presized_independent_of_hash): the same hash-independence for the REAL table -- C12's pointer-level model of hashtable.go (8-entry buckets, overflow chains, grow, next/prevLink list) -- for any key type with decidable equality, any two hash functions and every history over C12's 15 operations: "
            "both runs succeed with identical outputs for every operation, identical items / len / first / lookups at the end and identical observations after every operation, all equal to C12's hash-free association list (a proved corollary of C12's refinement_init / _step / _history / _observe, instantiated once per hash function); "
            "exec_deterministic_real_table(_env): this machine with its dict operations run on C12's model never fails and has the same transcript under any two environments, namely the specification machine's and that of the machine over the simple table, "
            "every_map_range_sorted (the complete table of `for ... := range <map>` statements of the anchored files; re-derived from the Go source with go/ast on every run and compared, so a new unsorted exposure or a removed sort is flagged with file:line). "
            "Tie and search on the real implementation: (a) operation histories on the real starlark.Dict, struct / module listings and hash() are evaluated against the Coq machine under two different environments and against the specification machine; "
            "plus 400 (quick) / 4000 (thorough) big dict / set trials (20-400 long-string keys, several table doublings and overflow chains) against a naive oracle in Go; (b) generated dict/set/struct/json/dir()/load/time-heavy programs, including dicts and sets of hundreds of long-string keys (keys >= 12 bytes, one third ending in an error raised inside nested calls) are executed in k fresh processes (new hash seed each), three times in one process and on concurrent goroutines; "
            "the canonical transcript (prints, every global serialised with its iteration orders, String(), raw AttrNames(), error message + backtrace, ExecutionSteps()) must be identical; "
            "every program is also run again after ALL other programs have run in the process (state left behind by another execution must not change it) and on a Thread that has already executed other programs, one of them failing (a reused thread must behave like a fresh one); "
            "probe programs exposing the Go-level attribute listings and spelling hints of every built-in type run first and again last; frozen list/dict/set values shared by goroutines are iterated by some while others attempt every mutation (each error message must be the single-threaded one); "
            "(c) the SAME compiled Program is initialised on many goroutines at once (error programs, and a stress with a freshly reloaded 24 000-line chain program per trial so that lazily decoded tables are built under contention); in the thorough tier the concurrent runs are repeated under Go's race detector.",
    "note": "Trusted: Coq kernel + vm_compute; the harness (program generator, canonical serialiser, process/goroutine drivers), the Go AST walker and its syntactic recognition of map-typed expressions. "
            "The refinement of the real hashtable.go (8-entry buckets, overflow chains) to an insertion-ordered map is C12's theorem; it is no longer an assumed dependency: coq/C03/ProofsC12.v imports C12's theorems and proves hash independence and determinism over C12's model of the real table as corollaries (the simple bucketed table of Model.v is kept, and proved to give the same transcripts). "
            "What C03 inherits from C12 is C12's own modelling abstraction of hashtable.go (store-indexed heap, no uint32 wrap, total Equal/Hash; tied to /repo by C12's correspondence check). "
            "UTF-8 decoding for hash(str) is Go's (the harness supplies the runes). Not reached by proof: goroutine scheduling, the Go runtime, lib/proto; scheduler effects are only exercised (goroutine runs) and otherwise rest on C05 (threads share no mutable state).",
    "technique": "Coq proof (simulation of a bucketed table by an association list; hash independence of the real table as a corollary of C12's refinement theorems; uniqueness of sorted permutations) + go/ast re-derivation of the map-range table + differential execution across processes / repetitions / goroutines + model and spec correspondence (vm_compute)",
}

HEADER = """From Coq Require Import ZArith NArith List Bool String.
Import ListNotations.
From SV Require Import Common.GoInt C03.Model C03.Spec C03.MapRanges.
Open Scope nat_scope.
Definition envA : env := {| e_hash := fun b => List.length b; e_perm := fun l => l; e_addr := fun n => n |}.
Definition envB : env := {| e_hash := fun b => N.to_nat (N.modulo (fold_left (fun a c => N.add (N.mul a 31) c) b 7%N) 61); e_perm := @rev bytes; e_addr := fun n => 3 * n |}.
Definition envC : env := {| e_hash := fun _ => 0; e_perm := fun l => match l with x :: r => List.app r [x] | [] => [] end; e_addr := fun n => 0 |}.
Definition obs_of (e : env) (ops : list op) := fst (transcript (run e ops)).
Definition model_ok (c : list op * list event) : bool :=
  list_eqb event_eqb (obs_of envA (fst c)) (snd c) && list_eqb event_eqb (obs_of envB (fst c)) (snd c)
  && list_eqb event_eqb (obs_of envC (fst c)) (snd c).
Definition spec_ok (c : list op * list event) : bool := list_eqb event_eqb (fst (spec_transcript (fst c))) (snd c).
"""


KEYS = {}


def cbytes(s):
    """Byte strings are named once (Definition kN) and referred to by name: Coq parses big numeral lists slowly."""
    if s not in KEYS:
        KEYS[s] = "k%d" % len(KEYS)
    return KEYS[s]


def key_defs():
    return "".join("Definition %s : bytes := [%s]%%N.\n" % (n, "; ".join("%d" % b for b in s.encode("utf8"))) for s, n in KEYS.items())


def render_op(o):
    k = o["op"]
    if k == "set":
        return "OSet %s %s" % (cbytes(o["k"]), cz(o.get("v", 0)))
    if k == "get":
        return "OGet %s" % cbytes(o["k"])
    if k == "del":
        return "ODel %s" % cbytes(o["k"])
    if k == "popitem":
        return "OPopItem"
    if k == "iter":
        return "OIter"
    if k == "len":
        return "OLen"
    if k == "clear":
        return "OClear"
    if k == "listing":
        return "OListing [%s]" % "; ".join(cbytes(n) for n in o["names"])
    if k == "struct":
        return "OStruct [%s]" % "; ".join(cbytes(n) for n in o["names"])
    if k == "hashstr":
        return "OHashStr [%s]" % "; ".join(cz(r) for r in o.get("runes") or [])
    if k == "hashbytes":
        return "OHashBytes %s" % cbytes(o.get("k", ""))
    raise ValueError(k)


def render_ev(e):
    k = e["kind"]
    if k == "val":
        return "EVal (Some %s)" % cz(int(e["v"])) if e.get("has") else "EVal None"
    if k == "item":
        return "EItem (Some (%s, %s))" % (cbytes(e["k"]), cz(int(e["v"]))) if e.get("has") else "EItem None"
    if k == "keys":
        return "EKeys [%s]" % "; ".join(cbytes(x) for x in e.get("keys") or [])
    return "ENum %s" % cz(int(e["v"]))


def cstr(s):
    return '"%s"%%string' % s.replace('"', '""')


def replay(ctx, hx):
    doc = json.load(open(ctx.replay_path))
    r = doc.get("replay", {})
    if "program" in r and "i" in r:
        res = ctx.jsonl([hx, "run", "-seed", str(r.get("seed", doc.get("seed", 1))), "-lo", str(r["i"]), "-n", "1", "-k", "6", "-g", "4"])
        div = [d for d in res if d["kind"] == "diverge"]
        print(json.dumps({"program": r["program"], "divergences": [{k: d.get(k) for k in ("where", "key", "line_a", "line_b")} for d in div]}, indent=1))
        return 1 if div else 0
    print(json.dumps(r, indent=1)[:4000])
    return 2


def run(ctx):
    hx = ctx.go_build("c03")
    if getattr(ctx, "replay_path", None):
        return replay(ctx, hx)
    ctx.proofs()
    quick = ctx.quick()

    # ---- 1. every range over a map, re-derived from the source
    rows = [d["r"] for d in ctx.jsonl([hx, "ranges", "-repo", ctx.repo])]
    cls = {"sorted": "RSorted", "commutative": "RCommutative", "exposed": "RExposed"}
    terms = ["mr %s %s %s %s" % (cstr(r["file"]), cstr(r["func"]), cstr(r["expr"]), cls[r["class"]]) for r in rows]
    text = HEADER + "Definition derived : list mrow := [\n" + ";\n".join(terms) + "].\n" + """
Definition missing := Eval vm_compute in map (fun r => (m_file r, m_func r)) (filter (fun r => negb (existsb (mrow_eqb r) map_ranges)) derived).
Print missing.
Definition stale := Eval vm_compute in map (fun r => (m_file r, m_func r)) (filter (fun r => negb (existsb (mrow_eqb r) derived)) map_ranges).
Print stale.
"""
    out, rc = ctx.coq_run("c03_ranges", text)
    exposed = [r for r in rows if r["class"] == "exposed"]
    for r in exposed:
        ctx.finding("maprange:%s:%s:%s" % (r["file"], r["func"], r["expr"]),
                    "%s:%d %s ranges over the Go map %s and the enumeration order escapes (%s)" % (r["file"], r["line"], r["func"], r["expr"], r["why"]),
                    {"mode": "ranges", "row": r})
    if rc != 0:
        ctx.broken("maprange:evaluation", out[-2000:])
    else:
        def pairs(tag):
            m = re.search(tag + r"\s*=\s*(.*?)\s*:\s*list", out, re.S)
            return re.findall(r'\("([^"]*)",\s*"([^"]*)"\)', m.group(1)) if m else []
        missing, stale = pairs("missing"), pairs("stale")
        if (missing or stale) and not exposed:
            ctx.broken("maprange:table", "coq/C03/MapRanges.v no longer describes the source: new/changed %s, gone %s" % (missing, stale))
        ctx.notes.append("map ranges derived from source: %d (%s); differing from MapRanges.v: %s / %s" % (
            len(rows), ", ".join("%s:%s=%s" % (r["file"].split("/")[-1], r["func"], r["class"]) for r in rows), missing, stale))

    # ---- 2. operation histories on the real Dict / listings / hash() against model and specification
    recs = ctx.jsonl([hx, "ops", "-seed", str(ctx.seed), "-n", "80" if quick else "1500", "-big", "400" if quick else "4000"])
    hist = [d for d in recs if d["kind"] == "history"]
    bigsum = [d for d in recs if d["kind"] == "bigsummary"]
    for d in recs:
        if d["kind"] == "bigmismatch":
            ctx.finding("big:%s" % d["what"], "dict / set of hundreds of long-string keys against the naive oracle (insertion-ordered slice + Go map): %s" % d["detail"][:500],
                        {"mode": "big", "what": d["what"], "detail": d["detail"], "cmd": "c03 ops -seed %d -n 0 -big 4000" % ctx.seed})
    cases = ["([%s], [%s])" % ("; ".join(render_op(o) for o in h["ops"]), "; ".join(render_ev(e) for e in h["obs"])) for h in hist]
    nops = sum(len(h["ops"]) for h in hist)
    ctx.log("evaluating %d histories (%d operations) in Coq" % (len(cases), nops))
    bad_model, bad_spec = coq_mismatches(ctx, "c03_hist", HEADER + key_defs(), cases, ["model_ok", "spec_ok"], shard=250)
    ctx.log("histories evaluated")
    if bad_spec:
        # which operation is the first whose observation differs from the specification: that names the input class
        sel = bad_spec[:40]
        text = HEADER + key_defs() + """
Fixpoint first_mismatch (a b : list event) (i : nat) : nat :=
  match a, b with
  | x :: r, y :: s => if event_eqb x y then first_mismatch r s (S i) else i
  | _, _ => i
  end.
Definition firsts := Eval vm_compute in map (fun c : list op * list event => first_mismatch (fst (spec_transcript (fst c))) (snd c) 0) [
""" + ";\n".join(cases[i] for i in sel) + "].\nPrint firsts.\n"
        out, rc = ctx.coq_run("c03_first", text)
        m = re.search(r"firsts\s*=\s*\[(.*?)\]", out, re.S)
        firsts = [int(x) for x in re.findall(r"\d+", m.group(1))] if (rc == 0 and m) else [0] * len(sel)
        for i, pos in zip(sel, firsts):
            h = hist[i]
            opk = h["ops"][pos]["op"] if pos < len(h["ops"]) else "length"
            ctx.finding("history:%s" % opk,
                        "operation #%d (%s) of history %d: the real implementation observed %s, the specification machine (insertion-ordered map, sorted listings, seedless hash) says otherwise; history: %s" % (
                            pos, json.dumps(h["ops"][pos]) if pos < len(h["ops"]) else "-", h["i"], json.dumps(h["obs"][pos]) if pos < len(h["obs"]) else "-", json.dumps(h["ops"][:pos + 1])[:900]),
                        {"mode": "history", "history": h, "first_mismatch": pos})
    only_model = [i for i in bad_model if i not in set(bad_spec)]
    if only_model:
        ctx.broken("correspondence:C03.Model", "model and implementation differ on %d histories where the specification is met, e.g. %s" % (len(only_model), json.dumps(hist[only_model[0]])[:600]))

    # ---- 3. generated programs: processes x repetitions x goroutines
    n, k, g = (160, 4, 4) if quick else (5000, 8, 8)
    res = ctx.jsonl([hx, "run", "-seed", str(ctx.seed), "-n", str(n), "-k", str(k), "-g", str(g)], timeout=3000)
    summ = [d for d in res if d["kind"] == "summary"][0]
    for d in res:
        if d["kind"] == "diverge":
            ctx.finding("diverge:%s" % d.get("key"),
                        "the same program gave different transcripts (%s): %r vs %r" % (d["where"], d.get("line_a", "")[:300], d.get("line_b", "")[:300]), d)
        elif d["kind"] == "childerror":
            ctx.broken("harness:child", d["err"][-1500:])
    ctx.log("programs %d x %d processes, divergences %d" % (summ["programs"], k, summ["divergences"]))

    # ---- 4. (thorough) the same concurrent runs under Go's race detector: shared compiled programs,
    #         predeclared modules and universe values must be read-only while executing
    race_note = "not run in the quick tier"
    if not quick:
        import subprocess
        from .lib import env
        hr = ctx.go_build("c03", race=True)
        p = subprocess.run([hr, "child", "-seed", str(ctx.seed), "-lo", "0", "-hi", "60", "-multi", "-g", "6"],
                           env=env(), capture_output=True, text=True, timeout=1500, errors="replace")
        races = re.findall(r"WARNING: DATA RACE\n(.*?)\n\n", p.stderr, re.S)
        race_note = "race detector: %d report(s), exit %d" % (len(races), p.returncode)
        for rep in races[:5]:
            fn = re.search(r"\n\s+([A-Za-z0-9_./()*]+)\(\)\n", "\n" + rep)
            ctx.finding("data-race:%s" % (fn.group(1).split("/")[-1] if fn else "?"),
                        "Go's race detector reports unsynchronised access while the same compiled program / shared values are executed on several goroutines: %s" % rep[:700].replace("\n", " | "),
                        {"mode": "race", "report": rep[:3000], "cmd": "c03(-race) child -seed %d -lo 0 -hi 60 -multi -g 6" % ctx.seed})
        if p.returncode != 0 and not races:
            ctx.broken("harness:race-run", (p.stderr or "")[-1500:])
        ctx.log(race_note)

    cov = {
        "evaluations": summ["executions"] + nops,
        "distinct_nontrivial": summ["programs"] + len(set(cases)),
        "rule": "programs: seeded generator, 2-5 blocks out of {dictlong, setops, structs, dirs, json, hashes, strfmt, closures, timefixed, loadmod, bigdict, deepkeys, bigset} (bigdict: dicts of 60-480 long-string keys grown one insertion at a time with membership checked after every insertion, deletions, re-insertions; bigset: subset / superset / equality / algebra queries on sets of 40-400 long strings; both over-weighted) (every block kind is the first block of one program), one third end in one of 12 error endings; "
                "each program runs in k fresh processes, 3 times in one process and on g goroutines twice; histories: seeded operation sequences over keys drawn from a pool of mostly >= 12-byte strings; distinct = programs + distinct histories",
        "samples": [summ["sample_program"][:600], summ["sample_transcript"][:600], hist[0]["ops"][:6] if hist else None],
        "distribution": summ["distribution"], "programs_ending_in_error": summ["with_error"],
        "processes": k, "goroutines": g, "histories": len(hist), "big_dict_set_trials": bigsum[0] if bigsum else None, "history_operations": nops,
        "model_mismatches": len(bad_model), "spec_mismatches": len(bad_spec), "map_ranges": len(rows), "race_detector": race_note,
    }
    return ctx.finish(LEVEL, cov, assumptions=[
        "hash independence of the real hashtable.go is proved in Coq as a corollary of C12's refinement theorems (real_table_order_independent_of_hash, exec_deterministic_real_table); what remains trusted is C12's model of hashtable.go itself, tied to /repo by C12's correspondence check",
        "a fresh process draws a new maphash seed (hashtable.go var seed = maphash.MakeSeed())",
        "map-typed expressions are recognised syntactically by the AST walker (identifiers, fields, parameters, results, literals, make, named map types of the anchored packages)",
    ])
