"""C10 -- integer and numeric operations are exact (DESIGN.md section 8, C10)."""
import math
import struct

from .lib import cz, cbool, coq_mismatches

LEVEL = "proof"
META = {
    "category": "proof",
    "text": "Coq theorems over an executable model of starlark/int.go written once over the accessor interface of the Int union and instantiated with both representations (int32-in-address-space / struct union, and the all-big.Int fallback): every operator (+ - * // % & | ^ ~ << >> comparisons, Int64/AsInt32/Sign) equals the Z operation for all operands of any magnitude and returns a canonical value, the floored division law is derived from the code's truncated quotient/remainder plus correction, range()/len/index/membership/equality/iteration/enumerate as computed in Go int64/uint64 with explicit wrap equal the mathematical sequence or fail, float->int truncation, math.floor/ceil and int/float comparison are exact on every binary64 value (Coq SpecFloat datatype, the one underlying Flocq's binary_float), int->float conversion (Int.Float / finiteFloat, every path) returns for every integer of any magnitude the nearest binary64 value with ties to even, or the infinity exactly from the IEEE overflow threshold 2^1024-2^970 on (int_to_float_nearest_even: the model's mantissa-extraction / round-bit / sticky-bit rounding function is proved against an independent nearest-value specification over all of Z, which is also proved to determine the result uniquely), float % and // (eval.go, Float.Mod, floor; ModelFloatDiv.v) return the correctly rounded remainder of floored division (exact when no sign correction is needed; between 0 and the divisor) and the exact floor of the correctly rounded quotient for all finite operands, with SpecFloat's division and addition themselves proved correctly rounded against the independent nearest-value specification (float_floor_div_mod), int(string, base) and printing round-trip over Z. The hand-written model is tied to /repo on every run: the Go harness runs the real operators and built-ins in both representations on the ordered product of the boundary pool of the property's quantifier plus random magnitudes to 2^200 and the float pool, checks every observation against an independent math/big oracle, and a Coq-sized sample is evaluated inside Coq against the model (correspondence) and the specification (oracle).",
    "note": "Trusted: Coq kernel + vm_compute; the Go harness and its math/big oracle; math/big, strconv and hardware float conversion/arithmetic are oracles (modelled by Z / exact dyadic rationals / SpecFloat operations). Slicing a range whose arithmetic exceeds int64 and math.round(int) are recorded known findings.",
    "technique": "Coq proof over executable model + differential correspondence (vm_compute) + independent math/big and Spec.v oracles, both Int representations",
}

HEADER = ("From Coq Require Import ZArith Bool List.\n"
          "From SV Require Import Common.GoInt C10.Model C10.Spec C10.Cases.\n"
          "Open Scope Z_scope.\n")

HEADER_FD = ("From Coq Require Import ZArith Bool List.\n"
             "From SV Require Import Common.GoInt C10.Model C10.Spec C10.Cases C10.ModelFloatDiv C10.CasesFloatDiv.\n"
             "Open Scope Z_scope.\n")

BINOPS = {"+": "ADD", "-": "SUB", "*": "MUL", "//": "FLOORDIV", "%": "MOD", "&": "AND", "|": "OR", "^": "XOR", "<<": "LSH", ">>": "RSH"}
CMPS = {"==": "EQL", "!=": "NEQ", "<": "LT", "<=": "LE", ">": "GT", ">=": "GE"}
UNOPS = {"-a0": "UMINUS", "+a0": "UPLUS", "~a0": "UNOT"}

I64 = (-(1 << 63), (1 << 63) - 1)
I32 = (-(1 << 31), (1 << 31) - 1)


def is_int(s):
    return s and (s[0].isdigit() or (s[0] == "-" and len(s) > 1 and s[1].isdigit()))


def is_float(s):
    return len(s) == 17 and s[0] == "f"


def fbits(s):
    return int(s[1:], 16)


def fval(s):
    return struct.unpack("<d", struct.pack("<Q", fbits(s)))[0]


def is_nan(s):
    return is_float(s) and math.isnan(fval(s))


def same(r, w):
    if r == w:
        return True
    if is_nan(r) and is_nan(w):
        return True
    return False


def op_of(t):
    return t.split(" ")[1]


def copt_z(s):
    return "None" if s == "err" else "(Some %s)" % cz(int(s))


def cobs(s):
    """Observed value as a Coq `obs`."""
    if s == "err":
        return "OErr"
    if s in ("T", "F"):
        return "(OBool %s)" % cbool(s == "T")
    if is_float(s):
        return "(OFloat %s)" % cz(fbits(s))
    if is_int(s):
        return "(OInt %s)" % cz(int(s))
    if s.startswith("["):
        body = s[1:-1]
        items = [x for x in body.split(",") if x != ""]
        if all(is_int(x) for x in items):
            return "(OInts [%s])" % "; ".join(cz(int(x)) for x in items)
    if s.startswith("s:"):
        return "(OStr [%s])" % "; ".join(cz(b) for b in s[2:].encode("utf8"))
    return None


def cnum(s):
    if is_float(s):
        return "(NFloat %s)" % cz(fbits(s))
    if is_int(s):
        return "(NInt %s)" % cz(int(s))
    return None


def copt_arg(s):
    return "None" if s == "None" else "(Some %s)" % cz(int(s))


def slice_overflows(a):
    """Does rangeValue.Slice leave the int64 range on these operands? (known finding class)"""
    s0, s1, s2 = int(a[0]), int(a[1]), int(a[2])
    lo, hi, st = [None if x == "None" else int(x) for x in a[-3:]]
    n = len(range(s0, s1, s2))
    i0, i1, k = slice(lo, hi, st).indices(n)
    if k > 0 and i1 < i0:
        i1 = i0
    if k < 0 and i0 < i1:
        i0 = i1
    qs = [s0 + s2 * i0, s0 + s2 * i1, s2 * k]
    return any(not (I64[0] <= q <= I64[1]) for q in qs)


def classify(c):
    """Stable key of the input class of a violating observation."""
    k, op, a = c["k"], c["op"], c["a"]
    if c["r"].startswith("panic"):
        if k.startswith("rng_slice") and slice_overflows(a):
            return "rng_slice:int64-overflow"
        return "panic:%s:%s" % (k, op)
    if k.startswith("rng_slice"):
        return "rng_slice:int64-overflow" if slice_overflows(a) else "rng_slice:%s" % op
    if k == "round_int":
        x = int(a[0])
        exact = False
        try:
            exact = int(float(x)) == x
        except OverflowError:
            pass
        return "math.round:int-not-representable-as-float" if not exact else "math.round:int"
    if k in ("bin", "cmp", "cmpif", "cmpfi", "mixif", "mixfi"):
        return "%s:%s" % (k, op_of(op))
    return "%s:%s" % (k, op)


FLOPS = {"+": "FADD", "-": "FSUB", "*": "FMUL", "/": "FDIV"}
ENUM_N = {"[]": 0, "['a']": 1, "['a', 'b']": 2, "('a', 'b', 'c')": 3, "{'a': 1, 'b': 2, 'c': 3, 'd': 4}": 4}
REPEAT_LEN = {"len('abc' * a0)": 3, "len(a0 * [1, 2, 3])": 3, "len((1, 2, 3) * a0)": 3, "len(b'abc' * a0)": 3,
              "len('' * a0)": 0, "len([] * a0)": 0}
PRINT_BASE = {"str(a0)": 10, "'%d' % a0": 10, "'%x' % a0": 16, "'%o' % a0": 8}


def cfloat(s):
    return "(float_of_bits %s)" % cz(fbits(s))


def cnumf(s):
    if is_float(s):
        return "(NFloat %s)" % cfloat(s)
    return "(NInt %s)" % cz(int(s))


def cbytes_z(text):
    return "[" + "; ".join("%d" % b for b in text.encode("utf8")) + "]"


def term(c, rep):
    """Coq `case` term for an observation, or None if this kind is not evaluated in Coq."""
    k, op, a, r = c["k"], c["op"], c["a"], c["r"]
    fb = cbool(rep == "fallback")
    arm = c.get("arm", 0)
    if r.startswith("panic"):
        return None
    o = cobs(r)
    if k == "bin":
        return "(CBin %s %s %s %s %s %d)" % (fb, BINOPS[op_of(op)], cz(int(a[0])), cz(int(a[1])), copt_z(r), arm)
    if k == "cmp":
        return "(CCmp %s %s %s %s %s)" % (fb, CMPS[op_of(op)], cz(int(a[0])), cz(int(a[1])), cbool(r == "T"))
    if k == "un":
        return "(CUn %s %s %s %s %d)" % (fb, UNOPS[op], cz(int(a[0])), cz(int(r)), arm)
    if k == "cmpif" and r in ("T", "F"):
        return "(CCmpIF %s %s %s %s %s)" % (fb, CMPS[op_of(op)], cz(int(a[0])), cz(fbits(a[1])), cbool(r == "T"))
    if k == "cmpfi" and r in ("T", "F"):
        return "(CCmpFI %s %s %s %s %s)" % (fb, CMPS[op_of(op)], cz(fbits(a[0])), cz(int(a[1])), cbool(r == "T"))
    if o is None:
        return None
    if k == "mixif" and op_of(op) in FLOPS:
        return "(CMixIF %s %s %s %s %s)" % (fb, FLOPS[op_of(op)], cz(int(a[0])), cz(fbits(a[1])), o)
    if k == "mixfi" and op_of(op) in FLOPS:
        return "(CMixFI %s %s %s %s %s)" % (fb, FLOPS[op_of(op)], cz(fbits(a[0])), cz(int(a[1])), o)
    if k == "truediv":
        return "(CTrueDiv %s %s %s %s)" % (fb, cz(int(a[0])), cz(int(a[1])), o)
    if k == "float_of_int":
        return "(CFloatOfInt %s %s %s)" % (fb, cz(int(a[0])), o)
    if k in ("int_of_int", "int_of_float"):
        return "(CIntOf %s 0 %s %s %d)" % (fb, cnumf(a[0]), o, arm)
    if k in ("floor_int", "floor_float"):
        return "(CIntOf %s 1 %s %s %d)" % (fb, cnumf(a[0]), o, arm)
    if k in ("ceil_int", "ceil_float"):
        return "(CIntOf %s 2 %s %s %d)" % (fb, cnumf(a[0]), o, arm)
    if k in ("str", "fmt") and op in PRINT_BASE and r.startswith("s:"):
        return "(CPrint %d %s %s)" % (PRINT_BASE[op], cz(int(a[0])), cbytes_z(r[2:]))
    if k == "parse":
        base = "None" if len(a) == 1 else "(Some %s)" % cz(int(a[1]))
        return "(CParse %s %s %s)" % (cbytes_z(a[0][2:]), base, o)
    if k == "rng_len":
        return "(CRngLen %s %s %s %s)" % (cz(int(a[0])), cz(int(a[1])), cz(int(a[2])), o)
    if k == "rng_idx":
        return "(CRngIdx %s %s %s %s %s)" % (cz(int(a[0])), cz(int(a[1])), cz(int(a[2])), cz(int(a[3])), o)
    if k in ("rng_in", "rng_inf"):
        return "(CRngIn %s %s %s %s %s %s)" % (fb, cz(int(a[0])), cz(int(a[1])), cz(int(a[2])), cnumf(a[3]), o)
    if k in ("rng_list", "rng_iter"):
        return "(CRngList %s %s %s %s)" % (cz(int(a[0])), cz(int(a[1])), cz(int(a[2])), o)
    if k == "rng_eq":
        return "(CRngEq %s %s %s)" % (" ".join(cz(int(x)) for x in a), cbool("!=" in op), o)
    if k in ("rng_slice", "rng_slice_len"):
        return "(CRngSlice %s %s %s %s)" % (" ".join(cz(int(x)) for x in a[:3]), " ".join(copt_arg(x) for x in a[3:6]),
                                         cbool(k == "rng_slice_len"), o)
    if k in ("repeat", "repeat_big") and op in REPEAT_LEN:
        return "(CRepeat %s %d %s %s)" % (fb, REPEAT_LEN[op], cz(int(a[0])), o)
    if k == "enum" and op.startswith("enumerate("):
        n = int(op[len("enumerate("):-len(", a0)")].split(":")[1])
        return "(CEnum %s %s %d %s)" % (fb, cz(int(a[0])), n, o)
    if k == "enum":
        inner = op[len("[p[0] for p in enumerate("):-len(", a0)]")]
        return "(CEnum %s %s %d %s)" % (fb, cz(int(a[0])), ENUM_N[inner], o)
    return None


def term_fd(c, rep):
    """Coq `fdcase` term (CasesFloatDiv.v) for an int-float / float-int `//` or `%` observation, or None."""
    k, op, a, r = c["k"], c["op"], c["a"], c["r"]
    if k not in ("mixif", "mixfi") or op_of(op) not in ("//", "%") or r.startswith("panic"):
        return None
    o = cobs(r)
    if o is None or not (o == "OErr" or o.startswith("(OFloat")):
        return None
    fb = cbool(rep == "fallback")
    ismod = cbool(op_of(op) == "%")
    if k == "mixif":
        return "(CFdIF %s %s %s %s %s)" % (fb, ismod, cz(int(a[0])), cz(fbits(a[1])), o)
    return "(CFdFI %s %s %s %s %s)" % (fb, ismod, cz(fbits(a[0])), cz(int(a[1])), o)


CAP_FD_QUICK = 24       # per (representation, kind, operator): at most 192 cases
CAP_FD_THOROUGH = 400   # at most 3200 cases


def fd_bucket(c):
    """Input class of a float //, % observation: sign relation of the operands, class of the float,
    magnitude band of the int, and whether the division is exact (remainder zero)."""
    from fractions import Fraction
    a = c["a"]
    if c["k"] == "mixif":
        xi, f, int_first = int(a[0]), fval(a[1]), True
    else:
        f, xi, int_first = fval(a[0]), int(a[1]), False
    if math.isnan(f) or math.isinf(f):
        fclass = "nonfinite"
    elif f == 0:
        fclass = "zero"
    else:
        fclass = "finite"
    si = (xi > 0) - (xi < 0)
    sf = -1 if math.copysign(1.0, f) < 0 else 1
    rel = "int0" if si == 0 else ("same" if si == sf else "diff")
    big = abs(xi) >= (1 << 53)
    div = None
    if fclass == "finite" and xi != 0 and abs(xi) < (1 << 1023):
        num, den = (Fraction(xi), Fraction(f)) if int_first else (Fraction(f), Fraction(xi))
        div = (num % den == 0)
    return (rel, fclass, big, div)


def sample_buckets(lst, cap, keyfn):
    """At most cap elements of lst, taken round-robin over the input classes (each class stride-sampled),
    so that every class present is represented before any class gets a second element."""
    if len(lst) <= cap:
        return lst
    buckets = {}
    for it in lst:
        buckets.setdefault(keyfn(it[1]), []).append(it)
    keys = sorted(buckets, key=repr)
    per = {k: 0 for k in keys}
    quota = 0
    while quota < cap:
        progressed = False
        for k in keys:
            if quota >= cap:
                break
            if per[k] < len(buckets[k]):
                per[k] += 1
                quota += 1
                progressed = True
        if not progressed:
            break
    out = []
    for k in keys:
        b, n = buckets[k], per[k]
        step = len(b) / float(n) if n else 0
        out.extend(b[int(i * step)] for i in range(n))
    return out

CAPS_QUICK = {"enum": 60, "bin": 300, "cmp": 80, "un": 40, "cmpif": 150, "cmpfi": 150, "mixif": 20, "mixfi": 20, "parse": 50,
              "rng_in": 60, "rng_idx": 60, "rng_slice": 40, "rng_slice_len": 40}
CAPS_THOROUGH = {"bin": 4000, "cmp": 1500, "cmpif": 2000, "cmpfi": 2000, "mixif": 600, "mixfi": 600, "parse": 1500,
                 "rng_in": 1500, "rng_idx": 1500}


def mod_sign_ok(c):
    """x % y with a float operand: the result has the divisor's sign (or is zero) and |r| <= |y|."""
    a = c["a"]
    vals = []
    for s in a:
        vals.append(fval(s) if is_float(s) else None)
    y = vals[1] if vals[1] is not None else None
    if y is None:
        try:
            y = float(int(a[1]))
        except OverflowError:
            return True
    r = fval(c["r"])
    if math.isnan(r) or math.isnan(y) or math.isinf(y):
        return True
    return (r == 0 or (r > 0) == (y > 0)) and abs(r) <= abs(y)


def run_harness(ctx, cmd, rep):
    """Run the harness; if the process dies (a fatal runtime error cannot be recovered in Go),
    run it again announcing each case first, so that the crashing input becomes the replay."""
    import json
    p = ctx.sh(cmd, timeout=600)
    lines = p.stdout.splitlines()
    if p.returncode != 0:
        ctx.log("harness (%s) died with rc=%s; tracing" % (rep, p.returncode))
        q = ctx.sh(cmd + ["-trace"], timeout=900)
        lines = q.stdout.splitlines()
        last = None
        for line in reversed(lines):
            if line.startswith('{"k":"pre"'):
                try:
                    last = json.loads(line)
                except ValueError:
                    continue
                break
        if q.returncode != 0 and last is not None:
            c = {"k": last["r"], "op": last["op"], "a": last["a"], "r": "crash", "w": "?", "rep": rep,
                 "stderr": q.stderr[:600]}
            ctx.finding("crash:%s:%s" % (last["r"], last["op"]),
                        "%s with operands %s (%s representation): the host process died (%s)" % (
                            last["op"], last["a"], rep, q.stderr.strip().splitlines()[0][:160] if q.stderr.strip() else "no message"), c)
        elif q.returncode != 0:
            from .lib import HarnessError
            raise HarnessError("harness failed rc=%s: %s" % (q.returncode, q.stderr[-2000:]))
    out = []
    for line in lines:
        line = line.strip()
        if line.startswith("{") and not line.startswith('{"k":"pre"'):
            try:
                out.append(json.loads(line))
            except ValueError:
                pass    # the line being written when the process died
    return out


def run(ctx):
    ctx.proofs()
    ok, log = ctx.coq_make(["C10/Cases.vo"])
    if not ok:
        ctx.broken("coq-build:C10/Cases.vo", log[-2000:])
    ok, log = ctx.coq_make(["C10/CasesFloatDiv.vo"])
    if not ok:
        ctx.broken("coq-build:C10/CasesFloatDiv.vo", log[-2000:])
    ctx.log("proofs audited: %d/%d" % (ctx.discharged, ctx.obligations))
    hx = ctx.go_build("c10")
    ctx.log("harness built")
    quick = ctx.quick()
    nrand = 120 if quick else 2000
    dist = {}
    evaluations = 0
    go_bad = 0
    pools = {}      # (rep, kind) -> list of (term, case)
    pools_fd = {}   # (rep, kind:operator) -> list of (fdcase term, case): float // and %
    seen = set()
    for rep in ("posix", "fallback"):
        cmd = [hx, "-seed", str(ctx.seed), "-n", str(nrand), "-rep", rep] + (["-small"] if quick else [])
        cases = run_harness(ctx, cmd, rep)
        ctx.log("harness (%s representation) produced %d observations" % (rep, len(cases)))
        for c in cases:
            if c["k"] == "summary":
                for kk, vv in c["counts"].items():
                    dist["%s/%s" % (rep, kk)] = vv
                continue
            if c["k"] == "uncovered":
                ctx.broken("coverage:" + c["op"], "%s accepts numbers but the C10 harness has no oracle for it (%s); add one to uniUnary/uniList/mathUnary/mathBinary" % (c["op"], c["r"]))
                continue
            evaluations += 1
            c["rep"] = rep
            r, w = c["r"], c["w"]
            # ---- oracle 1: the independent math/big computation in the harness
            ok = same(r, w) or w == "?" or (r == "err" and c.get("e"))
            if r.startswith("panic"):
                ok = False
            if ok and c["k"] in ("mixif", "mixfi") and w == "?" and is_float(r):
                ok = mod_sign_ok(c)
            if not ok:
                go_bad += 1
                what = "%s with operands %s (%s representation): implementation gave %s, exact result is %s%s" % (
                    c["op"], c["a"], rep, r[:120], w[:120], " (or an error)" if c.get("e") else "")
                ctx.finding(classify(c), what, c)
            # ---- candidates for Coq
            tf = term_fd(c, rep)
            if tf is not None and tf not in seen:
                seen.add(tf)
                pools_fd.setdefault((rep, "%s:%s" % (c["k"], op_of(c["op"]))), []).append((tf, c))
            t = term(c, rep)
            if t is None or t in seen:
                continue
            seen.add(t)
            pools.setdefault((rep, c["k"]), []).append((t, c))
    terms, refs = [], []
    per_kind = {}
    for (rep, kind), lst in sorted(pools.items()):
        cap = CAPS_QUICK.get(kind, 30) if quick else CAPS_THOROUGH.get(kind, 500)
        if len(lst) > cap:
            step = len(lst) / float(cap)
            lst = [lst[int(i * step)] for i in range(cap)]
        per_kind["%s/%s" % (rep, kind)] = len(lst)
        for t, c in lst:
            terms.append(t)
            refs.append(c)
    ctx.log("evaluating %d distinct cases in Coq (model and specification)" % len(terms))
    bad_model, bad_spec = coq_mismatches(ctx, "c10_cases", HEADER, terms, ["model_ok", "spec_ok"], shard=4000)
    for i in bad_spec:
        c = refs[i]
        why = "which C10.Spec rejects"
        if same(c["r"], c["w"]) and c.get("arm"):
            why = "numerically right but held in the %s arm of the Int union: not canonical (AsInt32 and the small fast paths misbehave on such a value)" % ("small" if c["arm"] == 1 else "*big.Int")
        ctx.finding(classify(c), "%s with operands %s (%s representation): implementation gave %s, %s" % (c["op"], c["a"], c["rep"], c["r"][:120], why), c)
    only_model = [i for i in bad_model if i not in set(bad_spec)]
    if only_model:
        c = refs[only_model[0]]
        ctx.broken("correspondence:C10.Model", "model and implementation differ on %d case(s) where the specification is met, e.g. %s" % (len(only_model), c))
    # ---- float // and % (eval.go Binary, Float.Mod, floor): ModelFloatDiv / CasesFloatDiv
    terms_fd, refs_fd = [], []
    for (rep, kind), lst in sorted(pools_fd.items()):
        lst = sample_buckets(lst, CAP_FD_QUICK if quick else CAP_FD_THOROUGH, fd_bucket)
        per_kind["%s/%s" % (rep, kind)] = len(lst)
        for t, c in lst:
            terms_fd.append(t)
            refs_fd.append(c)
    ctx.log("evaluating %d distinct float //, %% cases in Coq (model and independent nearest-even oracle)" % len(terms_fd))
    bad_model_fd, bad_spec_fd = coq_mismatches(ctx, "c10_fd_cases", HEADER_FD, terms_fd, ["model_ok_fd", "spec_ok_fd"], shard=1000)
    for i in bad_spec_fd:
        c = refs_fd[i]
        ctx.finding(classify(c), "%s with operands %s (%s representation): implementation gave %s, which is not %s" % (
            c["op"], c["a"], c["rep"], c["r"][:120],
            "the correctly rounded remainder of floored division (or the required error)" if op_of(c["op"]) == "%"
            else "the floor of the correctly rounded quotient (or the required error)"), c)
    only_model_fd = [i for i in bad_model_fd if i not in set(bad_spec_fd)]
    if only_model_fd:
        c = refs_fd[only_model_fd[0]]
        ctx.broken("correspondence:C10.ModelFloatDiv", "model and implementation differ on %d float //, %% case(s) where the specification is met, e.g. %s" % (len(only_model_fd), c))
    cov = {
        "evaluations": evaluations, "distinct_nontrivial": len(terms) + len(terms_fd),
        "rule": "ordered product of the boundary pool {0, +-1, +-2, +-3, +-7, +-10, +-2^31(+-1), +-2^32(+-1), +-2^53(+-1), +-2^63(+-1), +-2^64(+-1), ...} x itself x 10 binary operators x 6 comparisons, unary operators, shifts by boundary counts, seeded random magnitudes up to 2^200, ints x float pool (subnormals, +-0, +-inf, NaN, halves, neighbours of 2^31/2^32/2^53/2^63/2^64) for comparisons / mixed arithmetic / conversions, for every magnitude band 2^31..2^52 and both signs an int n against n+-0.5, n+-0.25 and the adjacent floats, for bands 2^53..2^1022 the nearest float, its neighbours and the ints adjacent to them (all six operators, both operand orders), int(string, base) on printed and corrupted literals, int source literals of every radix spelling (decimal, 0x, 0X, 0o, 0O, 0b, 0B; sizes around 2^31..2^200) through the real scanner with negation / printing / int(text, 0) cross-checks, every callable member of starlark.Universe and lib/math.Module that accepts ints (enumerated at run time; abs, min, max, sorted, chr, bytes, ... and all math functions) on the boundary pool, range/enumerate/repetition on a machine-int boundary pool, enumerate(iterable, start) and the element-walking built-ins over every kind of iterable (list, tuple, dict, set, range, str.elems/elem_ords/codepoints/codepoint_ords, bytes.elems, a host Iterable without length, a host Sequence), each in both Int representations; evaluations = observations checked against the math/big oracle in the harness, distinct = distinct terms additionally evaluated in Coq against C10.Model and C10.Spec; the int-float / float-int // and % observations (a stride sample per representation, operand order and operator) are evaluated against C10.ModelFloatDiv (correspondence) and the independent nearest-even rational oracle of CasesFloatDiv.v",
        "samples": refs[:3] + refs[len(refs) // 2: len(refs) // 2 + 2] + refs_fd[len(refs_fd) // 2: len(refs_fd) // 2 + 2],
        "distribution": dist,
        "coq_cases_per_kind": per_kind,
        "go_oracle_mismatches": go_bad, "model_mismatches": len(bad_model) + len(bad_model_fd),
        "spec_mismatches": len(bad_spec) + len(bad_spec_fd),
    }
    return ctx.finish(LEVEL, cov, assumptions=[
        "math/big (Int, Rat, Float), strconv and fmt integer formatting are oracles: modelled by Z operations / exact rationals",
        "math.Mod and math.Floor are oracles (exact remainder with the dividend's sign / exact floor, special cases as documented in package math; ModelFloatDiv.v)",
        "hardware float64 arithmetic and int64<->float64 conversion are oracles (Coq.Floats.SpecFloat round-to-nearest-even operations / exact dyadic rationals in the model)",
        "the harness reaches the fallback representation through the verif hook VerifDisableSmallInts (smallints = 0), which is what int_posix64.go does when mmap fails; int_generic.go is structurally the union model",
    ])
