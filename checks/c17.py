"""C17 -- compiled programs survive serialization unchanged (DESIGN.md section 8, C17)."""
import json
import os
import re

from .lib import coq_mismatches, strip_comments

LEVEL = "proof"
META = {
    "category": "proof",
    "text": "Coq theorems over a model of internal/compile/serial.go: Go's varint/uvarint codec defined and proved to round-trip for every int64/uint64 (with the truncated and overflow results), a schema-directed codec with the two sections of the wire format (program varints + string section referenced by lengths in lock step) proved to round-trip for every schema and every well-typed value with nothing left over and byte-identical re-encoding, the schema of Program/Funcode/Binding/constants written once in encoder order and once in decoder order and proved equal, hence decode(encode p) = p for every program within the ranges of the Go field types. The model is tied to /repo on every run: the real Program.Write bytes of compiled and synthetic programs must equal the model's encoding of the dump of every field, and the model's decoder must recover the dump from the real bytes; the direct property (same prints, globals, errors, backtraces, docstrings, parameter metadata, loads; same bytes on re-Write) is run on generated programs, the bytes being handed to the decoder through bytes.Buffer / bytes.Reader / bufio / os.File / a raw slice and destroyed (buffer reused for another program, slice overwritten, file rewritten) before the decoded program is executed and written again; programs are also written re-entrantly (a writer that saves another program inside Write), concurrently from several goroutines to slow writers, into pipes, files and bufio writers, each stream having to equal the program's lone encoding; truncated and corrupted files are decoded in sacrificial processes.",
    "note": "Trusted: Coq kernel + vm_compute; the Go harness and its program generator; math.Float64bits/Float64frombits as an oracle (a float constant is modelled by its bits); big.Int.Text(10)/SetString are modelled by Codec.print_dec/parse_dec (round trip proved, tied to the real text by the byte-level correspondence); the field lists of Program/Funcode are compared with compile.go textually; execution equivalence itself is observed on generated programs, the theorem is equality of every field the interpreter reads.",
    "technique": "Coq proof over executable model + differential correspondence (vm_compute) + decoder-side oracle + direct round-trip runs + corrupted-input runs in child processes",
}
HEADER = """From Coq Require Import ZArith Bool List String Ascii.
From SV Require Import Common.GoInt C17.Codec C17.Prog C17.Model C17.Spec.
Import ListNotations.
Open Scope Z_scope.
(* hex string literal -> bytes *)
Definition hexval (c : ascii) : Z :=
  let n := Z.of_N (N_of_ascii c) in
  if n <? 58 then n - 48 else n - 87.
Fixpoint H (s : string) : bytes :=
  match s with
  | String a (String b r) => (16 * hexval a + hexval b) :: H r
  | _ => []
  end.
"""
KINDS = {"string": "CString", "bytes": "CBytes", "int": "CInt", "float": "CFloat", "bigint": "CBigInt"}


def hexlist(h):
    """A byte string as a Coq term: short ones literally, long ones as a hex string literal
    decoded inside Coq (parsing long list literals dominates the run time otherwise)."""
    if not h:
        return "[]"
    return '(H "%s")' % h


def zlist(xs):
    return "[" + ";".join("(%d)" % x if x < 0 else str(x) for x in xs) + "]"


def z(x):
    return "(%d)" % x if x < 0 else "%d" % x


def cb(b):
    return "true" if b else "false"


def binding(b):
    return "(Build_binding %s %s %s)" % (hexlist(b["n"]), z(b["l"]), z(b["c"]))


def blist(bs):
    return "[" + "; ".join(binding(b) for b in bs or []) + "]"


def const(c):
    k = KINDS.get(c["k"])
    if k is None:
        return None
    if c["k"] == "bigint":
        try:
            return "(CBigInt %s)" % z(int(bytes.fromhex(c.get("s", "")).decode("ascii")))
        except ValueError:
            return None
    if c["k"] in ("string", "bytes"):
        return "(%s %s)" % (k, hexlist(c.get("s", "")))
    if c["k"] == "int":
        return "(CInt %s)" % z(c.get("i", 0))
    return "(CFloat %s)" % z(c.get("b", 0))


def funcode(f):
    return "(Build_funcode %s %s %s %s %s %s %s %s %s %s %s %s %s %s)" % (
        hexlist(f["name"]), z(f["line"]), z(f["col"]), hexlist(f["doc"]), hexlist(f["code"]), zlist(f["pclinetab"] or []),
        blist(f["locals"]), zlist(f["cells"] or []), blist(f["freevars"]), z(f["maxstack"]), z(f["numparams"]), z(f["numkwonly"]),
        cb(f["varargs"]), cb(f["kwargs"]))


def program(d):
    cs = [const(c) for c in d["constants"] or []]
    if any(c is None for c in cs):
        return None
    return "(Build_program %s %s %s %s %s %s %s %s)" % (
        hexlist(d["filename"]), blist(d["loads"]), "[" + "; ".join(hexlist(n) for n in d["names"] or []) + "]",
        "[" + "; ".join(cs) + "]", blist(d["globals"]), funcode(d["toplevel"]),
        "[" + "; ".join(funcode(f) for f in d["functions"] or []) + "]", cb(d["recursion"]))


def go_struct_fields(src, name):
    """Field names of `type <name> struct { ... }` in Go source text."""
    m = re.search(r"type\s+%s\s+struct\s*\{(.*?)\n\}" % name, src, re.S)
    if not m:
        return None
    out = []
    for line in m.group(1).splitlines():
        line = line.split("//")[0].strip()
        if not line:
            continue
        mm = re.match(r"([A-Za-z_][A-Za-z_0-9]*(?:\s*,\s*[A-Za-z_][A-Za-z_0-9]*)*)\s+\S", line)
        if mm:
            out += [x.strip() for x in mm.group(1).split(",")]
    return out


def coq_string_list(text, name):
    m = re.search(r"Definition\s+%s\s*:\s*list string\s*:=\s*\[(.*?)\]\." % name, text, re.S)
    return re.findall(r'"([^"]*)"', m.group(1)) if m else None


def check_field_lists(ctx):
    """The Go declarations of Program / Funcode / Binding still have the fields Spec.v lists."""
    spec = open(os.path.join(ctx.coqdir, "C17", "Spec.v")).read()
    try:
        src = open(os.path.join(ctx.repo, "internal", "compile", "compile.go")).read()
    except OSError as ex:
        ctx.broken("schema:fields", "cannot read compile.go: %s" % ex)
        return {}
    res = {}
    for go, coq in (("Program", "fields_Program"), ("Funcode", "fields_Funcode"), ("Binding", "fields_Binding")):
        want = coq_string_list(spec, coq)
        got = go_struct_fields(src, go)
        res[go] = got
        if got is None or want is None or sorted(got) != sorted(want):
            ctx.broken("schema:fields:" + go, "compile.go declares %s with fields %s, Spec.%s lists %s: the schema coverage theorem no longer speaks about the declaration" % (go, got, coq, want))
    return res


def par_mismatches(ctx, name, header, terms, fns, ways):
    """coq_mismatches over `ways` parallel coqc processes (type-checking the literal
    case terms dominates the cost; it parallelises perfectly)."""
    import concurrent.futures as cf
    n = len(terms)
    if n == 0:
        return [[] for _ in fns]
    size = max(1, (n + ways - 1) // ways)
    chunks = [(k, terms[k:k + size]) for k in range(0, n, size)]
    bad = [[] for _ in fns]
    with cf.ThreadPoolExecutor(max_workers=ways) as ex:
        futs = [(k, ex.submit(coq_mismatches, ctx, "%s_p%d" % (name, k), header, ch, fns, 400, 900)) for k, ch in chunks]
        for k, fu in futs:
            res = fu.result()
            for j in range(len(fns)):
                bad[j] += [k + i for i in res[j]]
    return bad


def replay(ctx, path):
    """Re-run one recorded failing input against the current tree."""
    rec = json.load(open(path))
    r = rec.get("replay", rec)
    hx = ctx.go_build("c17")
    tmp = os.path.join(ctx.build, "tmp", "c17_replay_input")
    if r.get("mode") == "corrupt":
        open(tmp, "w").write(r["hex"])
        out = ctx.jsonl([hx, "-mode", "hex", "-file", tmp], timeout=120)
        res = out[0]["result"] if out else "no answer"
        ctx.log("replay: DecodeProgram -> %s" % res)
        if res.split(" ")[0] in ("crash", "hang", "panic"):
            ctx.finding(rec.get("key", "decode:replay"), "replayed corrupted file: " + res, r)
    elif r.get("src") is not None:
        open(tmp, "wb").write(r["src"].encode("utf8", "surrogateescape"))
        out = ctx.jsonl([hx, "-mode", "src", "-file", tmp, "-filename", r.get("filename") or "prog.star", "-opts", r.get("opts") or ""], timeout=120)
        for c in out:
            if c.get("invalid"):
                ctx.log("replay: the program does not compile: " + c["invalid"])
            for d in c.get("diffs") or []:
                ctx.finding(d["key"], d["what"], r)
        ctx.log("replay: %d difference(s)" % sum(len(c.get("diffs") or []) for c in out))
    elif r.get("dump") and r.get("bytes"):
        p = program(r["dump"])
        header = HEADER + """
Definition spec_ok (c : program * bytes) : bool :=
  match decode_program (snd c) with DProgram p => program_eqb p (fst c) | _ => false end.
"""
        bad = coq_mismatches(ctx, "c17_replay", header, ["(%s, %s)" % (p, hexlist(r["bytes"]))], "spec_ok")
        ctx.log("replay: decoder oracle %s" % ("fails" if bad else "holds"))
        if bad:
            ctx.finding(rec.get("key", "wire:replay"), "decoding the recorded bytes with the decoder's schema does not give back the recorded fields", r)
    else:
        ctx.log("replay: nothing replayable in %s" % path)
    return ctx.finish(LEVEL, {"evaluations": 1, "distinct_nontrivial": 1, "rule": "replay of " + path})


def run(ctx):
    import concurrent.futures as cf
    if getattr(ctx, "replay_path", None):
        return replay(ctx, ctx.replay_path)
    ctx.proofs()
    ctx.log("proofs audited: %d/%d" % (ctx.discharged, ctx.obligations))
    fields = check_field_lists(ctx)
    hx = ctx.go_build("c17")
    ctx.log("harness built")
    quick = ctx.quick()
    seed = str(ctx.seed)
    pool = cf.ThreadPoolExecutor(max_workers=2)

    # ---------------------------------------------------------------- (a) direct round trip
    skip = os.environ.get("C17_SKIP", "")   # development only: letters a, b, c
    n_rt = 300 if quick else 8000
    if "a" in skip:
        n_rt = 1
    # (a) and (c) run in the background while Coq evaluates (b)
    n_cor = 100 if quick else 2000
    fut_rt = pool.submit(ctx.jsonl, [hx, "-mode", "rt", "-seed", seed, "-n", str(n_rt)], 800)
    fut_cor = pool.submit(lambda: [] if "c" in skip else ctx.jsonl([hx, "-mode", "corrupt", "-seed", seed, "-n", str(n_cor)], 800))
    rt = fut_rt.result()
    dist = {}
    invalid = 0
    nfail = nsat = nfuncs = 0
    for c in rt:
        if c.get("invalid"):
            invalid += 1
            continue
        for f in c.get("feats") or []:
            dist[f] = dist.get(f, 0) + 1
        if c.get("reader"):
            dist["input:" + c["reader"]] = dist.get("input:" + c["reader"], 0) + 1
        nfail += 1 if c.get("failed") else 0
        nsat += 1 if c.get("saturated") else 0
        nfuncs += c.get("nfuncs", 0)
        for d in c.get("diffs") or []:
            ctx.finding(d["key"], d["what"], {"mode": "rt", "src": c.get("src"), "opts": c.get("opts"), "filename": c.get("filename"), "id": c["id"], "seed": ctx.seed,
                                              "how": "bin/check C17 --replay <this file>  (c17 -mode src -file <src> -filename <filename> -opts '<opts>')"})
    ctx.log("(a) %d generated programs (%d rejected by the compiler), %d fail at run time, %d with saturated position deltas, %d function values compared"
            % (len(rt), invalid, nfail, nsat, nfuncs))
    if invalid > len(rt) // 20:
        ctx.broken("generator:C17", "%d of %d generated programs do not compile" % (invalid, len(rt)))

    # ---------------------------------------------------------------- (a') Write under every calling pattern
    n_wr = 10 if quick else 300
    wr = [] if "a" in skip else ctx.jsonl([hx, "-mode", "writers", "-seed", seed, "-n", str(n_wr)], timeout=800)
    nstreams = 0
    for c in wr:
        for k, v in (c.get("scenarios") or {}).items():
            dist["write:" + k] = dist.get("write:" + k, 0) + v
            nstreams += v
        for d in c.get("diffs") or []:
            if d["key"].startswith("generator:"):
                ctx.broken("generator:C17", d["what"])
                continue
            ctx.finding(d["key"], d["what"], {"mode": "writers", "id": c["id"], "seed": ctx.seed, "sizes": c.get("sizes"), "srcs": c.get("srcs"),
                                              "how": "c17 -mode writers -seed %s -n %d (case id=%d)" % (seed, c["id"] + 1, c["id"])})
    ctx.log("(a') %d groups of programs, %d written streams compared (re-entrant, concurrent, pipe, file, bufio writers)" % (len(wr), nstreams))

    # ---------------------------------------------------------------- (b) correspondence
    n_corr = 18 if quick else 1200
    corr = ctx.jsonl([hx, "-mode", "corr", "-seed", seed, "-n", str(n_corr)] + (["-small"] if quick else []), timeout=800)
    terms, refs, seen = [], [], set()
    cdist = {}
    unrenderable = 0
    for c in corr:
        if c.get("kind") != "corr":
            continue
        for d in c.get("diffs") or []:
            ctx.finding(d["key"], d["what"], {"mode": "corr", "origin": c["origin"], "src": c.get("src"), "opts": c.get("opts"),
                                              "dump": c["dump"], "bytes": c.get("bytes"), "class": c.get("class")})
        if not c.get("bytes"):
            continue
        p = program(c["dump"])
        if p is None:
            unrenderable += 1
            continue
        t = "(%s, %s)" % (p, hexlist(c["bytes"]))
        for k in c.get("class") or []:
            k = c["origin"] + ":" + k
            cdist[k] = cdist.get(k, 0) + 1
        if t in seen:
            continue
        seen.add(t)
        terms.append(t)
        refs.append(c)
    header = HEADER + """
Definition case := (program * bytes)%type.
(* correspondence: the model of the ENCODER reproduces the bytes Program.Encode wrote *)
Definition model_ok (c : case) : bool :=
  match encode_program (fst c) with Ok b => bytes_eqb b (snd c) | Err _ => false end.
(* oracle: decoding the real bytes with the DECODER schema gives back every field *)
Definition spec_ok (c : case) : bool :=
  match decode_program (snd c) with DProgram p => program_eqb p (fst c) | _ => false end.
(* the dump is within the ranges the theorems assume *)
Definition wt_ok (c : case) : bool := wt_program (fst c).
"""
    if quick and len(terms) > 44:
        # quick tier: a seed-dependent stride through the boundary pool (the thorough tier evaluates all of it)
        step = len(terms) // 44 + 1
        off = ctx.seed % step
        terms, refs = terms[off::step], refs[off::step]
    ctx.log("(b) evaluating %d distinct (dump, bytes) cases in Coq" % len(terms))
    bad_model, bad_spec, bad_wt = par_mismatches(ctx, "c17_cases", header, terms, ["model_ok", "spec_ok", "wt_ok"], 4 if quick else 8)
    drift = []
    for i in bad_spec:
        c = refs[i]
        cls = c.get("class") or ["?"]
        where = cls[0] if c["origin"] == "synthetic" else "compiled"
        if not c.get("diffs"):
            # the real decoder does give back every field of this program (the Go-side
            # comparison is clean) but the bytes are not in the modelled format: the wire
            # format moved on both sides; the property holds, the model is out of date
            drift.append(i)
            continue
        ctx.finding("wire:decoder-schema:" + where,
                    "decoding the bytes written by Program.Encode with the decoder's schema does not give back the program's fields",
                    {"mode": "corr", "origin": c["origin"], "src": c.get("src"), "dump": c["dump"], "bytes": c["bytes"], "class": c.get("class")})
    if drift:
        c = refs[drift[0]]
        ctx.broken("correspondence:C17.Model", "the wire format differs from the modelled schema on %d case(s) although the real round trip is clean there (encoder and decoder changed together?), e.g. class %s bytes %s"
                   % (len(drift), c.get("class"), c["bytes"][:200]))
    only_model = [i for i in bad_model if i not in set(bad_spec)]
    if only_model and not drift:
        c = refs[only_model[0]]
        ctx.broken("correspondence:C17.Model", "Program.Encode and the encoder model differ on %d case(s) where the decoder oracle is met, e.g. class %s bytes %s"
                   % (len(only_model), c.get("class"), c["bytes"][:200]))
    if bad_wt:
        c = refs[bad_wt[0]]
        ctx.broken("spec:wt_program", "a real compile.Program lies outside wt_program (the ranges assumed by the round-trip theorem), e.g. class %s" % c.get("class"))

    # ---------------------------------------------------------------- (c) corrupted input
    cor = fut_cor.result()
    csum = {}
    dcases, drefs, dseen = [], [], set()
    for c in cor:
        if c.get("kind") == "corrupt-fail":
            ctx.finding(c["key"], c["what"], {"mode": "corrupt", "class": c["class"], "hex": c["hex"],
                                              "how": "starlark.CompiledProgram(bytes.NewReader(<hex decoded>))"})
        elif c.get("kind") == "corrupt":
            csum = c
        elif c.get("kind") == "corrupt-case" and c["hex"] not in dseen:
            dseen.add(c["hex"])
            dcases.append("(%s, %s)" % (hexlist(c["hex"]), cb(c["ok"])))
            drefs.append(c)
    ctx.log("(c) %d corrupted files: %s" % (csum.get("cases", 0), csum.get("outcomes")))
    if quick and len(dcases) > 48:
        step = len(dcases) // 48 + 1
        off = ctx.seed % step
        dcases, drefs = dcases[off::step], drefs[off::step]
    # the decoder model reproduces accept / reject on the small corrupted files
    dheader = HEADER + """
Definition dec_ok (c : bytes * bool) : bool :=
  match decode_program (fst c) with DError _ => negb (snd c) | _ => snd c end.
"""
    bad_dec = par_mismatches(ctx, "c17_corrupt", dheader, dcases, ["dec_ok"], 4 if quick else 8)[0] if dcases else []
    if bad_dec:
        c = drefs[bad_dec[0]]
        ctx.broken("correspondence:C17.Model.decoder", "DecodeProgram and the decoder model disagree on accept/reject for %d of %d small corrupted files, e.g. class %s file %s: DecodeProgram %s"
                   % (len(bad_dec), len(dcases), c["class"], c["hex"], "accepted it" if c["ok"] else "returned an error"))

    samples = [{"origin": c["origin"], "class": c.get("class"), "bytes": c["bytes"][:120]} for c in refs[:2] + refs[len(refs) // 2: len(refs) // 2 + 2]]
    cov = {
        "evaluations": len(rt) + len(corr) + csum.get("cases", 0) + nstreams,
        "distinct_nontrivial": len(terms) + sum(1 for c in rt if not c.get("invalid")),
        "rule": "(a) seeded generated programs (constants of every kind, closures, all parameter shapes, loads, docstrings, lambdas, comprehensions, saturated position deltas, run-time failures below several frames, Recursion on/off): p vs CompiledProgram(Write(p)) on prints, globals, error, backtrace, call stack, per-function metadata, loads, filename, every dumped field, and byte-identical re-Write; "
                "(b) small compiled programs + synthetic programs (one field at a boundary value at a time over pools for int32/uint16/int64/float bits/bigint/strings, plus random field values): distinct (dump, bytes) pairs evaluated in Coq against the encoder model (model_ok), the decoder model (spec_ok) and wt_program; "
                "(c) every prefix, byte flips, bad magic/version/offset, overlong varints, huge and negative counts in place of every varint: decoded in child processes",
        "samples": samples,
        "distribution": {"rt_features": dist, "corr_classes": cdist, "corrupt": csum.get("by_class"), "corrupt_outcomes": csum.get("outcomes")},
        "rt_programs": len(rt), "rt_invalid": invalid, "rt_runtime_failures": nfail, "rt_saturated": nsat, "rt_function_values": nfuncs,
        "coq_cases": len(terms), "coq_corrupt_cases": len(dcases), "decoder_model_mismatches": len(bad_dec), "model_mismatches": len(bad_model), "spec_mismatches": len(bad_spec), "unrenderable": unrenderable,
        "go_struct_fields": fields,
    }
    return ctx.finish(LEVEL, cov, assumptions=[
        "math.Float64bits / Float64frombits are inverse bijections on 64-bit patterns (a float constant is modelled by its bits)",
        "big.Int.Text(10) is Codec.print_dec and SetString(.,10) is Codec.parse_dec (checked on the bytes of every bigint constant the harness produces; the round trip of the two is proved)",
        "encoding/binary varints are modelled by Codec.put_uvarint / uvarint (defined and proved in Coq; tied by the byte-level correspondence)",
        "programs below 4 GiB of encoded program section (the string-section offset is a uint32)",
        "execution is a function of the compiled program's fields, predeclared values and the thread (C01); the harness observes it on generated programs",
    ])
