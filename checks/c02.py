"""C02 -- no program or built-in call can crash the host (DESIGN.md section 8, C02)."""
import concurrent.futures as cf
import json
import os
import re
import subprocess

from .lib import cbool, clist, coq_mismatches, cz, env, VERIF

LEVEL = "other"
META = {
    "category": "other",
    "text": "Partial by nature: a Go panic, a nil dereference or an exhausted stack is a runtime event outside any Gallina model. "
            "Proved in Coq (coq/C02): the LOGIC that prevents them. (i) Fuelled models of the recursive value-graph traversals with exactly the guards the code has "
            "(Freeze per kind, writeValue with its path stack, CompareDepth with its depth counter, Tuple/Struct hashing, json.encode with its pointer path) over an object-graph heap "
            "(lists, dicts, sets, tuples, structs, closures with default values and cells, bound methods): for EVERY finite heap the interpreter can build, cyclic ones included, "
            "the recursion depth is bounded by a function of the heap size (freeze_total, compare_total, hash_total, json_emit_total: all heaps; write_value is REFUTED for the code as it is "
            "-- a struct inside a list inside itself, Struct.String restarts the cycle path -- and characterised exactly: write_value_ends_iff_no_struct_cycle (printing never ends, for any fuel, iff a detector traversal finds a struct re-entered while open; "
            "otherwise it ends within (size+2)^3 nested calls), plus the partial statements for heaps without structs / with structs of immutable data and the full statement for the repair `Struct.String hands the path on`). "
            "(ii) A table of the 102 functions with the built-in signature (argument-unpacking call, min/max positional arguments, interface-typed destination variables that stay nil, "
            "method calls on them, nil / len(args) tests, args[i] uses) with arity_table_safe and arity_no_panic (no accepted argument count reaches a nil dereference or an out-of-range args[i]); "
            "the table is re-derived from the Go source (go/ast) on every run and compared. "
            "Explored on the real implementation, every case in a CHILD process (value / error / recovered panic / fatal error / timeout observed from outside): "
            "(1) every universe built-in, every method of string/bytes/list/dict/set/time (several receivers: empty, frozen, mid-iteration, self-containing), struct, module, json/math/time members "
            "x argument tuples from a pool of ~58 edge values (quick tier: full product for arity 0-1, a 12-value boundary sub-pool for arity 2 (all callables) and arity 3 (one receiver per type), and a seeded sample with keyword arguments up to arity 4; thorough tier: full product up to arity 3); every returned value is checked for nil elements and then frozen, hashed and printed; plus block T: every text-parsing built-in (format fields/specs, % verbs, int(s, base), float(s), json.decode/indent, parse_duration, parse_time and layouts, CompiledProgram, source string literals) x digit strings around every machine boundary (2^7..2^128, 10^9..10^21, +-1, 19/20/21 digits, leading zeros, signs, blanks, 4000 digits) in every numeric position, and x every prefix / suffix / single-byte deletion of valid inputs of each decoder (for the template, expression and JSON parsers -- format, %, json.decode, starlark.Eval, ExecFile, string literals -- also every substring of the short inputs and every single token deleted / doubled); "
            "plus block O: the operators themselves (starlark.Unary / Binary / Compare: what the VM's instructions call) over the pool and integers around every representation boundary (+-2^7..+-2^64, each +-1), every result then printed, hashed, tested, frozen, added to and compared with itself; (2) cyclic value graphs (fixed shapes + seeded random graphs, closures over still-unassigned variables included: nil cells) under str/repr/==/!=/</hash/freeze/json.encode/sorted/in/index/%-format/print, with the Coq model evaluated on the same heap "
            "(predicted class value/error/never-ends must equal the observed one); "
            "(3) source texts up to 64 KiB x FileOptions: 60+ nesting/chain/huge-literal generators at sizes up to the 64 KiB limit, call-shape programs (about 25 kinds of callee called through the VM's CALL with f(**m), f(1, **m), f(x=1, **m), f(*s), f(*s, **m) for mappings with non-string / mixed / 300 keys / self-containing and non-mapping operands), escape programs (*args / **kwargs values returned or stored and used after the caller went on creating closures and temporaries at several operand-stack depths), generated valid programs (with closures over never / conditionally / later assigned locals reachable from globals and defaults), every prefix of three lexically dense programs and each of them with every single token deleted / doubled, token-level mutations, byte soup, each with a finite step budget.",
    "note": "Trusted: Coq kernel + vm_compute; the harness (child-process protocol, classification of a death by its stderr), the Go AST walker, this file. "
            "Not modelled: dict keys and set elements that are not atoms, Module values, the depth of the recursive-descent parser/resolver/compiler on acyclic input (only explored: 32 K nested brackets fit Go's 1 GB stack), "
            "allocation sizes. Read as outside the claim (counted in the evidence, not findings): out-of-memory deaths and `makeslice: len out of range` when the value to materialise is range(1<<62) (a single huge allocation), "
            "and wall-clock timeouts of built-ins iterating range(1<<62) (unbounded work without steps is C07's subject). "
            "Known finding: printing a value graph with a cycle through a struct overflows the stack (Struct.String has no access to writeValue's path; a repair needs an API across packages).",
    "technique": "Coq proof of the guard logic (termination measures over object graphs, computed arity table) + child-process exploration + model/implementation class correspondence (vm_compute)",
}

OPS_MODELLED = {"str": 0, "repr": 0, "eq_self": 1, "eq": 2, "neq": 3, "lt": 4, "hash": 5, "freeze": 6, "json": 7, "freeze_str": 8, "print": 0}
HEADER = ("From Coq Require Import ZArith List Bool String.\nImport ListNotations.\n"
          "From SV Require Import C02.Model C02.Spec C02.Arity C02.ArityTable.\nOpen Scope Z_scope.\n")


# ---------------------------------------------------------------- Coq rendering
def cnat_list(xs):
    return "[" + "; ".join("%d%%nat" % x for x in xs) + "]"


class Interner:
    def __init__(self):
        self.d = {}

    def get(self, s):
        return self.d.setdefault(s, len(self.d))


def render_key(k, strs):
    if k.startswith("i:"):
        return "(KInt %s)" % cz(int(k[2:]))
    return "(KStr %d%%nat)" % strs.get(k[2:])


def render_obj(o, strs):
    k = o["kind"]
    ch = o.get("ch") or []
    if k == "none":
        return "ONone"
    if k == "int":
        return "(OInt %s)" % cz(int(o.get("val", 0)))
    if k == "list":
        return "(OList %s)" % cnat_list(ch)
    if k == "tuple":
        return "(OTuple %s)" % cnat_list(ch)
    if k == "dict":
        return "(ODict [%s])" % "; ".join("(%s, %d%%nat)" % (render_key(kk, strs), c) for kk, c in zip(o.get("keys") or [], ch))
    if k == "set":
        return "(OSet [%s])" % "; ".join(cz(int(v)) for v in (o.get("ints") or []))
    if k == "struct":
        return "(OStruct [%s])" % "; ".join("(%d%%nat, %d%%nat)" % (strs.get(kk), c) for kk, c in zip(o.get("keys") or [], ch))
    if k == "func":
        return "(OFunc %s %s)" % (cnat_list(ch), cnat_list(o.get("cells") or []))
    if k == "builtin":
        r = o.get("recv", -1)
        return "(OBuiltin %s)" % ("None" if r < 0 else "(Some %d%%nat)" % r)
    raise ValueError(k)


def render_heap(g):
    strs = Interner()
    objs = "[" + "; ".join(render_obj(o, strs) for o in g["objs"]) + "]"
    cells = "[" + "; ".join("None" if c < 0 else "Some %d%%nat" % c for c in (g.get("cells") or [])) + "]"
    return "{| objs := %s; cellv := %s |}" % (objs, cells)


def render_case(g, op, cls):
    return "(mkcase %s %d%%nat %d%%nat %d%%nat %s)" % (render_heap(g), OPS_MODELLED[op], g["root"], g["other"],
                                                     {"value": "CValue", "error": "CError", "crash": "CCrash"}[cls])


def cstr(s):
    return '"%s"%%string' % s.replace('"', '""')


def render_row(r):
    kind = {"positional": "UPositional", "named": "UNamed", "named-kwonly": "UNamedKwOnly", "none": "UNone"}[r["unpack"]]
    vs = "; ".join("av %s %s %s %s %s" % (cstr(v["name"]), cbool(v["iface"]), cbool(v["init"]), cbool(v["deref"]), cbool(v["nilcheck"]))
                   for v in (r.get("vars") or []))
    return "mkrow %s %s %s %d %d [%s] %d %s" % (cstr(r["file"]), cstr(r["func"]), kind, max(r["min"], 0), r["max"], vs, r["argindex"], cbool(r["lencheck"]))


def arity_table_text(rows):
    body = ";\n  ".join(render_row(r) for r in rows)
    return ("(* GENERATED from the Go source by `harness/cmd/c02 arity` at the time this file was written;\n"
            "   checks/c02.py re-derives the rows on every run and compares them with this table. *)\n"
            "From Coq Require Import List String.\nImport ListNotations.\nFrom SV Require Import C02.Arity.\nOpen Scope string_scope.\n\n"
            "Definition arity_table : list row := [\n  %s\n]%%list.\n" % body).replace('%string', '')


# ----------------------------------------------------------------------- running
def run_mode(ctx, hx, mode, extra):
    cmd = [hx, mode, "-tier", ctx.tier, "-seed", str(ctx.seed)] + extra
    p = subprocess.run(cmd, env=env(), capture_output=True, text=True, timeout=3600, errors="replace")
    if p.returncode != 0:
        from .lib import HarnessError
        raise HarnessError("harness %s failed rc=%s:\n%s" % (mode, p.returncode, p.stderr[-3000:]))
    outs, obs, summ = [], [], None
    for line in p.stdout.splitlines():
        if not line.startswith("{"):
            continue
        d = json.loads(line)
        if d["kind"] == "outcome":
            outs.append(d["o"])
        elif d["kind"] == "obs":
            obs.append(d)
        elif d["kind"] == "summary":
            summ = d
    return outs, obs, summ


OUTSIDE = re.compile(r"(:unbounded-work-on-huge-argument$)")


def classify_outcome(o):
    """finding | outside (counted, not a finding) -- see META note."""
    key = o["key"]
    if o["class"] == "oom":
        return "outside:out-of-memory"
    if o["mode"] == "calls":
        huge_range = any(a == "range(1<<62)" for a in (o["case"].get("args") or []) + [kv[1] for kv in (o["case"].get("kwargs") or [])])
        if OUTSIDE.search(key):
            return "outside:unbounded-iteration-of-range(1<<62)"
        if o["class"] == "panic" and "makeslice" in o.get("detail", "") and huge_range:
            return "outside:single-huge-allocation(makeslice on range(1<<62))"
        if o["class"] == "timeout" and o["case"].get("huge"):
            return "outside:unbounded-iteration-of-range(1<<62)"
    return "finding"


def what_of(o):
    c = o["case"]
    if o["mode"] == "calls":
        inp = c.get("call")
    elif o["mode"] == "cycles":
        inp = "%s on graph %s: %s" % (c.get("op"), c["graph"].get("shape"), (c.get("source") or "").replace("\n", "; ")[:300])
    else:
        inp = "%s (FileOptions bits %s): %s" % (c.get("recipe"), c.get("opts"), (c.get("head") or "")[:120].replace("\n", "\\n"))
    return "%s: %s %s [%s]; confirmed alone: %s" % (inp, o["class"], o.get("detail", "")[:160], o.get("frames", ""), o.get("confirmed"))


def row_safe_py(r):
    lc = r["lencheck"]
    for i, v in enumerate(r.get("vars") or []):
        if i >= r["min"] and v["iface"] and v["deref"] and not (v["nilcheck"] or v["init"] or lc):
            return False
    if r["unpack"] == "positional":
        return r["argindex"] <= r["min"] or lc
    return r["argindex"] == 0 or lc


def replay(ctx, hx):
    doc = json.load(open(ctx.replay_path))
    if doc.get("replay", {}).get("mode") == "arity":
        want = doc["replay"]["row"]["func"]
        rows = [d["row"] for d in ctx.jsonl([hx, "arity", "-repo", ctx.repo]) if d["row"]["func"] == want]
        for r in rows:
            print(json.dumps({"row": r, "safe": row_safe_py(r)}))
        return 1 if any(not row_safe_py(r) for r in rows) else 0
    p = subprocess.run([hx, "replay", ctx.replay_path], env=env(), capture_output=True, text=True, timeout=600)
    print(p.stdout.strip() or p.stderr[-2000:])
    for line in p.stdout.splitlines():
        if line.startswith("{"):
            d = json.loads(line)
            return 1 if d.get("class") in ("panic", "fatal", "timeout") else 0
    return 2


def run(ctx):
    hx = ctx.go_build("c02")
    if getattr(ctx, "replay_path", None):
        return replay(ctx, hx)
    ctx.proofs()
    quick = ctx.quick()
    workers = "4" if quick else "6"
    jobs = {
        "calls": ["-workers", workers],
        "cycles": ["-workers", workers, "-emit", "-n", "100" if quick else "2000"],
        "src": ["-workers", workers],
    }
    results = {}
    with cf.ThreadPoolExecutor(max_workers=3) as ex:
        futs = {ex.submit(run_mode, ctx, hx, m, a): m for m, a in jobs.items()}
        for fu in cf.as_completed(futs):
            results[futs[fu]] = fu.result()
            ctx.log("mode %s done: %s" % (futs[fu], json.dumps(results[futs[fu]][2]["s"]["counts"])))

    outside = {}
    crashed_cycle = {}
    total = 0
    dist = {}
    counts = {}
    samples = []
    for mode, (outs, obs, summ) in results.items():
        total += summ["s"]["ran"]
        counts[mode] = summ["s"]["counts"]
        dist[mode] = dict(sorted(summ["s"].get("dist", {}).items())[:400]) if mode != "cycles" else {"graphs x ops": summ["s"]["ran"]}
        for o in outs:
            cl = classify_outcome(o)
            if cl != "finding":
                outside.setdefault(cl, []).append(o["case"].get("call") or o["key"])
                continue
            if o.get("confirmed") in ("value", "error", "no-failure"):
                # died under the reduced stack limit only: a deep but finite recursion, not a crash
                outside.setdefault("outside:finite-recursion-deeper-than-the-reduced-stack", []).append(o["key"])
                continue
            ctx.finding(o["key"], what_of(o), o)
        samples += [o["case"].get("call") or o["case"].get("recipe") or o["case"].get("op") for o in outs[:2]]

    # ---- arity table: re-derive from the source, compare with coq/C02/ArityTable.v, evaluate row_safe
    rows = [d["row"] for d in ctx.jsonl([hx, "arity", "-repo", ctx.repo])]
    terms = ["(%s)" % render_row(r) for r in rows]
    text = HEADER + "Definition derived : list row := [\n" + ";\n".join(terms) + "].\n" + """
Definition unsafe := Eval vm_compute in map r_func (filter (fun r => negb (row_safe r)) derived).
Print unsafe.
Definition missing := Eval vm_compute in map r_func (filter (fun r => negb (existsb (row_eqb r) arity_table)) derived).
Print missing.
Definition stale := Eval vm_compute in map r_func (filter (fun r => negb (existsb (row_eqb r) derived)) arity_table).
Print stale.
"""
    out, rc = ctx.coq_run("c02_arity", text)
    if rc != 0:
        ctx.broken("arity:evaluation", out[-2000:])
    else:
        def names(tag):
            m = re.search(tag + r"\s*=\s*(.*?)\s*:\s*list string", out, re.S)
            return re.findall(r'"([^"]*)"', m.group(1)) if m else None
        unsafe, missing, stale = names("unsafe"), names("missing"), names("stale")
        byname = {r["func"]: r for r in rows}
        for fn in unsafe or []:
            r = byname.get(fn, {})
            ctx.finding("arity:%s" % fn, "built-in %s (%s:%s) can reach a nil dereference or an out-of-range args[i] for an accepted argument count: %s" % (
                fn, r.get("file"), r.get("line"), json.dumps(r)[:600]), {"mode": "arity", "row": r})
        if (missing or stale) and not unsafe:
            ctx.broken("arity:table", "coq/C02/ArityTable.v no longer describes the source: changed/new rows %s, rows without a counterpart %s" % (missing, stale))
        ctx.notes.append("arity rows derived from source: %d; unsafe: %s; differing from ArityTable.v: %s / %s" % (len(rows), unsafe, missing, stale))

    # ---- model / implementation correspondence on the cyclic graphs
    outs, obs, summ = results["cycles"]
    cases, refs, seen = [], [], set()
    for d in obs:
        if d["op"] in OPS_MODELLED and d["class"] in ("value", "error"):
            t = render_case(d["graph"], d["op"], d["class"])
            if t not in seen:
                seen.add(t)
                cases.append(t)
                refs.append(d)
    for o in outs:
        c = o["case"]
        if c["op"] in OPS_MODELLED and o["class"] == "fatal":
            t = render_case(c["graph"], c["op"], "crash")
            if t not in seen:
                seen.add(t)
                cases.append(t)
                refs.append({"graph": c["graph"], "op": c["op"], "class": "crash", "source": c.get("source")})
    ctx.log("evaluating %d distinct (graph, operation, observed class) cases in Coq" % len(cases))
    bad_model, bad_spec, bad_det = coq_mismatches(ctx, "c02_cases", HEADER, cases, ["model_ok", "spec_ok", "detector_ok"], shard=1500)
    if bad_det and not bad_model:
        ctx.broken("correspondence:C02.detector", "the struct-cycle detector (wv_check) and the implementation disagree on %d printing case(s), e.g. %s" % (len(bad_det), json.dumps(refs[bad_det[0]])[:600]))
    # spec failures are the crashes themselves (already findings through their keys)
    only_model = [i for i in bad_model]
    known_crash_keys = set(f.key for f in ctx.findings)
    mism = []
    for i in only_model:
        r = refs[i]
        mism.append(r)
    if mism:
        r = mism[0]
        # a crash the model does not predict (or a predicted one that does not happen)
        crashes = [m for m in mism if m["class"] == "crash"]
        if crashes:
            r = crashes[0]
            ctx.finding("cycle-unpredicted:%s" % r["op"], "the traversal model (guards as in coq/C02/Model.v code_guards) predicts termination but the implementation crashed: %s" % json.dumps(r)[:800],
                        {"mode": "cycles", "case": {"graph": r["graph"], "op": r["op"]}})
        ctx.broken("correspondence:C02.Model", "model and implementation classes differ on %d case(s), e.g. %s" % (len(mism), json.dumps(r)[:800]))

    cov = {
        "evaluations": total,
        "distinct_nontrivial": len(cases) + sum(v for m in ("calls", "src") for k, v in counts[m].items() if k in ("value", "error")),
        "rule": "calls: enumeration by index of (callable incl. receiver variant, argument tuple, keyword list) -- full product for arity 0-1 over the whole pool, arity 2 (all callables) and arity 3 (one receiver variant per type) over the 12-value boundary sub-pool (quick) / full product arity<=2 for all callables and arity 3 for one receiver variant per type (thorough; without the two unbounded-work values and the self-containing struct whose printing is the known finding), seeded sample up to arity 4 with keywords; "
                "cycles: 18 fixed shapes + seeded random graphs x 16 operations, each (graph, op) a separate case; src: every nesting generator x sizes {3,40,300,2000,(9000),max<=64KiB} x FileOptions (one combination per case in quick; thorough: all 64 combinations for sizes <= 300 and 8 combinations -- none, all, each option alone -- for the larger sizes) + seeded valid/mutated/byte-soup programs; "
                "distinct = distinct Coq-evaluated (heap, op, class) terms + calls/sources that returned value-or-error",
        "counts_per_mode": counts, "distribution": dist, "samples": samples[:8],
        "outside_the_claim": {k: sorted(set(v))[:40] for k, v in outside.items()},
        "model_mismatches": len(bad_model), "crash_cases_in_coq": len(bad_spec),
        "arity_rows": len(rows),
    }
    return ctx.finish(LEVEL, cov, assumptions=[
        "a death of the child process is classified by its stderr (fatal error / panic / out of memory) and its exit; a case is re-run alone with Go's default stack limit (128 MB in the quick tier) before it is reported",
        "heaps of the model: dict keys and set elements are atoms; immutable aggregates (tuple, struct, bound method, default values) refer only to older objects (wf_heap)",
        "out-of-memory, makeslice on range(1<<62) and unbounded iteration of range(1<<62) are read as outside the claim (single huge allocation / work without steps)",
    ])
