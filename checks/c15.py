"""C15 -- printed values read back as the same values (DESIGN.md section 8, C15)."""
import struct

from .lib import cbool, coq_mismatches

LEVEL = "proof"
META = {
    "category": "proof",
    "text": "Coq theorems over a branch-by-branch model of syntax.Quote, unquote and the scanner's string-literal loop, with Go's UTF-8 codec defined in Coq and proved to round-trip (and to accept only canonical encodings of scalar values): for ALL well-formed UTF-8 strings unquote(Quote(s,false)) = s and for ALL byte strings unquote(Quote(b,true)) = b (induction over the string with the UTF-8 decoder in the loop; strconv.IsPrint is a parameter constrained by one hypothesis that the harness checks against the real function over every code point); the scanner reads Quote(s,b) followed by any continuation as exactly one STRING/BYTES token with value s; Quote(s,b) denotes s according to an independent single-pass literal reader written from the language specification, and the scanner+unquote model (r/b/rb prefix dispatch, single- and triple-quoted scan loops with CR/CRLF handling and backslash skipping, then unquote with every escape form and every error exit) returns the same token extent, value, string/bytes kind and the same accept/reject verdict as that reader on EVERY well-formed UTF-8 source text of any length (scan_agrees_with_spec, by induction over the source; the hypothesis is necessary for the value only: on ill-formed UTF-8 the scanner substitutes U+FFFD, and scan_accepts_same_extent proves for EVERY byte string whatsoever that both reject or both accept with the same kind and the same remaining input), cross-checked by complete enumeration in Coq of the 8.1 million source texts of length <= 6 over the 14 syntax-relevant characters; the value printer (None/bool/int/float/string/bytes/list/tuple/dict, one-element tuple comma, cycle marker) is modelled and every printed value of the universe, nested arbitrarily, reads back as the same value with the same types (float leaf = named strconv oracle); printing terminates on every cyclic heap and prints shared (acyclic) substructure in full. The models are hand-written and tied to /repo on every run: the real Quote, unquote, scanner, repr, str and Eval run on generated strings / literals / values and the observations are evaluated inside Coq against the model (correspondence) and against the specification reader (oracle); the law Eval(repr(v)) == v (same type at every level, floats bit-identical) and unquote(Quote(s)) == s are also checked directly on the implementation (every code point and every byte pair in the thorough tier).",
    "note": "Trusted: Coq kernel + vm_compute; the correspondence harness; strconv.IsPrint (parameter + checked hypothesis), strconv shortest float formatting / ParseFloat and big.Int decimal conversion as named oracles; unicode/utf8 is defined in Coq and cross-checked; the parser beyond literals/displays/unary minus is not modelled (C14).",
    "technique": "Coq proof over executable model + differential correspondence (vm_compute) + Spec.v oracle + direct round-trip on the implementation",
}
HEADER = ("From Coq Require Import NArith ZArith List Bool String Ascii.\n"
          "From SV Require Import C15.Utf8 C15.Float C15.Quote C15.Spec C15.Value.\n"
          "Import ListNotations.\nOpen Scope N_scope.\n")

HEXDEF = r"""
(* byte strings are passed as hexadecimal string literals (cheap to elaborate) *)
Definition hv (a : ascii) : N := let n := N_of_ascii a in if (n <? 58)%N then (n - 48)%N else (n - 87)%N.
Fixpoint hx (s : string) : list N :=
  match s with String a (String b r) => (16 * hv a + hv b)%N :: hx r | _ => [] end.
"""
PRELUDE = HEXDEF + r"""
Definition mem (l : list N) (r : N) : bool := existsb (N.eqb r) l.
Inductive sobs := SErr | SOk (is_bytes : bool) (v : list N) (rest : list N).
Inductive uobs := UErr | UOk (v : list N) (triple is_bytes : bool).
Inductive case :=
| CQuote (s : list N) (b : bool) (pr : list N) (q : list N)
| CScan (src : list N) (o : sobs)
| CUnq (lit : list N) (o : uobs)
| CUtf8 (s : list N) (r : N) (w : nat) (valid : bool)
| CEnc (r : N) (enc : list N).
Definition sobs_eqb (a b : sobs) : bool :=
  match a, b with
  | SErr, SErr => true
  | SOk b1 v1 r1, SOk b2 v2 r2 => Bool.eqb b1 b2 && bytes_eqb v1 v2 && bytes_eqb r1 r2
  | _, _ => false
  end.
Definition model_scan (src : list N) : sobs :=
  match scan_literal src with
  | Ok (TBytes, v, rest) => SOk true v rest
  | Ok (TString, v, rest) => SOk false v rest
  | Err => SErr
  end.
Definition spec_scan (src : list N) : sobs :=
  match spec_literal src with
  | Some (b, v, rest) => SOk b v rest
  | None => SErr
  end.
(* correspondence: the executable model reproduces what the implementation did *)
Definition model_ok (c : case) : bool :=
  match c with
  | CQuote s b pr q => bytes_eqb (quote (mem pr) s b) q
  | CScan src o => sobs_eqb (model_scan src) o
  | CUnq lit o =>
    match unquote lit, o with
    | Err, UErr => true
    | Ok (v, t, b), UOk v' t' b' => bytes_eqb v v' && Bool.eqb t t' && Bool.eqb b b'
    | _, _ => false
    end
  | CUtf8 s r w valid =>
    let '(r', w') := utf8_decode s in (r' =? r) && Nat.eqb w' w && Bool.eqb (valid_utf8 s) valid
  | CEnc r enc => bytes_eqb (utf8_encode r) enc
  end.
(* oracle: what the implementation printed denotes the input according to the
   language specification's literal syntax; what it scanned is what the
   specification's reader reads (sources in the specified domain: valid UTF-8) *)
Definition spec_ok (c : case) : bool :=
  match c with
  | CQuote s b pr q =>
    if b || valid_utf8 s then sobs_eqb (spec_scan (q ++ [32; 93])) (SOk b s [32; 93]) else true
  | CScan src o => negb (valid_utf8 src) || sobs_eqb (spec_scan src) o
  | _ => true
  end.
"""


def par_mismatches(ctx, name, header, cases, fns, shard=500, workers=6, timeout=900):
    """coq_mismatches (lib.py) with the shards evaluated concurrently through `coqtop -batch`
    (no .vo is written: dumping the large `cases` term costs more than evaluating it)."""
    import concurrent.futures as cf
    import os
    import re
    from .lib import HarnessError
    d = os.path.join(ctx.build, "tmp")
    bad = [[] for _ in fns]

    def one(off):
        chunk = cases[off:off + shard]
        text = header + "\nDefinition cases := [\n" + ";\n".join(chunk) + "].\n"
        text += ("Fixpoint idx_false {A} (f : A -> bool) (i : nat) (l : list A) : list nat :=\n"
                 "  match l with [] => [] | x :: r => if f x then idx_false f (S i) r else i :: idx_false f (S i) r end.\n")
        for k, fn in enumerate(fns):
            text += "Definition M%d := Eval vm_compute in idx_false (%s) 0 cases.\nPrint M%d.\n" % (k, fn, k)
        f = os.path.join(d, "%s_%d_%d.v" % (name, os.getpid(), off))
        open(f, "w").write(text)
        p = ctx.sh(["coqtop", "-q", "-batch", "-w", "-notation-overridden", "-Q", ctx.coqdir, "SV", "-l", f], cwd=d, timeout=timeout)
        try:
            os.remove(f)
        except OSError:
            pass
        return off, p.stdout + p.stderr, p.returncode

    with cf.ThreadPoolExecutor(max_workers=workers) as ex:
        for off, out, rc in ex.map(one, range(0, len(cases), shard)):
            if rc != 0:
                raise HarnessError("coq evaluation of cases failed:\n" + out[-3000:])
            for k in range(len(fns)):
                m = re.search(r"M%d\s*=\s*(.*?)\s*:\s*list nat" % k, out, re.S)
                if not m:
                    raise HarnessError("cannot parse coq output:\n" + out[-2000:])
                body = m.group(1).strip()
                if body != "[]":
                    bad[k].extend(off + int(t) for t in re.findall(r"\d+", body))
    return bad


_groups = {}


def finding(ctx, key, what, replay, cap=3):
    """ctx.finding, at most `cap` distinct keys per key group (text before the first colon):
    one broken rule shows up in many input classes; a handful of replays is enough."""
    g = key.split(":")[0]
    ks = _groups.setdefault(g, set())
    if key not in ks and len(ks) >= cap:
        return
    ks.add(key)
    ctx.finding(key, what, replay)


def hb(h):
    return '(hx "%s"%%string)' % h if h else "[]"


def nl(xs):
    return "[" + "; ".join(str(x) for x in xs) + "]"


def string_terms(cases):
    terms, refs = [], []
    for c in cases:
        k = c["kind"]
        if k == "quote":
            t = "(CQuote %s %s %s %s)" % (hb(c["s"]), cbool(c["b"]), nl(c["print"]), hb(c["q"]))
        elif k == "scan":
            o = c["obs"]
            if o.get("err"):
                ot = "SErr"
            else:
                src = bytes.fromhex(c["src"])
                rest = src[len(src) - o["rest"]:] if o["rest"] else b""
                ot = "(SOk %s %s %s)" % (cbool(o["bytes"]), hb(o["s"]), hb(rest.hex()))
            t = "(CScan %s %s)" % (hb(c["src"]), ot)
        elif k == "unquote":
            o = c["obs"]
            ot = "UErr" if o.get("err") else "(UOk %s %s %s)" % (hb(o["s"]), cbool(o["triple"]), cbool(o["bytes"]))
            t = "(CUnq %s %s)" % (hb(c["lit"]), ot)
        elif k == "utf8":
            t = "(CUtf8 %s %d %d%%nat %s)" % (hb(c["s"]), c["r"], c["w"], cbool(c["valid"]))
        elif k == "utf8enc":
            t = "(CEnc %d %s)" % (c["r"], hb(c["enc"]))
        else:
            continue
        terms.append(t)
        refs.append(c)
    return terms, refs


VPRELUDE = HEXDEF + r"""
Open Scope N_scope.
Definition mem (l : list N) (r : N) : bool := existsb (N.eqb r) l.
Definition lookup (sh : list (N * (bool * list N * Z))) (bits : N) : bool * list N * Z :=
  match find (fun p => fst p =? bits) sh with Some p => snd p | None => (false, [], 0%Z) end.
Inductive case :=
| CVal (v : value) (pr : list N) (sh : list (N * (bool * list N * Z))) (text : list N) (strtext : list N)
| CCyc (h : heap) (root : hval) (pr : list N) (text : list N).
Definition model_ok (c : case) : bool :=
  match c with
  | CVal v pr sh text st => bytes_eqb (write_value (mem pr) (lookup sh) v) text && bytes_eqb (str_value (mem pr) (lookup sh) v) st
  | CCyc h root pr text =>
    match write_heap (mem pr) (lookup []) (S (List.length h)) h [] root with
    | WOk out => bytes_eqb out text
    | _ => false
    end
  end.
(* oracle: the printed text denotes the value (same type at every level, floats
   bit-identical) according to the reader of the literal/display fragment *)
Definition spec_ok (c : case) : bool :=
  match c with
  | CVal v pr sh text _ =>
    match read_expr 200 text with
    | ROk v' [] => value_eqb v v'
    | _ => false
    end
  | CCyc _ _ _ _ => true
  end.
"""


def shortest_digits(bits):
    """Python's repr(float) is an independent shortest-round-trip implementation."""
    import decimal
    f = struct.unpack("<d", struct.pack("<Q", bits))[0]
    t = decimal.Decimal(repr(abs(f))).as_tuple()
    ds = list(t.digits)
    e = t.exponent
    while ds and ds[-1] == 0:
        ds.pop()
        e += 1
    while ds and ds[0] == 0:
        ds.pop(0)
    if not ds:
        return (bits >> 63 == 1, [], 0)
    return (bits >> 63 == 1, ds, len(ds) + e)


def value_term(v, pr, sh):
    t = v["t"]
    if t == "none":
        return "VNone"
    if t == "bool":
        return "(VBool %s)" % cbool(v["b"])
    if t == "int":
        return "(VInt (%s)%%Z)" % v["z"]
    if t == "float":
        bits = int(v["bits"])
        sh[bits] = shortest_digits(bits)
        return "(VFloat %d)" % bits
    if t in ("str", "bytes"):
        pr.update(v["print"])
        return "(%s %s)" % ("VStr" if t == "str" else "VBytes", hb(v["s"]))
    if t in ("list", "tuple"):
        return "(%s [%s])" % ("VList" if t == "list" else "VTuple", "; ".join(value_term(x, pr, sh) for x in v["xs"]))
    if t == "dict":
        return "(VDict [%s])" % "; ".join("(%s, %s)" % (value_term(k, pr, sh), value_term(x, pr, sh)) for k, x in v["xs"])
    raise ValueError(t)


def sh_term(sh):
    return "[" + "; ".join("(%d, (%s, %s, (%d)%%Z))" % (b, cbool(n), nl(ds), dp) for b, (n, ds, dp) in sorted(sh.items())) + "]"


def graph_heap(spec):
    """The Coq heap of a value-graph spec (harness/cmd/c15 gspec): lists and dicts are
    heap objects (location = rank among the L/D nodes), tuples are inline."""
    nodes = spec["nodes"]
    loc = {}
    for i, nd in enumerate(nodes):
        if nd["k"] in "LD":
            loc[i] = len(loc)

    def hval(c):
        if c < 0:
            return "(HLeaf (VInt %d%%Z))" % -c
        nd = nodes[c]
        if nd["k"] == "T":
            return "(HTuple [%s])" % "; ".join(hval(x) for x in (nd["c"] or []))
        return "(HRef %d)" % loc[c]
    objs = []
    for i, nd in enumerate(nodes):
        cs = nd["c"] or []
        if nd["k"] == "L":
            objs.append("OList [%s]" % "; ".join(hval(x) for x in cs))
        elif nd["k"] == "D":
            objs.append("ODict [%s]" % "; ".join("(HLeaf (VStr %s), %s)" % (nl(list(("k%d" % j).encode())), hval(x)) for j, x in enumerate(cs)))
    return "[" + "; ".join(objs) + "]", hval


def stage_class(st):
    import re
    return re.sub(r"-from-\d+$", "", st or "start")


def graph_cases(ctx, c, terms, refs):
    """One value graph printed at every node in every state (see childGraph)."""
    spec, cyc = c["spec"], c["cyc"]
    small = {"kind": "graph", "spec": spec}
    if c["status"] != "ok":
        ctx.finding("cycle:%s:%s:%s" % (stage_class(c["last_stage"]), cyc, c["status"]),
                    "str/repr of a %s value graph (%s) does not terminate with a finite result: %s in stage %s" % (cyc, spec["name"], c["status"], c["last_stage"]), small)
        return
    if c.get("errors"):
        ctx.finding("cycle-error:%s" % cyc, "str/repr failed on value graph %s: %s" % (spec["name"], c["errors"][:2]), small)
        return
    by_node = {}
    for o in c["outs"]:
        by_node.setdefault(o["node"], []).append(o)
    heap, hval = graph_heap(spec)
    for node, outs in sorted(by_node.items()):
        base = outs[0]
        for o in outs:
            if o["repr"] != base["repr"] or o["str"] != base["repr"]:
                ctx.finding("cycle-state-dependent:%s:%s" % (stage_class(o["stage"]), cyc),
                            "value graph %s node %d prints %s / %s in stage %s but %s when unfrozen" % (
                                spec["name"], node, bytes.fromhex(o["repr"])[:120], bytes.fromhex(o["str"])[:120], o["stage"], bytes.fromhex(base["repr"])[:120]), small)
                break
        terms.append("(CCyc %s %s [107; 48; 49; 50; 51; 52; 53; 54; 55; 56; 57] %s)" % (heap, hval(node), hb(base["repr"])))
        refs.append({"kind": "graph", "spec": spec, "node": node, "repr": base["repr"]})


def run_values(ctx, hx, dist):
    q = ctx.quick()
    n = 1500 if q else 40000
    ncoq = 50 if q else 2500
    cases = ctx.jsonl([hx, "values", "-seed", str(ctx.seed), "-n", str(n), "-coq", str(ncoq), "-graphs", "20" if q else "400"], timeout=800)
    summ = [c for c in cases if c["kind"] == "summary"][0]
    dist.update(summ["dist"])
    res = process_values(ctx, cases, 150 if q else 500)
    res["evaluations"] += n
    return res


def process_values(ctx, cases, shard):
    terms, refs = [], []
    for c in cases:
        k = c["kind"]
        if k == "value_fail":
            finding(ctx, "repr-roundtrip:" + c["class"], "Eval(repr(v)) is not v for a %s: %s (repr = %s)" % (c["class"], c["what"], bytes.fromhex(c["repr"])[:200]), c)
        elif k == "cycle":
            if c["what"] == "list-struct-list" and c["status"] != "ok":
                ctx.finding("cycle-through-struct:" + c["status"], "repr/str of a list containing a struct whose field is that list does not terminate (%s): Struct.String restarts writeValue with an empty cycle path" % c["status"], c)
        elif k == "graph":
            graph_cases(ctx, c, terms, refs)
        elif k == "value":
            pr, sh = set(), {}
            vt = value_term(c["v"], pr, sh)
            terms.append("(CVal %s %s %s %s %s)" % (vt, nl(sorted(pr)), sh_term(sh), hb(c["repr"]), hb(c["str"])))
            refs.append(c)
    seen, ut, ur = set(), [], []
    for t, r in zip(terms, refs):
        if t not in seen:
            seen.add(t)
            ut.append(t)
            ur.append(r)
    ctx.log("evaluating %d distinct value cases in Coq (printer model and reader)" % len(ut))
    header = HEADER.replace("Open Scope N_scope.\n", "") + VPRELUDE
    bad_model, bad_spec = par_mismatches(ctx, "c15_values", header, ut, ["model_ok", "spec_ok"], shard=shard) if ut else ([], [])
    for i in bad_spec:
        c = ur[i]
        if c.get("kind") == "graph":
            continue
        finding(ctx, "repr-not-denoting:" + c["v"]["t"], "repr printed %s, which does not denote the value (type/bits exact) according to the reader" % bytes.fromhex(c["repr"])[:200], c)
    only_model = [i for i in bad_model if i not in set(bad_spec)]
    if only_model:
        c = ur[only_model[0]]
        if c.get("kind") == "graph":
            # the heap model (write_heap, proved to terminate and to mark exactly the cycles) is the
            # specification of cyclic printing: a different text for a cyclic/shared graph is a finding
            finding(ctx, "cycle-text:%s" % c["spec"]["name"].split("-")[0], "value graph %s node %d prints %s, the cycle-path model prints something else" % (c["spec"]["name"], c["node"], bytes.fromhex(c["repr"])[:160]), c)
        else:
            ctx.broken("correspondence:C15.Value", "printer model and implementation differ on %d case(s), e.g. %s" % (len(only_model), str(c)[:600]))
    return {"evaluations": len(ut), "distinct": len(ut), "samples": ur[:2] + ur[-2:], "model_mismatches": len(bad_model), "spec_mismatches": len(bad_spec)}


def run_strings(ctx, hx, cov_dist):
    q = ctx.quick()
    evaluations = 0
    # --- hypothesis of the theorems about strconv.IsPrint, against the real function
    ip = ctx.jsonl([hx, "isprint", "-seed", str(ctx.seed)] + ([] if q else ["-full"]))[0]
    evaluations += ip["checked"]
    if ip["violations"]:
        ctx.finding("isprint-hypothesis", "strconv.IsPrint declares control character(s) %s printable: Quote would emit them raw" % ip["violations"][:5], ip)
    ctx.notes.append("is_print hypothesis checked on %d code points (%s), %d printable, 0 violations" % (ip["checked"], "all" if ip["full"] else "all < 0x3000 + sample", ip["printable"]))

    # --- strings: quote / scan / unquote / utf8
    n = 260 if q else 6000
    cases = ctx.jsonl([hx, "strings", "-seed", str(ctx.seed), "-n", str(n)] + ([] if q else ["-sweep"]), timeout=800)
    summ = [c for c in cases if c["kind"] == "summary"][0]
    cov_dist.update(summ["dist"])
    evaluations += summ["direct_round_trips"] + 4 * summ["swept_code_points"]
    res = process_strings(ctx, cases, 700 if q else 1500)
    res["evaluations"] += evaluations
    res["isprint"] = ip
    return res


def process_strings(ctx, cases, shard):
    for c in cases:
        if c["kind"] == "str_fail":
            finding(ctx, "str-not-identity:%s:%s" % (c["entry"], c["class"]),
                    "str of the string %s (via %s) is %s, not the string itself" % (bytes.fromhex(c["s"]), c["entry"], bytes.fromhex(c["got"])), c)
        if c["kind"] == "rt_fail":
            finding(ctx, "roundtrip:%s:%s" % ("bytes" if c["b"] else "string", c["class"]),
                        "Quote/unquote round trip fails on %s %s: %s" % ("bytes" if c["b"] else "string", bytes.fromhex(c["s"]), c["what"]), c)
    terms, refs = string_terms(cases)
    seen, uterms, urefs = set(), [], []
    for t, r in zip(terms, refs):
        if t not in seen:
            seen.add(t)
            uterms.append(t)
            urefs.append(r)
    ctx.log("evaluating %d distinct string cases in Coq (model and specification)" % len(uterms))
    bad_model, bad_spec = par_mismatches(ctx, "c15_strings", HEADER + PRELUDE, uterms, ["model_ok", "spec_ok"], shard=shard) if uterms else ([], [])
    for i in bad_spec:
        c = urefs[i]
        if c["kind"] == "quote":
            key = "quote-not-denoting:%s:%s" % ("bytes" if c["b"] else "string", c["class"])
            what = "Quote(%s, %s) = %s does not denote the input according to the literal syntax" % (bytes.fromhex(c["s"]), c["b"], bytes.fromhex(c["q"]))
        else:
            key = "scan-disagrees-with-spec:" + ("error" if c["obs"].get("err") else "value")
            what = "scanning %s gives %s, the specification's reader disagrees" % (bytes.fromhex(c["src"]), c["obs"])
        finding(ctx, key, what, c)
    only_model = [i for i in bad_model if i not in set(bad_spec)]
    if only_model:
        c = urefs[only_model[0]]
        ctx.broken("correspondence:C15.Quote", "model and implementation differ on %d case(s) where the specification is met, e.g. %s" % (len(only_model), c))
    return {"evaluations": len(uterms), "distinct": len(uterms), "samples": urefs[:2] + urefs[len(urefs) // 2: len(urefs) // 2 + 2],
            "model_mismatches": len(bad_model), "spec_mismatches": len(bad_spec)}


def run_replay(ctx, hx):
    """bin/check C15 --replay file: re-run the recorded input on the implementation and re-judge it."""
    import json
    rec = json.load(open(ctx.replay_path))
    obj = rec.get("replay", rec)
    cases = ctx.jsonl([hx, "replay"], input=json.dumps(obj), timeout=300)
    ctx.log("replay produced %d observation(s)" % len(cases))
    for c in cases:
        if c["kind"] == "isprint" and c["violations"]:
            ctx.finding("isprint-hypothesis", "strconv.IsPrint declares control character(s) %s printable" % c["violations"][:5], c)
    sres = process_strings(ctx, cases, 1000)
    vres = process_values(ctx, cases, 500)
    ctx.proofs()
    return ctx.finish(LEVEL, {"evaluations": len(cases), "distinct_nontrivial": sres["distinct"] + vres["distinct"],
                              "rule": "replay of one recorded input", "samples": cases[:3], "distribution": {}})


def run(ctx):
    import concurrent.futures as cf
    hx = ctx.go_build("c15")
    ctx.log("harness built")
    if getattr(ctx, "replay_path", None):
        return run_replay(ctx, hx)
    d1, d2 = {}, {}
    # the three stages are independent: audit of the theorems, strings, values
    with cf.ThreadPoolExecutor(max_workers=3) as ex:
        fp = ex.submit(ctx.proofs)
        fs = ex.submit(run_strings, ctx, hx, d1)
        fv = ex.submit(run_values, ctx, hx, d2)
        fp.result()
        ctx.log("proofs audited")
        sres = fs.result()
        vres = fv.result()
    cov_dist = dict(d1)
    cov_dist.update(d2)
    cov = {
        "evaluations": sres["evaluations"] + vres["evaluations"], "distinct_nontrivial": sres["distinct"] + vres["distinct"],
        "rule": "strings from a boundary pool (every escape class: controls, quotes, backslash, DEL, C1 controls, U+0085, U+2028, soft hyphen, BOM, U+FFFD, noncharacters, astral, U+10FFFF, ill-formed UTF-8 chunks, every single byte) plus seeded random strings, in both string and bytes mode; literal source text from a grammar of prefixes/delimiters/escapes (valid and invalid) with single-byte corruptions; values (ints of any size, floats over the binary64 range incl. -0.0, subnormals, powers of two +-1ulp) nested to depth 6 with sharing; cyclic values in child processes. distinct = distinct Coq terms evaluated against the C15 model (correspondence) and C15.Spec / the reader (oracle); thorough additionally round-trips every code point and every byte pair directly.",
        "samples": sres["samples"] + vres["samples"],
        "distribution": cov_dist,
        "model_mismatches": sres["model_mismatches"] + vres["model_mismatches"], "spec_mismatches": sres["spec_mismatches"] + vres["spec_mismatches"],
        "isprint": sres["isprint"],
    }
    return ctx.finish(LEVEL, cov, assumptions=[
        "strconv.IsPrint: parameter of the model; hypothesis `printable implies not CR/LF` checked against the real function (all code points in the thorough tier)",
        "strconv.FormatFloat shortest round-trip digits and strconv.ParseFloat correct rounding: named oracles (digits supplied by Python's repr in the correspondence; dec_to_b64 defines correct rounding in Coq)",
        "big.Int.Text(10) / SetString: decimal conversion of integers modelled by Z arithmetic",
        "the parser outside literals, list/tuple/dict displays and unary minus is not modelled here (C14)",
    ])
