"""C20 -- protocol messages stay well-typed, lossless and respect freezing (DESIGN.md section 8, C20)."""
import json
import os
import re
import struct

from .lib import cz, cbool, clist, copt, coq_mismatches, HarnessError

LEVEL = "proof"
META = {
    "category": "proof",
    "text": "Coq theorems over (1) Kinds.v, a model of lib/proto toProto / enumValueOf / toStarlark1 and of the positions a scalar can be stored in: for all 16 kinds, every position and every Starlark value the store either reads back exactly the value the kind's range admits or is rejected with the field unchanged, never a host panic (scalar_store_exact), int64/uint64/int32/uint32 handled exactly (the Go conversions written with explicit wrap); (2) Store.v, a heap model of Message / RepeatedField / MapField wrappers sharing `*bool` flags over dynamicpb storage with construct, Message(m) copy, field get/set, message aliasing, append, SetIndex, SetKey, whole-list/map assignment and Freeze: a typed/shape invariant over ALL operation sequences, mutators through a frozen flag always fail and change nothing, freeze soundness REFUTED for shallow copies and for message aliasing (vm_compute witness histories, replayed on the real code) and proved for histories without copy/alias operations. The hand-written model is tied to /repo on every run: the real package is driven through the Starlark interpreter on a programmatically built schema (every scalar kind in singular/repeated/map position, enum, nested/repeated/map message fields): a boundary grid kind x position x value with binary and text marshal round trips, random operation histories with read-back of everything after every step, and scripted probes; observations are evaluated against Kinds/Store (correspondence) and Spec.v (oracle) inside Coq, every case under recover().",
    "note": "Trusted: Coq kernel + vm_compute; the harness; google.golang.org/protobuf (dynamicpb storage semantics modelled from its source, wire and text formats as oracles); int->float64 and float64->float32 conversions are oracles (computed independently in Python). The heap model covers one recursive message type (int64, string, message, repeated int64/message, map<string,int64/message>); iteration counters of the wrappers are not modelled (every field access makes a fresh wrapper with its own counter); cyclic messages are excluded by the generator (printing one does not terminate).",
    "technique": "Coq proof over executable model + differential correspondence (vm_compute) + Spec.v oracle + refutation witnesses replayed on the implementation",
}
HEADER = """From Coq Require Import ZArith Bool List.
From SV Require Import Common.GoInt C20.Model C20.Spec.
Import ListNotations.
Open Scope Z_scope.
"""
KIND = {"bool": "KBool", "int32": "KInt32", "sint32": "KSint32", "sfixed32": "KSfixed32", "int64": "KInt64", "sint64": "KSint64",
        "sfixed64": "KSfixed64", "uint32": "KUint32", "fixed32": "KFixed32", "uint64": "KUint64", "fixed64": "KFixed64",
        "float": "KFloat", "double": "KDouble", "string": "KString", "bytes": "KBytes", "enum": "KEnum"}
NVARS = 4


def cz(n):  # noqa: F811  (large literals in hexadecimal: Coq parses decimal ones in quadratic time)
    if abs(n) < 2 ** 64:
        return "(%d)%%Z" % n
    return "(%s0x%x)%%Z" % ("-" if n < 0 else "", abs(n))


def zs(bs):
    return "[" + "; ".join(str(b) for b in bs) + "]"


def hexz(h):
    return zs(bytes.fromhex(h or ""))


def sval(d):
    t = d.get("t")
    if t == "none":
        return "SNone"
    if t == "bool":
        return "(SBool %s)" % cbool(d.get("b", False))
    if t == "int":
        return "(SInt %s)" % cz(int(d["z"]))
    if t == "float":
        return "(SFloat %s)" % cz(int(d["bits"]))
    if t == "str":
        return "(SStr %s)" % hexz(d.get("hex"))
    if t == "bytes":
        return "(SBytes %s)" % hexz(d.get("hex"))
    if t == "enum":
        return "(SEnum %d %s)" % (0 if d.get("e") == "E" else 1, cz(d.get("n", 0)))
    return "SOther"


def content(c, is_map):
    if c is None:
        return None
    if is_map:
        return "(CM %s)" % clist(["(%s, %s)" % (sval(k), sval(v)) for k, v in c])
    return "(CL %s)" % clist([sval(x) for x in c])


def f2bits(f):
    return struct.unpack("<Q", struct.pack("<d", f))[0]


def bits2f(b):
    return struct.unpack("<d", struct.pack("<Q", b))[0]


def i2f_bits(z):
    try:
        return f2bits(float(z))
    except OverflowError:
        return f2bits(float("inf") if z > 0 else float("-inf"))


def f32_bits(b):
    f = bits2f(b)
    if f != f:
        # NaN: the float32 conversion keeps the sign and the top 23 payload bits (quiet bit set)
        sign = b >> 63
        frac32 = ((b & ((1 << 52) - 1)) >> 29) | (1 << 22)
        return (sign << 63) | (0x7FF << 52) | (frac32 << 29)
    try:
        g = struct.unpack("<f", struct.pack("<f", f))[0]
    except OverflowError:
        g = float("inf") if f > 0 else float("-inf")
    return f2bits(g)


def position(c):
    p, aux = c["pos"], c.get("aux") or []
    if p == "singular":
        return "PSingular"
    if p == "ctor":
        return "PCtor"
    if p == "rep_append":
        return "PAppend"
    if p == "rep_setindex":
        return "(PSetIndex 1)"
    if p == "rep_assign":
        return "(PAssign [%s])" % sval(aux[0])
    if p == "rep_assign_view":      # m.r_K = o.r_K2: the elements of the view, the last one being val
        return "(PAssign %s)" % clist([sval(x) for x in aux])
    if p == "map_assign_view":      # m.mv_K = o.mv_K2 with the single entry {aux[0]: val}
        return "(PMapAssign %s)" % sval(aux[0])
    if p == "map_value":
        return "(PMapValue %s)" % sval(aux[0])
    if p == "map_assign":
        return "(PMapAssign %s)" % sval(aux[0])
    if p == "map_key":
        return "(PMapKey %s %s)" % (KIND[c["fk"]], sval(aux[0]))
    raise ValueError(p)


def utf8_bad(c):
    def bad(d):
        if isinstance(d, list):
            return any(bad(x) for x in d)
        if isinstance(d, dict) and d.get("t") == "str":
            try:
                bytes.fromhex(d.get("hex") or "").decode("utf8")
                return False
            except UnicodeDecodeError:
                return True
        return False
    return bad(c.get("after")) or bad(c.get("val"))


SCALAR_DEFS = """
Definition i2f (z : Z) : Z := match find (fun p => fst p =? z) i2f_tab with Some (_, b) => b | None => 0 end.
Definition f32 (b : Z) : Z := match find (fun p => fst p =? b) f32_tab with Some (_, c) => c | None => b end.
Inductive rtc := RSame | RNone | RDiff (c : content).
Definition rt_of (after : content) (r : rtc) : option content :=
  match r with RSame => Some after | RNone => None | RDiff c => Some c end.
Inductive scase := SC (k : kind) (pos : position) (val : sval) (out : sout) (before after : content)
                      (rt_bin rt_text : rtc) (utf8_bad : bool).
Definition sout_eqb (a b : sout) : bool := match a, b with SOk, SOk | SErr, SErr | SPanic, SPanic => true | _, _ => false end.
Definition model_ok (c : scase) : bool :=
  match c with SC k pos val out before after _ _ _ =>
    match store_at i2f f32 k pos before val with
    | (o, c') => sout_eqb o out && (match o with SPanic => true | _ => content_eqb c' after end)
    end
  end.
Definition spec_ok (c : scase) : bool :=
  match c with SC k pos val out before after rb rt u =>
    spec_scalar_ok i2f f32 k pos val out before after (rt_of after rb) (rt_of after rt) u
  end.
"""

KNOWN_SURFACE = {
    "module": {"file", "get_field", "has", "marshal", "marshal_text", "set_field", "unmarshal", "unmarshal_text"},
    "Message": {"Attr", "AttrNames", "Freeze", "Hash", "Message", "SetField", "String", "Truth", "Type"},
    "RepeatedField": {"Attr", "AttrNames", "Elements", "Freeze", "Hash", "Index", "Iterate", "Len", "SetIndex", "String", "Truth", "Type"},
    "MapField": {"Entries", "Freeze", "Get", "Hash", "Items", "Iterate", "Len", "SetKey", "String", "Truth", "Type"},
    "repeated_attrs": {"append"},
}
OPS_WITH_J = {"Copy", "GetSub", "GetRM", "GetMM", "SetSub", "AssignRI", "AppendRM", "AssignRM", "SetMM", "AssignMM", "AssignMI", "AssignRMList", "AssignMMDict"}
ALIAS_OPS = {"SetSub", "AppendRM", "SetMM", "AssignRM", "AssignMM", "AssignRMList", "AssignMMDict"}


def key_z(k):
    return zs(k.encode())


def op_term(o):
    n, i, j = o["op"], o.get("i", 0), o.get("j", 0)
    if n == "New":
        return "(New %d)" % i
    if n in ("Copy", "GetSub", "SetSub", "AssignRI", "AppendRM", "AssignRM", "AssignMM", "AssignMI", "AssignRMList"):
        return "(%s %d %d)" % (n, i, j)
    if n == "GetRM":
        return "(GetRM %d %d %d)" % (i, j, o.get("k", 0))
    if n == "GetMM":
        return "(GetMM %d %d %s)" % (i, j, key_z(o["key"]))
    if n == "SetV":
        return "(SetV %d (SInt %s))" % (i, cz(o.get("n", 0)))
    if n == "SetS":
        return "(SetS %d (SStr %s))" % (i, hexz(o.get("s")))
    if n == "ClearSub":
        return "(ClearSub %d)" % i
    if n == "AppendRI":
        return "(AppendRI %d (SInt %s))" % (i, cz(o.get("n", 0)))
    if n == "SetRI":
        return "(SetRI %d %d (SInt %s))" % (i, o.get("k", 0), cz(o.get("n", 0)))
    if n == "AssignRIList":
        return "(AssignRIList %d %s)" % (i, clist(["(SInt %s)" % cz(x) for x in o.get("l") or []]))
    if n == "SetMI":
        return "(SetMI %d %s (SInt %s))" % (i, key_z(o["key"]), cz(o.get("n", 0)))
    if n == "SetMM":
        return "(SetMM %d %s %d)" % (i, key_z(o["key"]), j)
    if n == "AssignMIDict":
        return "(AssignMIDict %d %s (SInt %s))" % (i, key_z(o["key"]), cz(o.get("n", 0)))
    if n == "AssignMMDict":
        return "(AssignMMDict %d %s %d)" % (i, key_z(o["key"]), j)
    if n == "Freeze":
        return "(Freeze %d)" % i
    raise ValueError(n)


def dump_term(d):
    if d is None:
        return "None"
    return "(Some %s)" % dump_body(d)


def dump_body(d):
    return "(D %s %s %s %s %s %s %s)" % (
        cz(int(d["v"])), hexz(d["s"]), "None" if d["sub"] is None else "(Some %s)" % dump_body(d["sub"]),
        clist([cz(int(x)) for x in d["ri"]]), clist([dump_body(x) for x in d["rm"]]),
        clist(["(%s, %s)" % (hexz(k), cz(int(v))) for k, v in d["mi"]]),
        clist(["(%s, %s)" % (hexz(e["k"]), dump_body(e["d"])) for e in d["mm"]]))


RES = {"ok": "ROk", "err": "RErr", "panic": "RPanic"}

HIST_DEFS = """
Definition nvars : nat := %d.
Definition result_eqb (a b : result) : bool :=
  match a, b with ROk, ROk | RErr, RErr | RPanic, RPanic | RUnset, RUnset => true | _, _ => false end.
Definition read_all (st : state) : obs := map (dump_var 60 st) (seq 0 nvars).
Fixpoint model_bad (st : state) (steps : list (op * result * obs)) (t : nat) : option nat :=
  match steps with
  | [] => None
  | (o, r, after) :: rest =>
      let (r', st') := step st o in
      if result_eqb r r' && obs_eqb (read_all st') after then model_bad st' rest (S t) else Some t
  end.
Definition verdict (h : list (op * result * obs)) : option nat * option (nat * nat) :=
  (model_bad (init nvars) h 0, spec_history_bad [] (repeat None nvars) h 0).
""" % NVARS


def eval_histories(ctx, hists, shard=150, extra=None):
    """Returns per history (model_bad_step or None, (spec_bad_step, code) or None).

    extra = (header, terms): scalar cases evaluated in the same coqc run (quick tier: one
    Coq start-up instead of two); their mismatch lists are returned as a second result."""
    out = []
    extra_res = None
    for s in range(0, max(len(hists), 1), shard):
        chunk = hists[s:s + shard]
        text = HEADER
        if extra is not None and s == 0:
            text = extra[0] + "Definition scases := [\n" + ";\n".join(extra[1]) + "].\n"
            text += ("Fixpoint idx_false {A} (f : A -> bool) (i : nat) (l : list A) : list nat :=\n"
                     "  match l with [] => [] | x :: r => if f x then idx_false f (S i) r else i :: idx_false f (S i) r end.\n"
                     "Definition M0 := Eval vm_compute in idx_false model_ok 0 scases.\nPrint M0.\n"
                     "Definition M1 := Eval vm_compute in idx_false spec_ok 0 scases.\nPrint M1.\n")
        text += HIST_DEFS + "Definition cases : list (list (op * result * obs)) := [\n"
        items = []
        for h in chunk:
            steps = []
            for o, r, d in h:
                obs = clist([dump_term(d.get(str(v))) for v in range(NVARS)])
                steps.append("(%s, %s, %s)" % (op_term(o), RES[r], obs))
            items.append(clist(steps))
        text += ";\n".join(items) + "].\n"
        text += "Definition V := Eval vm_compute in map verdict cases.\nPrint V.\n"
        res, rc = ctx.coq_run("c20_hist_%d" % (s // shard), text, timeout=900)
        if rc != 0:
            raise HarnessError("coq evaluation of histories failed:\n" + res[-3000:])
        if extra is not None and s == 0:
            extra_res = []
            for k in (0, 1):
                mm = re.search(r"M%d\s*=\s*(.*?)\s*:\s*list nat" % k, res, re.S)
                if not mm:
                    raise HarnessError("cannot parse coq output:\n" + res[-2000:])
                extra_res.append([int(t) for t in re.findall(r"\d+", mm.group(1))] if mm.group(1).strip() != "[]" else [])
        m = re.search(r"V\s*=\s*(.*?)\s*:\s*list", res, re.S)
        if not m:
            raise HarnessError("cannot parse coq output:\n" + res[-2000:])
        body = m.group(1)
        # elements look like (None, None) / (Some 3%nat, Some (3%nat, 4%nat)) ...
        elems = re.findall(r"\(\s*(None|Some\s+\d+)(?:%nat)?\s*,\s*(None|Some\s*\(\s*\d+(?:%nat)?\s*,\s*\d+(?:%nat)?\s*\))\s*\)", body)
        if len(elems) != len(chunk):
            raise HarnessError("cannot parse coq verdicts (%d of %d):\n%s" % (len(elems), len(chunk), body[:1500]))
        for a, b in elems:
            mb = None if a == "None" else int(re.findall(r"\d+", a)[0])
            sb = None if b == "None" else tuple(int(x) for x in re.findall(r"\d+", b)[:2])
            out.append((mb, sb))
    if extra is not None:
        return out, extra_res
    return out


def clean_history(rec):
    """(op, res, dumps) for the executed steps; harness-skipped ops are dropped."""
    steps = []
    for o, r, d in zip(rec["ops"], rec["res"], rec["dumps"]):
        if r in ("skip", "cycle"):
            continue
        steps.append((o, r, d))
    return steps


def replay(ctx, hx, ops):
    f = os.path.join(ctx.build, "tmp", "c20_replay.json")
    json.dump(ops, open(f, "w"))
    recs = ctx.jsonl([hx, "-mode", "replay", "-file", f], timeout=60)
    return recs[0] if recs else None


def shrink(ctx, hx, ops):
    """1-minimal sub-history on which a frozen message still changes (done by the harness, in process)."""
    f = os.path.join(ctx.build, "tmp", "c20_shrink.json")
    json.dump(ops, open(f, "w"))
    recs = ctx.jsonl([hx, "-mode", "shrink", "-file", f], timeout=120)
    return recs[0] if recs else None


def freeze_key(ops, viol):
    names = [o["op"] for o in ops]
    mut = viol["op"]["op"]
    if "Copy" in names:
        return "freeze:via-copy:" + mut
    if any(n in ALIAS_OPS for n in names):
        return "freeze:via-alias:" + mut
    return "freeze:direct:" + mut


def run(ctx):
    ctx.proofs()
    hx = ctx.go_build("c20")
    dist = {}

    # ------------------------------------------------------------ scalar grid
    cases = ctx.jsonl([hx, "-mode", "scalar"] + (["-small"] if ctx.quick() else []))
    ctx.log("scalar grid: %d observations" % len(cases))
    terms, refs = [], []
    ints, flts = set(), set()
    if ctx.quick():
        # the whole grid is run on the implementation; inside Coq: every panic, every singular /
        # map-key store and a seeded sample of the other positions
        import random
        rnd = random.Random(ctx.seed)
        def must(c):
            return (c["out"] == "panic" or c["pos"] == "singular"
                    or (c["pos"].endswith("_view") and (c["fk"] == "enum" or c.get("src", "").startswith("enum") or c["fk"] == c.get("src"))))
        keep = [c for c in cases if must(c)]
        rest = [c for c in cases if not must(c)]
        views = [c for c in rest if c["pos"].endswith("_view")]
        other = [c for c in rest if not c["pos"].endswith("_view")]
        cases_coq = keep + rnd.sample(views, min(len(views), 150)) + rnd.sample(other, min(len(other), 250))
    else:
        cases_coq = cases
    for c in cases:
        key = "scalar %s %s %s" % (c["fk"], c["pos"], c["out"])
        dist[key] = dist.get(key, 0) + 1
    for c in cases_coq:
        is_map = c["pos"].startswith("map_")
        v = c["val"]
        for x in [v] + list(c.get("aux") or []):
            if x.get("t") == "int":
                ints.add(int(x["z"]))
            if x.get("t") == "float":
                flts.add(int(x["bits"]))
        rb, rt = content(c.get("rt_bin"), is_map), content(c.get("rt_text"), is_map)
        after = content(c.get("after"), is_map) or content(c.get("before"), is_map)
        out = {"ok": "SOk", "err": "SErr", "panic": "SPanic"}[c["out"]]
        def rtc(x):
            return "RNone" if x is None else ("RSame" if x == after else "(RDiff %s)" % x)
        terms.append("(SC %s %s %s %s %s %s %s %s %s)" % ("KInt64" if c["pos"] == "map_key" else KIND[c["fk"]], position(c), sval(v), out, content(c["before"], is_map), after,
                                                      rtc(rb), rtc(rt), cbool(utf8_bad(c))))
        refs.append(c)
    i2f = {z: i2f_bits(z) for z in ints}
    for b in i2f.values():
        flts.add(b)
    f32 = {}
    for b in flts:
        r = f32_bits(b)
        if r is not None:
            f32[b] = r
    header = HEADER
    header += "Definition i2f_tab : list (Z * Z) := %s.\n" % clist(["(%s, %s)" % (cz(k), cz(v)) for k, v in sorted(i2f.items())])
    header += "Definition f32_tab : list (Z * Z) := %s.\n" % clist(["(%s, %s)" % (cz(k), cz(v)) for k, v in sorted(f32.items())])
    header += SCALAR_DEFS
    if ctx.quick():
        scalar_job = ("deferred", header, terms)     # evaluated together with the histories: one coqc run
    else:
        import concurrent.futures as cf
        pool = cf.ThreadPoolExecutor(max_workers=2)
        scalar_job = pool.submit(coq_mismatches, ctx, "c20_scalar", header, terms, ["model_ok", "spec_ok"], 3000, 900)
    return run_histories(ctx, hx, dist, cases, terms, refs, scalar_job)


def finish_scalar(ctx, refs, scalar_job):
    bad_model, bad_spec = scalar_job if isinstance(scalar_job, list) else scalar_job.result()
    for i in bad_spec:
        c = refs[i]
        if c["out"] == "panic":
            key = "panic:%s:%s:%s%s" % (c["fk"], c["pos"], c["val"]["t"], (":from-" + c["src"]) if c.get("src") else "")
            what = "host panic storing %s into a %s field (%s): %s" % (c["val"], c["fk"], c["pos"], c.get("msg"))
        else:
            key = "store:%s:%s:%s:%s%s" % (c["fk"], c["pos"], c["val"]["t"], c["out"], (":from-" + c["src"]) if c.get("src") else "")
            what = "storing %s into a %s field (%s) gives %s with content %s -> %s (round trips %s / %s): not the specified outcome" % (
                c["val"], c["fk"], c["pos"], c["out"], c["before"], c.get("after"), c.get("rt_bin"), c.get("rt_text"))
        ctx.finding(key, what, c)
    only_model = [i for i in bad_model if i not in set(bad_spec)]
    if only_model:
        ctx.broken("correspondence:C20.Kinds", "model and implementation differ on %d scalar case(s) where the specification is met, e.g. %s" % (len(only_model), refs[only_model[0]]))

    return len(bad_model), len(bad_spec)


def run_histories(ctx, hx, dist, cases, terms, refs, scalar_job):
    # ------------------------------------------------------------ probes
    probes = ctx.jsonl([hx, "-mode", "probe"])
    surface = [p for p in probes if p.get("kind") == "surface"]
    probes = [p for p in probes if p.get("kind") == "probe"]
    # the package surface this check knows how to exercise; anything else is a mutation path
    # (or an access path) outside the tie and is reported as such
    if not surface:
        ctx.broken("tie-gap:C20.surface", "the harness did not report the package surface")
    else:
        sf = surface[0]
        for what, got in (("module", sf["module"]), ("Message", sf["Message"]), ("RepeatedField", sf["RepeatedField"]),
                          ("MapField", sf["MapField"]), ("repeated_attrs", sf["repeated_attrs"])):
            extra = sorted(set(got) - KNOWN_SURFACE[what])
            if extra:
                ctx.broken("tie-gap:C20.surface", "lib/proto %s has members this check does not exercise: %s (add probes for them to harness/cmd/c20 and extend KNOWN_SURFACE)" % (what, extra))
    for p in probes:
        name = p["name"]
        dist["probe " + name + " " + p["out"]] = 1
        if p["out"] == "panic":
            ctx.finding("panic:probe:" + name, "host panic in scenario %s: %s" % (name, p["detail"][:200]), p)
        elif name.startswith("frozen-path:"):
            if p["mutated"] or p["out"] != "err":
                ctx.finding("freeze:direct:path:" + name.split(":", 2)[2], "mutation path %s on a frozen message (view obtained %s the freeze): %s, content changed=%s" % (
                    name.split(":", 2)[2], name.split(":")[1], p["out"], p["mutated"]), p)
        elif name.startswith("unset-default:"):
            if p["out"] != "err" or p["mutated"]:
                ctx.finding("store:unset-default:" + name.split(":", 1)[1], "a write through the default value of an unset field must fail with an error and change nothing (%s): %s, changed=%s" % (name, p["out"], p["mutated"]), p)
        elif name.startswith("lookalike:"):
            if p["out"] != "err":
                ctx.finding("store:lookalike:" + name.split(":", 1)[1], "a value of a same-named but different message / enum type (another descriptor pool) was not rejected (%s): %s" % (name, p["detail"][:200]), p)
        elif name == "ext-lossless":
            if p["out"] != "ok":
                ctx.finding("post:probe:ext-lossless", "extension values written are not read back: %s" % p["detail"][:200], p)
        elif name.startswith("view-"):
            # a wrapper / view obtained through any access path, before or after the freeze
            if p["mutated"] or p["out"] != "err":
                parts = name.split(":")
                ctx.finding("freeze:direct:view:%s:%s" % (parts[0], parts[1]),
                            "a frozen message was changed (or the mutation accepted) through a wrapper obtained by %s (%s): %s -> %s, changed=%s" % (
                                parts[1], parts[0], parts[2] if len(parts) > 2 else "", p["out"], p["mutated"]), p)
        elif name.startswith("type-mismatch:"):
            if p["out"] != "err":
                ctx.finding("store:type-mismatch:" + name.split(":", 1)[1], "a value of another message / enum type was not rejected with an error (%s): %s" % (name, p["out"]), p)
        elif name.startswith("frozen-direct") or name == "frozen-set_field":
            if p["mutated"] or p["out"] != "err":
                ctx.finding("freeze:direct:probe:" + name, "mutation of a frozen message through its own wrapper was not rejected (%s)" % name, p)
        elif name.startswith("copy-") and p["mutated"]:
            ctx.finding("freeze:via-copy:probe", "frozen message mutated through a shallow copy Message(m): %s" % name, p)
        elif name.startswith("alias-") and p["mutated"]:
            ctx.finding("freeze:via-alias:probe", "frozen message mutated through a message it was assigned into / from: %s" % name, p)
        elif name.startswith("lossless-") and p["out"] != "ok":
            ctx.finding("post:probe:" + name, "values written are not all read back (%s): %s" % (name, p["detail"][:200]), p)
        elif name.startswith("self-assign") and p["mutated"]:
            ctx.finding("post:self-assign:probe:" + name, "m.f = m.f changes the field (%s): %s" % (name, p["detail"][:200]), p)

    # ------------------------------------------------------------ histories
    n = 400 if ctx.quick() else 20000
    recs = ctx.jsonl([hx, "-mode", "hist", "-seed", str(ctx.seed), "-n", str(n), "-len", "14"], timeout=600)
    hists = [r for r in recs if r["kind"] == "hist"]
    ctx.log("histories: %d, %d with a frozen message changing" % (len(hists), sum(1 for h in hists if "freeze_violation" in h)))
    for h in hists:
        for o, r in zip(h["ops"], h["res"]):
            k = "hist %s %s" % (o["op"], r)
            dist[k] = dist.get(k, 0) + 1
    # Go-side freeze oracle: shrink one history per signature
    seen_sig = {}
    for h in hists:
        v = h.get("freeze_violation")
        if not v:
            continue
        names = [o["op"] for o in h["ops"][:v["changed_at"] + 1]]
        sig = (v["op"]["op"], "Copy" in names, any(x in ALIAS_OPS for x in names))
        seen_sig.setdefault(sig, []).append(h)
    budget_h = 14 if ctx.quick() else 200
    for sig, hs_ in sorted(seen_sig.items(), key=lambda kv: str(kv[0])):
        for h in hs_[:(1 if ctx.quick() else 3)]:
            if budget_h <= 0:
                break
            budget_h -= 1
            v = h["freeze_violation"]
            rec = shrink(ctx, hx, h["ops"][:v["changed_at"] + 1])
            if rec is None or "freeze_violation" not in rec:
                rec = h
            ops = rec["ops"]
            key = freeze_key(ops, rec["freeze_violation"])
            ctx.finding(key, "after Freeze of x%d the content read back from it changes at step %d (%s); minimal history: %s" % (
                rec["freeze_violation"]["var"], rec["freeze_violation"]["changed_at"], rec["freeze_violation"]["op"], [o["op"] for o in ops]),
                {"ops": ops, "violation": rec["freeze_violation"], "replay_cmd": "c20 -mode replay -file <ops.json>"})
    ctx.log("shrinking done")
    # Coq: model correspondence and the specification on a sample
    sample = hists if len(hists) <= 2400 else hists[:2400]
    if ctx.quick():
        sample = hists[:35]
    cleaned = [clean_history(h) for h in sample]
    if isinstance(scalar_job, tuple):
        verdicts, scalar_job = eval_histories(ctx, cleaned, extra=(scalar_job[1], scalar_job[2]))
    else:
        verdicts = eval_histories(ctx, cleaned)
    ctx.log("history evaluation done")
    nmodel = nspec = 0
    for h, steps, (mb, sb) in zip(sample, cleaned, verdicts):
        if sb is not None:
            nspec += 1
            t, code = sb
            o, r, _ = steps[t]
            if code == 4:
                # frozen message changed: must have been seen by the Go oracle too
                if "freeze_violation" not in h:
                    ctx.finding("freeze:coq-only:" + o["op"], "Spec.v reports a frozen message changing at step %d (%s) which the Go oracle did not flag" % (t, o), {"ops": h["ops"]})
                continue
            if code == 1:
                key = "panic:hist:" + o["op"]
                what = "host panic in %s" % o
            elif code == 2:
                key = "fail-changed:" + o["op"]
                what = "%s failed but changed what is read back" % o
            else:
                key = "post:%s%s" % (o["op"], ":self" if o["op"] in OPS_WITH_J and o.get("i", 0) == o.get("j", 0) else "")
                what = "%s succeeded but the target does not read back the assigned value" % o
            ops = [x[0] for x in steps[:t + 1]]
            ctx.finding(key, what + "; history: %s" % [x["op"] for x in ops], {"ops": ops, "step": t, "code": code})
        if mb is not None and (sb is None or sb[0] > mb):
            nmodel += 1
            if nmodel == 1:
                o, r, d = steps[mb]
                ctx.broken("correspondence:C20.Store", "model and implementation differ at step %d (%s -> %s) of history %s" % (mb, o, r, [x[0] for x in steps[:mb + 1]]))
    nbad_model, nbad_spec = finish_scalar(ctx, refs, scalar_job)
    cov = {
        "evaluations": len(cases) + sum(len(h["ops"]) for h in hists) + len(probes),
        "distinct_nontrivial": len(set(terms)) + len(cleaned),
        "rule": "scalar grid: 16 kinds x 8 positions x boundary values, plus whole-field assignment from a proto.repeated / proto.map VIEW of every other kind's field (17 source kinds incl. a second enum type) (min-1, min, max, max+1, powers of two, wrong types, None), each with before/after read-back and binary + text marshal round trip; %d random histories of <= 14 operations over 4 variables of a recursive message type (20 operation kinds), everything read back after every step, Go-side freeze oracle on all, %d histories evaluated step by step inside Coq against Store.v (correspondence) and Spec.v (oracle); %d scripted probes" % (len(hists), len(cleaned), len(probes)),
        "samples": refs[:2] + [{"ops": h["ops"], "res": h["res"]} for h in hists[:2]],
        "distribution": dist,
        "scalar_model_mismatches": nbad_model, "scalar_spec_mismatches": nbad_spec,
        "history_model_mismatches": nmodel, "history_spec_failures": nspec,
        "freeze_violation_histories": sum(1 for h in hists if "freeze_violation" in h),
        "probes": {p["name"]: {"out": p["out"], "mutated": p["mutated"]} for p in probes},
    }
    return ctx.finish(LEVEL, cov, assumptions=[
        "dynamicpb storage semantics (Set aliases message/list/map values, Mutable creates on first use, Has(list/map) = non-empty, Range visits set fields) as read from google.golang.org/protobuf v1.36.11",
        "protobuf binary and text wire formats are oracles (round trips are observed, not modelled)",
        "int -> float64 and float64 -> float32 conversions are oracles (tables computed independently in Python)",
        "iteration counters of RepeatedField / MapField are not modelled (a fresh wrapper, hence a fresh counter, per field access)",
    ])
