"""Shared machinery for /verif checks (see DESIGN.md sections 3 and 6).

A check module checks/cNN.py defines run(ctx).  It uses ctx to
  * build and audit the Coq development for its property (ctx.proofs),
  * build and run the Go harness against the current working tree of the
    repository (ctx.go_build / ctx.run),
  * evaluate model definitions inside Coq on the cases the implementation ran
    (ctx.coq_run),
  * record findings (ctx.finding), broken obligations / ties (ctx.broken),
  * and finish (ctx.finish) -> evidence file, KNOWN-FINDING / VIOLATION lines,
    exit status.
"""
import hashlib
import json
import os
import re
import subprocess
import sys
import time

VERIF = os.path.dirname(os.path.dirname(os.path.abspath(__file__)))
ALLOWED_AXIOMS = {
    # standard-library axioms a development may rely on; each use is printed
    # into the evidence.  None is declared by this development.
    "functional_extensionality_dep", "proof_irrelevance", "classic",
    "JMeq_eq", "Eqdep.Eq_rect_eq.eq_rect_eq", "eq_rect_eq",
    "propositional_extensionality", "constructive_indefinite_description",
    "ClassicalDedekindReals.sig_forall_dec", "ClassicalDedekindReals.sig_not_dec",
    "FunctionalExtensionality.functional_extensionality_dep",
    "Classical_Prop.classic",
}
FORBIDDEN = re.compile(
    r"\b(Admitted|admit|Axiom|Axioms|Parameter|Parameters|Conjecture|Conjectures|"
    r"Admit Obligations|Unset Guard Checking|Unset Positivity Checking|"
    r"Unset Universe Checking|bypass_check|type-in-type|impredicative-set|give_up)\b")


def env():
    e = dict(os.environ)
    e["GOFLAGS"] = "-mod=mod"
    e["GOPROXY"] = "off"
    e.pop("GOTOOLCHAIN", None) if e.get("GOTOOLCHAIN") == "local" else None
    e.pop("GOSUMDB", None) if e.get("GOSUMDB") == "off" else None
    e.setdefault("HOME", "/root")
    return e


class Finding:
    def __init__(self, key, what, replay):
        self.key = key        # stable identifier of the failing input class
        self.what = what      # one line: what fails
        self.replay = replay  # json-serialisable object: how to reproduce


class Ctx:
    def __init__(self, prop, tier, seed):
        self.prop = prop
        self.tier = tier
        self.seed = seed
        self.t0 = time.time()
        self.repo = os.path.abspath(os.environ.get("VERIF_REPO", "/repo"))
        self.key = "main" if self.repo == "/repo" else hashlib.sha1(self.repo.encode()).hexdigest()[:10]
        self.build = os.path.join(VERIF, "build", self.key)
        os.makedirs(os.path.join(self.build, "bin"), exist_ok=True)
        os.makedirs(os.path.join(self.build, "tmp"), exist_ok=True)
        self.coqdir = os.path.join(VERIF, "coq")
        self.findings = []
        self.broken_items = []   # (name, detail) theorem / tie that no longer checks
        self.notes = []
        self.obligations = 0
        self.discharged = 0
        self.axioms = {}
        self.theorems = []
        self.coverage = {}
        self.assumptions = []

    # ------------------------------------------------------------------ util
    def log(self, *a):
        print("[%s %6.1fs]" % (self.prop, time.time() - self.t0), *a, flush=True)

    def quick(self):
        return self.tier == "quick"

    def sh(self, cmd, timeout=1200, cwd=None, input=None, check=False):
        """Run a command (list), return CompletedProcess with text output."""
        try:
            p = subprocess.run(cmd, cwd=cwd, env=env(), input=input, capture_output=True,
                               text=True, timeout=timeout, errors="replace")
        except subprocess.TimeoutExpired as ex:
            out = ex.stdout if isinstance(ex.stdout, str) else (ex.stdout or b"").decode("utf8", "replace")
            err = ex.stderr if isinstance(ex.stderr, str) else (ex.stderr or b"").decode("utf8", "replace")
            p = subprocess.CompletedProcess(cmd, 124, out, err + "\nTIMEOUT after %ss" % timeout)
        if check and p.returncode != 0:
            raise RuntimeError("command failed: %s\n%s\n%s" % (cmd, p.stdout[-4000:], p.stderr[-4000:]))
        return p

    # ------------------------------------------------------------- Go harness
    def go_build(self, name, race=False, tags="verif"):
        """Build harness/cmd/<name> against self.repo's working tree."""
        h = os.path.join(VERIF, "harness")
        mf = os.path.join(self.build, "go.mod")
        src = open(os.path.join(h, "go.mod")).read().replace("=> /repo", "=> " + self.repo)
        if not os.path.exists(mf) or open(mf).read() != src:
            open(mf, "w").write(src)
        sumf = os.path.join(self.build, "go.sum")
        if not os.path.exists(sumf):
            open(sumf, "w").write(open(os.path.join(self.repo, "go.sum")).read())
        out = os.path.join(self.build, "bin", name + ("-race" if race else ""))
        cmd = ["go", "build", "-modfile=" + mf, "-tags", tags, "-o", out]
        if race:
            cmd.append("-race")
        cmd.append("./cmd/" + name)
        p = self.sh(cmd, cwd=h, timeout=900)
        if p.returncode != 0:
            raise BuildError("go build %s failed:\n%s%s" % (name, p.stdout[-3000:], p.stderr[-3000:]))
        return out

    def jsonl(self, cmd, timeout=1200, input=None):
        """Run a harness command that prints one JSON object per line."""
        p = self.sh(cmd, timeout=timeout, input=input)
        if p.returncode != 0:
            raise HarnessError("harness failed rc=%s: %s\n%s" % (p.returncode, " ".join(cmd), p.stderr[-3000:]))
        out = []
        for line in p.stdout.splitlines():
            line = line.strip()
            if line.startswith("{"):
                out.append(json.loads(line))
        return out

    # -------------------------------------------------------------------- Coq
    def coq_project(self):
        """(Re)generate coq/_CoqProject and Makefile from the files present."""
        files = []
        for root, dirs, fs in os.walk(self.coqdir):
            dirs.sort()
            for f in sorted(fs):
                if f.endswith(".v") and not f.startswith("."):
                    files.append(os.path.relpath(os.path.join(root, f), self.coqdir))
        text = "-Q . SV\n-arg -w -arg -notation-overridden,-deprecated-hint-without-locality,-deprecated-instance-without-locality\n" + "\n".join(files) + "\n"
        pf = os.path.join(self.coqdir, "_CoqProject")
        if not os.path.exists(pf) or open(pf).read() != text or not os.path.exists(os.path.join(self.coqdir, "Makefile")):
            open(pf, "w").write(text)
            self.sh(["coq_makefile", "-f", "_CoqProject", "-o", "Makefile"], cwd=self.coqdir, check=True)

    def coq_closure(self, rel):
        """Transitive closure of SV.* imports of a .v file (paths relative to coq/)."""
        seen, todo = set(), [rel]
        while todo:
            r = todo.pop()
            if r in seen or not os.path.exists(os.path.join(self.coqdir, r)):
                continue
            seen.add(r)
            todo.extend(self.coq_deps(r))
        return seen

    def coq_deps(self, rel):
        """Direct SV.* imports of one file."""
        out = []
        txt = strip_comments(open(os.path.join(self.coqdir, rel)).read())
        for sent in re.split(r"\.(?:\s|$)", txt):
            toks = sent.split()
            if "Require" not in toks:
                continue
            from_sv = len(toks) >= 2 and toks[0] == "From" and toks[1] == "SV"
            for name in toks[toks.index("Require") + 1:]:
                if name in ("Import", "Export"):
                    continue
                if name.startswith("SV."):
                    name = name[3:]
                elif not from_sv:
                    continue
                cand = name.replace(".", "/") + ".v"
                if os.path.exists(os.path.join(self.coqdir, cand)) and cand not in out:
                    out.append(cand)
        return out

    def coq_make(self, targets, timeout=2400):
        """Build the given .vo targets (paths relative to coq/) and their dependencies.

        An empty target list means the whole development, built with
        coq_makefile + make (what bin/setup does).  Individual targets are built
        by a small dependency-driven scheduler that calls coqc (full .vo
        compilation, never -vos) with one lock per file, so that several checks
        can build disjoint parts of the tree at the same time.
        """
        if not targets:
            self.coq_project()
            lock = os.path.join(VERIF, "build", "coq.lock")
            # -k: one file that no longer compiles must not keep the rest from being built;
            # the property whose closure contains it reports the broken obligation itself
            p = self.sh(["flock", lock, "make", "-k", "-j12"], cwd=self.coqdir, timeout=timeout)
            return p.returncode == 0, p.stdout + p.stderr
        import concurrent.futures as cf
        import fcntl
        files = set()
        for t in targets:
            files |= self.coq_closure(t[:-1] if t.endswith(".vo") else t)
        deps = {f: self.coq_deps(f) for f in files}
        log = []
        rebuilt = set()
        done = {}
        deadline = time.time() + timeout

        def vo(f):
            return os.path.join(self.coqdir, f + "o")

        def stale(f):
            v = os.path.join(self.coqdir, f)
            if not os.path.exists(vo(f)) or os.path.getmtime(vo(f)) < os.path.getmtime(v):
                return True
            for d in deps[f]:
                if d in rebuilt or (os.path.exists(vo(d)) and os.path.getmtime(vo(d)) > os.path.getmtime(vo(f))):
                    return True
            return False

        def build(f):
            lockf = open(os.path.join(self.coqdir, f + ".lock"), "w")
            try:
                fcntl.flock(lockf, fcntl.LOCK_EX)
                if not stale(f):
                    return True, ""
                left = max(30, deadline - time.time())
                p = self.sh(["coqc", "-q", "-w", "-notation-overridden,-deprecated-hint-without-locality,-deprecated-instance-without-locality",
                             "-Q", ".", "SV", f], cwd=self.coqdir, timeout=left)
                rebuilt.add(f)
                return p.returncode == 0, p.stdout + p.stderr
            finally:
                fcntl.flock(lockf, fcntl.LOCK_UN)
                lockf.close()
                try:
                    os.remove(os.path.join(self.coqdir, f + ".lock"))
                except OSError:
                    pass

        pending = set(files)
        ok_all = True
        with cf.ThreadPoolExecutor(max_workers=12) as ex:
            running = {}
            while (pending or running) and ok_all:
                for f in sorted(pending):
                    if all(d in done for d in deps[f]):
                        running[ex.submit(build, f)] = f
                        pending.discard(f)
                if not running:
                    log.append("dependency cycle among: %s" % sorted(pending))
                    ok_all = False
                    break
                fin, _ = cf.wait(list(running), return_when=cf.FIRST_COMPLETED)
                for fu in fin:
                    f = running.pop(fu)
                    ok, out = fu.result()
                    if out.strip():
                        log.append("== %s\n%s" % (f, out))
                    done[f] = ok
                    if not ok:
                        ok_all = False
            for fu in running:
                fu.cancel()
        return ok_all, "\n".join(log)

    def coq_run(self, name, text, timeout=900):
        """Compile a scratch .v file against the development; return stdout+stderr, rc."""
        d = os.path.join(self.build, "tmp")
        name = "%s_p%d" % (name, os.getpid())   # two runs of one property must not collide
        f = os.path.join(d, name + ".v")
        open(f, "w").write(text)
        p = self.sh(["coqc", "-w", "-notation-overridden,-deprecated-hint-without-locality", "-Q", self.coqdir, "SV", f], cwd=d, timeout=timeout)
        for ext in (".vo", ".vok", ".vos", ".glob", ".v"):
            try:
                os.remove(os.path.join(d, name + ext))
            except OSError:
                pass
        try:
            os.remove(os.path.join(d, "." + name + ".aux"))
        except OSError:
            pass
        return p.stdout + p.stderr, p.returncode

    def proofs(self, sub=None, timeout=2400):
        """Build coq/<prop>/Properties.vo (and everything it depends on), audit it.

        Sets obligations / discharged / axioms.  A theorem that no longer checks
        is recorded through self.broken().  Returns True when all is discharged.
        """
        sub = sub or self.prop
        pfile = os.path.join(self.coqdir, sub, "Properties.v")
        src = open(pfile).read()
        thms = re.findall(r"^\s*(?:Theorem|Corollary)\s+([A-Za-z0-9_']+)", src, re.M)
        self.theorems = thms
        self.obligations = len(thms)
        # forbidden vernacular anywhere in the files this property's theorems depend on
        bad = []
        for rel in sorted(self.coq_closure(sub + "/Properties.v")):
            txt = strip_comments(open(os.path.join(self.coqdir, rel)).read())
            for m in FORBIDDEN.finditer(txt):
                bad.append("%s: %s" % (rel, m.group(0)))
            if re.search(r"^\s*(Variable|Variables|Hypothesis|Hypotheses|Context)\b", txt, re.M) and not re.search(r"^\s*Section\b", txt, re.M):
                bad.append("%s: Variable/Hypothesis outside a Section" % rel)
        if bad:
            self.broken("forbidden-vernacular", "; ".join(bad[:10]))
            return False
        # The Coq development lives in /verif and does not depend on the repository
        # under test, so the result of building + auditing an unchanged closure is
        # reused (keyed by the content of every file in the closure).
        closure = sorted(self.coq_closure(sub + "/Properties.v"))
        hsh = hashlib.sha256()
        for rel in closure:
            hsh.update(rel.encode() + b"\0")
            hsh.update(open(os.path.join(self.coqdir, rel), "rb").read())
        digest = hsh.hexdigest()
        cdir = os.path.join(VERIF, "build", "auditcache")
        os.makedirs(cdir, exist_ok=True)
        cfile = os.path.join(cdir, sub + ".json")
        cached = None
        try:
            c = json.load(open(cfile))
            if c.get("digest") == digest and c.get("theorems") == thms and os.path.exists(os.path.join(self.coqdir, sub, "Properties.vo")):
                cached = c
        except (OSError, ValueError):
            pass
        if cached is None:
            ok, log = self.coq_make([sub + "/Properties.vo"], timeout=timeout)
            if not ok:
                m = re.search(r'File "([^"]+)", line (\d+)', log)
                where = "%s:%s" % (m.group(1), m.group(2)) if m else "?"
                self.broken("coq-build:" + sub + "/Properties.vo", "make failed at %s\n%s" % (where, log[-3000:]))
                self.discharged = 0
                return False
            audit = "From SV Require Import %s.Properties.\n" % sub
            for t in thms:
                audit += 'Goal True. idtac "@@THM %s". exact I. Qed.\nPrint Assumptions %s.\n' % (t, t)
            out, rc = self.coq_run("Audit_" + sub, audit)
            if rc != 0:
                self.broken("audit:" + sub, out[-3000:])
                return False
            axioms = {}
            for part in out.split("@@THM ")[1:]:
                name, _, rest = part.partition("\n")
                name = name.strip()
                if "Closed under the global context" in rest:
                    axs = []
                else:
                    axs = re.findall(r"^([A-Za-z0-9_.']+)\s*:", rest, re.M)
                axioms[name] = axs
            json.dump({"digest": digest, "theorems": thms, "axioms": axioms, "files": closure}, open(cfile + ".tmp%d" % os.getpid(), "w"))
            os.replace(cfile + ".tmp%d" % os.getpid(), cfile)
        else:
            axioms = cached["axioms"]
            self.notes.append("Coq closure unchanged since it was last built and audited (sha256 %s...): audit result reused" % digest[:12])
        n = 0
        for name in thms:
            if name not in axioms:
                self.broken("audit:" + name, "theorem not found in the compiled development")
                continue
            axs = axioms[name]
            self.axioms[name] = axs
            notallowed = [a for a in axs if a not in ALLOWED_AXIOMS and a.split(".")[-1] not in ALLOWED_AXIOMS]
            if notallowed:
                self.broken("axioms:" + name, "theorem depends on non-library axioms: %s" % notallowed)
            else:
                n += 1
        self.discharged = n
        return n == len(thms)

    # --------------------------------------------------------------- results
    def finding(self, key, what, replay):
        """A concrete input / history on which the implementation violates the property."""
        for f in self.findings:
            if f.key == key:
                return
        self.findings.append(Finding(key, what, replay))

    def broken(self, name, detail):
        """A theorem, generated-model obligation or correspondence that no longer checks."""
        self.broken_items.append((name, detail))
        self.log("BROKEN", name, detail[:400].replace("\n", " | "))

    def known(self):
        """Entries of known_findings/<prop>.json (read-only at run time)."""
        try:
            k = json.load(open(os.path.join(VERIF, "known_findings", self.prop + ".json")))
        except OSError:
            return []
        return [x for x in k.get("findings", []) if x.get("property", self.prop) == self.prop]

    def finish(self, level, coverage, assumptions=None):
        known = self.known()
        viol = []
        kf = []
        for f in self.findings:
            hit = None
            for k in known:
                if k.get("key") == f.key or (k.get("match") and re.fullmatch(k["match"], f.key)):
                    hit = k
                    break
            if hit:
                kf.append((f, hit))
            else:
                viol.append(f)
        # runs against a scratch copy of the repository (VERIF_REPO) keep their
        # evidence and replays apart from those of /repo itself
        outroot = VERIF if self.key == "main" else self.build
        rdir = os.path.join(outroot, "replay", self.prop)
        os.makedirs(rdir, exist_ok=True)
        lines = []
        for f, k in kf:
            lines.append("KNOWN-FINDING: property=%s %s [%s]" % (self.prop, k.get("what", f.what), f.key))
        for i, f in enumerate(viol):
            path = os.path.join(rdir, "%s-%s-%d.json" % (self.tier, safe(f.key)[:60], i))
            json.dump({"property": self.prop, "key": f.key, "what": f.what, "replay": f.replay,
                       "repo": self.repo, "seed": self.seed, "tier": self.tier}, open(path, "w"), indent=1)
            lines.append("VIOLATION property=%s replay=%s" % (self.prop, path))
            self.log("violation:", f.key, "--", f.what[:300])
        if self.broken_items and not viol:
            path = os.path.join(rdir, "%s-broken-obligation.json" % self.tier)
            json.dump({"property": self.prop, "no_longer_checks": [{"name": n, "detail": d} for n, d in self.broken_items],
                       "repo": self.repo, "seed": self.seed, "tier": self.tier,
                       "note": "a theorem or model/implementation correspondence no longer checks and the search found no concrete failing input"},
                      open(path, "w"), indent=1)
            lines.append("VIOLATION property=%s replay=%s no-failing-input-found" % (self.prop, path))
        nviol = len(viol) + (1 if (self.broken_items and not viol) else 0)
        cov = dict(coverage)
        if level == "proof" or "obligations" not in cov:
            cov.setdefault("obligations", self.obligations)
            cov.setdefault("discharged", self.discharged)
        cov.setdefault("checker_cmd", "make -C coq %s/Properties.vo (coqc 8.16.1, full .vo build) + Print Assumptions per theorem" % self.prop)
        cov.setdefault("trusted_base", TRUSTED_BASE)
        cov["theorems"] = self.theorems
        cov["axioms_per_theorem"] = self.axioms
        cov["broken"] = [n for n, _ in self.broken_items]
        cov["known_findings_seen"] = [f.key for f, _ in kf]
        cov["notes"] = self.notes
        ev = {
            "property_id": self.prop, "tier": self.tier, "seed": self.seed, "level": level,
            "coverage": cov, "assumptions": (assumptions or []) + self.assumptions,
            "wall_s": round(time.time() - self.t0, 2), "violations": nviol,
        }
        os.makedirs(os.path.join(outroot, "evidence"), exist_ok=True)
        json.dump(ev, open(os.path.join(outroot, "evidence", self.prop + ".json"), "w"), indent=1, default=str)
        for l in lines:
            print(l, flush=True)
        self.log("done: %d violation(s), %d known finding(s), obligations %d/%d" % (nviol, len(kf), self.discharged, self.obligations))
        return 1 if nviol else 0


TRUSTED_BASE = [
    "Coq 8.16.1 kernel and its VM (vm_compute) reduction; native_compute is not used",
    "no axioms declared by the development; axioms per theorem as printed by Print Assumptions are listed under axioms_per_theorem",
    "correspondence harness (Go, /verif/harness) and its generators/canonicalisers; bin/check and checks/*.py",
    "Go toolchain, Go standard library and third-party libraries used by the implementation (modelled by their specification, not verified)",
]


class BuildError(Exception):
    pass


class HarnessError(Exception):
    pass


def strip_comments(s):
    out = []
    depth = 0
    i = 0
    instr = False
    while i < len(s):
        if depth == 0 and s[i] == '"':
            instr = not instr
            out.append(s[i]); i += 1; continue
        if instr:
            i += 1
            continue
        if s.startswith("(*", i):
            depth += 1; i += 2; continue
        if s.startswith("*)", i) and depth > 0:
            depth -= 1; i += 2; continue
        if depth == 0:
            out.append(s[i])
        i += 1
    return "".join(out)


def safe(s):
    return re.sub(r"[^A-Za-z0-9_.-]+", "_", s)


# ---- Coq term rendering helpers
def cz(n):
    return "(%d)%%Z" % n


def cn(n):
    return "%d%%N" % n


def cbool(b):
    return "true" if b else "false"


def clist(items):
    return "[" + "; ".join(items) + "]"


def cbytes(bs):
    """A byte string as list N."""
    return "[" + "; ".join("%d" % b for b in bs) + "]%N"


def copt(x):
    return "None" if x is None else "(Some %s)" % x


def coq_mismatches(ctx, name, header, cases, check_fns, shard=800, timeout=900):
    """Evaluate each Coq bool function in check_fns on every case inside Coq.

    cases: list of Coq terms (strings) all of one type.  Returns, per function,
    the indices of the cases on which it returns false.  One coqc run per shard.
    """
    single = isinstance(check_fns, str)
    fns = [check_fns] if single else list(check_fns)
    bad = [[] for _ in fns]
    for s in range(0, len(cases), shard):
        chunk = cases[s:s + shard]
        text = header + "\nRequire Import List. Import ListNotations.\n"
        text += "Definition cases := [\n" + ";\n".join(chunk) + "].\n"
        text += ("Fixpoint idx_false {A} (f : A -> bool) (i : nat) (l : list A) : list nat :=\n"
                 "  match l with [] => [] | x :: r => if f x then idx_false f (S i) r else i :: idx_false f (S i) r end.\n")
        for k, fn in enumerate(fns):
            text += "Definition M%d := Eval vm_compute in idx_false (%s) 0 cases.\nPrint M%d.\n" % (k, fn, k)
        out, rc = ctx.coq_run("%s_%d" % (name, s // shard), text, timeout=timeout)
        if rc != 0:
            raise HarnessError("coq evaluation of cases failed:\n" + out[-3000:])
        for k in range(len(fns)):
            m = re.search(r"M%d\s*=\s*(.*?)\s*:\s*list nat" % k, out, re.S)
            if not m:
                raise HarnessError("cannot parse coq output:\n" + out[-2000:])
            body = m.group(1).strip()
            if body != "[]":
                for t in re.findall(r"\d+", body):
                    bad[k].append(s + int(t))
    return bad[0] if single else bad


def main_entry(argv):
    import argparse
    import importlib
    ap = argparse.ArgumentParser()
    ap.add_argument("prop")
    ap.add_argument("--tier", default=os.environ.get("VERIF_TIER", "quick"))
    ap.add_argument("--replay", default=None)
    a = ap.parse_args(argv)
    seed = int(os.environ.get("VERIF_SEED", "1") or "1")
    ctx = Ctx(a.prop, a.tier, seed)
    ctx.replay_path = a.replay
    mod = importlib.import_module("checks." + a.prop.lower())
    try:
        rc = mod.run(ctx)
    except (BuildError, HarnessError) as ex:
        # the machinery could not run at all on this tree: that is a broken tie
        ctx.broken("machinery", str(ex)[-3000:])
        rc = ctx.finish(getattr(mod, "LEVEL", "other"), {"explanation": "check could not run: " + str(ex)[:500],
                                                       "evaluations": 1, "distinct_nontrivial": 0})
    sys.exit(rc)
