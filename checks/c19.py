"""C19 -- time and duration arithmetic (DESIGN.md section 8, C19)."""
import math
import struct

from .lib import cz, cbool, coq_mismatches

LEVEL = "proof"
META = {
    "category": "proof",
    "text": "Coq theorems over a model of Duration.Binary, Time.Binary, the starlark.Binary fallback dispatch, Cmp, Hash and the timestamp attributes: for every ordered pair of operand kinds, every operator and all values the dispatch equals the documented table on exact integers (with the int64 wrap stated), everything else is rejected, (t+d)-d=t, (t2-t1)+t1=t2, comparisons are a zone-free total order consistent with hashing, from_timestamp round trips. The model is hand-written and tied to /repo on every run by executing the real operators on the full ordered product of a boundary pool plus random pairs and evaluating model and specification on the same cases inside Coq.",
    "note": "Trusted: Coq kernel + vm_compute; the correspondence harness; Go's time.Time arithmetic and IEEE division as oracles (float results compared as the in-order hardware quotient); zone modelled as an opaque tag; calendar fields / time(...) / parse_duration<->str round trips rely on Go's time package and are exercised only lightly.",
    "technique": "Coq proof over executable model + differential correspondence (vm_compute) + Spec.v oracle",
}
OPS = {"+": "PLUS", "-": "MINUS", "*": "STAR", "/": "SLASH", "//": "SLASHSLASH", "%": "PERCENT"}
CMPS = {"==": "EQL", "!=": "NEQ", "<": "LT", "<=": "LE", ">": "GT", ">=": "GE"}
HEADER = "From Coq Require Import ZArith Bool List.\nFrom SV Require Import Common.GoInt C19.Model C19.Spec C19.Proofs.\nOpen Scope Z_scope.\n"


def bits2f(b):
    return struct.unpack("<d", struct.pack("<Q", b))[0]


def f2bits(f):
    return struct.unpack("<Q", struct.pack("<d", f))[0]


def val(v):
    k = v["k"]
    if k == "time":
        return "(VTime %s %d)" % (cz(int(v["ns"])), v.get("zone", 0))
    if k == "dur":
        return "(VDur %s)" % cz(int(v["ns"]))
    if k == "int":
        return "(VInt %s)" % cz(int(v["z"]))
    if k == "float":
        f = bits2f(v.get("bits", 0))
        return "(VFloat {| fl_id := %d; fl_zero := %s |})" % (v.get("fid", 0), cbool(f == 0.0))
    return "(VOther %d)" % v.get("tag", 0)


def fdiv(a, b):
    try:
        return float(a) / float(b)
    except ZeroDivisionError:
        return None


def observed(c):
    """Map the observed result to the model's symbolic `out`; None = not comparable."""
    r, x, y = c["r"], c["x"], c["y"]
    k = r["k"]
    if k == "time":
        return "(OTime %s %d)" % (cz(int(r["ns"])), r.get("zone", 0))
    if k == "dur":
        n = int(r["ns"])
        # duration / float: the float quotient is an oracle (hardware division)
        for (a, f, tag) in ((x, y, "fwd"), (y, x, "rev")):
            if a["k"] == "dur" and f["k"] == "float" and c["op"] == "/":
                fv = bits2f(f.get("bits", 0))
                if fv == 0.0:
                    continue
                q = float(int(a["ns"])) / fv
                if math.isnan(q) or math.isinf(q) or abs(q) >= 2.0 ** 63:
                    return None  # float->int64 conversion out of range: implementation-defined in Go
                if int(q) == n and tag == "fwd":
                    return "(ODurOfFloatQuot %s %d)" % (cz(int(a["ns"])), f.get("fid", 0))
        return "(ODur %s)" % cz(n)
    if k == "int":
        return "(OInt %s)" % cz(int(r["z"]))
    if k == "float":
        b = r.get("bits", 0)
        if x["k"] == "dur" and y["k"] == "dur":
            a, d = int(x["ns"]), int(y["ns"])
            q = fdiv(a, d)
            if q is not None and f2bits(q) == b:
                return "(OFloatQuot %s %s)" % (cz(a), cz(d))
        return "(OFloatQuot 0 0)"  # a float that is not the in-order quotient
    if k == "bool":
        return "(OBool %s)" % cbool(r.get("b", False))
    if k == "err":
        return "OErr"
    return "OBuiltin"


def run(ctx):
    ctx.proofs()
    hx = ctx.go_build("c19")
    n = 300 if ctx.quick() else 6000
    cases = ctx.jsonl([hx, "-seed", str(ctx.seed), "-n", str(n)] + (["-small"] if ctx.quick() else []))
    ctx.log("harness produced %d observations" % len(cases))
    dist = {}
    terms, refs = [], []
    seen = set()
    skipped = 0
    for c in cases:
        if c["r"]["k"] == "panic":
            ctx.finding("panic:%s:%s:%s" % (c["x"]["k"], c["op"], c["y"]["k"]), "host panic in %s %s %s: %s" % (c["x"], c["op"], c["y"], c["r"].get("msg")), c)
            continue
        if c["kind"] == "bin":
            o = observed(c)
            if o is None:
                skipped += 1
                continue
            t = "(CBin %s %s %s %s)" % (OPS[c["op"]], val(c["x"]), val(c["y"]), o)
        elif c["kind"] == "cmp":
            t = "(CCmp %s %s %s %s)" % (CMPS[c["op"]], val(c["x"]), val(c["y"]), observed(c))
        elif c["kind"] == "hash":
            if c["r"]["k"] != "int":
                ctx.finding("hash-error:" + c["x"]["k"], "Hash() failed on %s" % c["x"], c)
                continue
            t = "(CHash %s %s)" % (val(c["x"]), cz(int(c["r"]["z"])))
        elif c["kind"] == "law":
            r = c["r"]
            key = "law:" + c["op"][:40]
            dist["law"] = dist.get("law", 0) + 1
            if not (r["k"] == "bool" and r.get("b")):
                # laws involving +-1h/1s may leave the int64 nanosecond range at the extremes: skip those
                n = int(c["x"]["ns"])
                if ("time.hour" in c["op"] or "time.second" in c["op"]) and abs(n) > 2**63 - 4 * 10**12:
                    continue
                if "from_timestamp(0)" in c["op"] and abs(n) > 2**63 - 4 * 10**12:
                    continue
                ctx.finding(key, "law `%s` does not hold for %s: %s" % (c["op"], c["x"], r), c)
            continue
        else:  # ts: attribute / constructor round trips
            src, r = c["op"], c["r"]
            ns = int(c["x"]["ns"])
            if src.endswith("== t"):
                if not (r["k"] == "bool" and r.get("b")):
                    ctx.finding("ts-roundtrip:eq", "from_timestamp(t.unix, t.nanosecond) != t for t=%s: %s" % (c["x"], r), c)
                continue
            if src.startswith("time.from_timestamp"):
                if r["k"] != "time" or int(r["ns"]) != ns:
                    ctx.finding("ts-roundtrip:" + src, "%s gives %s for t=%s" % (src, r, c["x"]), c)
                continue
            if r["k"] != "int":
                ctx.finding("ts-attr:" + src, "%s failed for t=%s: %s" % (src, c["x"], r), c)
                continue
            t = "(CAttr %d %s %s)" % ({"t.unix": 0, "t.nanosecond": 1, "t.unix_nano": 2}[src], cz(ns), cz(int(r["z"])))
        key = "%s %s %s %s" % (c["kind"], c["x"]["k"], c["op"], c["y"].get("k"))
        dist[key] = dist.get(key, 0) + 1
        if t in seen:
            continue
        seen.add(t)
        terms.append(t)
        refs.append(c)
    header = HEADER + """
Inductive case :=
| CBin (o : op) (x y : val) (r : out)
| CCmp (c : cmpop) (x y : val) (r : out)
| CHash (x : val) (h : Z)
| CAttr (which : nat) (t : Z) (r : Z).
Definition out_eqb (a b : out) : bool :=
  match a, b with
  | OTime n z, OTime m w => (n =? m) && (z =? w)
  | ODur n, ODur m => n =? m
  | OInt n, OInt m => n =? m
  | OFloatQuot a b, OFloatQuot c d => (a =? c) && (b =? d)
  | ODurOfFloatQuot a f, ODurOfFloatQuot c g => (a =? c) && (f =? g)
  | OBool a, OBool b => Bool.eqb a b
  | OErr, OErr => true
  | OBuiltin, OBuiltin => true
  | _, _ => false
  end.
(* correspondence: the executable model reproduces what the implementation did *)
Definition model_ok (c : case) : bool :=
  match c with
  | CBin o x y r => out_eqb (dispatch o x y) r
  | CCmp c x y r => out_eqb (compare c x y) r
  | CHash x h => match hash x with Some k => k =? h | None => false end
  | CAttr 0 t r => attr_unix t =? r
  | CAttr 1 t r => attr_nanosecond t =? r
  | CAttr _ t r => attr_unix_nano t =? r
  end.
(* oracle: the implementation did what the specification table says *)
Definition spec_ok (c : case) : bool :=
  match c with
  | CBin o x y r => negb (val_in_range x && val_in_range y) || out_eqb (overflow_out x y (spec o x y)) r
  | CCmp c x y r => out_eqb (spec_compare c x y) r
  | _ => true
  end.
"""
    ctx.log("evaluating %d distinct cases in Coq (model and specification)" % len(terms))
    bad_model, bad_spec = coq_mismatches(ctx, "c19_cases", header, terms, ["model_ok", "spec_ok"], shard=4000)
    for i in bad_spec:
        c = refs[i]
        key = "table:%s %s %s" % (c["x"]["k"], c["op"], c["y"]["k"])
        ctx.finding(key, "%s %s %s: implementation returned %s, the operator table says otherwise (reversed or different operation)" % (c["x"], c["op"], c["y"], c["r"]), c)
    only_model = [i for i in bad_model if i not in set(bad_spec)]
    if only_model:
        c = refs[only_model[0]]
        ctx.broken("correspondence:C19.Model", "model and implementation differ on %d case(s) where the specification is met, e.g. %s" % (len(only_model), c))
    cov = {
        "evaluations": len(cases), "distinct_nontrivial": len(terms),
        "rule": "full product of a boundary pool (times, durations, ints, floats, other) as ordered pairs x 6 binary operators x 6 comparisons, plus seeded random pairs; pairs with no time/duration operand are dropped; distinct = distinct (op, x, y, observed) terms evaluated in Coq against C19.Model (correspondence) and C19.Spec (oracle)",
        "samples": refs[:3] + refs[len(refs) // 2: len(refs) // 2 + 2],
        "distribution": dist, "skipped_unspecified_float_to_int": skipped,
        "model_mismatches": len(bad_model), "spec_mismatches": len(bad_spec),
    }
    return ctx.finish(LEVEL, cov, assumptions=[
        "Go time.Time.Add/Sub/Unix/UnixNano and IEEE-754 division are oracles (modelled by exact integer arithmetic / symbolic quotient)",
        "time zone component is opaque: modelled as a tag no operation inspects",
        "calendar fields, time(...) constructor, parse_duration/str round trips rely on Go's time package and are not modelled",
    ])
