"""C18 -- JSON encoding and decoding are faithful (DESIGN.md section 8, C18)."""
import struct

import concurrent.futures
import os
import re

from .lib import cz, cbool, HarnessError

LEVEL = "proof"
META = {
    "category": "proof",
    "text": "Coq theorems over an executable model of lib/json/json.go (decode: skipSpace/next, the hand string scanner with its safe flag, the [0-9+-.eE] number scanner with validNumber, literals, arrays/objects, trailing-data check, failure channel and default; encode: type dispatch, sorted keys, isPrintableASCII split between strconv.AppendQuote and encoding/json quoting) against an independent RFC 8259 reference decoder (coq/C18/Spec.v): decode agrees with the reference on every byte string (value on valid documents, rejection of invalid and out-of-range ones), the default is returned exactly on rejection, every encodable value encodes to a document the reference accepts with the value's JSON reading, and decode(encode(x)) is that reading. The hand-written model is tied to /repo on every run: the real json.encode/json.decode run on generated values, grammar documents and corruptions; real, model and reference are compared three-way inside Coq on a sample and real vs an independent Go copy of the reference (plus encoding/json.Valid) on everything.",
    "note": "Trusted: Coq kernel + vm_compute; the harness and its generators; oracles defined from documentation, not verified: encoding/json string quoting/unquoting, strconv.AppendQuote on ASCII, strconv.ParseFloat = correctly rounded decimal->binary64 (C15.Float.dec_to_b64), strconv shortest float formatting (named oracle: digits supplied by Python repr in the correspondence), big.Int decimal conversion, starlark.Dict.SetKey. Cycle detection and deep recursion are exercised on the real code in child processes, not proved.",
    "technique": "Coq proof over executable model + reference decoder (Spec.v) + differential correspondence (vm_compute) + independent Go reference decoder for volume",
}
HEADER = ("From Coq Require Import NArith ZArith Bool List.\n"
          "From SV Require Import C15.Utf8 C15.Float C18.Spec C18.Model C18.Reading.\n"
          "From Coq.Strings Require Import Byte.\nImport ListNotations.\nOpen Scope N_scope.\n")

COQ_DEFS = """
Definition B (l : list Byte.byte) : list N := map Byte.to_N l.
Inductive case :=
| CDoc (d : list N) (real : option json) (gospec : spec_outcome)
| CVal (x : value) (sh : list (N * (bool * list N * Z))) (enc : option (list N)).
Fixpoint lookup (sh : list (N * (bool * list N * Z))) (b : N) : bool * list N * Z :=
  match sh with [] => (false, [], 0%Z) | (k, v) :: t => if k =? b then v else lookup t b end.
Definition fstr_of sh (b : N) : list N := let '(neg, ds, dp) := lookup sh b in fmt_g neg ds dp.
Definition obytes_eqb (a b : option (list N)) : bool :=
  match a, b with Some x, Some y => bytes_eqb x y | None, None => true | _, _ => false end.
Definition outcome_eqb (a b : spec_outcome) : bool :=
  match a, b with
  | SpecOk x, SpecOk y => json_eqb x y
  | SpecInvalid, SpecInvalid | SpecRange, SpecRange => true
  | _, _ => false
  end.
(* correspondence: the executable model reproduces what the implementation did *)
Definition model_ok (c : case) : bool :=
  match c with
  | CDoc d real _ =>
      match decode d, real with
      | DOk j, Some j' => json_eqb j j'
      | DErr, None => true
      | _, _ => false
      end
  | CVal x sh enc =>
      (* the text is compared by what it denotes (value, member order): an
         equivalent choice of escapes or number spelling is not a difference *)
      match encode (fstr_of sh) x, enc with
      | Some m, Some r => outcome_eqb (spec_decode m) (spec_decode r)
      | None, None => true
      | _, _ => false
      end
  end.
(* informational: byte-for-byte equality of the model's text and the real one *)
Definition text_ok (c : case) : bool :=
  match c with
  | CDoc _ _ _ => true
  | CVal x sh enc => obytes_eqb (encode (fstr_of sh) x) enc
  end.
(* oracle: the implementation did what the reference decoder / the JSON reading says *)
Definition spec_ok (c : case) : bool :=
  match c with
  | CDoc d real _ =>
      match spec_decode d, real with
      | SpecOk j, Some j' => json_eqb j j'
      | SpecInvalid, None | SpecRange, None => true
      | _, _ => false
      end
  | CVal x sh enc =>
      match enc with
      | Some out => outcome_eqb (spec_decode out) (SpecOk (jread x)) && encodable x
      | None => negb (encodable x)
      end
  end.
(* the Go copy of the reference decoder agrees with Spec.v *)
Definition gospec_ok (c : case) : bool :=
  match c with
  | CDoc d _ g => outcome_eqb (spec_decode d) g
  | CVal _ _ _ => true
  end.
"""


def coq_eval(ctx, name, header, cases, fns, shard=500, timeout=900, workers=6):
    """Like lib.coq_mismatches, but the shards run in parallel and through `coqtop -batch`
    (no .vo is written: dumping the large `cases` term costs more than evaluating it)."""
    bad = [[] for _ in fns]
    d = os.path.join(ctx.build, "tmp")

    def one(s):
        chunk = cases[s:s + shard]
        text = header + "\nDefinition cases := [\n" + ";\n".join(chunk) + "].\n"
        text += ("Fixpoint idx_false {A} (f : A -> bool) (i : nat) (l : list A) : list nat :=\n"
                 "  match l with [] => [] | x :: r => if f x then idx_false f (S i) r else i :: idx_false f (S i) r end.\n")
        for k, fn in enumerate(fns):
            text += "Definition M%d := Eval vm_compute in idx_false (%s) 0 cases.\nPrint M%d.\n" % (k, fn, k)
        f = os.path.join(d, "%s_%d.v" % (name, s // shard))
        open(f, "w").write(text)
        p = ctx.sh(["coqtop", "-q", "-batch", "-w", "-notation-overridden", "-Q", ctx.coqdir, "SV", "-l", f], cwd=d, timeout=timeout)
        return s, p.stdout + p.stderr, p.returncode

    with concurrent.futures.ThreadPoolExecutor(max_workers=workers) as ex:
        for s, out, rc in ex.map(one, range(0, len(cases), shard)):
            if rc != 0:
                raise HarnessError("coq evaluation of cases failed:\n" + out[-3000:])
            for k in range(len(fns)):
                m = re.search(r"M%d\s*=\s*(.*?)\s*:\s*list nat" % k, out, re.S)
                if not m:
                    raise HarnessError("cannot parse coq output:\n" + out[-2000:])
                body = m.group(1).strip()
                if body != "[]":
                    bad[k].extend(s + int(t) for t in re.findall(r"\d+", body))
    return bad


def bits2f(b):
    return struct.unpack("<d", struct.pack("<Q", b))[0]


def cb(bs):
    """A byte string as a Coq list N: written with the constructors of Coq.Strings.Byte.byte (numerals are slow to parse)."""
    bs = bytes(bs)
    if not bs:
        return "[]"
    return "(B [" + "; ".join("x%02x" % b for b in bs) + "])"


def cl(xs):
    return "[" + "; ".join("%d" % x for x in xs) + "]"


def hexb(h):
    return bytes.fromhex(h)


class NotJson(Exception):
    """a value outside the JSON data model (e.g. a dict with a non-string key)"""


def coq_json(v):
    t = v["t"]
    if t == "none":
        return "JNull"
    if t == "bool":
        return "(JBool %s)" % cbool(v["b"])
    if t == "int":
        return "(JInt %s)" % cz(int(v["z"]))
    if t == "float":
        return "(JFloat %s)" % v["bits"]
    if t == "str":
        return "(JStr %s)" % cb(hexb(v["h"]))
    if t == "list":
        return "(JArr [%s])" % "; ".join(coq_json(e) for e in v["l"])
    if t == "dict":
        if any("h" not in k for k, _ in v["kv"]):
            raise NotJson()
        return "(JObj [%s])" % "; ".join("(%s, %s)" % (cb(hexb(k["h"])), coq_json(e)) for k, e in v["kv"])
    raise ValueError("not a JSON value: %r" % (v,))


def coq_value(v):
    t = v["t"]
    if t == "none":
        return "VNone"
    if t == "bool":
        return "(VBool %s)" % cbool(v["b"])
    if t == "int":
        return "(VInt %s)" % cz(int(v["z"]))
    if t == "float":
        return "(VFloat %s)" % v["bits"]
    if t == "str":
        return "(VStr %s)" % cb(hexb(v["h"]))
    if t in ("list", "tuple"):
        return "(%s [%s])" % ("VList" if t == "list" else "VTuple", "; ".join(coq_value(e) for e in v["l"]))
    if t == "dict":
        return "(VDict [%s])" % "; ".join("(%s, %s)" % (coq_value(k), coq_value(e)) for k, e in v["kv"])
    if t == "struct":
        return "(VStruct [%s])" % "; ".join("(%s, %s)" % (cb(hexb(k["h"])), coq_value(e)) for k, e in v["kv"])
    return "VOther"


def coq_outcome(g):
    if g["r"] == "ok":
        return "(SpecOk %s)" % coq_json(g["v"])
    return "SpecRange" if g["r"] == "range" else "SpecInvalid"


def floats_in(v, acc):
    t = v["t"]
    if t == "float":
        acc.add(int(v["bits"]))
    for e in v.get("l", []):
        floats_in(e, acc)
    for k, e in v.get("kv", []):
        floats_in(k, acc)
        floats_in(e, acc)
    return acc


def shortest(bits):
    """(neg, digits, dp) of the shortest decimal that reads back: 0.d1..dn * 10^dp, from Python's repr."""
    f = bits2f(bits)
    s = repr(f)
    neg = s.startswith("-")
    s = s.lstrip("-")
    mant, _, ex = s.partition("e")
    ip, _, fp = mant.partition(".")
    digits = ip + fp
    dp = len(ip) + (int(ex) if ex else 0)
    while digits.startswith("0"):
        digits = digits[1:]
        dp -= 1
    digits = digits.rstrip("0")
    if not digits:
        dp = 0
    return neg, [int(c) for c in digits], dp


def finite(bits):
    return (bits >> 52) & 0x7FF != 0x7FF


def valid_utf8(b):
    try:
        b.decode("utf-8")
        return True
    except UnicodeDecodeError:
        return False


def encodable(v):
    t = v["t"]
    if t == "float":
        return finite(int(v["bits"]))
    if t in ("list", "tuple"):
        return all(encodable(e) for e in v["l"])
    if t == "dict":
        return all(k["t"] == "str" and encodable(e) for k, e in v["kv"])
    if t == "struct":
        return all(encodable(e) for _, e in v["kv"])
    return t != "other"


def representable(v):
    t = v["t"]
    if t == "str":
        return valid_utf8(hexb(v["h"]))
    if t in ("list", "tuple"):
        return all(representable(e) for e in v["l"])
    if t in ("dict", "struct"):
        return all(k["t"] == "str" and representable(k) and representable(e) for k, e in v["kv"])
    return True


def jread(v):
    """The JSON reading of a representable value (tuples -> lists, struct/dict -> dict in byte-wise key order)."""
    t = v["t"]
    if t in ("list", "tuple"):
        return {"t": "list", "l": [jread(e) for e in v["l"]]}
    if t in ("dict", "struct"):
        kv = sorted(((k, jread(e)) for k, e in v["kv"]), key=lambda p: hexb(p[0]["h"]))
        return {"t": "dict", "kv": [[k, e] for k, e in kv]}
    return v


def has_byte(v, byte):
    t = v["t"]
    if t == "str":
        return byte in hexb(v["h"])
    return any(has_byte(e, byte) for e in v.get("l", [])) or any(has_byte(k, byte) or has_byte(e, byte) for k, e in v.get("kv", []))


def show(b, n=120):
    return repr(b[:n]) + ("..." if len(b) > n else "")


def run(ctx):
    hx = ctx.go_build("c18")
    # the audit of the theorems is independent of the correspondence: run it alongside
    _pool = concurrent.futures.ThreadPoolExecutor(max_workers=1)
    _proofs = _pool.submit(ctx.proofs)
    if ctx.quick():
        nvals, ndocs, coq_docs, coq_vals = 1200, 6000, 480, 120
    else:
        nvals, ndocs, coq_docs, coq_vals = 30000, 300000, 4500, 1500
    cmd = [hx, "-seed", str(ctx.seed), "-nvals", str(nvals), "-ndocs", str(ndocs), "-deep", "-deepmax", "5000" if ctx.quick() else "100000"]
    cases = ctx.jsonl(cmd, timeout=800)
    ctx.log("harness produced %d observations" % len(cases))
    dist = {}
    docs, vals = [], []
    spec_disagree = 0
    for c in cases:
        k = c["kind"]
        if k == "summary":
            dist = c["classes"]
            continue
        if k in ("deep", "cyc"):
            res = c["result"]
            want = {"cyc": "ok" if c["cls"] == "shared-not-cycle" else "err:cycle"}.get(k)
            if res in ("crash", "timeout"):
                ctx.finding("%s:%s" % (res, c["cls"]), "%s of %s (depth %s) ended in %s (child process)" % ("json.encode/decode", c["cls"], c.get("depth"), res), c)
            elif k == "cyc" and res != want:
                ctx.finding("cycle:%s" % c["cls"], "json.encode on %s: got %s, want %s" % (c["cls"], res, want), c)
            elif k == "deep" and c["cls"] == "deep-unclosed" and res != "err":
                ctx.finding("decode-accepts:deep-unclosed", "unclosed nested arrays accepted", c)
            elif k == "deep" and c["cls"] != "deep-unclosed" and res != "ok":
                ctx.finding("decode-rejects:%s" % c["cls"], "valid deeply nested input (depth %s) rejected: %s" % (c.get("depth"), res), c)
            continue
        if k == "doc":
            docs.append(c)
            d = hexb(c["d"])
            real, g = c["real"], c["gospec"]
            rep = {"how": "json.decode(bytes.fromhex(doc_hex))", "doc_hex": c["d"], "doc": show(d), "real": real, "reference": g, "encoding/json.Valid": c["valid"], "cls": c["cls"]}
            bad = False
            if real.get("panic"):
                ctx.finding("decode-panic", "json.decode panicked on %s" % show(d), rep)
                bad = True
            elif real["ok"] and g["r"] != "ok":
                why = g.get("why") or "range"
                ctx.finding("decode-accepts:" + why, "json.decode accepts the invalid document %s (reference decoder: %s; encoding/json.Valid: %s) and returns %s" % (show(d), why, c["valid"], real["v"]), rep)
                bad = True
            elif not real["ok"] and g["r"] == "ok":
                ctx.finding("decode-rejects:" + c["cls"], "json.decode rejects the valid document %s" % show(d), rep)
                bad = True
            elif real["ok"] and real["v"] != g["v"]:
                ctx.finding("decode-differs:" + g["v"]["t"], "json.decode(%s) = %s, the reference decoder says %s" % (show(d), real["v"], g["v"]), rep)
                bad = True
            want_dflt = "value" if real["ok"] else "default"
            if c["dflt"] != want_dflt:
                ctx.finding("default:%s-when-%s" % (c["dflt"], "accepted" if real["ok"] else "rejected"), "json.decode(%s, default=D): got %s, but without default the result was %s" % (show(d), c["dflt"], real), rep)
                bad = True
            if g["r"] != "range" and c["valid"] != (g["r"] == "ok"):
                spec_disagree += 1
                if spec_disagree <= 3:
                    ctx.broken("spec-vs-encoding/json.Valid", "reference decoder says %s, encoding/json.Valid says %s on %s" % (g, c["valid"], show(d)))
            c["_bad"] = bad
            continue
        # value case
        vals.append(c)
        x, enc = c["x"], c["enc"]
        rep = {"how": "json.encode(x); x described canonically", "x": x, "enc": enc, "cls": c["cls"]}
        bad = False
        if enc["ok"] != encodable(x):
            ctx.finding("encode-error:%s" % ("unexpected-" + enc.get("err", "") if not enc["ok"] else "missing"), "json.encode result %s on a value that is %sencodable: %s" % (enc, "" if encodable(x) else "not ", x), rep)
            bad = True
        elif enc["ok"]:
            out = hexb(enc["h"])
            rep["out"] = show(out, 300)
            g, dec = c["gospec"], c["dec"]
            if g["r"] != "ok":
                key = "encode-invalid:0x7f" if (has_byte(x, 0x7f) and b"\\x7f" in out) else "encode-invalid:" + (g.get("why") or g["r"])
                ctx.finding(key, "json.encode emits %s, which is not JSON (reference decoder: %s; encoding/json.Valid: %s)" % (show(out), g.get("why") or g["r"], c["valid"]), rep)
                bad = True
            else:
                if representable(x) and g["v"] != jread(x):
                    ctx.finding("encode-denotes-other:" + c["cls"], "json.encode(x) = %s denotes %s, not x = %s" % (show(out), g["v"], x), rep)
                    bad = True
                if not dec["ok"]:
                    ctx.finding("roundtrip-rejects:" + c["cls"], "json.decode rejects json.encode(x) = %s" % show(out), rep)
                    bad = True
                elif dec["v"] != g["v"]:
                    ctx.finding("roundtrip-differs:" + c["cls"], "json.decode(json.encode(x)) = %s, want %s" % (dec["v"], g["v"]), rep)
                    bad = True
                if not c["valid"]:
                    ctx.broken("spec-vs-encoding/json.Valid", "reference accepts the encoder output %s, encoding/json.Valid does not" % show(out))
        c["_bad"] = bad

    # ---- Coq-sized sample: disagreements first, then the boundary pool, then an even spread
    def pick(items, n, size):
        chosen, seen = [], set()
        bad = [c for c in items if c.get("_bad")]
        rest = [c for c in items if not c.get("_bad")]
        for c in bad[:150] + rest:
            if len(chosen) >= n:
                break
            if size(c) > 400:
                continue
            key = c["d"] if "d" in c else str(c["x"])
            if key in seen:
                continue
            seen.add(key)
            chosen.append(c)
        return chosen

    pool = [c for c in docs if c["cls"] == "pool"]
    others = [c for c in docs if c["cls"] != "pool"]
    npool = min(500, coq_docs // 2)
    step = max(1, len(others) // max(1, coq_docs - npool))
    sample_docs = pick([c for c in docs if c.get("_bad")] + pool[:npool] + others[::step] + others, coq_docs, lambda c: len(c["d"]) // 2)
    vstep = max(1, len(vals) // max(1, coq_vals))
    sample_vals = pick(vals[::vstep] + vals, coq_vals, lambda c: len(str(c["x"])) // 8)
    terms, refs = [], []
    for c in sample_docs:
        try:
            real = "None" if not c["real"]["ok"] else "(Some %s)" % coq_json(c["real"]["v"])
        except NotJson:
            # the implementation returned something no JSON document denotes: rendered as a
            # term no decoder can produce (a string with the non-byte 256), so both
            # model_ok and spec_ok come out false for this case
            real = "(Some (JStr [256]))"
        terms.append("(CDoc %s %s %s)" % (cb(hexb(c["d"])), real, coq_outcome(c["gospec"])))
        refs.append(c)
    for c in sample_vals:
        sh = []
        for b in sorted(floats_in(c["x"], set())):
            if finite(b):
                neg, ds, dp = shortest(b)
                sh.append("(%d, (%s, %s, %s))" % (b, cbool(neg), cl(ds), cz(dp)))
        enc = "None" if not c["enc"]["ok"] else "(Some %s)" % cb(hexb(c["enc"]["h"]))
        terms.append("(CVal %s [%s] %s)" % (coq_value(c["x"]), "; ".join(sh), enc))
        refs.append(c)
    ctx.log("evaluating %d documents and %d values in Coq (model, reference, Go copy of the reference)" % (len(sample_docs), len(sample_vals)))
    bad_model, bad_spec, bad_go, bad_text = coq_eval(ctx, "c18_cases", HEADER + COQ_DEFS, terms, ["model_ok", "spec_ok", "gospec_ok", "text_ok"], shard=300 if ctx.quick() else 500)
    if bad_text:
        c = refs[bad_text[0]]
        ctx.notes.append("json.encode text differs from the model's byte for byte on %d sampled value(s) (same denotation unless reported above), e.g. x = %s" % (len(bad_text), str(c["x"])[:200]))
    for i in bad_go:
        c = refs[i]
        ctx.broken("spec-copies-differ", "Spec.v and the Go reference decoder disagree on %s (Go copy: %s)" % (show(hexb(c["d"])), c["gospec"]))
        break
    sbad = set(bad_spec)
    for i in bad_spec:
        c = refs[i]
        if c["kind"] == "doc":
            d = hexb(c["d"])
            g = c["gospec"]
            key = ("decode-accepts:" + (g.get("why") or g["r"])) if c["real"]["ok"] else "decode-rejects:" + c["cls"]
            if c["real"]["ok"] and g["r"] == "ok":
                key = "decode-differs:" + g["v"]["t"]
            ctx.finding(key, "json.decode(%s) = %s; Spec.v (RFC 8259 reference) says otherwise (Go copy of the reference: %s)" % (show(d), c["real"], g),
                        {"how": "json.decode(bytes.fromhex(doc_hex))", "doc_hex": c["d"], "doc": show(d), "real": c["real"], "reference": g})
        else:
            x = c["x"]
            out = hexb(c["enc"]["h"]) if c["enc"]["ok"] else b""
            key = "encode-invalid:0x7f" if (has_byte(x, 0x7f) and b"\\x7f" in out) else "encode-unfaithful:" + c["cls"]
            ctx.finding(key, "json.encode(x) = %s does not denote x under Spec.v (x = %s)" % (show(out), x), {"how": "json.encode(x)", "x": x, "enc": c["enc"]})
    only_model = [i for i in bad_model if i not in sbad]
    if only_model:
        c = refs[only_model[0]]
        what = show(hexb(c["d"])) if c["kind"] == "doc" else str(c["x"])[:300]
        ctx.broken("correspondence:C18.Model", "model and implementation differ on %d case(s) where the specification is met, e.g. %s -> real %s" % (len(only_model), what, c.get("real") or c.get("enc")))
    ncls = {}
    for c in docs:
        key = (c["cls"], c["real"]["ok"], c["gospec"]["r"], c["gospec"].get("why", ""))
        ncls[key] = ncls.get(key, 0) + 1
    samples = [{"doc": show(hexb(c["d"]), 80), "real": c["real"], "reference": c["gospec"]["r"]} for c in sample_docs[:2] + sample_docs[len(sample_docs) // 2: len(sample_docs) // 2 + 2]]
    samples += [{"x": c["x"], "enc": c["enc"]} for c in sample_vals[:2]]
    cov = {
        "evaluations": len(docs) + len(vals),
        "distinct_nontrivial": len(set(c["d"] for c in docs)) + len(set(str(c["x"]) for c in vals)),
        "coq_evaluated": len(terms),
        "rule": "values: 20 generator classes (scalars, ints to 2^200, nice/random-bit floats incl. -0.0, subnormals, NaN/Inf, ASCII/control/0x7f/Unicode/invalid-UTF-8 strings, list/tuple/dict/struct, nested depth<=6, non-string keys, unencodable) through the real json.encode then json.decode; documents: a fixed boundary pool (every number form, escape, surrogate case, structural error; also wrapped in [ ] and {\"k\": }), a JSON grammar generator with random whitespace (every third document with invalid ingredients injected), and single-byte / single-token corruptions of valid documents; every document through the real json.decode with and without default, an independent Go RFC 8259 decoder and encoding/json.Valid; a sample (disagreements first, pool, even spread) evaluated inside Coq against C18.Model (correspondence), C18.Spec (oracle) and the Go reference copy; deep nesting and cyclic values in child processes. distinct = distinct documents + distinct values.",
        "samples": samples,
        "distribution": dist,
        "outcome_classes": len(ncls),
        "model_mismatches": len(bad_model), "spec_mismatches": len(bad_spec), "go_reference_mismatches": len(bad_go),
        "encode_text_differences": len(bad_text),
        "valid_disagreements": spec_disagree,
    }
    _proofs.result()
    _pool.shutdown()
    return ctx.finish(LEVEL, cov, assumptions=[
        "encoding/json string quoting (Marshal) and unquoting (Unmarshal into string) are oracles: defined in Model.v from their documented behaviour, checked against the real library only through the correspondence",
        "strconv.ParseFloat is the correctly rounded decimal->binary64 conversion C15.Float.dec_to_b64 (ErrRange on overflow, signed zero on underflow); strconv.FormatFloat('g',-1,64) prints the shortest decimal that reads back (digits are a named oracle in the theorems; Python's repr supplies them in the correspondence)",
        "strconv.AppendQuote on ASCII, big.Int.SetString/String, starlark.Dict.SetKey (first position kept, value overwritten) are modelled from documentation",
        "cycle detection (pointer path) and stack depth are not in the tree-shaped model; they are exercised on the real code in child processes",
        "Starlark values are modelled as trees: None/Bool/Int/Float/String/list/tuple/dict/struct; application-defined json.Marshaler values and other Iterable/HasAttrs implementations are outside the model",
    ])
