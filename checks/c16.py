"""C16 -- errors report the true call stack and source positions (DESIGN.md section 8, C16)."""
from .lib import cz, cbool, clist, coq_mismatches

LEVEL = "proof"
META = {
    "category": "proof",
    "text": "Coq theorems over a model (Go integer widths explicit) of the pc->(line,col) table of internal/compile/compile.go: clip, the delta-encoding loop of fcomp.generate (4-bit pc, 5-bit line, 6-bit column deltas, continuation bit, uint16 packing), Funcode.decodeLNT and the binary search of Funcode.Position. lnt_roundtrip: for ALL instruction lists with uint32 pc and int32 line/col (any deltas, wrap-around included, any length) decodeLNT(encode rows) = the positioned rows; the encoder's inner loop terminates within a proved bound and never panics; position_lookup: the binary search returns the last row with pc' <= pc for every table length; the shift/mask bridge is a complete enumeration of the 65536 field combinations inside Coq. callstack_shape: over an abstract call/step/return/fail event machine mirroring starlark.Call / CallInternal (fr.pc saved before each instruction, push/pop, error wrapped once with a copy of the frame stack) the CallStack attached to the error is exactly the list of active calls, outermost first, each at its pending call / failing instruction. slice_carries_position: the repaired compiler puts the position of '[' on the SLICE instruction for every slice expression (History.v: the code before fix 103924d left it without one). fallible_has_pos (FallibleSpec/VM/Gen/Table.v, over C01's models of the interpreter loop VM.v and of the code generator Compile.v, i.e. every statement and expression form except lambda and closures): the opcode classification `fallible` is exact for VM.v (infallible_never_fails: an instruction with a non-fallible opcode never ends a step with an error; fallible_iff_can_fail: each of the 19 fallible opcodes has a failing state); a failing step reports the position carried by the instruction at the innermost frame's pc; fallible_sites_exact: for every program and every function compile_prog produces, the fallible instructions of the generated code, in code order, are exactly the operations an independent specification (op_pos_*: the syntax tree's operations in evaluation order with the token compile.go reports -- operator, '(', '[', '.', ':', for, load, name) lists, each carrying that token's position, by induction over the generator; fold_keeps_positions / folded_fallible_has_pos: the folding of literal runs in '+' chains (fcomp.plus) invents and moves no position -- every operation of a folded block is an operation of the source block with the same kind and position (inclusion only: merging reorders and drops '+'), so the fallible instructions of compile_prog (fold_prog p) carry positions of operations of the source of their function; failing_pc_reports_operation: composed with position_of_encoded, for any strictly increasing uint32 instruction addresses and int32 positions with line >= 1, the position Position(pc) returns for the pc of a failing step is the failing operation's own position, not an earlier instruction's. Tie to /repo on every run: the real generate / decodeLNT / Position are run through verif hooks on generated rows (boundary deltas, column jumps of 10^4, line gaps of 10^5, negative and wrapping deltas, thousands of rows) and compared with the model and with the independent specification inside Coq; generated Starlark programs with call chains of depth 1-8 through defs, lambdas, closures, comprehensions, built-in callbacks and 33 kinds of failing operation (variables of every scope read before assignment: local, cell, free variable of an enclosing function read by a nested def/lambda, global), each expression kind placed in 18 syntactic contexts (value, statement, if/elif/while condition bare, negated, inside and/or, parenthesised, conditional-expression test, comprehension filter, call argument, default value, list element), failing stores (x[i] = v, x.f = v, x[i] op= v, x.f op= v, sequence-assignment targets on immutable / frozen / being-iterated receivers) (incl. '+' chains with folded literal runs, argument-binding and recursion-check failures in a fresh callee frame) placed at generator-chosen (line, col) are executed, and EvalError.CallStack / Backtrace() are compared with the positions the generator wrote, before and after a serialisation round trip, and on a cold thread as well as on a thread that ran unrelated deep calls before (the report must not depend on history), and every error is inspected again after later failures on its thread (an error is a value); freshly loaded programs with big functions are failed in by 8 threads at once (every thread's CallStack must be right); generated call histories with a probe built-in recording thread.CallStack() are replayed through the event machine of Stack.v.",
    "note": "Trusted: Coq kernel + vm_compute; the correspondence harness and its program generator (expected positions are the positions of the operator tokens the generator wrote). The compiler's setPos discipline and the interpreter's error table are proved over C01's Compile.v / VM.v (tied to /repo by C01's correspondence check, instruction by instruction including the carried positions), not over a translation of compile.go itself; not covered by fallible_has_pos: lambda and closures (FREECELL/LOCALCELL are classified but Compile.v never generates them), the resolver's slot numbering (the specification is read on the resolved tree), and PREDECLARED (infallible in C01's VM) -- these are exercised by the generated programs only. Position tables with decreasing pc are covered by the theorem but not run on the real encoder (2^32/15 entries).",
    "technique": "Coq proof over executable model + differential correspondence (vm_compute) + Spec.v oracle + generated failing programs with known positions",
}

HEADER = """From Coq Require Import ZArith Bool List.
From SV Require Import Common.GoInt C16.Model C16.Spec C16.Stack.
Import ListNotations.
Open Scope Z_scope.
"""

CASEDEFS = """
(* digest used to compare long sequences without having coqc parse them: the
   harness computes the same polynomial digest (mod 2^61-1) on what the
   implementation produced *)
Definition hstep (h x : Z) : Z := (h * 1000003 + x + 1) mod 2305843009213693951.
Definition hash_tab (t : list Z) : Z := fold_left hstep t 0.
Definition hash_rows (rs : list row) : Z :=
  fold_left (fun h r => hstep (hstep (hstep h (r_pc r)) (r_line r + 2147483648)) (r_col r + 2147483648)) rs 0.
Definition len {A} (l : list A) : Z := Z.of_nat (length l).
Inductive case :=
| CCodec (line col : Z) (rows : list row) (ntab htab ndec hdec : Z) (sorted : bool) (pos : list row)
| CTable (line col : Z) (tab : list Z) (rows : list row) (pos : list row)
| CTrace (probe : nat) (evs : list event) (snaps : list (list cframe)) (final : list cframe).
Definition cframe_eqb (a b : cframe) : bool := Nat.eqb (fst a) (fst b) && (snd a =? snd b).
(* run the machine of Stack.v over a history, recording the stack copy a built-in
   probe() sees (thread.CallStack() inside the call) *)
Fixpoint run_obs (probe : nat) (s : state) (evs : list event) (acc : list (list cframe)) : option (state * list (list cframe)) :=
  match evs with
  | [] => Some (s, rev acc)
  | ev :: rest =>
      match step s ev with
      | Some s' =>
          let acc' := match ev with
                      | EvCall c => if Nat.eqb c probe then copy_stack (stack s') :: acc else acc
                      | _ => acc
                      end in
          run_obs probe s' rest acc'
      | None => None
      end
  end.
Definition rows_eqb := list_eqb row_eqb.
Definition res_pos_eqb (r : res (Z * Z)) (p : row) : bool :=
  match r with Ok (l, c) => (l =? r_line p) && (c =? r_col p) | _ => false end.
(* correspondence: the executable model reproduces what the implementation did *)
Definition model_ok (c : case) : bool :=
  match c with
  | CCodec line col rows ntab htab ndec hdec sorted pos =>
      match encode_fn line col rows with
      | Ok t =>
          (len t =? ntab) && (hash_tab t =? htab) &&
          (let d := decode_fn line col t in
           (len d =? ndec) && (hash_rows d =? hdec) &&
           forallb (fun p => res_pos_eqb (position d (r_pc p)) p) pos)
      | _ => false
      end
  | CTable line col tab rows pos =>
      rows_eqb (decode_fn line col tab) rows
      && forallb (fun p => res_pos_eqb (position rows (r_pc p)) p) pos
  | CTrace probe evs snaps final =>
      match run_obs probe init evs [] with
      | Some (s, obs) =>
          list_eqb (list_eqb cframe_eqb) obs snaps &&
          match run s (repeat EvUnwind (length (stack s))) with
          | Some (mkstate [] (Finished (EEval cs))) => list_eqb cframe_eqb cs final
          | _ => false
          end
      | None => false
      end
  end.
(* oracle: what the implementation did is what the specification says (no model function used) *)
Definition spec_pos_ok (rows : list row) (p : row) : bool :=
  let '(l, c) := lookup_spec rows (r_pc p) in (l =? r_line p) && (c =? r_col p).
Definition spec_ok (c : case) : bool :=
  match c with
  | CCodec line col rows ntab htab ndec hdec sorted pos =>
      let w := rows_of rows in
      (len w =? ndec) && (hash_rows w =? hdec)
      && (negb sorted || forallb (spec_pos_ok w) pos)
  | CTable line col tab rows pos =>
      pcs_sortedb rows && forallb (fun e => in_uint16 e) tab && forallb (spec_pos_ok rows) pos
  | CTrace _ _ _ _ => true   (* the history-level oracle (the generator's own stack) is compared outside Coq *)
  end.
"""


def par_mismatches(ctx, name, header, terms, costs, fns, per_shard, workers=6):
    """coq_mismatches over cost-balanced shards, several coqc at a time."""
    import concurrent.futures as cf
    shards, cur, acc = [], [], 0
    for i, t in enumerate(terms):
        if cur and acc + costs[i] > per_shard:
            shards.append(cur)
            cur, acc = [], 0
        cur.append(i)
        acc += costs[i]
    if cur:
        shards.append(cur)
    bad = [[] for _ in fns]

    def one(j):
        idx = shards[j]
        r = coq_mismatches(ctx, "%s_s%d" % (name, j), header, [terms[i] for i in idx], fns, shard=len(idx) + 1)
        return [[idx[k] for k in b] for b in r]
    with cf.ThreadPoolExecutor(max_workers=workers) as ex:
        for r in ex.map(one, range(len(shards))):
            for k in range(len(fns)):
                bad[k].extend(r[k])
    return bad


def crow(r):
    return "(mkrow %s %s %s)" % (cz(r[0]), cz(r[1]), cz(r[2]))


def crows(rs):
    return clist([crow(r) for r in rs])


def czs(xs):
    return clist([cz(x) for x in xs])


def frames_match(exp, got):
    """index of the first differing frame, or None.  line < 0 in exp = unspecified."""
    for i in range(max(len(exp), len(got))):
        if i >= len(exp) or i >= len(got):
            return i
        e, g = exp[i], got[i]
        if e["name"] != g["name"] or (e.get("file") or "") != (g.get("file") or ""):
            return i
        if e["line"] >= 0 and (e["line"] != g["line"] or not (e["col"] <= g["col"] <= max(e["col"], e.get("colmax", 0)))):
            return i
    return None


def run(ctx):
    ctx.proofs()
    hx = ctx.go_build("c16")
    quick = ctx.quick()
    dist = {}
    samples = []

    # ------------------------------------------------ 1. the real codec on generated rows
    ncodec = 220 if quick else 6600
    cases = ctx.jsonl([hx, "-mode", "codec", "-seed", str(ctx.seed), "-n", str(ncodec)], timeout=600)
    ctx.log("codec: %d cases from the real generate/decodeLNT/Position" % len(cases))
    budget = 4400 if quick else 180000   # cost units (numbers parsed + table entries / 8) evaluated inside Coq
    terms, refs, costs = [], [], []
    used = 0
    class_used = {}
    go_only = 0
    saturated = 0
    for c in cases:
        k = "codec:" + c["class"]
        dist[k] = dist.get(k, 0) + 1
        if c.get("panic"):
            ctx.finding("codec:panic:" + c["class"], "the real encoder/decoder panicked on generated rows: %s" % c["panic"], c)
            continue
        if not c["go_roundtrip"]:
            ctx.finding("codec:roundtrip:" + c["class"], "decodeLNT(generate(rows)) differs from the positioned rows (class %s, %d rows, %d entries)" % (c["class"], c["nrows"], c["ntab"]),
                        {k2: c[k2] for k2 in ("class", "seed", "i", "line", "col", "block")} | {"rows": (c.get("rows") or [])[:50], "dec": (c.get("dec") or [])[:50], "cmd": "c16 -mode codec -seed %d -n %d (case i=%d)" % (c["seed"], c["i"] + 1, c["i"])})
        if not c["go_lookup"]:
            ctx.finding("codec:lookup:" + c["class"], "Funcode.Position does not return the last row with pc' <= pc (class %s)" % c["class"],
                        {k2: c[k2] for k2 in ("class", "seed", "i", "line", "col", "block")} | {"rows": (c.get("rows") or [])[:50], "pos": (c.get("pos") or [])[:50]})
        if c["ntab"] > c["nrows"]:
            saturated += 1
        cost = 3 * c["nrows"] + 3 * len(c.get("pos") or []) + c["ntab"] // 2 + 10   # numbers parsed by coqc + table entries computed
        cu = class_used.get(c["class"], 0)
        if c.get("big") or c["ntab"] > 40000 or cu + cost > budget / 11:
            go_only += 1
            continue
        class_used[c["class"]] = cu + cost
        used += cost
        terms.append("(CCodec %s %s %s %s %s %s %s %s %s)" % (cz(c["line"]), cz(c["col"]), crows(c["rows"]), cz(c["ntab"]), cz(c["htab"]),
                                                          cz(c["ndec"]), cz(c["hdec"]), cbool(c["sorted"]), crows(c["pos"])))
        refs.append(c)
        costs.append(cost)
    ncodec_terms = len(terms)

    # ------------------------------------------------ 2. generated failing programs
    nprog = 190 if quick else 6080
    nlnt = 8 if quick else 150
    progs = ctx.jsonl([hx, "-mode", "prog", "-seed", str(ctx.seed), "-n", str(nprog), "-lnt", str(nlnt)], timeout=800)
    ctx.log("prog: %d generated failing programs executed" % len(progs))
    nprob = 0
    tbudget = 2000 if quick else 80000
    tused = 0
    layouts = {}
    for p in progs:
        k = "prog:fail:" + p["fail"]
        dist[k] = dist.get(k, 0) + 1
        for l in p["links"]:
            dist["prog:link:" + l] = dist.get("prog:link:" + l, 0) + 1
        for l in (p["layout"].split(",") if p["layout"] else ["plain"]):
            layouts[l] = layouts.get(l, 0) + 1
        dist["prog:ctx:" + p.get("ctx", "?")] = dist.get("prog:ctx:" + p.get("ctx", "?"), 0) + 1
        dist["prog:depth:%d" % min(p["depth"], 12)] = dist.get("prog:depth:%d" % min(p["depth"], 12), 0) + 1
        replay = {"cmd": "c16 -mode one -seed %d -i %d  (prints the program)" % (p["seed"], p["i"]), "fail": p["fail"], "context": p.get("ctx"), "links": p["links"],
                  "layout": p["layout"], "expected": p["expected"], "got": p["got"], "got_after_serialisation": p["got_ser"],
                  "backtrace": p.get("bt", ""), "error": p["err"], "src": p.get("src", "(large; regenerate with cmd)")}
        if p.get("problem"):
            nprob += 1
            if "panic" in p["problem"]:
                ctx.finding("prog:panic:" + p["fail"], "host panic while running a generated program: " + p["problem"], replay)
            else:
                ctx.broken("generator:C16", "generated program unusable (%s): seed %s case %s" % (p["problem"][:200], p["seed"], p["i"]))
            continue
        exp, got = p["expected"], p["got"]
        d = frames_match(exp, got)
        if d is not None:
            if len(exp) != len(got):
                key = "stack:shape:%s" % p["fail"]
                what = "CallStack has %d frames, the program has %d active calls" % (len(got), len(exp))
            elif d == len(exp) - 1 or (exp[-1].get("file") == "<builtin>" and d == len(exp) - 2):
                key = "stack:innermost:%s" % p["fail"]
                what = "innermost frame reports %s:%s for a failing `%s` operation written at %s:%s" % (got[d]["line"], got[d]["col"], p["fail"], exp[d]["line"], exp[d]["col"])
            else:
                # which link made the call whose position is wrong
                names = [e["name"] for e in exp if e.get("file") != "<builtin>"]
                li = names.index(exp[d]["name"]) if exp[d]["name"] in names else 0
                lk = p["links"][li - 1] if 0 < li <= len(p["links"]) else "toplevel"
                key = "stack:frame:%s" % lk
                what = "frame %d (%s) reports %s:%s, its pending call is written at %s:%s" % (d, got[d]["name"], got[d]["line"], got[d]["col"], exp[d]["line"], exp[d]["col"])
            ctx.finding(key, what, replay)
        elif not p["bt_ok"]:
            ctx.finding("backtrace:text:%s" % p["fail"], "Backtrace() text does not list the expected frames", replay)
        if p.get("got_later") != p["got"] or not p.get("bt_later"):
            ctx.finding("stack:overwritten-by-later-error:%s" % p["fail"],
                        "an EvalError's CallStack / Backtrace changed after later, unrelated failures on the same thread: first read %s, read again %s"
                        % (p["got"][-3:], (p.get("got_later") or [])[-3:]),
                        dict(replay, callstack_read_again_after_later_failures=p.get("got_later")))
        if p.get("got_warm") != p["got"]:
            wd = frames_match(p["got"], p.get("got_warm") or [])
            ctx.finding("stack:depends-on-history:%s" % p["fail"],
                        "the call stack reported for the same failing program differs on a thread that ran unrelated calls before (%s): frame %s reports %s instead of %s"
                        % (p.get("warm"), wd, (p.get("got_warm") or [None] * 99)[wd] if wd is not None and wd < len(p.get("got_warm") or []) else None,
                           p["got"][wd] if wd is not None and wd < len(p["got"]) else None),
                        dict(replay, got_on_warm_thread=p.get("got_warm"), warm_up=p.get("warm")))
        if p["got"] != p["got_ser"] or (d is None and not p["bt_ser_ok"]):
            ctx.finding("serialised:stack:%s" % p["fail"], "after Write + CompiledProgram the reported call stack differs from the one reported by the source program", replay)
        if len(samples) < 3 and d is None:
            samples.append({k2: p[k2] for k2 in ("seed", "i", "fail", "links", "layout", "expected", "got", "maxline", "maxcol")})
        # real tables of the program's functions against the model
        for f in p.get("funcs") or []:
            cost = len(f["tab"]) + 3 * len(f["rows"]) + 3 * len(f.get("pos") or []) + 10
            if len(f["tab"]) > (400 if quick else 4000) or tused + cost > tbudget or not f.get("pos"):
                continue
            tused += cost
            terms.append("(CTable %s %s %s %s %s)" % (cz(f["line"]), cz(f["col"]), czs(f["tab"]), crows(f["rows"]), crows(f["pos"])))
            costs.append(cost)
            refs.append({"kind": "table", "seed": p["seed"], "i": p["i"], "fn": f["name"], "line": f["line"], "col": f["col"],
                         "tab": f["tab"][:200], "rows": f["rows"][:100], "pos": f["pos"][:100]})
    dist.update({"layout:" + k: v for k, v in layouts.items()})

    # ------------------------------------------------ 2b. histories known to the generator against the machine of Stack.v
    ntrace = 100 if quick else 3000
    traces = ctx.jsonl([hx, "-mode", "trace", "-seed", str(ctx.seed), "-n", str(ntrace)], timeout=600)
    ntr = 0
    for t in traces:
        if t.get("problem"):
            ctx.broken("generator:C16", "trace case unusable (%s): seed %s case %s" % (t["problem"][:200], t["seed"], t["i"]))
            continue
        snaps, exps = t.get("snaps") or [], t.get("exp_snaps") or []
        dist["trace:depth:%d" % len(t["exp_final"])] = dist.get("trace:depth:%d" % len(t["exp_final"]), 0) + 1
        rep = {"cmd": "c16 -mode trace -seed %d -n %d (case i=%d)" % (t["seed"], t["i"] + 1, t["i"]), "names": t["names"], "events": t["events"],
               "expected_final": t["exp_final"], "final": t["final"], "expected_snapshots": exps[:20], "snapshots": snaps[:20], "src": t.get("src", "")}
        if snaps != exps:
            ctx.finding("trace:callstack-inside-builtin", "thread.CallStack() seen by a built-in differs from the active calls of the generated history", rep)
        if t["final"] != t["exp_final"]:
            ctx.finding("trace:final-callstack", "EvalError.CallStack differs from the active calls of the generated history at the failure", rep)
        if ntr < (30 if quick else 1200):
            ntr += 1
            evs = []
            for tag, a in t["events"]:
                evs.append({0: "EvCall %d%%nat" % a, 1: "EvStep %s" % cz(a), 2: "EvReturn", 3: "EvFail"}[tag])
            cfr = lambda st: clist(["(%d%%nat, %s)" % (max(c, 0) if c >= 0 else 999, cz(pc)) for c, pc in st])
            terms.append("(CTrace %d%%nat %s %s %s)" % (len(t["names"]) - 1, clist(evs), clist([cfr(x) for x in snaps]), cfr(t["final"])))
            refs.append({"kind": "trace", "seed": t["seed"], "i": t["i"], "events": t["events"][:100], "final": t["final"]})
            costs.append(3 * len(t["events"]) + 10)
    ctx.log("trace: %d generated histories (%d also run through the machine of Stack.v)" % (len(traces), ntr))

    # ------------------------------------------------ 2c. several threads failing at once in a freshly loaded frozen function
    nconc = 3 if quick else 40
    concs = ctx.jsonl([hx, "-mode", "conc", "-seed", str(ctx.seed), "-n", str(nconc), "-reloads", "6" if quick else "10", "-threads", "8"], timeout=800)
    nwin = 0
    for c in concs:
        if c.get("problem"):
            ctx.broken("generator:C16", "concurrent case unusable (%s): seed %s case %s" % (c["problem"][:200], c["seed"], c["i"]))
            continue
        nwin += c["reloads"] * c["funcs"]
        dist["conc:lookups"] = dist.get("conc:lookups", 0) + c["lookups"]
        rep = {"cmd": "c16 -mode conc -seed %d -n %d -reloads %d -threads %d (case i=%d)" % (c["seed"], c["i"] + 1, c["reloads"], c["threads"], c["i"]),
               "expected": c.get("expected"), "got": c.get("got"), "wrong": c["wrong"], "lookups": c["lookups"], "rows_per_function": c["rows"]}
        if c.get("panic"):
            ctx.finding("concurrent:panic", "host panic while several threads failed in the same frozen function: " + c["panic"], rep)
        if c["wrong"]:
            ctx.finding("concurrent:position", "%d of %d threads failing at the same time in a freshly loaded frozen function (about %d position rows) got a wrong call stack, e.g. %s instead of %s"
                        % (c["wrong"], c["lookups"], c["rows"], c.get("got"), c.get("expected")), rep)
    ctx.log("conc: %d programs, %d first-lookup windows with 8 threads each" % (len(concs), nwin))

    # ------------------------------------------------ 3. model and specification inside Coq
    ctx.log("evaluating %d cases in Coq (%d codec, %d real function tables, %d histories; %d cost units)" % (len(terms), ncodec_terms, len(terms) - ncodec_terms - ntr, ntr, sum(costs)))
    bad_model, bad_spec = par_mismatches(ctx, "c16_cases", HEADER + CASEDEFS, terms, costs, ["model_ok", "spec_ok"],
                                         per_shard=(2000 if quick else 12000), workers=(4 if quick else 8))
    for i in bad_spec:
        c = refs[i]
        if c.get("kind") == "trace":
            continue
        if c.get("kind") == "codec":
            key = "codec:spec:" + c["class"]
            # the Go copy of the specification must agree with the Coq one
            if c["go_roundtrip"] and c["go_lookup"]:
                ctx.broken("oracle-disagreement:C16", "Spec.v rejects a case the Go oracle accepts: %s" % str(c)[:300])
            if not any(f.key in ("codec:roundtrip:" + c["class"], "codec:lookup:" + c["class"]) for f in ctx.findings):
                ctx.finding(key, "observed decode/lookup of generated rows violates the specification (class %s)" % c["class"], c)
        else:
            ctx.finding("table:spec:program-function", "position table of a compiled function is not sorted by pc or Position() is not the last row <= pc", c)
    sb = set(bad_spec)
    only_model = [i for i in bad_model if i not in sb]
    if only_model:
        ctx.broken("correspondence:C16.Model", "model and implementation differ on %d case(s) where the specification is met, e.g. %s" % (len(only_model), str(refs[only_model[0]])[:600]))
    nontrivial = sum(1 for c in cases if c["ntab"] > c["nrows"]) + sum(1 for p in progs if p["layout"])
    cov = {
        "evaluations": len(cases) + len(progs) + len(traces) + sum(c.get("lookups", 0) for c in concs),
        "distinct_nontrivial": nontrivial,
        "rule": "codec: 11 generator classes x seeded cases run through the real generate/decodeLNT/Position (all checked by an independent Go oracle; those within the size budget also by C16.Model and C16.Spec inside Coq); nontrivial = cases with at least one saturated delta (continuation entry) + programs with at least one wide column / line gap / many-instruction layout. prog: 33 failing-operation kinds x 18 syntactic contexts x 13 link kinds x depth 1-8, positions chosen by the generator; CallStack and Backtrace compared frame by frame, also after serialisation",
        "samples": samples + [{k2: c[k2] for k2 in ("class", "line", "col", "rows", "tab", "dec") if k2 in c} for c in cases[:40] if not c.get("big") and c["ntab"] < 40][:3],
        "distribution": dist,
        "coq_cases": len(terms), "coq_table_entries": sum((r["ntab"] if "ntab" in r else len(r.get("tab") or [])) for r in refs), "go_oracle_only_cases": go_only,
        "codec_cases_with_saturated_delta": saturated,
        "model_mismatches": len(bad_model), "spec_mismatches": len(bad_spec), "unusable_programs": nprob,
    }
    return ctx.finish(LEVEL, cov, assumptions=[
        "expected positions are those of the operator tokens the generator wrote: '(' of a call, the operator of a binary/unary operation, '[' of an index or slice, '.' of an attribute, '=' of an unpacking assignment, the identifier of an undefined name, 'for' of an iteration",
        "the compiler's setPos discipline and the interpreter loop are exercised by the generated programs, not modelled in Coq; Stack.v models Call/CallInternal's push, pc bookkeeping, single wrap and pop as an event machine",
        "built-in frames report <builtin>:0:0 (documented behaviour of frame.Position for callables without a Position method)",
    ])
